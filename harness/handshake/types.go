// Package handshake is the correspondence family of property C09 ("only
// authenticated clients join, under router-assigned identity").
//
// It runs the REAL router (router.NewRouter, AttachClient, the four built-in
// authenticators over in-memory key stores written here) under
// testing/synctest — helloTimeout and the challenge timeouts run on the virtual
// clock — with scripted clients attached through transport.LinkedPeers (local)
// or through a wrapper whose IsLocal() is false (remote). The harness computes
// the real cryptography itself (crypto/hmac, nacl/sign, pbkdf2) and hands the
// primitive RESULTS to the Lean model (nexus-driver auth) as oracle answers;
// the model then has to reproduce the router's transcript, its verdict, the
// WELCOME details and the session details recorded in the realm (read back
// through wamp.session.get and wamp.session.on_join by a trusted observer
// session). Independently of the model, spec.go evaluates the sentences of the
// property on the implementation's observations.
package handshake

// AuthCfg is one authenticator of a realm.
type AuthCfg struct {
	Kind    string         `json:"kind"`              // anonymous | ticket | wampcra | cryptosign | custom
	Role    string         `json:"role,omitempty"`    // anonymous: AuthRole
	KS      string         `json:"ks,omitempty"`      // key store name
	Timeout int            `json:"timeout,omitempty"` // ms; 0 = defaultCRAuthTimeout
	Method  string         `json:"method,omitempty"`  // custom: AuthMethod()
	OK      map[string]any `json:"ok,omitempty"`      // custom: WELCOME details (absent: refuses)
}

type RealmCfg struct {
	URI              string    `json:"uri"`
	Auths            []AuthCfg `json:"auths"`
	AnonymousAuth    bool      `json:"anonymousAuth"`
	RequireLocalAuth bool      `json:"requireLocalAuth"`
	Strict           bool      `json:"strict"`
	MetaStrict       bool      `json:"metaStrict"`
	MetaInc          []string  `json:"metaInc,omitempty"`
}

type RouterCfg struct {
	Realms   []RealmCfg `json:"realms"`
	Template *RealmCfg  `json:"template"`
}

// User is one entry of an in-memory key store. Password and Priv are the
// client's secrets (the model driver ignores them).
type User struct {
	Role    *string           `json:"role"`              // nil: AuthRole fails
	Keys    map[string]string `json:"keys,omitempty"`    // method -> hex of the stored key; absent: AuthKey fails
	NilKeys []string          `json:"nilkeys,omitempty"` // methods for which AuthKey returns (nil, nil)
	Salt    string            `json:"salt,omitempty"`
	Keylen  int               `json:"keylen,omitempty"`
	Iters   int               `json:"iters,omitempty"`

	Password string `json:"password,omitempty"` // wampcra secret of the client
	Priv     string `json:"priv,omitempty"`     // hex ed25519 private key (64 bytes) of the client
}

type BypassCfg struct {
	Already      []string       `json:"already"`
	OnWelcomeErr bool           `json:"onWelcomeErr"`
	OnWelcomeSet map[string]any `json:"onWelcomeSet,omitempty"`
}

type KSCfg struct {
	Provider string           `json:"provider"`
	Users    map[string]*User `json:"users"`
	Bypass   *BypassCfg       `json:"bypass"`
}

// Arrival is the client's next action, D ms after the router began to wait.
//
//	["hello", realm, details]   ["auth", {"resp": kind}] (resolved at run time to ["auth", sig, extra])
//	["other", code]             ["close"]
type Arrival struct {
	D int   `json:"d"`
	M []any `json:"m"`
}

// HS is one handshake of a case.
type HS struct {
	Local       bool           `json:"local"`
	Transport   map[string]any `json:"transport,omitempty"`
	Blocked     bool           `json:"blocked,omitempty"`     // CHALLENGE cannot be queued
	RemoveRealm bool           `json:"removeRealm,omitempty"` // RemoveRealm once the CHALLENGE arrived
	AfterClose  bool           `json:"afterClose,omitempty"`  // Router.Close() has completed before the client attaches
	Rep         int64          `json:"rep"`                   // seed for the Go representation of the details
	Arrivals    []Arrival      `json:"arrivals"`
}

// Case is one router configuration plus the handshakes run against it in order.
type Case struct {
	ID         int               `json:"id"`
	Router     RouterCfg         `json:"router"`
	Keystores  map[string]*KSCfg `json:"keystores"`
	Handshakes []HS              `json:"handshakes"`
	Tag        string            `json:"tag,omitempty"` // directed scenario name
}

// Obs is what the implementation did on one handshake.
type Obs struct {
	// Arrivals with every symbolic response resolved to the concrete message sent.
	Arrivals []Arrival `json:"arrivals"`
	// RespKinds[i] is the symbolic response kind of arrival i ("" if none).
	RespKinds []string `json:"resp_kinds,omitempty"`
	// RespFor is, for the AUTHENTICATE actually sent, the challenge it was computed for
	// ("this" | "other" | "none").
	RespFor string `json:"resp_for,omitempty"`
	// Sent is the router's transcript: ["challenge",method,extra] ["abort",reason,message] ["welcome",sid,details].
	Sent [][]any `json:"sent"`
	// Closed: the router closed the client's receive channel.
	Closed bool `json:"closed"`
	// AttachErr is AttachClient's return value ("" = nil).
	AttachErr string `json:"attach_err"`
	Returned  bool   `json:"returned"`
	// Consumed counts the arrivals the router took.
	Consumed int `json:"consumed"`
	// ExistsBefore / ExistsAfter: did the requested realm exist.
	ExistsBefore bool `json:"exists_before"`
	ExistsAfter  bool `json:"exists_after"`
	// RealmClosing: RemoveRealm was performed during the challenge.
	RealmClosing bool `json:"realm_closing"`
	// NewSessions are the session ids that appeared in wamp.session.list.
	NewSessions []uint64 `json:"new_sessions"`
	ListOK      bool     `json:"list_ok"`
	// SIDFromList: the session id learnt from the list because WELCOME never arrived.
	SIDFromList uint64 `json:"sid_from_list,omitempty"`
	// Got is wamp.session.get(sid) ("" when not called), GotErr its error URI.
	Got    map[string]any `json:"got,omitempty"`
	GotErr string         `json:"got_err,omitempty"`
	// OnJoin are the details of on_join events for sessions other than observers.
	OnJoin      []map[string]any `json:"on_join,omitempty"`
	ObservedPre bool             `json:"observed_pre"` // an observer was subscribed before the handshake
	// ProbeAccepted: after the handshake failed the router took another message from the client.
	ProbeAccepted bool `json:"probe_accepted"`
	ProbeEvents   int  `json:"probe_events"`
	// Oracle answers computed by the harness with the real primitives.
	Oracle map[string]any `json:"oracle"`
	Note   string         `json:"note,omitempty"`
}

// CaseResult is what a child reports for one case.
type CaseResult struct {
	Case    Case   `json:"case"`
	Obs     []Obs  `json:"obs"`
	Err     string `json:"err,omitempty"`
	Started bool   `json:"started,omitempty"`
	// Leaked: goroutines of the router were still blocked after Router.Close.
	Leaked bool `json:"leaked,omitempty"`
}
