package handshake

import (
	"crypto/hmac"
	"crypto/sha256"
	"encoding/base64"
	"encoding/hex"
	"encoding/json"
	"errors"
	"fmt"
	"io"
	"log"
	"sort"
	"strconv"
	"strings"
	"sync"
	"testing/synctest"
	"time"

	"golang.org/x/crypto/nacl/sign"
	"golang.org/x/crypto/pbkdf2"

	"github.com/gammazero/nexus/v3/router"
	"github.com/gammazero/nexus/v3/router/auth"
	"github.com/gammazero/nexus/v3/transport"
	"github.com/gammazero/nexus/v3/wamp"

	"verif/harness/hcommon"
)

const (
	observerMethod = "verif-observer"
	probeTopic     = "verif.probe"
)

// ---- key stores ---------------------------------------------------------------

type memKS struct{ cfg *KSCfg }

func (k *memKS) Provider() string { return k.cfg.Provider }

func (k *memKS) AuthRole(authid string) (string, error) {
	u := k.cfg.Users[authid]
	if u == nil {
		return "", errors.New("no such user")
	}
	if u.Role == nil {
		return "", errors.New("no role")
	}
	return *u.Role, nil
}

func (k *memKS) AuthKey(authid, method string) ([]byte, error) {
	u := k.cfg.Users[authid]
	if u == nil {
		return nil, errors.New("no such user")
	}
	for _, m := range u.NilKeys {
		if m == method {
			return nil, nil
		}
	}
	h, ok := u.Keys[method]
	if !ok {
		return nil, errors.New("no key")
	}
	b, err := hex.DecodeString(h)
	if err != nil {
		return nil, errors.New("no key")
	}
	if b == nil {
		b = []byte{}
	}
	return b, nil
}

func (k *memKS) PasswordInfo(authid string) (string, int, int) {
	u := k.cfg.Users[authid]
	if u == nil {
		return "", 0, 0
	}
	return u.Salt, u.Keylen, u.Iters
}

type bypassKS struct{ memKS }

func (k *bypassKS) AlreadyAuth(authid string, details wamp.Dict) bool {
	for _, a := range k.cfg.Bypass.Already {
		if a == authid {
			return true
		}
	}
	return false
}

func (k *bypassKS) OnWelcome(authid string, welcome *wamp.Welcome, details wamp.Dict) error {
	if k.cfg.Bypass.OnWelcomeErr {
		return errors.New("onwelcome refused")
	}
	for key, v := range k.cfg.Bypass.OnWelcomeSet {
		welcome.Details[key] = plainGo(v)
	}
	return nil
}

func keyStore(c *KSCfg) auth.KeyStore {
	if c.Bypass != nil {
		return &bypassKS{memKS{c}}
	}
	return &memKS{c}
}

var (
	_ auth.KeyStore       = (*memKS)(nil)
	_ auth.BypassKeyStore = (*bypassKS)(nil)
)

// customAuth is any other Authenticator: it answers from its configuration.
type customAuth struct {
	method string
	ok     map[string]any
}

func (c *customAuth) AuthMethod() string { return c.method }

func (c *customAuth) Authenticate(sid wamp.ID, details wamp.Dict, client wamp.Peer) (*wamp.Welcome, error) {
	if c.ok == nil {
		return nil, errors.New("custom refused")
	}
	d := wamp.Dict{}
	for k, v := range c.ok {
		d[k] = plainGo(v)
	}
	return &wamp.Welcome{Details: d}, nil
}

// plainGo turns decoded JSON into the plain Go values a deserialiser yields.
func plainGo(v any) any {
	switch x := v.(type) {
	case float64:
		return int64(x)
	case json.Number:
		n, _ := x.Int64()
		return n
	case []any:
		l := make(wamp.List, len(x))
		for i := range x {
			l[i] = plainGo(x[i])
		}
		return l
	case map[string]any:
		d := make(wamp.Dict, len(x))
		for k, e := range x {
			d[k] = plainGo(e)
		}
		return d
	}
	return v
}

// repGo turns decoded JSON into Go values, choosing among the representations
// a transport / an in-process caller can hand over (wamp.Dict vs map[string]any
// vs map[any]any, wamp.List vs []any vs []string, int64 vs int vs uint64 vs
// float64). All of them denote the same WAMP value.
func repGo(v any, r *hcommon.RNG) any {
	switch x := v.(type) {
	case float64:
		switch r.Intn(6) {
		case 0:
			return int(x)
		case 1:
			if x >= 0 {
				return uint64(x)
			}
		case 2:
			return x
		}
		return int64(x)
	case []any:
		allStr := len(x) > 0
		for _, e := range x {
			if _, ok := e.(string); !ok {
				allStr = false
			}
		}
		if allStr && r.Chance(1, 4) {
			l := make([]string, len(x))
			for i := range x {
				l[i] = x[i].(string)
			}
			return l
		}
		if r.Chance(1, 2) {
			l := make([]any, len(x))
			for i := range x {
				l[i] = repGo(x[i], r)
			}
			return l
		}
		l := make(wamp.List, len(x))
		for i := range x {
			l[i] = repGo(x[i], r)
		}
		return l
	case map[string]any:
		keys := hcommon.SortedKeys(x)
		switch r.Intn(5) {
		case 0, 1:
			d := make(map[string]any, len(x))
			for _, k := range keys {
				d[k] = repGo(x[k], r)
			}
			return d
		case 2:
			d := make(map[any]any, len(x))
			for _, k := range keys {
				d[k] = repGo(x[k], r)
			}
			return d
		}
		d := make(wamp.Dict, len(x))
		for _, k := range keys {
			d[k] = repGo(x[k], r)
		}
		return d
	}
	return v
}

// canon turns any value handed out by the router into plain JSON-able data.
func canon(v any) any {
	switch x := v.(type) {
	case nil:
		return nil
	case wamp.Dict:
		if x == nil {
			return nil
		}
		m := make(map[string]any, len(x))
		for k, e := range x {
			m[k] = canon(e)
		}
		return m
	case map[string]any:
		if x == nil {
			return nil
		}
		m := make(map[string]any, len(x))
		for k, e := range x {
			m[k] = canon(e)
		}
		return m
	case map[any]any:
		m := make(map[string]any, len(x))
		for k, e := range x {
			m[fmt.Sprint(k)] = canon(e)
		}
		return m
	case wamp.List:
		l := make([]any, len(x))
		for i := range x {
			l[i] = canon(x[i])
		}
		return l
	case []any:
		l := make([]any, len(x))
		for i := range x {
			l[i] = canon(x[i])
		}
		return l
	case []string:
		l := make([]any, len(x))
		for i := range x {
			l[i] = x[i]
		}
		return l
	case wamp.ID:
		return uint64(x)
	case wamp.URI:
		return string(x)
	case int:
		return int64(x)
	case uint64:
		return x
	case float64:
		if x == float64(int64(x)) {
			return int64(x)
		}
		return x
	}
	return v
}

func canonDict(d wamp.Dict) map[string]any {
	m, _ := canon(d).(map[string]any)
	if m == nil {
		m = map[string]any{}
	}
	return m
}

// ---- peers ------------------------------------------------------------------------

type remotePeer struct{ wamp.Peer }

func (remotePeer) IsLocal() bool { return false }

// stallPeer is a router-side peer whose outbound queue has no room until the
// harness opens it: the non-blocking CHALLENGE send fails, the blocking ABORT
// send is then delivered.
type stallPeer struct {
	wamp.Peer
	out   chan wamp.Message
	local bool
}

func (p *stallPeer) IsLocal() bool             { return p.local }
func (p *stallPeer) Send() chan<- wamp.Message { return p.out }
func (p *stallPeer) Close()                    { close(p.out) }
func (p *stallPeer) forward(open <-chan struct{}) {
	<-open
	for m := range p.out {
		p.Peer.Send() <- m
	}
	p.Peer.Close()
}

// ---- world ---------------------------------------------------------------------------

type observer struct {
	realm   string
	peer    wamp.Peer
	sid     wamp.ID
	reqID   wamp.ID
	joins   []map[string]any
	probes  int
	closed  bool
	results map[wamp.ID]wamp.Message
}

type world struct {
	c         *Case
	r         router.Router
	observers map[string]*observer
	obsSIDs   map[wamp.ID]bool
	lastChal  map[string]string // method -> challenge of the previous handshake
	lastResp  map[string]string // method -> valid response of the previous handshake
}

func (w *world) authenticators(rc *RealmCfg) []auth.Authenticator {
	var as []auth.Authenticator
	for _, a := range rc.Auths {
		var ks auth.KeyStore
		if a.KS != "" {
			if c := w.c.Keystores[a.KS]; c != nil {
				ks = keyStore(c)
			}
		}
		to := time.Duration(a.Timeout) * time.Millisecond
		switch a.Kind {
		case "anonymous":
			as = append(as, &auth.AnonymousAuth{AuthRole: a.Role})
		case "ticket":
			as = append(as, auth.NewTicketAuthenticator(ks, to))
		case "wampcra":
			as = append(as, auth.NewCRAuthenticator(ks, to))
		case "cryptosign":
			as = append(as, auth.NewCryptoSignAuthenticator(ks, to))
		default:
			as = append(as, &customAuth{method: a.Method, ok: a.OK})
		}
	}
	return as
}

func (w *world) realmConfig(rc *RealmCfg) *router.RealmConfig {
	return &router.RealmConfig{
		URI:                       wamp.URI(rc.URI),
		StrictURI:                 rc.Strict,
		AnonymousAuth:             rc.AnonymousAuth,
		RequireLocalAuth:          rc.RequireLocalAuth,
		Authenticators:            w.authenticators(rc),
		MetaStrict:                rc.MetaStrict,
		MetaIncludeSessionDetails: rc.MetaInc,
	}
}

func newWorld(c *Case) (*world, error) {
	w := &world{c: c, observers: map[string]*observer{}, obsSIDs: map[wamp.ID]bool{},
		lastChal: map[string]string{}, lastResp: map[string]string{}}
	cfg := &router.Config{}
	for i := range c.Router.Realms {
		cfg.RealmConfigs = append(cfg.RealmConfigs, w.realmConfig(&c.Router.Realms[i]))
	}
	if c.Router.Template != nil {
		cfg.RealmTemplate = w.realmConfig(c.Router.Template)
	}
	r, err := router.NewRouter(cfg, log.New(io.Discard, "", 0))
	if err != nil {
		return nil, err
	}
	w.r = r
	return w, nil
}

// realmExists probes the router's realm table without changing it: AddRealm
// fails with "realm already exists" iff the realm is there; a realm added by the
// probe is removed again.
func (w *world) realmExists(uri string) bool {
	if uri == "" || !wamp.URI(uri).ValidURI(false, "") {
		// no realm has such a URI (and AddRealm would leak the broker and dealer it starts
		// before the URI is validated)
		return false
	}
	err := w.r.AddRealm(&router.RealmConfig{URI: wamp.URI(uri)})
	if err == nil {
		w.r.RemoveRealm(wamp.URI(uri))
		return false
	}
	return strings.Contains(err.Error(), "already exists")
}

// drain collects what the observer received so far.
func (o *observer) drain() {
	for {
		select {
		case m, ok := <-o.peer.Recv():
			if !ok {
				o.closed = true
				return
			}
			switch x := m.(type) {
			case *wamp.Event:
				if len(x.Arguments) == 1 {
					if d, ok := canon(x.Arguments[0]).(map[string]any); ok && d["session"] != nil {
						o.joins = append(o.joins, d)
						continue
					}
				}
				o.probes++
			case *wamp.Result:
				o.results[x.Request] = x
			case *wamp.Error:
				o.results[x.Request] = x
			case *wamp.Subscribed:
				o.results[x.Request] = x
			case *wamp.Goodbye, *wamp.Abort:
				o.closed = true
			}
		default:
			return
		}
	}
}

func (o *observer) send(m wamp.Message) bool {
	if o.closed {
		return false
	}
	select {
	case o.peer.Send() <- m:
		return true
	case <-time.After(time.Second):
		return false
	}
}

// ensureObserver attaches the trusted local observer session to an existing realm.
func (w *world) ensureObserver(realm string) *observer {
	if o := w.observers[realm]; o != nil {
		o.drain()
		if !o.closed {
			return o
		}
		delete(w.observers, realm)
	}
	c, s := transport.LinkedPeers()
	go w.r.Attach(s)
	o := &observer{realm: realm, peer: c, results: map[wamp.ID]wamp.Message{}}
	hello := &wamp.Hello{Realm: wamp.URI(realm), Details: wamp.Dict{
		"roles":       wamp.Dict{"subscriber": wamp.Dict{}, "caller": wamp.Dict{}},
		"authmethods": wamp.List{observerMethod},
	}}
	select {
	case c.Send() <- hello:
	case <-time.After(time.Second):
		return nil
	}
	synctest.Wait()
	select {
	case m, ok := <-c.Recv():
		wl, isW := m.(*wamp.Welcome)
		if !ok || !isW {
			return nil
		}
		o.sid = wl.ID
	default:
		return nil
	}
	w.obsSIDs[o.sid] = true
	o.reqID = 100
	o.send(&wamp.Subscribe{Request: 1, Topic: wamp.MetaEventSessionOnJoin})
	o.send(&wamp.Subscribe{Request: 2, Topic: probeTopic})
	synctest.Wait()
	o.drain()
	w.observers[realm] = o
	return o
}

func (o *observer) call(proc string, args wamp.List) wamp.Message {
	o.reqID++
	id := o.reqID
	if !o.send(&wamp.Call{Request: id, Procedure: wamp.URI(proc), Arguments: args}) {
		return nil
	}
	synctest.Wait()
	o.drain()
	return o.results[id]
}

func (o *observer) sessionList() ([]uint64, bool) {
	res, ok := o.call(string(wamp.MetaProcSessionList), nil).(*wamp.Result)
	if !ok || len(res.Arguments) != 1 {
		return nil, false
	}
	l, _ := wamp.AsList(res.Arguments[0])
	var ids []uint64
	for _, x := range l {
		if id, ok := wamp.AsID(x); ok {
			ids = append(ids, uint64(id))
		}
	}
	sort.Slice(ids, func(i, j int) bool { return ids[i] < ids[j] })
	return ids, true
}

// ---- the scripted client ---------------------------------------------------------------

type clientState struct {
	mu       sync.Mutex
	chal     *wamp.Challenge
	sent     [][]any // router -> client
	closed   bool
	finished bool
	got      chan struct{}
}

func (cs *clientState) challenge() *wamp.Challenge {
	cs.mu.Lock()
	defer cs.mu.Unlock()
	return cs.chal
}

func (cs *clientState) snapshot() (n int, finished bool) {
	cs.mu.Lock()
	defer cs.mu.Unlock()
	return len(cs.sent), cs.finished
}

func mkMsg(code int) wamp.Message {
	switch wamp.MessageType(code) {
	case wamp.PUBLISH:
		return &wamp.Publish{Request: 1, Topic: probeTopic, Options: wamp.Dict{}}
	case wamp.SUBSCRIBE:
		return &wamp.Subscribe{Request: 1, Topic: probeTopic, Options: wamp.Dict{}}
	case wamp.CALL:
		return &wamp.Call{Request: 1, Procedure: wamp.MetaProcSessionList, Options: wamp.Dict{}}
	case wamp.REGISTER:
		return &wamp.Register{Request: 1, Procedure: "verif.proc", Options: wamp.Dict{}}
	case wamp.GOODBYE:
		return &wamp.Goodbye{Reason: wamp.CloseRealm, Details: wamp.Dict{}}
	case wamp.ABORT:
		return &wamp.Abort{Reason: wamp.ErrProtocolViolation, Details: wamp.Dict{}}
	case wamp.WELCOME:
		return &wamp.Welcome{ID: 1, Details: wamp.Dict{}}
	case wamp.CHALLENGE:
		return &wamp.Challenge{AuthMethod: "ticket", Extra: wamp.Dict{}}
	case wamp.AUTHENTICATE:
		return &wamp.Authenticate{Signature: "x", Extra: wamp.Dict{}}
	case wamp.ERROR:
		return &wamp.Error{Type: wamp.CALL, Request: 1, Error: "x.y", Details: wamp.Dict{}}
	case wamp.YIELD:
		return &wamp.Yield{Request: 1, Options: wamp.Dict{}}
	}
	m := wamp.NewMessage(wamp.MessageType(code))
	if m == nil {
		return &wamp.Unsubscribed{Request: 1}
	}
	return m
}

func hmacB64(key []byte, msg string) string {
	h := hmac.New(sha256.New, key)
	h.Write([]byte(msg))
	return base64.StdEncoding.EncodeToString(h.Sum(nil))
}

func pad32(k []byte) [32]byte {
	var p [32]byte
	copy(p[:], k)
	return p
}

// otherPriv is a key pair that no key store knows.
func otherPriv() *[64]byte {
	var seed [32]byte
	copy(seed[:], "verif-handshake-other-key-000000")
	_, priv, _ := sign.GenerateKey(strings.NewReader(string(seed[:])))
	return priv
}

// respond computes the AUTHENTICATE signature of the given kind for the
// challenge just received. It returns the signature and which challenge it is
// a valid response for ("this", "other", "none").
func (w *world) respond(kind string, ch *wamp.Challenge, authid string, u *User) (string, string) {
	method := ch.AuthMethod
	chal, _ := wamp.AsString(ch.Extra["challenge"])
	valid := func(chal string) string {
		switch method {
		case "ticket":
			if u != nil {
				if h, ok := u.Keys["ticket"]; ok {
					b, _ := hex.DecodeString(h)
					return string(b)
				}
			}
			return "no-ticket-known"
		case "wampcra":
			if u == nil {
				return hmacB64([]byte("guess"), chal)
			}
			salt, _ := wamp.AsString(ch.Extra["salt"])
			if salt == "" {
				return hmacB64([]byte(u.Password), chal)
			}
			iters, _ := wamp.AsInt64(ch.Extra["iterations"])
			keylen, _ := wamp.AsInt64(ch.Extra["keylen"])
			dk := pbkdf2.Key([]byte(u.Password), []byte(salt), int(iters), int(keylen), sha256.New)
			return hmacB64([]byte(base64.StdEncoding.EncodeToString(dk)), chal)
		case "cryptosign":
			var priv [64]byte
			if u != nil {
				b, _ := hex.DecodeString(u.Priv)
				copy(priv[:], b)
			} else {
				priv = *otherPriv()
			}
			msg, _ := hex.DecodeString(chal)
			return hex.EncodeToString(sign.Sign(nil, msg, &priv))
		}
		return "x"
	}
	otherChal := func() string {
		if method == "cryptosign" {
			return hex.EncodeToString([]byte("another-32-byte-challenge-000000"))
		}
		return `{ "nonce":"AAAAAAAAAAAAAAAAAAAAAA==", "authprovider":"static", "authid":"` + authid + `", "timestamp":"2020-01-01T00:00:00.000Z", "authrole":"user", "authmethod":"wampcra", "session":1 }`
	}
	v := valid(chal)
	w.lastChal[method+"/"+authid+"/next"] = chal
	w.lastResp[method+"/"+authid+"/next"] = v
	switch kind {
	case "valid":
		return v, "this"
	case "replay":
		// the valid response of the previous handshake of this case (same method and authid),
		// else a valid response to a challenge the router never issued now
		if r, ok := w.lastResp[method+"/"+authid]; ok {
			if w.lastChal[method+"/"+authid] == chal {
				return r, "this"
			}
			if method == "ticket" {
				return r, "this" // a ticket is not bound to a challenge
			}
			return r, "other"
		}
		r := valid(otherChal())
		if method == "ticket" {
			return r, "this"
		}
		return r, "other"
	case "wrongkey":
		switch method {
		case "ticket":
			return "not-the-ticket", "none"
		case "wampcra":
			return hmacB64([]byte("some-other-key"), chal), "none"
		case "cryptosign":
			msg, _ := hex.DecodeString(chal)
			return hex.EncodeToString(sign.Sign(nil, msg, otherPriv())), "none"
		}
	case "pubkey":
		// a response computed from what the challenge itself says: for wampcra, the HMAC of the
		// challenge under its own "nonce" field as the key
		switch method {
		case "wampcra":
			var c map[string]any
			json.Unmarshal([]byte(chal), &c)
			nonce, _ := c["nonce"].(string)
			return hmacB64([]byte(nonce), chal), "none"
		case "ticket":
			return "not-the-ticket:" + chal, "none"
		case "cryptosign":
			return chal + chal + chal, "none"
		}
	case "prefix":
		if len(v) > 1 {
			return v[:len(v)-1], "none"
		}
		return v + "x", "none"
	case "longer":
		return v + "A", "none"
	case "empty":
		if method == "ticket" && v == "" {
			return "", "this"
		}
		return "", "none"
	case "tampered":
		if len(v) > 4 {
			b := []byte(v)
			c := b[2]
			switch {
			case c == '0':
				b[2] = '1'
			case c == 'A':
				b[2] = 'B'
			default:
				b[2] = '0'
			}
			if string(b) != v {
				return string(b), "none"
			}
		}
		return "tampered", "none"
	case "garbage":
		return "!!not base64 or hex!!", "none"
	case "hexofb64":
		// right bytes in the wrong encoding
		if method == "wampcra" {
			b, _ := base64.StdEncoding.DecodeString(v)
			return hex.EncodeToString(b), "none"
		}
		b, _ := hex.DecodeString(v)
		return base64.StdEncoding.EncodeToString(b), "none"
	case "short":
		if method == "cryptosign" && len(v) >= 128 {
			return v[:128], "none" // a bare 64-byte signature without the message
		}
		return "abcd", "none"
	case "upper":
		// hex is case-insensitive, base64 is not
		if method == "cryptosign" {
			return strings.ToUpper(v), "this"
		}
		if up := strings.ToUpper(v); up != v {
			return up, "none"
		}
		return v, "this"
	}
	return "unknown-kind", "none"
}

// oracleFor computes, with the real primitives, the answers the model needs
// for the signature the client sent and the challenge the router issued.
func (w *world) oracleFor(o *Obs, authid string, rcfg *RealmCfg, blocked bool) {
	or := map[string]any{"b64": map[string]any{}, "hexd": map[string]any{}, "hmac": []any{}, "open": []any{}}
	o.Oracle = or
	var sig string
	haveSig := false
	for _, a := range o.Arrivals {
		if len(a.M) >= 2 && a.M[0] == "auth" {
			if s, ok := a.M[1].(string); ok {
				sig, haveSig = s, true
			}
		}
	}
	var chMethod, chal string
	for _, s := range o.Sent {
		switch s[0] {
		case "challenge":
			chMethod, _ = s[1].(string)
			if ex, ok := s[2].(map[string]any); ok {
				chal, _ = ex["challenge"].(string)
			}
		case "welcome":
			or["sid"] = s[1]
			if d, ok := s[2].(map[string]any); ok {
				if a, ok := d["authid"].(string); ok {
					if n, err := strconv.ParseUint(a, 16, 64); err == nil && strconv.FormatUint(n, 16) == a {
						or["authidRand"] = n
					}
				}
			}
		}
	}
	if _, has := or["sid"]; !has && o.SIDFromList != 0 {
		or["sid"] = o.SIDFromList
		if a, ok := o.Got["authid"].(string); ok {
			if n, err := strconv.ParseUint(a, 16, 64); err == nil && strconv.FormatUint(n, 16) == a {
				or["authidRand"] = n
			}
		}
	}
	or["keyNonce"] = "?unknown-random-key?"
	or["keyNow"] = "?"
	if blocked && chMethod == "" {
		// the CHALLENGE was never delivered: its random content is unobservable and does not
		// appear in anything the router sent
		or["chalNonce"] = "?"
		or["now"] = "?"
		or["csChallenge"] = strings.Repeat("00", 32)
	}
	if chMethod == "wampcra" {
		// the challenge string is JSON when the ids are plain
		var cj struct {
			Nonce     string      `json:"nonce"`
			Timestamp string      `json:"timestamp"`
			Session   json.Number `json:"session"`
		}
		if json.Unmarshal([]byte(chal), &cj) == nil {
			or["chalNonce"] = cj.Nonce
			or["now"] = cj.Timestamp
			if n, err := strconv.ParseUint(cj.Session.String(), 10, 64); err == nil {
				if _, has := or["sid"]; !has {
					or["sid"] = n
				}
			}
		} else {
			o.Note += "challenge string is not JSON; "
		}
	}
	if chMethod == "cryptosign" {
		or["csChallenge"] = chal
	}
	if haveSig {
		if b, err := base64.StdEncoding.DecodeString(sig); err == nil {
			or["b64"].(map[string]any)[sig] = hex.EncodeToString(b)
		} else {
			or["b64"].(map[string]any)[sig] = nil
		}
		if b, err := hex.DecodeString(sig); err == nil {
			or["hexd"].(map[string]any)[sig] = hex.EncodeToString(b)
		} else {
			or["hexd"].(map[string]any)[sig] = nil
		}
	}
	// the key the configured key store returns for this authid
	if rcfg == nil || chMethod == "" {
		return
	}
	var ksc *KSCfg
	for _, a := range rcfg.Auths {
		if a.Kind == chMethod {
			ksc = w.c.Keystores[a.KS] // the last one wins, as in newRealm
		}
	}
	if ksc == nil {
		return
	}
	key, err := (&memKS{ksc}).AuthKey(authid, chMethod)
	if err != nil {
		return
	}
	switch chMethod {
	case "wampcra":
		h := hmac.New(sha256.New, key)
		h.Write([]byte(chal))
		or["hmac"] = []any{[]any{hex.EncodeToString(key), chal, hex.EncodeToString(h.Sum(nil))}}
	case "cryptosign":
		if haveSig {
			if sb, err := hex.DecodeString(sig); err == nil {
				pk := pad32(key)
				var opened any
				if msg, ok := sign.Open(nil, sb, &pk); ok {
					opened = hex.EncodeToString(msg)
				}
				or["open"] = []any{[]any{hex.EncodeToString(sb), hex.EncodeToString(pk[:]), opened}}
			}
		}
	}
}

func helloOf(hs *HS) (realm string, details map[string]any, ok bool) {
	if len(hs.Arrivals) == 0 {
		return "", nil, false
	}
	m := hs.Arrivals[0].M
	if len(m) >= 3 && m[0] == "hello" {
		realm, _ = m[1].(string)
		details, _ = m[2].(map[string]any)
		return realm, details, true
	}
	return "", nil, false
}

func (w *world) realmCfg(uri string) *RealmCfg {
	for i := range w.c.Router.Realms {
		if w.c.Router.Realms[i].URI == uri {
			return &w.c.Router.Realms[i]
		}
	}
	return nil
}

// runHandshake plays one scripted client against the router.
func (w *world) runHandshake(hs *HS, created map[string]bool) Obs {
	var o Obs
	realm, details, isHello := helloOf(hs)
	authid, _ := details["authid"].(string)
	rcfg := w.realmCfg(realm)
	if rcfg == nil && created[realm] {
		rcfg = w.c.Router.Template
	}

	if hs.AfterClose {
		w.r.Close()
		w.observers = map[string]*observer{}
	}
	var obs *observer
	var before []uint64
	if isHello && !hs.AfterClose {
		o.ExistsBefore = w.realmExists(realm)
		if o.ExistsBefore {
			if obs = w.ensureObserver(realm); obs != nil {
				o.ObservedPre = true
				obs.joins = nil
				obs.probes = 0
				before, _ = obs.sessionList()
			}
		}
	}

	// peers
	cpeer, speer := transport.LinkedPeers()
	var rside wamp.Peer = speer
	open := make(chan struct{})
	if hs.Blocked {
		sp := &stallPeer{Peer: speer, out: make(chan wamp.Message), local: hs.Local}
		go sp.forward(open)
		rside = sp
	} else if !hs.Local {
		rside = remotePeer{speer}
	}
	var transportDetails wamp.Dict
	if hs.Transport != nil {
		transportDetails, _ = plainGo(hs.Transport).(wamp.Dict)
	}

	cs := &clientState{got: make(chan struct{}, 256)}
	readerDone := make(chan struct{})
	userFor := func(method string) *User {
		var u *User
		if rcfg != nil {
			for _, a := range rcfg.Auths {
				if a.Kind != method {
					continue
				}
				u = nil
				if ks := w.c.Keystores[a.KS]; ks != nil {
					u = ks.Users[authid]
				}
			}
		}
		return u
	}
	go func() {
		defer close(readerDone)
		for m := range cpeer.Recv() {
			cs.mu.Lock()
			switch x := m.(type) {
			case *wamp.Challenge:
				cs.chal = x
				cs.sent = append(cs.sent, []any{"challenge", x.AuthMethod, canonDict(x.Extra)})
			case *wamp.Abort:
				msg, _ := x.Details[wamp.OptMessage].(string)
				cs.sent = append(cs.sent, []any{"abort", string(x.Reason), msg})
				cs.finished = true
			case *wamp.Welcome:
				cs.sent = append(cs.sent, []any{"welcome", uint64(x.ID), canonDict(x.Details)})
				cs.finished = true
			default:
				cs.sent = append(cs.sent, []any{"other", int(m.MessageType())})
			}
			cs.mu.Unlock()
			select {
			case cs.got <- struct{}{}:
			default:
			}
		}
		cs.mu.Lock()
		cs.closed = true
		cs.finished = true
		cs.mu.Unlock()
		select {
		case cs.got <- struct{}{}:
		default:
		}
	}()

	attachDone := make(chan error, 1)
	go func() { attachDone <- w.r.AttachClient(rside, transportDetails) }()

	rep := hcommon.NewRNG(hs.Rep)
	clientClosed := false
	removed := false
	// trySend hands a message to the router unless the handshake ends first.
	trySend := func(m wamp.Message) bool {
		limit := time.After(3 * time.Minute)
		for {
			if _, fin := cs.snapshot(); fin {
				return false
			}
			select {
			case cpeer.Send() <- m:
				return true
			case <-cs.got:
			case <-limit:
				return false
			}
		}
	}
	// attachReturned polls AttachClient's result: once it has returned the handshake is over,
	// also when no WELCOME arrives (the handler drops it when the client's queue is full).
	attachReturned := func() bool {
		if o.Returned {
			return true
		}
		select {
		case err := <-attachDone:
			o.Returned = true
			if err != nil {
				o.AttachErr = err.Error()
			}
			return true
		default:
			return false
		}
	}
	o.RespKinds = make([]string, len(hs.Arrivals))
	for i, a := range hs.Arrivals {
		if i > 0 {
			// wait for the router's reaction to the previous action
			synctest.Wait()
		}
		if _, fin := cs.snapshot(); fin || attachReturned() {
			break
		}
		if hs.Blocked && i == 1 {
			// the CHALLENGE could not be queued; now let the ABORT through
			close(open)
			open = nil
			synctest.Wait()
			if _, fin := cs.snapshot(); fin || attachReturned() {
				break
			}
		}
		if hs.RemoveRealm && i > 0 && !removed && cs.challenge() != nil {
			removed = true
			o.RealmClosing = true
			delete(w.observers, realm)
			w.r.RemoveRealm(wamp.URI(realm))
		}
		time.Sleep(time.Duration(a.D) * time.Millisecond)
		if _, fin := cs.snapshot(); fin || attachReturned() {
			break
		}
		concrete := Arrival{D: a.D, M: a.M}
		var msg wamp.Message
		kind, _ := a.M[0].(string)
		switch kind {
		case "hello":
			r, _ := a.M[1].(string)
			d, _ := a.M[2].(map[string]any)
			hd := wamp.Dict{}
			for _, k := range hcommon.SortedKeys(d) {
				hd[k] = repGo(d[k], rep)
			}
			msg = &wamp.Hello{Realm: wamp.URI(r), Details: hd}
		case "auth":
			spec, _ := a.M[1].(map[string]any)
			rk, _ := spec["resp"].(string)
			o.RespKinds[i] = rk
			sig, sigFor := "no-challenge-seen", "none"
			if ch := cs.challenge(); ch != nil {
				sig, sigFor = w.respond(rk, ch, authid, userFor(ch.AuthMethod))
			}
			o.RespFor = sigFor
			concrete.M = []any{"auth", sig, map[string]any{}}
			msg = &wamp.Authenticate{Signature: sig, Extra: wamp.Dict{}}
		case "other":
			code := 0
			if f, ok := a.M[1].(float64); ok {
				code = int(f)
			}
			msg = mkMsg(code)
		case "close":
			cpeer.Close()
			clientClosed = true
			o.Consumed++
		}
		o.Arrivals = append(o.Arrivals, concrete)
		if clientClosed {
			break
		}
		if msg != nil && trySend(msg) {
			o.Consumed++
		}
	}
	for j := len(o.Arrivals); j < len(hs.Arrivals); j++ {
		o.Arrivals = append(o.Arrivals, hs.Arrivals[j])
	}
	// silence until the router gives up
	if open != nil && hs.Blocked {
		// let the router meet the full queue first (non-blocking CHALLENGE / WELCOME), then open it
		synctest.Wait()
		close(open)
	}
	if !attachReturned() {
		select {
		case err := <-attachDone:
			o.Returned = true
			if err != nil {
				o.AttachErr = err.Error()
			}
		case <-time.After(10 * time.Minute):
			o.Note += "AttachClient did not return within 10 virtual minutes; "
		}
	}
	synctest.Wait()
	cs.mu.Lock()
	o.Sent = append([][]any{}, cs.sent...)
	o.Closed = cs.closed
	cs.mu.Unlock()
	// attached: AttachClient reported success. WELCOME is sent by the session's handler without
	// blocking, so a client whose queue is full is attached without ever seeing it.
	welcomed := o.Returned && o.AttachErr == ""
	var sid uint64
	for _, s := range o.Sent {
		if s[0] == "welcome" {
			welcomed = true
			sid = s[1].(uint64)
		}
	}

	// remember this handshake's challenge/response for a later replay
	for _, m := range []string{"ticket", "wampcra", "cryptosign"} {
		k := m + "/" + authid
		if c, ok := w.lastChal[k+"/next"]; ok {
			w.lastChal[k] = c
			w.lastResp[k] = w.lastResp[k+"/next"]
			delete(w.lastChal, k+"/next")
			delete(w.lastResp, k+"/next")
		}
	}

	// a failed client keeps talking: nothing may be taken from it
	if !welcomed && !clientClosed {
		probe := &wamp.Publish{Request: 77, Topic: probeTopic, Options: wamp.Dict{"acknowledge": true}}
		select {
		case cpeer.Send() <- probe:
			o.ProbeAccepted = true
		case <-time.After(time.Second):
		}
		synctest.Wait()
	}

	if isHello && !o.RealmClosing && !hs.AfterClose {
		o.ExistsAfter = w.realmExists(realm)
		if o.ExistsAfter && !o.ExistsBefore {
			created[realm] = true
		}
		if obs == nil && o.ExistsAfter {
			obs = w.ensureObserver(realm)
		}
		if obs != nil {
			synctest.Wait()
			obs.drain()
			after, ok := obs.sessionList()
			o.ListOK = ok
			if ok {
				was := map[uint64]bool{}
				for _, id := range before {
					was[id] = true
				}
				o.NewSessions = []uint64{}
				for _, id := range after {
					if !was[id] && !w.obsSIDs[wamp.ID(id)] {
						o.NewSessions = append(o.NewSessions, id)
					}
				}
			}
			if welcomed && sid == 0 && len(o.NewSessions) == 1 {
				sid = o.NewSessions[0] // WELCOME was dropped: the id is known from the session list
				o.SIDFromList = sid
			}
			if welcomed {
				switch r := obs.call(string(wamp.MetaProcSessionGet), wamp.List{wamp.ID(sid)}).(type) {
				case *wamp.Result:
					if len(r.Arguments) == 1 {
						o.Got, _ = canon(r.Arguments[0]).(map[string]any)
					}
				case *wamp.Error:
					o.GotErr = string(r.Error)
				default:
					o.GotErr = "no answer"
				}
			}
			for _, j := range obs.joins {
				if id, ok := j["session"].(uint64); !ok || !w.obsSIDs[wamp.ID(id)] {
					o.OnJoin = append(o.OnJoin, j)
				}
			}
			o.ProbeEvents = obs.probes
		}
	}
	w.oracleFor(&o, authid, rcfg, hs.Blocked)
	if welcomed && !clientClosed {
		// leave politely so that the session does not linger into the next handshake's list
		_ = readerDone
	}
	return o
}

// runCase runs all handshakes of a case against one router inside the bubble.
func runCase(c *Case) (res CaseResult) {
	res.Case = *c
	w, err := newWorld(c)
	if err != nil {
		res.Err = "config: " + err.Error()
		return
	}
	created := map[string]bool{}
	for i := range c.Handshakes {
		res.Obs = append(res.Obs, w.runHandshake(&c.Handshakes[i], created))
	}
	w.r.Close()
	synctest.Wait()
	return
}
