package handshake

import (
	"crypto/sha256"
	"encoding/base64"
	"encoding/hex"
	"strings"

	"golang.org/x/crypto/nacl/sign"
	"golang.org/x/crypto/pbkdf2"

	"verif/harness/hcommon"
)

func strp(s string) *string { return &s }

func keyPair(seedText string) (pubHex, privHex string) {
	seed := sha256.Sum256([]byte(seedText))
	pub, priv, _ := sign.GenerateKey(strings.NewReader(string(seed[:])))
	return hex.EncodeToString(pub[:]), hex.EncodeToString(priv[:])
}

func hexOf(s string) string { return hex.EncodeToString([]byte(s)) }

// stdUsers is the population of every key store.
//
//	alice  role user, ticket, plain wampcra secret, cryptosign key
//	bob    role admin, ticket, salted (PBKDF2) wampcra key, cryptosign key
//	carol  AuthRole fails, keys present
//	dave   role user, no keys at all (AuthKey fails)
//	erin   role user, nil ticket key, empty wampcra key, short cryptosign key
//	frank  role user, empty (non-nil) ticket
//	(mallory is unknown)
func stdUsers() map[string]*User {
	us := map[string]*User{}
	pa, sa := keyPair("alice")
	us["alice"] = &User{Role: strp("user"), Password: "alice-secret",
		Keys: map[string]string{"ticket": hexOf("ticket-of-alice"), "wampcra": hexOf("alice-secret"), "cryptosign": pa}, Priv: sa}
	pb, sb := keyPair("bob")
	salt, iters, keylen := "salt-of-bob", 50, 32
	dk := pbkdf2.Key([]byte("bob-password"), []byte(salt), iters, keylen, sha256.New)
	us["bob"] = &User{Role: strp("admin"), Password: "bob-password", Salt: salt, Iters: iters, Keylen: keylen,
		Keys: map[string]string{"ticket": hexOf("ticket-of-bob"), "wampcra": hexOf(base64.StdEncoding.EncodeToString(dk)), "cryptosign": pb}, Priv: sb}
	pc, sc := keyPair("carol")
	us["carol"] = &User{Role: nil, Password: "carol-secret",
		Keys: map[string]string{"ticket": hexOf("ticket-of-carol"), "wampcra": hexOf("carol-secret"), "cryptosign": pc}, Priv: sc}
	_, sd := keyPair("dave")
	us["dave"] = &User{Role: strp("user"), Password: "dave-secret", Priv: sd}
	pe, se := keyPair("erin")
	us["erin"] = &User{Role: strp("user"), Password: "", NilKeys: []string{"ticket"},
		Keys: map[string]string{"wampcra": "", "cryptosign": pe[:40]}, Priv: se}
	_, sf := keyPair("frank")
	us["frank"] = &User{Role: strp(""), Password: "frank-secret", Priv: sf,
		Keys: map[string]string{"ticket": "", "wampcra": hexOf("frank-secret")}}
	return us
}

var (
	authids    = []any{"alice", "alice", "alice", "bob", "bob", "carol", "dave", "erin", "frank", "mallory", "", nil, 42.0, true, []any{"alice"}}
	methodPool = []any{"anonymous", "ticket", "wampcra", "cryptosign", "ticket", "wampcra", "cryptosign", "", "unknown", "local", 42.0, nil, true,
		[]any{"ticket"}, map[string]any{"m": "ticket"}, "Ticket", "anonymous "}
	respKinds = []string{"valid", "valid", "valid", "replay", "replay", "wrongkey", "pubkey", "prefix", "longer", "empty", "tampered", "garbage", "hexofb64", "short", "upper"}
	otherMsgs = []float64{16, 32, 48, 64, 6, 3, 2, 4, 8, 70, 34, 66, 49}
)

func observerAuth() AuthCfg {
	return AuthCfg{Kind: "custom", Method: observerMethod,
		OK: map[string]any{"authid": "observer", "authrole": "observer", "authprovider": "verif"}}
}

func genAuths(r *hcommon.RNG, ksNames []string) []AuthCfg {
	as := []AuthCfg{observerAuth()}
	mask := r.Intn(16)
	timeouts := []int{0, 0, 1500, 90000}
	if mask&1 != 0 {
		as = append(as, AuthCfg{Kind: "anonymous", Role: hcommon.Pick(r, []string{"guest", "anonymous", ""})})
	}
	if mask&2 != 0 {
		as = append(as, AuthCfg{Kind: "ticket", KS: hcommon.Pick(r, ksNames), Timeout: hcommon.Pick(r, timeouts)})
	}
	if mask&4 != 0 {
		as = append(as, AuthCfg{Kind: "wampcra", KS: hcommon.Pick(r, ksNames), Timeout: hcommon.Pick(r, timeouts)})
	}
	if mask&8 != 0 {
		as = append(as, AuthCfg{Kind: "cryptosign", KS: hcommon.Pick(r, ksNames), Timeout: hcommon.Pick(r, timeouts)})
	}
	if r.Chance(1, 12) {
		// a partial custom authenticator: it does not set authrole / authprovider
		as = append(as, AuthCfg{Kind: "custom", Method: "partial", OK: map[string]any{"authid": "partial-user"}})
	}
	if r.Chance(1, 20) {
		as = append(as, AuthCfg{Kind: "custom", Method: "refuser"})
	}
	if r.Chance(1, 15) && mask&2 != 0 {
		// a second authenticator for the same method: the later one wins in newRealm
		as = append(as, AuthCfg{Kind: "ticket", KS: hcommon.Pick(r, ksNames), Timeout: 0})
	}
	// shuffle
	for i := len(as) - 1; i > 0; i-- {
		j := r.Intn(i + 1)
		as[i], as[j] = as[j], as[i]
	}
	return as
}

func genRealm(r *hcommon.RNG, uri string, ksNames []string) RealmCfg {
	rc := RealmCfg{URI: uri, Auths: genAuths(r, ksNames), AnonymousAuth: r.Chance(1, 3), RequireLocalAuth: r.Chance(1, 2),
		Strict: r.Chance(1, 4), MetaStrict: r.Chance(1, 6)}
	if rc.MetaStrict && r.Chance(1, 2) {
		rc.MetaInc = []string{"x_extra", "authextra"}
	}
	return rc
}

func genRoles(r *hcommon.RNG) (any, bool) {
	if r.Chance(3, 5) {
		role := hcommon.Pick(r, []string{"caller", "callee", "publisher", "subscriber"})
		return map[string]any{role: map[string]any{}}, true
	}
	switch r.Intn(16) {
	case 0:
		return nil, false // absent
	case 1:
		return nil, true // null
	case 2:
		return map[string]any{}, true
	case 3:
		return "caller", true
	case 4:
		return []any{"caller"}, true
	case 5:
		return map[string]any{"broker": map[string]any{}, "dealer": map[string]any{}}, true
	case 6:
		return map[string]any{"caller": 42.0}, true
	case 7:
		return map[string]any{"callee": nil, "x": "y"}, true
	case 8:
		return map[string]any{"Caller": map[string]any{}}, true
	case 9:
		return 7.0, true
	case 10:
		return map[string]any{"publisher": map[string]any{"features": map[string]any{"publisher_identification": true, "x": 1.0}},
			"subscriber": map[string]any{"features": "none"}}, true
	case 11:
		return map[string]any{"callee": map[string]any{"features": map[string]any{"call_timeout": true}}, "caller": map[string]any{}}, true
	case 12:
		return map[string]any{"subscriber": []any{}}, true
	}
	role := hcommon.Pick(r, []string{"caller", "callee", "publisher", "subscriber"})
	return map[string]any{role: map[string]any{}}, true
}

func genMethods(r *hcommon.RNG, bias []string) (any, bool) {
	switch r.Intn(16) {
	case 0:
		return nil, false
	case 1:
		return []any{}, true
	case 2:
		return nil, true
	case 3:
		return hcommon.Pick(r, []any{"ticket", 7.0, map[string]any{"0": "ticket"}, true}), true
	}
	n := 1 + r.Intn(4)
	l := make([]any, 0, n)
	for i := 0; i < n; i++ {
		if len(bias) > 0 && r.Chance(1, 2) {
			l = append(l, hcommon.Pick(r, bias))
		} else {
			l = append(l, hcommon.Pick(r, methodPool))
		}
	}
	return l, true
}

func genSmuggle(r *hcommon.RNG, d map[string]any) {
	if r.Chance(1, 2) {
		return
	}
	put := func(k string, vs []any) {
		if r.Chance(1, 2) {
			d[k] = hcommon.Pick(r, vs)
		}
	}
	put("session", []any{1234.0, "not-a-number", nil})
	put("authrole", []any{"admin", "trusted", "", 1.0})
	put("authmethod", []any{"local", "smuggled", "ticket"})
	put("authprovider", []any{"evil", "static", map[string]any{"x": 1.0}})
	put("transport", []any{map[string]any{"auth": map[string]any{"cookie": "client-made"}, "type": "fake"},
		map[string]any{"auth": "a-string", "type": "fake"}, map[string]any{"auth": map[string]any{}}, "not-a-dict",
		map[string]any{"auth": nil, "peer": "1.2.3.4"}})
	put("authextra", []any{map[string]any{"pubkey": "00"}, "x"})
	put("x_extra", []any{"kept", 5.0, []any{1.0, "a"}})
}

func genHello(r *hcommon.RNG, c *Case, realm string, bias []string) map[string]any {
	d := map[string]any{}
	if len(bias) > 0 && r.Chance(1, 2) {
		// a mostly well-formed HELLO aimed at a configured method
		role := hcommon.Pick(r, []string{"caller", "callee", "publisher", "subscriber"})
		d["roles"] = map[string]any{role: map[string]any{}}
		ms := []any{}
		if r.Chance(1, 4) {
			ms = append(ms, hcommon.Pick(r, methodPool))
		}
		ms = append(ms, hcommon.Pick(r, bias))
		if r.Chance(1, 3) {
			ms = append(ms, hcommon.Pick(r, bias))
		}
		d["authmethods"] = ms
		d["authid"] = hcommon.Pick(r, []any{"alice", "alice", "bob", "bob", "carol", "dave", "erin", "frank", "mallory"})
		genSmuggle(r, d)
		return d
	}
	if v, ok := genRoles(r); ok {
		d["roles"] = v
	}
	if v, ok := genMethods(r, bias); ok {
		d["authmethods"] = v
	}
	if r.Chance(5, 6) {
		d["authid"] = hcommon.Pick(r, authids)
	}
	genSmuggle(r, d)
	return d
}

func genRealmName(r *hcommon.RNG, c *Case) string {
	switch r.Intn(14) {
	case 0:
		return ""
	case 1:
		return "nx.realm"
	case 2:
		return hcommon.Pick(r, []string{"bad realm", "a..b", "x#y", ".lead", "trail.", "UPPER.case", "ünï.code"})
	case 3, 4:
		return hcommon.Pick(r, []string{"t.new", "t.other", "t_2"})
	}
	return hcommon.Pick(r, c.Router.Realms).URI
}

func realmAuthKinds(c *Case, realm string) []string {
	var rc *RealmCfg
	for i := range c.Router.Realms {
		if c.Router.Realms[i].URI == realm {
			rc = &c.Router.Realms[i]
		}
	}
	if rc == nil {
		rc = c.Router.Template
	}
	var ks []string
	if rc != nil {
		for _, a := range rc.Auths {
			if a.Kind != "custom" {
				ks = append(ks, a.Kind)
			} else if a.Method != observerMethod {
				ks = append(ks, a.Method)
			}
		}
	}
	return ks
}

func genDelay(r *hcommon.RNG, timeout int) int {
	switch r.Intn(12) {
	case 0:
		return timeout - 1
	case 1:
		return timeout + 1
	case 2:
		return timeout * 3
	case 3:
		return 1 + r.Intn(1000)
	}
	return 0
}

func genHS(r *hcommon.RNG, c *Case) HS {
	hs := HS{Local: r.Chance(1, 3), Rep: int64(r.Uint64() >> 1)}
	if r.Chance(1, 8) {
		hs.Transport = hcommon.Pick(r, []map[string]any{
			{"type": "websocket", "auth": map[string]any{"cookie": "c1", "nextcookie": "c2"}, "peer": "10.0.0.1"},
			{"auth": "just-a-string"},
			{"auth": map[string]any{"only": "auth"}},
			{},
			{"type": "rawsocket"},
		})
	}
	realm := genRealmName(r, c)
	bias := realmAuthKinds(c, realm)
	switch r.Intn(32) {
	case 0:
		// silence
		return hs
	case 1:
		hs.Arrivals = []Arrival{{D: genDelay(r, 5000), M: []any{"other", hcommon.Pick(r, otherMsgs)}}}
		return hs
	case 2:
		hs.Arrivals = []Arrival{{D: genDelay(r, 5000), M: []any{"close"}}}
		return hs
	case 3:
		hs.Arrivals = []Arrival{{D: 0, M: []any{"auth", map[string]any{"resp": "valid"}}}}
		return hs
	}
	helloDelay := 0
	if r.Chance(1, 5) {
		helloDelay = genDelay(r, 5000)
	}
	hs.Arrivals = []Arrival{{D: helloDelay, M: []any{"hello", realm, genHello(r, c, realm, bias)}}}
	// what the client does after a CHALLENGE (or whatever else happens)
	crT := hcommon.Pick(r, []int{60000, 60000, 1500, 90000})
	switch r.Intn(12) {
	case 0:
		// silence
	case 1:
		hs.Arrivals = append(hs.Arrivals, Arrival{D: genDelay(r, crT), M: []any{"other", hcommon.Pick(r, otherMsgs)}})
	case 2:
		hs.Arrivals = append(hs.Arrivals, Arrival{D: genDelay(r, crT), M: []any{"close"}})
	case 3:
		hs.Arrivals = append(hs.Arrivals, Arrival{D: 0, M: []any{"hello", realm, map[string]any{"roles": map[string]any{"caller": map[string]any{}}}}})
	default:
		hs.Arrivals = append(hs.Arrivals, Arrival{D: genDelay(r, crT), M: []any{"auth", map[string]any{"resp": hcommon.Pick(r, respKinds)}}})
		if r.Chance(1, 6) {
			hs.Arrivals = append(hs.Arrivals, Arrival{D: 0, M: []any{"other", 16.0}})
		}
	}
	if r.Chance(1, 25) {
		hs.Blocked = true
	}
	return hs
}

func genKeystores(r *hcommon.RNG) (map[string]*KSCfg, []string) {
	ks := map[string]*KSCfg{
		"ks1": {Provider: "static", Users: stdUsers()},
		"ks2": {Provider: "ldap", Users: stdUsers()},
	}
	names := []string{"ks1", "ks1", "ks2"}
	if r.Chance(1, 3) {
		b := &BypassCfg{Already: []string{}}
		if r.Chance(1, 2) {
			b.Already = []string{hcommon.Pick(r, []string{"alice", "bob", "carol", "mallory"})}
		}
		b.OnWelcomeErr = r.Chance(1, 5)
		if r.Chance(1, 2) {
			b.OnWelcomeSet = map[string]any{"x_cookie": "next", "authrole": "from-keystore"}
		}
		ks["ks3"] = &KSCfg{Provider: "bypass", Users: stdUsers(), Bypass: b}
		names = append(names, "ks3", "ks3")
	}
	// ks2 differs from ks1: alice has another ticket and role there
	ks["ks2"].Users["alice"].Keys["ticket"] = hexOf("ticket-of-alice-in-ks2")
	ks["ks2"].Users["alice"].Role = strp("ldap-user")
	return ks, names
}

// genCase generates random case idx of a run.
func genCase(seed int64, idx int) *Case {
	r := hcommon.NewRNG(seed*1000003 + int64(idx))
	c := &Case{ID: idx}
	var names []string
	c.Keystores, names = genKeystores(r)
	c.Router.Realms = []RealmCfg{genRealm(r, "r1", names)}
	if r.Chance(1, 3) {
		c.Router.Realms = append(c.Router.Realms, genRealm(r, "r2", names))
	}
	if r.Chance(1, 2) {
		t := genRealm(r, "", names)
		c.Router.Template = &t
	}
	n := 1
	if r.Chance(1, 3) {
		n = 2
	}
	for i := 0; i < n; i++ {
		c.Handshakes = append(c.Handshakes, genHS(r, c))
	}
	if n == 2 && r.Chance(2, 3) {
		// make the second handshake a replay attempt of the first
		h0 := c.Handshakes[0]
		if len(h0.Arrivals) >= 2 && h0.Arrivals[0].M[0] == "hello" {
			h0.Arrivals[1] = Arrival{D: 0, M: []any{"auth", map[string]any{"resp": "valid"}}}
			h0.Arrivals[0].D = 0
			h0.Blocked = false
			h1 := HS{Local: h0.Local, Rep: h0.Rep + 1, Transport: h0.Transport}
			h1.Arrivals = []Arrival{h0.Arrivals[0], {D: 0, M: []any{"auth", map[string]any{"resp": "replay"}}}}
			c.Handshakes[0], c.Handshakes[1] = h0, h1
		}
	}
	last := &c.Handshakes[len(c.Handshakes)-1]
	if r.Chance(1, 30) && !last.Blocked {
		last.RemoveRealm = true
	} else if r.Chance(1, 40) {
		last.AfterClose = true
	}
	return c
}

// directedCases are the scenarios every run contains, whatever the seed: the
// witnesses of the Lean `_full_fails` theorems and the textbook handshakes.
func directedCases() []*Case {
	roles := map[string]any{"caller": map[string]any{}}
	mk := func(tag string, auths []AuthCfg, reqLocal bool, hss ...HS) *Case {
		c := &Case{Tag: tag}
		c.Keystores = map[string]*KSCfg{"ks1": {Provider: "static", Users: stdUsers()}}
		c.Router.Realms = []RealmCfg{{URI: "r1", Auths: append([]AuthCfg{observerAuth()}, auths...), RequireLocalAuth: reqLocal}}
		c.Handshakes = hss
		return c
	}
	hello := func(methods []any, authid string, extra map[string]any) Arrival {
		d := map[string]any{"roles": roles, "authmethods": methods, "authid": authid}
		for k, v := range extra {
			d[k] = v
		}
		return Arrival{M: []any{"hello", "r1", d}}
	}
	auth := func(kind string) Arrival { return Arrival{M: []any{"auth", map[string]any{"resp": kind}}} }
	smuggle := map[string]any{"session": 1234.0, "authrole": "admin", "authmethod": "local", "authprovider": "evil"}
	var cs []*Case
	for _, m := range []string{"ticket", "wampcra", "cryptosign"} {
		a := []AuthCfg{{Kind: m, KS: "ks1"}}
		for _, who := range []string{"alice", "bob"} {
			// regression replay of F7 (fixed): a valid handshake, then the recorded response replayed
			// in a second one, which must be refused for wampcra and cryptosign
			cs = append(cs, mk("replay-"+m+"-"+who, a, false,
				HS{Rep: 1, Arrivals: []Arrival{hello([]any{m}, who, nil), auth("valid")}},
				HS{Rep: 2, Arrivals: []Arrival{hello([]any{m}, who, smuggle), auth("replay")}}))
		}
		cs = append(cs, mk("valid-smuggle-"+m, a, false,
			HS{Rep: 3, Arrivals: []Arrival{hello([]any{m}, "alice", smuggle), auth("valid")}}))
		cs = append(cs, mk("wrongkey-"+m, a, false,
			HS{Rep: 4, Arrivals: []Arrival{hello([]any{m}, "alice", nil), auth("wrongkey")}}))
		// nothing the CHALLENGE itself publishes is a key: also not for an authid the key store does not
		// know (the authenticator then checks against a throw-away key) or whose key is empty
		for _, who := range []string{"alice", "ghost", "erin"} {
			cs = append(cs, mk("pubkey-"+m+"-"+who, a, false,
				HS{Rep: 4, Arrivals: []Arrival{hello([]any{m}, who, nil), auth("pubkey")}}))
		}
		cs = append(cs, mk("timeout-"+m, a, false,
			HS{Rep: 5, Arrivals: []Arrival{hello([]any{m}, "alice", nil), {D: 60001, M: []any{"auth", map[string]any{"resp": "valid"}}}}}))
		cs = append(cs, mk("intime-"+m, a, false,
			HS{Rep: 5, Arrivals: []Arrival{hello([]any{m}, "alice", nil), {D: 59999, M: []any{"auth", map[string]any{"resp": "valid"}}}}}))
	}
	// every response kind against every challenge method, for a plain and for a salted user
	for _, m := range []string{"ticket", "wampcra", "cryptosign"} {
		a := []AuthCfg{{Kind: m, KS: "ks1"}}
		for _, k := range []string{"prefix", "longer", "empty", "tampered", "garbage", "hexofb64", "short", "upper"} {
			for _, who := range []string{"alice", "bob"} {
				cs = append(cs, mk("resp-"+k+"-"+m+"-"+who, a, false,
					HS{Rep: 20, Arrivals: []Arrival{hello([]any{m}, who, nil), auth(k)}}))
			}
		}
		// users the key store knows only partly, or not at all
		for _, who := range []string{"carol", "dave", "erin", "frank", "mallory"} {
			for _, k := range []string{"valid", "empty"} {
				cs = append(cs, mk("user-"+who+"-"+k+"-"+m, a, false,
					HS{Rep: 21, Arrivals: []Arrival{hello([]any{m}, who, nil), auth(k)}}))
			}
		}
	}
	// local bypass with smuggled identity (the authid survives), and with RequireLocalAuth
	cs = append(cs, mk("local-bypass-smuggle", nil, false,
		HS{Local: true, Rep: 6, Arrivals: []Arrival{hello([]any{"ticket"}, "root", smuggle)}}))
	cs = append(cs, mk("local-requireauth", []AuthCfg{{Kind: "ticket", KS: "ks1"}}, true,
		HS{Local: true, Rep: 7, Arrivals: []Arrival{hello([]any{"ticket"}, "alice", smuggle), auth("valid")}}))
	cs = append(cs, mk("local-requireauth-none", nil, true,
		HS{Local: true, Rep: 7, Arrivals: []Arrival{hello([]any{"ticket"}, "alice", smuggle), auth("valid")}}))
	// regression replay of C09-HELLO-IDENTITY (fixed): a custom authenticator that leaves authrole /
	// authprovider unset; the smuggled values must not be recorded
	cs = append(cs, mk("partial-authenticator", []AuthCfg{{Kind: "custom", Method: "partial", OK: map[string]any{"authid": "partial-user"}}}, false,
		HS{Rep: 8, Arrivals: []Arrival{hello([]any{"partial"}, "x", smuggle)}}))
	// anonymous, default and explicit
	an := mk("anonymous-default", nil, false, HS{Rep: 9, Arrivals: []Arrival{{M: []any{"hello", "r1", map[string]any{"roles": roles, "authrole": "admin", "authid": "me"}}}}})
	an.Router.Realms[0].AnonymousAuth = true
	cs = append(cs, an)
	cs = append(cs, mk("first-method-wins", []AuthCfg{{Kind: "ticket", KS: "ks1"}, {Kind: "wampcra", KS: "ks1"}, {Kind: "anonymous", Role: "guest"}}, false,
		HS{Rep: 10, Arrivals: []Arrival{hello([]any{"nope", 3.0, "", "wampcra", "anonymous", "ticket"}, "alice", nil), auth("valid")}}))
	cs = append(cs, mk("hello-late", []AuthCfg{{Kind: "anonymous", Role: "guest"}}, false,
		HS{Rep: 11, Arrivals: []Arrival{{D: 5001, M: hello(nil, "a", nil).M}}},
		HS{Rep: 11, Arrivals: []Arrival{{D: 4999, M: hello(nil, "a", nil).M}}}))
	// template: created, kept, and created even when the client is refused afterwards
	tc := mk("template", nil, false,
		HS{Rep: 12, Arrivals: []Arrival{{M: []any{"hello", "t.new", map[string]any{"authmethods": []any{"anonymous"}}}}}},
		HS{Rep: 12, Arrivals: []Arrival{{M: []any{"hello", "t.new", map[string]any{"roles": roles}}}}})
	tc.Router.Template = &RealmCfg{Auths: []AuthCfg{observerAuth()}, AnonymousAuth: true}
	cs = append(cs, tc)
	cs = append(cs, mk("after-close", []AuthCfg{{Kind: "anonymous", Role: "guest"}}, false,
		HS{Rep: 13, Arrivals: []Arrival{hello(nil, "a", nil)}},
		HS{Rep: 13, AfterClose: true, Arrivals: []Arrival{hello(nil, "a", nil)}}))
	for i, c := range cs {
		c.ID = -1 - i
	}
	return cs
}
