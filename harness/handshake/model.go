package handshake

import (
	"bytes"
	"encoding/json"
	"fmt"
	"strings"

	"verif/harness/hcommon"
)

// ModelRes is one handshake as the Lean model decides it.
type ModelRes struct {
	Outcome  string         `json:"outcome"`
	Reason   string         `json:"reason"`
	Why      string         `json:"why"`
	SID      json.Number    `json:"sid"`
	Welcome  map[string]any `json:"welcome"`
	Session  map[string]any `json:"session"`
	Observed map[string]any `json:"observed"`
	Sent     [][]any        `json:"sent"`
	Joined   bool           `json:"joined"`
	Created  bool           `json:"created"`
	Rest     int            `json:"rest"`
}

// driverLine renders a case with the observed concrete arrivals and oracle answers.
func driverLine(cr *CaseResult) string {
	var hss []map[string]any
	for i, hs := range cr.Case.Handshakes {
		h := map[string]any{"local": hs.Local, "blocked": hs.Blocked, "routerClosed": hs.AfterClose}
		if hs.Transport != nil {
			h["transport"] = hs.Transport
		}
		if i < len(cr.Obs) {
			h["arrivals"] = cr.Obs[i].Arrivals
			h["oracle"] = cr.Obs[i].Oracle
			h["realmClosing"] = cr.Obs[i].RealmClosing
		} else {
			h["arrivals"] = hs.Arrivals
		}
		hss = append(hss, h)
	}
	b, _ := json.Marshal(map[string]any{"router": cr.Case.Router, "keystores": cr.Case.Keystores, "handshakes": hss})
	return string(b)
}

// runModel evaluates the cases with one driver process.
func runModel(crs []CaseResult) ([][]ModelRes, error) {
	lines := make([]string, len(crs))
	for i := range crs {
		lines[i] = driverLine(&crs[i])
	}
	if len(lines) == 0 {
		return nil, nil
	}
	out, err := hcommon.RunDriver("auth", lines)
	if err != nil {
		return nil, err
	}
	if len(out) != len(lines) {
		return nil, fmt.Errorf("model driver answered %d lines for %d inputs", len(out), len(lines))
	}
	res := make([][]ModelRes, len(crs))
	for i, l := range out {
		var r struct {
			Results []ModelRes `json:"results"`
			Err     string     `json:"err"`
		}
		dec := json.NewDecoder(strings.NewReader(l))
		dec.UseNumber()
		if err := dec.Decode(&r); err != nil {
			return nil, fmt.Errorf("model line %q: %v", l, err)
		}
		if r.Err != "" {
			return nil, fmt.Errorf("model driver: %s", r.Err)
		}
		res[i] = r.Results
	}
	return res, nil
}

// key renders any JSON-able value canonically (sorted keys, numbers by value).
func key(v any) string {
	b, _ := json.Marshal(v)
	var x any
	dec := json.NewDecoder(bytes.NewReader(b))
	dec.UseNumber()
	dec.Decode(&x)
	b, _ = json.Marshal(x)
	return string(b)
}

// whyOf maps AttachClient's return value to the model's branch tag.
func whyOf(o *Obs) string {
	e := o.AttachErr
	if !o.Returned {
		return "not-returned"
	}
	if e == "" {
		return ""
	}
	auth := func(s string) string {
		switch {
		case s == "no authentication supplied":
			return "noAuthSupplied"
		case s == "could not authenticate with any method":
			return "noAuthenticator"
		case s == "missing authid":
			return "missingAuthid"
		case s == "no such user" || s == "no role":
			return "authRoleError"
		case s == "failed to retrieve key":
			return "keyError"
		case strings.HasPrefix(s, "cannot send challenge to client"):
			return "challengeBlocked"
		case s == "timeout waiting for message":
			return "recvTimeout"
		case s == "receive channel closed":
			return "recvClosed"
		case strings.HasPrefix(s, "unexpected "):
			return "unexpectedMsg"
		case s == "invalid ticket":
			return "invalidTicket"
		case s == "invalid signature":
			return "invalidSignature"
		case strings.HasPrefix(s, "encoding/hex:"):
			return "sigDecode"
		case strings.HasPrefix(s, "signed message has invalid length"):
			return "sigLength"
		case s == "onwelcome refused":
			return "onWelcomeError"
		case s == "custom refused":
			return "customError"
		case strings.HasPrefix(s, "failed to get nonce"):
			return "nonceError"
		}
		return "auth?:" + s
	}
	switch {
	case e == "did not receive HELLO: timeout waiting for message":
		return "helloTimeout"
	case e == "did not receive HELLO: receive channel closed":
		return "helloClosed"
	case strings.HasPrefix(e, "expected HELLO, received "):
		code := 0
		if len(o.Arrivals) > 0 {
			switch o.Arrivals[0].M[0] {
			case "auth":
				code = 5
			case "other":
				if f, ok := o.Arrivals[0].M[1].(float64); ok {
					code = int(f)
				}
			}
		}
		return fmt.Sprintf("notHello:%d", code)
	case e == "no realm requested":
		return "emptyRealm"
	case strings.HasPrefix(e, "router is closing"):
		return "routerClosing"
	case strings.HasPrefix(e, "router is closed"):
		return "routerClosed"
	case strings.HasPrefix(e, "no realm \""):
		return "noSuchRealm"
	case strings.HasPrefix(e, "failed to create realm"):
		return "realmCreateFailed"
	case e == "client did not announce any supported roles":
		return "noRoles"
	case strings.HasPrefix(e, "authentication error: "):
		return auth(strings.TrimPrefix(e, "authentication error: "))
	case e == "realm closed":
		return "realmClosing"
	}
	return "?:" + e
}

// implView is the implementation's handshake in the model's vocabulary.
func implView(o *Obs) map[string]any {
	v := map[string]any{}
	var sent [][]any
	outcome := "dropped"
	for _, s := range o.Sent {
		switch s[0] {
		case "challenge":
			sent = append(sent, s)
		case "abort":
			sent = append(sent, []any{"abort", s[1]})
			outcome = "abort"
			v["reason"] = s[1]
		case "welcome":
			d, _ := s[2].(map[string]any)
			d2 := map[string]any{}
			for k, x := range d {
				d2[k] = x
			}
			if r, ok := d2["roles"].(map[string]any); ok && r["broker"] != nil && r["dealer"] != nil && len(r) == 2 {
				d2["roles"] = "$roles"
			}
			sent = append(sent, []any{"welcome", s[1], d2})
			outcome = "welcome"
			v["welcome"] = d2
		default:
			sent = append(sent, s)
		}
	}
	if sent == nil {
		sent = [][]any{}
	}
	if outcome == "dropped" && o.Returned && o.AttachErr == "" {
		outcome = "welcome" // attached; the WELCOME itself was dropped at a full queue
	}
	v["outcome"] = outcome
	v["sent"] = sent
	v["why"] = whyOf(o)
	return v
}

func modelView(m *ModelRes) map[string]any {
	v := map[string]any{"outcome": m.Outcome, "sent": m.Sent, "why": m.Why}
	if m.Sent == nil {
		v["sent"] = [][]any{}
	}
	if m.Outcome == "abort" {
		v["reason"] = m.Reason
	}
	if m.Outcome == "welcome" {
		v["welcome"] = m.Welcome
	}
	return v
}

// compare returns the differences between implementation and model on one handshake.
func compare(o *Obs, m *ModelRes) []string {
	var diffs []string
	iv, mv := implView(o), modelView(m)
	for _, k := range []string{"outcome", "reason", "why", "sent", "welcome"} {
		if k == "welcome" && iv[k] == nil && iv["outcome"] == "welcome" {
			continue // WELCOME was dropped: its details are only visible through the session
		}
		if key(iv[k]) != key(mv[k]) {
			diffs = append(diffs, fmt.Sprintf("%s: impl %s model %s", k, key(iv[k]), key(mv[k])))
		}
	}
	if m.Outcome != "welcome" && o.AttachErr == "" && o.Returned {
		diffs = append(diffs, "AttachClient returned nil but the model does not welcome")
	}
	if m.Outcome == "dropped" && !o.Closed {
		diffs = append(diffs, "model: peer closed without ABORT; impl: receive channel still open")
	}
	// recorded session details
	if m.Outcome == "welcome" && iv["outcome"] == "welcome" {
		if o.Got != nil {
			if key(o.Got) != key(m.Observed) {
				diffs = append(diffs, fmt.Sprintf("session.get: impl %s model %s", key(o.Got), key(m.Observed)))
			}
		} else {
			diffs = append(diffs, "session.get gave no details: "+o.GotErr)
		}
		if o.ObservedPre {
			if len(o.OnJoin) != 1 {
				diffs = append(diffs, fmt.Sprintf("on_join: %d events for one join", len(o.OnJoin)))
			} else if key(o.OnJoin[0]) != key(m.Observed) {
				diffs = append(diffs, fmt.Sprintf("on_join: impl %s model %s", key(o.OnJoin[0]), key(m.Observed)))
			}
		}
	}
	// joined
	if o.ListOK {
		want := 0
		if m.Joined {
			want = 1
		}
		if len(o.NewSessions) != want {
			diffs = append(diffs, fmt.Sprintf("joined: impl lists %d new sessions, model joined=%v", len(o.NewSessions), m.Joined))
		}
	}
	if m.Outcome != "welcome" && len(o.OnJoin) != 0 {
		diffs = append(diffs, "on_join published although the model does not join")
	}
	// realm creation
	if len(o.Arrivals) > 0 && o.Arrivals[0].M[0] == "hello" && !o.RealmClosing {
		created := o.ExistsAfter && !o.ExistsBefore
		if created != m.Created {
			diffs = append(diffs, fmt.Sprintf("realm created: impl %v model %v", created, m.Created))
		}
		if o.ExistsBefore && !o.ExistsAfter {
			diffs = append(diffs, "realm vanished")
		}
	}
	// consumed
	if len(o.Arrivals)-o.Consumed != m.Rest && m.Outcome != "welcome" {
		diffs = append(diffs, fmt.Sprintf("unread client actions: impl %d model %d", len(o.Arrivals)-o.Consumed, m.Rest))
	}
	return diffs
}
