package handshake

import (
	"crypto/hmac"
	"crypto/sha256"
	"encoding/base64"
	"encoding/hex"
	"fmt"
	"strconv"

	"golang.org/x/crypto/nacl/sign"
)

// Finding ids attached to spec violations that are known, open defects of the tree.
//
// F7 (cryptosign accepted a response signed for another challenge) and C09-HELLO-IDENTITY (identity
// keys of HELLO survived when the authenticator omitted them) are fixed: their witnesses stay in
// directedCases as regression replays and a recurrence is an ordinary spec violation.
const (
	FindingLocalAuthid = "C09-LOCAL-AUTHID" // local bypass records the authid the client wrote into HELLO
)

// Violation is one sentence of the property found false on the implementation's observations.
type Violation struct {
	Text    string
	Finding string
}

var identityKeys = []string{"authid", "authrole", "authmethod", "authprovider"}

// specRoles: HELLO.Details.roles is a dictionary naming at least one client role.
func specRoles(details map[string]any) bool {
	roles, ok := details["roles"].(map[string]any)
	if !ok {
		return false
	}
	for _, r := range []string{"publisher", "subscriber", "callee", "caller"} {
		if _, ok := roles[r]; ok {
			return true
		}
	}
	return false
}

// specOffered: the authentication methods the client offers, in its order.
func specOffered(details map[string]any) []string {
	var out []string
	l, _ := details["authmethods"].([]any)
	if len(l) == 0 {
		return []string{"anonymous"}
	}
	for _, x := range l {
		if s, ok := x.(string); ok && s != "" {
			out = append(out, s)
		}
	}
	return out
}

// specAuthenticators: method -> configuration, as the realm was configured.
func specAuthenticators(rc *RealmCfg) map[string]AuthCfg {
	m := map[string]AuthCfg{}
	for _, a := range rc.Auths {
		name := a.Kind
		if a.Kind == "custom" {
			name = a.Method
		}
		m[name] = a
	}
	if rc.AnonymousAuth {
		if _, ok := m["anonymous"]; !ok {
			m["anonymous"] = AuthCfg{Kind: "anonymous", Role: "anonymous"}
		}
	}
	return m
}

func inList(xs []string, x string) bool {
	for _, y := range xs {
		if y == x {
			return true
		}
	}
	return false
}

// checkSpec evaluates the property's sentences on what the implementation did.
func checkSpec(c *Case, created map[string]bool, hs *HS, o *Obs) []Violation {
	var vs []Violation
	bad := func(finding, f string, a ...any) {
		v := Violation{fmt.Sprintf(f, a...), finding}
		for _, o := range vs {
			if o == v {
				return // the same sentence fails in session.get and in on_join
			}
		}
		vs = append(vs, v)
	}

	var welcome map[string]any
	var sid uint64
	// attached without WELCOME: the handler's non-blocking send found the client's queue full
	welcomed := o.Returned && o.AttachErr == ""
	welcomeSeen := false
	if welcomed {
		sid = o.SIDFromList
	}
	lastIsAbort := false
	var chalMethod, chal string
	for _, s := range o.Sent {
		lastIsAbort = false
		switch s[0] {
		case "welcome":
			welcomed = true
			welcomeSeen = true
			sid, _ = s[1].(uint64)
			welcome, _ = s[2].(map[string]any)
		case "abort":
			lastIsAbort = true
		case "challenge":
			chalMethod, _ = s[1].(string)
			if ex, ok := s[2].(map[string]any); ok {
				chal, _ = ex["challenge"].(string)
			}
		}
	}
	realm, details, isHello := "", map[string]any(nil), false
	if len(o.Arrivals) > 0 {
		m := o.Arrivals[0].M
		if len(m) >= 3 && m[0] == "hello" {
			realm, _ = m[1].(string)
			details, _ = m[2].(map[string]any)
			isHello = true
		}
	}

	// ---- "otherwise it is sent ABORT, is never attached and nothing it sends is routed"
	if !welcomed {
		received := len(o.Arrivals) > 0 && o.Arrivals[0].D < 5000 && o.Arrivals[0].M[0] != "close"
		if received && !lastIsAbort {
			bad("", "refused client did not get ABORT as the last message")
		}
		if !o.Closed {
			bad("", "refused client's connection was not closed")
		}
		if len(o.NewSessions) != 0 {
			bad("", "refused client appears in wamp.session.list: %v", o.NewSessions)
		}
		if len(o.OnJoin) != 0 {
			bad("", "wamp.session.on_join published for a refused client")
		}
		if o.ProbeAccepted || o.ProbeEvents != 0 {
			bad("", "a message of a refused client was taken by the router (accepted=%v events=%d)", o.ProbeAccepted, o.ProbeEvents)
		}
		if o.AttachErr == "" && o.Returned {
			bad("", "AttachClient reported success without WELCOME")
		}
		return vs
	}

	// ---- "a client is sent WELCOME and attached only if ..."
	if !isHello || o.Arrivals[0].D >= 5000 {
		bad("", "WELCOME although the first message was not a timely HELLO")
		return vs
	}
	if realm == "" {
		bad("", "WELCOME for an empty realm")
	}
	var rc *RealmCfg
	for i := range c.Router.Realms {
		if c.Router.Realms[i].URI == realm {
			rc = &c.Router.Realms[i]
		}
	}
	if rc == nil {
		if c.Router.Template == nil {
			bad("", "WELCOME for a realm that does not exist and no template")
			return vs
		}
		rc = c.Router.Template
	}
	if !specRoles(details) {
		bad("", "WELCOME although no client role was announced")
	}
	if o.ListOK && !(len(o.NewSessions) == 1 && o.NewSessions[0] == sid) {
		bad("", "welcomed session %d is not exactly the new entry of wamp.session.list %v", sid, o.NewSessions)
	}

	helloAuthid, _ := details["authid"].(string)
	expect := map[string]any{} // identity values the router / authenticator assigns
	bypass := hs.Local && !rc.RequireLocalAuth
	if bypass {
		expect["authrole"], expect["authmethod"], expect["authprovider"] = "trusted", "local", "static"
	} else {
		auths := specAuthenticators(rc)
		var chosen *AuthCfg
		method := ""
		for _, m := range specOffered(details) {
			if a, ok := auths[m]; ok {
				chosen, method = &a, m
				break
			}
		}
		if chosen == nil {
			bad("", "WELCOME although no offered method %v has a configured authenticator", specOffered(details))
			return vs
		}
		if welcomeSeen && welcome["authmethod"] != method {
			bad("", "WELCOME says authmethod %v, the first offered method with an authenticator is %q", welcome["authmethod"], method)
		}
		expect["authmethod"] = method
		ks := c.Keystores[chosen.KS]
		already := false
		if ks != nil && ks.Bypass != nil {
			already = inList(ks.Bypass.Already, helloAuthid)
		}
		// the AUTHENTICATE the router read (the first action after HELLO, if it was one)
		sig, haveSig := "", false
		if len(o.Arrivals) > 1 && o.Arrivals[1].M[0] == "auth" && o.Consumed >= 2 {
			sig, _ = o.Arrivals[1].M[1].(string)
			haveSig = true
		}
		var key []byte
		haveKey := false
		if ks != nil {
			if k, err := (&memKS{ks}).AuthKey(helloAuthid, chosen.Kind); err == nil && k != nil {
				key, haveKey = k, true
			}
		}
		switch chosen.Kind {
		case "anonymous":
			expect["authrole"], expect["authprovider"] = chosen.Role, "static"
		case "custom":
			if chosen.OK == nil {
				bad("", "WELCOME although the authenticator refuses everybody")
			}
			for _, k := range identityKeys {
				if v, ok := chosen.OK[k]; ok && k != "authmethod" {
					expect[k] = v
				}
			}
		case "ticket", "wampcra", "cryptosign":
			if ks == nil || helloAuthid == "" {
				bad("", "WELCOME by %s without an authid / key store", chosen.Kind)
				return vs
			}
			role := ""
			if r, err := (&memKS{ks}).AuthRole(helloAuthid); err == nil {
				role = r
			} else if chosen.Kind == "wampcra" {
				role = "user"
			} else if chosen.Kind == "cryptosign" {
				bad("", "WELCOME by cryptosign although the key store has no role for %q", helloAuthid)
			}
			expect["authid"], expect["authrole"], expect["authprovider"] = helloAuthid, role, ks.Provider
			if ks.Bypass != nil && (already || chosen.Kind != "cryptosign") {
				if ks.Bypass.OnWelcomeErr {
					bad("", "WELCOME although the key store's OnWelcome refused")
				}
				for k, v := range ks.Bypass.OnWelcomeSet {
					if k != "authmethod" {
						expect[k] = v
					}
				}
			}
			if already {
				break // the documented BypassKeyStore shortcut
			}
			if !haveSig {
				bad("", "WELCOME by %s without an AUTHENTICATE message", chosen.Kind)
				break
			}
			if chalMethod != chosen.Kind {
				bad("", "WELCOME by %s but the CHALLENGE issued was for %q", chosen.Kind, chalMethod)
			}
			switch chosen.Kind {
			case "ticket":
				if !haveKey || sig != string(key) {
					bad("", "WELCOME although the response is not the stored ticket")
				}
			case "wampcra":
				sb, err := base64.StdEncoding.DecodeString(sig)
				h := hmac.New(sha256.New, key)
				h.Write([]byte(chal))
				if !haveKey || err != nil || !hmac.Equal(sb, h.Sum(nil)) {
					bad("", "WELCOME although the response is not HMAC(key, challenge of this handshake) (response computed for: %s)", o.RespFor)
				}
			case "cryptosign":
				sb, err := hex.DecodeString(sig)
				pk := pad32(key)
				var msg []byte
				ok := false
				if err == nil && len(sb) == 96 {
					msg, ok = sign.Open(nil, sb, &pk)
				}
				if !haveKey && !ok {
					bad("", "WELCOME although there is no verifying key")
				} else if !ok {
					bad("", "WELCOME although the response does not verify under the stored public key")
				} else if hex.EncodeToString(msg) != chal {
					bad("", "WELCOME although the signed message %x is not the challenge %s issued in this handshake (response computed for: %s challenge)",
						msg[:8], chal[:min(16, len(chal))], o.RespFor)
				}
			}
		}
	}

	// ---- "the session id, authid, authrole, authmethod and authprovider recorded for a session
	//       and shown to others always come from the router and the authenticator"
	views := []map[string]any{}
	if o.Got != nil {
		views = append(views, o.Got)
	} else {
		bad("", "wamp.session.get has no details for the welcomed session: %s", o.GotErr)
	}
	views = append(views, o.OnJoin...)
	for _, got := range views {
		if key(got["session"]) != key(sid) {
			bad("", "recorded session id %v differs from WELCOME's %d", got["session"], sid)
		}
		for _, k := range identityKeys {
			want, fixed := expect[k]
			if fixed {
				if key(got[k]) != key(want) {
					note := ""
					if hv, smuggled := details[k]; smuggled && key(hv) == key(got[k]) {
						note = " (the recorded value is the one the client wrote into HELLO)"
					}
					bad("", "recorded %s is %s, the router/authenticator assigned %s%s", k, key(got[k]), key(want), note)
				}
				continue
			}
			// no fixed expectation: the value must at least not be the client's
			hv, smuggled := details[k]
			if !smuggled {
				continue
			}
			if gv, ok := got[k]; ok && key(gv) == key(hv) {
				if bypass && k == "authid" {
					if s, _ := hv.(string); s != "" {
						bad(FindingLocalAuthid, "recorded authid %s is the one the client wrote into HELLO (local bypass)", key(gv))
					}
					continue
				}
				if k == "authid" {
					if _, err := strconv.ParseUint(fmt.Sprint(gv), 16, 64); err == nil {
						continue // a generated id that happens to look the same
					}
				}
				bad("", "recorded %s is %s: the value the client wrote into HELLO (the authenticator sets none)", k, key(gv))
			}
		}
		if _, ok := got["roles"]; ok {
			bad("", "recorded details contain roles")
		}
		if _, ok := got["authmethods"]; ok {
			bad("", "recorded details contain authmethods")
		}
		if t, ok := got["transport"].(map[string]any); ok {
			if a, ok := t["auth"].(map[string]any); ok && a != nil && hs.Transport != nil {
				bad("", "transport.auth handed to the router is shown to other sessions")
			}
		}
	}
	return vs
}
