package handshake

import (
	"bufio"
	"encoding/json"
	"flag"
	"fmt"
	"os"
	"os/exec"
	"path/filepath"
	"runtime"
	"sort"
	"strings"
	"sync"
	"testing"
	"testing/synctest"
	"time"

	"verif/harness/hcommon"
)

var (
	flagSeed     = flag.Int64("seed", 1, "VERIF_SEED")
	flagTier     = flag.String("tier", "quick", "quick|thorough")
	flagOut      = flag.String("out", "", "output directory")
	flagProperty = flag.String("property", "C09", "property id")
	flagReplay   = flag.String("replay", "", "replay file")
	flagN        = flag.Int("n", 0, "number of random cases (0 = tier default)")
	flagBatch    = flag.String("batch", "", "child: batch request file")
	flagResult   = flag.String("result", "", "child: result file")
)

type batchReq struct {
	Seed   int64  `json:"seed"`
	First  int    `json:"first"`
	Count  int    `json:"count"`
	Replay []Case `json:"replay,omitempty"`
}

func runCaseInBubble(t *testing.T, c *Case) (res CaseResult) {
	// the case travels through JSON so that generated and replayed cases look alike
	b, _ := json.Marshal(c)
	var cc Case
	json.Unmarshal(b, &cc)
	defer func() {
		// Goroutines of the router still blocked after Router.Close keep the bubble from ending;
		// the observations are complete by then. (Seen on trees before "fix: stop the broker and
		// dealer of a realm that could not be created": a template realm with an invalid URI left
		// its broker and dealer goroutines behind.)
		if p := recover(); p != nil {
			if strings.Contains(fmt.Sprint(p), "blocked goroutines remain") {
				res.Leaked = true
				return
			}
			panic(p)
		}
	}()
	synctest.Test(t, func(t *testing.T) {
		res = runCase(&cc)
	})
	return res
}

// TestChild runs a batch in this process and streams the results.
func TestChild(t *testing.T) {
	if *flagBatch == "" {
		t.Skip("child only")
	}
	var req batchReq
	b, err := os.ReadFile(*flagBatch)
	if err != nil {
		t.Fatal(err)
	}
	if err := json.Unmarshal(b, &req); err != nil {
		t.Fatal(err)
	}
	f, err := os.Create(*flagResult)
	if err != nil {
		t.Fatal(err)
	}
	defer f.Close()
	enc := json.NewEncoder(f)
	emit := func(r CaseResult) { enc.Encode(r); f.Sync() }
	if len(req.Replay) > 0 {
		for i := range req.Replay {
			emit(CaseResult{Started: true, Case: Case{ID: req.Replay[i].ID}})
			emit(runCaseInBubble(t, &req.Replay[i]))
		}
		return
	}
	for i := 0; i < req.Count; i++ {
		emit(CaseResult{Started: true, Case: Case{ID: req.First + i}})
		emit(runCaseInBubble(t, genCase(req.Seed, req.First+i)))
	}
}

// runChild executes a batch in a child process: a panic of the implementation
// kills only the child. Returns the results and, if the child died, the id of
// the case that was running and the tail of its output.
func runChild(dir, tag string, req batchReq) (results []CaseResult, crashedID int, crashed bool, tail string) {
	bf := filepath.Join(dir, "batch-"+tag+".json")
	rf := filepath.Join(dir, "result-"+tag+".jsonl")
	b, _ := json.Marshal(req)
	os.WriteFile(bf, b, 0o644)
	cmd := exec.Command(os.Args[0], "-test.run", "^TestChild$", "-test.timeout", "0", "-batch", bf, "-result", rf)
	var out strings.Builder
	cmd.Stderr = &out
	cmd.Stdout = &out
	done := make(chan error, 1)
	if err := cmd.Start(); err != nil {
		return nil, req.First, true, "cannot start child: " + err.Error()
	}
	go func() { done <- cmd.Wait() }()
	var err error
	select {
	case err = <-done:
	case <-time.After(10 * time.Minute):
		cmd.Process.Kill()
		err = fmt.Errorf("child timed out (implementation wedged?)")
		<-done
	}
	started, have := 0, false
	if f, e := os.Open(rf); e == nil {
		sc := bufio.NewScanner(f)
		sc.Buffer(make([]byte, 1<<20), 1<<28)
		for sc.Scan() {
			var r CaseResult
			dec := json.NewDecoder(strings.NewReader(sc.Text()))
			if dec.Decode(&r) != nil {
				continue
			}
			if r.Started {
				started, have = r.Case.ID, true
				continue
			}
			have = false
			results = append(results, r)
		}
		f.Close()
	}
	os.Remove(bf)
	os.Remove(rf)
	if err != nil {
		t := out.String()
		if len(t) > 3000 {
			t = t[len(t)-3000:]
		}
		if !have {
			started = req.First + len(results)
		}
		return results, started, true, err.Error() + "\n" + t
	}
	return results, 0, false, ""
}

// fixObs restores the types JSON erased (uint64 ids) in observations read back from a child.
func fixObs(o *Obs) {
	for _, s := range o.Sent {
		if len(s) >= 2 && s[0] == "welcome" {
			if f, ok := s[1].(float64); ok {
				s[1] = uint64(f)
			}
		}
	}
	if f, ok := o.Oracle["sid"].(float64); ok {
		o.Oracle["sid"] = uint64(f)
	}
}

func shapeOf(c *Case, i int, o *Obs, m *ModelRes) (string, bool) {
	hs := c.Handshakes[i]
	var b strings.Builder
	fmt.Fprintf(&b, "local=%v;", hs.Local)
	nontrivial := false
	if len(o.Arrivals) > 0 && o.Arrivals[0].M[0] == "hello" {
		realm, _ := o.Arrivals[0].M[1].(string)
		d, _ := o.Arrivals[0].M[2].(map[string]any)
		var rc *RealmCfg
		for j := range c.Router.Realms {
			if c.Router.Realms[j].URI == realm {
				rc = &c.Router.Realms[j]
			}
		}
		kind := "configured"
		if rc == nil {
			kind = "template"
			rc = c.Router.Template
		}
		if rc != nil {
			var ks []string
			for _, a := range rc.Auths {
				ks = append(ks, a.Kind+a.Method)
			}
			sort.Strings(ks)
			fmt.Fprintf(&b, "realm=%s;auths=%v;anon=%v;req=%v;", kind, ks, rc.AnonymousAuth, rc.RequireLocalAuth)
		} else {
			b.WriteString("realm=none;")
		}
		fmt.Fprintf(&b, "methods=%s;authid=%s;", key(d["authmethods"]), key(d["authid"]))
		for _, k := range []string{"session", "authrole", "authmethod", "authprovider", "transport"} {
			if _, ok := d[k]; ok {
				b.WriteString(k[:5] + ",")
			}
		}
		nontrivial = m.Why != "noRoles" && m.Why != "emptyRealm" && m.Why != "noSuchRealm" && m.Why != "realmCreateFailed"
	} else if len(o.Arrivals) > 0 {
		fmt.Fprintf(&b, "first=%v;", o.Arrivals[0].M[0])
	}
	fmt.Fprintf(&b, "resp=%v;out=%s/%s", o.RespKinds, m.Outcome, m.Why)
	return b.String(), nontrivial
}

func TestFamily(t *testing.T) {
	if *flagBatch != "" {
		t.Skip("child")
	}
	if *flagOut == "" {
		t.Skip("no -out: not run by bin/check")
	}
	n := 2500
	if *flagTier == "thorough" {
		n = 120000
	}
	if *flagN > 0 {
		n = *flagN
	}
	sum := &hcommon.Summary{Family: "handshake", Property: *flagProperty, Seed: *flagSeed, Tier: *flagTier,
		Rule: "scripted handshakes against the real router under testing/synctest (local and remote peers, every subset of " +
			"anonymous/ticket/wampcra/cryptosign authenticators, template on/off, RequireLocalAuth on/off), replayed through the Lean attach model " +
			"with the real crypto results as oracle answers; evaluations = handshakes; distinct = distinct (peer kind, realm kind, authenticator set, " +
			"offered methods, authid, smuggled keys, response kinds, outcome/branch) tuples; non-trivial = the handshake got past realm lookup and role check"}
	os.MkdirAll(*flagOut, 0o755)

	var all []CaseResult
	var crashes []hcommon.Disagreement
	var replayCases []Case
	if *flagReplay != "" {
		var rp struct {
			Broken []struct {
				Detail hcommon.Disagreement `json:"detail"`
			} `json:"broken"`
		}
		b, _ := os.ReadFile(*flagReplay)
		json.Unmarshal(b, &rp)
		for _, br := range rp.Broken {
			bb, _ := json.Marshal(br.Detail.Input)
			var c Case
			if json.Unmarshal(bb, &c) == nil && len(c.Handshakes) > 0 {
				replayCases = append(replayCases, c)
			}
		}
	} else {
		for _, c := range directedCases() {
			replayCases = append(replayCases, *c)
		}
	}
	rs, cid, crashed, tail := runChild(*flagOut, "directed", batchReq{Seed: *flagSeed, Replay: replayCases})
	all = append(all, rs...)
	if crashed {
		crashes = append(crashes, hcommon.Disagreement{Input: map[string]any{"directed_case": cid}, Impl: tail, SpecViolation: true,
			Detail: fmt.Sprintf("the implementation crashed or hung on directed/replayed case %d", cid)})
	}
	if *flagReplay == "" {
		workers := runtime.NumCPU()
		if workers > 12 {
			workers = 12
		}
		per := (n + workers - 1) / workers
		var mu sync.Mutex
		var wg sync.WaitGroup
		for wk := 0; wk < workers; wk++ {
			first, count := wk*per, per
			if first+count > n {
				count = n - first
			}
			if count <= 0 {
				continue
			}
			wg.Add(1)
			go func(wk, first, count int) {
				defer wg.Done()
				for count > 0 {
					rs, cid, crashed, tail := runChild(*flagOut, fmt.Sprint(wk), batchReq{Seed: *flagSeed, First: first, Count: count})
					mu.Lock()
					all = append(all, rs...)
					if crashed {
						crashes = append(crashes, hcommon.Disagreement{Input: genCase(*flagSeed, cid), Impl: tail, SpecViolation: true,
							Detail: fmt.Sprintf("the implementation crashed or hung while running generated case %d", cid)})
					}
					mu.Unlock()
					if !crashed {
						break
					}
					done := cid - first + 1
					first += done
					count -= done
				}
			}(wk, first, count)
		}
		wg.Wait()
	}
	sort.SliceStable(all, func(i, j int) bool { return all[i].Case.ID < all[j].Case.ID })
	for i := range all {
		for j := range all[i].Obs {
			fixObs(&all[i].Obs[j])
		}
	}

	models, err := runModel(all)
	if err != nil {
		sum.Notes = append(sum.Notes, "model driver failed: "+err.Error())
		sum.Disagreements = append(sum.Disagreements, hcommon.Disagreement{Detail: "model driver failed: " + err.Error()})
		sum.Write(*flagOut)
		return
	}
	// the regenerated facts the model runs with
	if facts, err := hcommon.RunDriver("auth", []string{`{"facts":true}`}); err == nil && len(facts) == 1 {
		sum.Notes = append(sum.Notes, "model facts: "+facts[0])
	}

	shapes := map[string]bool{}
	leaks := 0
	findings := map[string]int{}
	var corr, spec []hcommon.Disagreement
	seenFinding := map[string]bool{}
	for ci := range all {
		cr := &all[ci]
		if cr.Err != "" {
			corr = append(corr, hcommon.Disagreement{Input: cr.Case, Impl: cr.Err, Detail: fmt.Sprintf("case %d: %s", cr.Case.ID, cr.Err)})
			continue
		}
		if cr.Leaked {
			sum.Count("leak.goroutines_after_close")
			explained := false
			for _, m := range models[ci] {
				if m.Why == "realmCreateFailed" {
					explained = true
				}
			}
			if explained {
				leaks++
			} else {
				corr = append(corr, hcommon.Disagreement{Input: cr.Case, Impl: "router goroutines still blocked after Router.Close",
					Detail: fmt.Sprintf("case %d: goroutines leaked although no realm creation failed", cr.Case.ID)})
			}
		}
		created := map[string]bool{}
		for hi := range cr.Obs {
			if hi >= len(models[ci]) {
				break
			}
			o, m := &cr.Obs[hi], &models[ci][hi]
			sum.Evaluations++
			sh, nontrivial := shapeOf(&cr.Case, hi, o, m)
			if nontrivial {
				shapes[sh] = true
			}
			sum.Count("outcome." + m.Outcome)
			if m.Why != "" {
				sum.Count("why." + strings.SplitN(m.Why, ":", 2)[0])
			}
			for _, s := range o.Sent {
				sum.Count(fmt.Sprintf("sent.%v", s[0]))
				if s[0] == "welcome" {
					if d, ok := s[2].(map[string]any); ok {
						sum.Count(fmt.Sprintf("welcome.method.%v", d["authmethod"]))
					}
				}
			}
			for _, k := range o.RespKinds {
				if k != "" {
					sum.Count("resp." + k)
				}
			}
			if o.RespFor != "" {
				sum.Count("resp_for." + o.RespFor + "." + m.Outcome)
			}
			if cr.Case.Handshakes[hi].Local {
				sum.Count("peer.local")
			} else {
				sum.Count("peer.remote")
			}
			if o.Note != "" {
				sum.Count("note")
			}
			diffs := compare(o, m)
			if len(diffs) > 0 {
				sum.Count("disagreeing_handshakes")
				if len(corr) < 6 {
					corr = append(corr, hcommon.Disagreement{Input: cr.Case, Impl: map[string]any{"handshake": hi, "obs": o}, Model: m,
						Detail: fmt.Sprintf("case %d handshake %d: model and implementation differ: %s", cr.Case.ID, hi, strings.Join(diffs, " | "))})
				}
			} else {
				sum.TracesValidated++
				if cr.Case.ID >= 0 {
					sum.AddSample(map[string]any{"case": cr.Case.ID, "handshake": cr.Case.Handshakes[hi], "outcome": m.Outcome, "why": m.Why}, 3)
				}
			}
			for _, v := range checkSpec(&cr.Case, created, &cr.Case.Handshakes[hi], o) {
				sum.Count("spec_violation")
				if v.Finding != "" {
					findings[v.Finding]++
					if seenFinding[v.Finding] {
						continue
					}
					seenFinding[v.Finding] = true
				} else if len(spec) >= 6 {
					continue
				}
				one := cr.Case
				spec = append(spec, hcommon.Disagreement{Input: one, Impl: map[string]any{"handshake": hi, "obs": o}, Model: m,
					SpecViolation: true, Finding: v.Finding,
					Detail: fmt.Sprintf("case %d (%s) handshake %d: %s", cr.Case.ID, cr.Case.Tag, hi, v.Text)})
			}
			if o.ExistsAfter && !o.ExistsBefore && len(o.Arrivals) > 0 {
				if r, ok := o.Arrivals[0].M[1].(string); ok {
					created[r] = true
				}
			}
		}
	}
	if leaks > 0 {
		sum.Notes = append(sum.Notes, fmt.Sprintf("side observation (not part of C09): in %d cases a HELLO naming an invalid realm URI on a router with a RealmTemplate "+
			"left a broker and a dealer goroutine running after Router.Close (addRealm starts them before newRealm validates the URI)", leaks))
	}
	for _, f := range hcommon.SortedKeys(findings) {
		sum.Notes = append(sum.Notes, fmt.Sprintf("finding %s: %d handshakes", f, findings[f]))
	}
	sum.Disagreements = append(sum.Disagreements, spec...)
	sum.Disagreements = append(sum.Disagreements, corr...)
	sum.Disagreements = append(sum.Disagreements, crashes...)
	sum.DistinctNontrivial = len(shapes)
	if err := sum.Write(*flagOut); err != nil {
		t.Fatal(err)
	}
}
