package main

// JSON floats through an oracle, binaries and BinaryData (audit C14-a1, a2, a3, a4).
//
// The Lean JSON model with floats (Nexus/Codec/WpDJsonO.lean) takes Go's decimal printing and
// parsing of float64 as an ORACLE.  This file computes the oracle's answers with the real Go
// functions for exactly the floats / number tokens a test needs, hands them to the driver as a
// table, and checks
//
//	jsonorc.hyp   the oracle hypotheses (FloatOrc.faithfulAt, driver `jorc`) on sampled floats:
//	              ±0, subnormals, extreme exponents, integral floats around 2^52 / 2^53 / 2^63 /
//	              2^64 / 1e21, 1e-6, NaN, ±Inf, random bit patterns; plus, in Go, that parsing the
//	              printed form gives the float back for EVERY finite float and that ugorji's
//	              parser and strconv.ParseFloat agree on it;
//	jsonorc.value the real JSONSerializer.SerializeDataItem / DeserializeDataItem against
//	              Json.encO / Json.decO under the sampled oracle, on values with floats (lossy
//	              ones included: the model must predict the integer / the decode error) and
//	              []byte (base64 string on the way back);
//	jsonorc.bd    BinaryData.MarshalJSON vs Json.marshalBD, UnmarshalJSON(MarshalJSON(b)) == b,
//	              arbitrary strings into UnmarshalJSON (never panics, verdict and bytes equal
//	              Json.unmarshalBD), base64.StdEncoding.DecodeString vs B64.dec.
//
// fmt: strconv.AppendFloat with the format / precision choice of ugorji's
// jsonFloatStrconvFmtPrec64 (json.base.go:473-486), re-stated here; that the codec really prints
// so is what jsonorc.value checks.  parse: ugorji's parseFloat64_custom, reached through the
// public API by decoding the token into a float64 (jsonDecDriver.DecodeFloat64).

import (
	"encoding/base64"
	"encoding/hex"
	"fmt"
	"math"
	"reflect"
	"sort"
	"strconv"
	"strings"

	"github.com/gammazero/nexus/v3/transport/serialize"
	"github.com/ugorji/go/codec"
)

var orcJH = func() *codec.JsonHandle {
	h := &codec.JsonHandle{}
	h.MapType = reflect.TypeFor[map[string]any]()
	return h
}()

func noFrac64(fbits uint64) bool {
	if fbits == 0 {
		return true
	}
	exp := uint64(fbits>>52)&0x7FF - 1023
	return exp < 52 && fbits<<(12+exp) == 0
}

// jsonFloatFmt: the bytes EncodeFloat64 writes for a finite float.
func jsonFloatFmt(f float64) []byte {
	fm, prec := byte('f'), -1
	fbits := math.Float64bits(f)
	abs := math.Float64frombits(fbits &^ (1 << 63))
	if abs == 0 || abs == 1 {
		prec = 1
	} else if abs < 1e-6 || abs >= 1e21 {
		fm = 'e'
	} else if noFrac64(fbits) {
		prec = 1
	}
	return strconv.AppendFloat(nil, f, fm, prec, 64)
}

// jsonParseTok: parseFloat64_custom on a number token.
func jsonParseTok(tok []byte) (bits uint64, ok bool) {
	var f float64
	var err error
	if p := protect(func() { err = codec.NewDecoderBytes(tok, orcJH).Decode(&f) }); p != "" || err != nil {
		return 0, false
	}
	return math.Float64bits(f), true
}

func isNumChar(c byte) bool {
	return (c >= '0' && c <= '9') || c == '+' || c == '-' || c == '.' || c == 'e' || c == 'E'
}

type orcTab struct {
	f map[uint64][]byte
	p map[string]string // token → 16 hex | "x"
}

func newOrcTab() *orcTab { return &orcTab{map[uint64][]byte{}, map[string]string{}} }

func (t *orcTab) addTok(tok []byte) {
	if len(tok) == 0 {
		return
	}
	if _, ok := t.p[string(tok)]; ok {
		return
	}
	if b, ok := jsonParseTok(tok); ok {
		t.p[string(tok)] = fmt.Sprintf("%016x", b)
	} else {
		t.p[string(tok)] = "x"
	}
}

func (t *orcTab) addFloat(f float64) {
	if math.IsNaN(f) || math.IsInf(f, 0) {
		return
	}
	b := math.Float64bits(f)
	if _, ok := t.f[b]; ok {
		return
	}
	tok := jsonFloatFmt(f)
	t.f[b] = tok
	t.addTok(tok)
}

func (t *orcTab) addValue(v any) {
	switch x := v.(type) {
	case float64:
		t.addFloat(x)
	case float32:
		t.addFloat(float64(x))
	case []any:
		for _, e := range x {
			t.addValue(e)
		}
	case map[string]any:
		for _, e := range x {
			t.addValue(e)
		}
	}
}

// addRuns adds every maximal run of number characters of b as a token.
func (t *orcTab) addRuns(b []byte) {
	for i := 0; i < len(b); {
		if !isNumChar(b[i]) {
			i++
			continue
		}
		j := i
		for j < len(b) && isNumChar(b[j]) {
			j++
		}
		t.addTok(b[i:j])
		i = j
	}
}

func (t *orcTab) String() string {
	var es []string
	for b, tok := range t.f {
		es = append(es, fmt.Sprintf("f%016x=%s", b, hex.EncodeToString(tok)))
	}
	for tok, r := range t.p {
		es = append(es, "p"+hex.EncodeToString([]byte(tok))+"="+r)
	}
	if len(es) == 0 {
		return "-"
	}
	sort.Strings(es)
	return strings.Join(es, ";")
}

var orcSpecialFloats = []float64{0, math.Copysign(0, -1), 1, -1, 0.5, 3, -3, 1.5, 0.1, 1e-6, 9.999999999999999e-7, 1e-7, 1e21, 9.999999999999999e20, 1e20, -1e20, 1e22, 1e23,
	math.SmallestNonzeroFloat64, -math.SmallestNonzeroFloat64, 2.2250738585072014e-308, 2.225073858507201e-308, math.MaxFloat64, -math.MaxFloat64,
	1 << 52, 1<<52 - 1, 1<<52 + 1, 1<<52 - 0.5, -(1 << 52), 1 << 53, 1<<53 + 2, -(1 << 53), 1 << 62, 1 << 63, -(1 << 63), 9223372036854777856, -9223372036854777856, -1e19, 1e19,
	1 << 64, 18446744073709549568, -18446744073709549568, -(1 << 64), 1 << 65, 123456789012345678, 4503599627370497, 1e15, 1e16, 1e17, 123456.789, 1e300, 1e-300, 5e-324, 1.7976931348623157e308,
	math.NaN(), math.Inf(1), math.Inf(-1), 100, 1e6, 255, 65536, 4294967296, 0.000001, 0.0000011}

func (r *runner) genOrcFloat() float64 {
	switch r.rng.Intn(8) {
	case 0, 1:
		return orcSpecialFloats[r.rng.Intn(len(orcSpecialFloats))]
	case 2: // integral
		return float64(int64(r.rng.Uint64()>>uint(r.rng.Intn(64)))) * float64(1-2*r.rng.Intn(2))
	case 3: // integral, large: around 2^52 .. 2^70
		return math.Ldexp(float64(1+r.rng.Uint64()>>11), r.rng.Intn(20)) * float64(1-2*r.rng.Intn(2))
	case 4: // short decimals
		f, _ := strconv.ParseFloat(fmt.Sprintf("%d.%d", r.rng.Intn(100000), r.rng.Intn(1000)), 64)
		return f
	case 5: // subnormal
		return math.Float64frombits(r.rng.Uint64() >> uint(12+r.rng.Intn(52)))
	default:
		return math.Float64frombits(r.rng.Uint64())
	}
}

func (r *runner) sectionJsonOrc(n int) {
	js := &serialize.JSONSerializer{}

	// --- hypotheses ---
	for done := 0; done < n; done += 400 {
		t := newOrcTab()
		k := minInt(400, n-done)
		for i := 0; i < k; i++ {
			f := r.genOrcFloat()
			if i < len(orcSpecialFloats) && done == 0 {
				f = orcSpecialFloats[i]
			}
			r.sum.Evaluations++
			r.seen("jsonorc.hyp", fmt.Sprintf("%016x", math.Float64bits(f)))
			if math.IsNaN(f) || math.IsInf(f, 0) {
				r.sum.Count("jsonorc.hyp.nonfinite")
				b, err := js.SerializeDataItem(f)
				if err != nil || string(b) != "null" {
					r.disagree(fmt.Sprint(f), string(b), "null", true, "jsonorc: NaN/Inf is not written as null")
				}
				continue
			}
			t.addFloat(f)
			tok := jsonFloatFmt(f)
			// Go-side facts the theorems do not need but the oracle's description claims
			if b, ok := jsonParseTok(tok); !ok || b != math.Float64bits(f) {
				r.disagree(map[string]any{"float": fmt.Sprintf("%016x", math.Float64bits(f)), "printed": string(tok)}, fmt.Sprintf("%016x ok=%v", b, ok), "the float", false,
					"jsonorc: parsing the printed form of a finite float does not give the float back")
			}
			if g, err := strconv.ParseFloat(string(tok), 64); err != nil || math.Float64bits(g) != math.Float64bits(f) {
				r.disagree(string(tok), fmt.Sprint(g, err), "the float", false, "jsonorc: strconv.ParseFloat disagrees with the codec's parser on a printed float")
			}
			abs := math.Abs(f)
			switch {
			case abs >= 1<<52 && abs < 1<<64:
				r.sum.Count("jsonorc.hyp.lossy-integral")
			case abs >= 1<<64:
				r.sum.Count("jsonorc.hyp.huge")
			case abs != 0 && abs < 2.2250738585072014e-308:
				r.sum.Count("jsonorc.hyp.subnormal")
			case f == math.Trunc(f):
				r.sum.Count("jsonorc.hyp.integral-small")
			default:
				r.sum.Count("jsonorc.hyp.fractional")
			}
		}
		outs, err := hcommonRun([]string{"jorc " + t.String()})
		if err != nil || len(outs) != 1 {
			r.disagree("jorc", "", fmt.Sprintf("driver failure: %v", err), false, "jsonorc: the Lean driver did not answer (infrastructure)")
			return
		}
		if !strings.HasPrefix(outs[0], "ok ") {
			r.disagree(t.String(), "real strconv / codec", outs[0], false, "jsonorc: an oracle hypothesis (FloatOrc.faithfulAt) fails on a sampled float")
		} else {
			r.sum.Count("jsonorc.hyp.table-ok")
		}
	}

	// --- values with floats and binaries ---
	type vjob struct {
		v      any
		gob    []byte
		exact  bool
		render string
		goDec  string
	}
	var jobs []vjob
	var lines []string
	o := genOpts{binary: true, nonFinite: true, floats: true, bigInts: true, maxDepth: 3, maxChildren: 4}
	for i := 0; i < n; i++ {
		var v any
		switch i % 4 {
		case 0:
			v = r.genOrcFloat()
		case 1:
			l := genList(r.rng, o, 1)
			l = append(l, r.genOrcFloat(), genBytes(r.rng))
			v = l
		default:
			v = genValue(r.rng, o, 0)
		}
		var b []byte
		var err error
		if p := protect(func() { b, err = js.SerializeDataItem(v) }); p != "" || err != nil {
			r.disagree(render(v), fmt.Sprintf("panic=%q err=%v", p, err), "bytes", true, "jsonorc: SerializeDataItem fails on a data-model value")
			continue
		}
		g, gerr, gp := genericDecode(js, b)
		goDec := "ok " + render(g) + " -"
		if gp != "" {
			goDec = "panic " + gp
		} else if gerr != nil {
			goDec = "error"
			r.sum.Count("jsonorc.value.go-decode-error")
		}
		t := newOrcTab()
		t.addValue(v)
		t.addRuns(b)
		r.seen("jsonorc.value", render(v))
		jobs = append(jobs, vjob{v, b, !hasMultiKeyDict(v), render(v), goDec})
		lines = append(lines, "jenc "+t.String()+" "+render(v), "jdec "+t.String()+" "+hex.EncodeToString(b))
	}
	outs, err := runDriverChunks(lines)
	if err != nil || len(outs) != len(lines) {
		r.disagree("jsonorc", fmt.Sprintf("%d requests", len(lines)), fmt.Sprintf("driver failure: %v", err), false, "jsonorc: the Lean driver did not answer (infrastructure)")
		return
	}
	for i, j := range jobs {
		encAns, decAns := outs[2*i], outs[2*i+1]
		in := map[string]any{"value": j.render, "go_bytes": string(j.gob)}
		r.sum.Evaluations += 2
		if j.exact {
			if encAns != "ok "+hex.EncodeToString(j.gob) {
				r.sum.Count("jsonorc.value.enc-mismatch")
				r.disagree(in, hex.EncodeToString(j.gob), encAns, false, "jsonorc: Json.encO under the sampled oracle and the real encoder emit different bytes")
			} else {
				r.sum.Count("jsonorc.value.enc-equal")
			}
		}
		if decAns != j.goDec {
			r.sum.Count("jsonorc.value.dec-mismatch")
			r.disagree(in, j.goDec, decAns, false, "jsonorc: Json.decO under the sampled oracle and the real decoder disagree on the real encoder's bytes")
		} else {
			r.sum.Count("jsonorc.value.dec-equal")
			if j.goDec != "ok "+j.render+" -" {
				r.sum.Count("jsonorc.value.lossy-predicted")
			}
		}
	}

	// --- BinaryData ---
	type bjob struct {
		kind   string
		in     []byte
		expect string
	}
	var bjobs []bjob
	var blines []string
	hot := []string{`""`, `null`, `true`, `false`, `123`, `[1]`, `{}`, ``, ` `, `-`, `"\u0000"`, `"\u0000AQ=="`, `"\u0000AQ="`, `"\u0000AR=="`, `"\u0000A\nQ=\r="`, `"\u0000AQ==x"`, `"\u0000AQI"`,
		`"\u0000AQIDBA"`, `"\u0000AQIDBA=="`, "\"\x00AQID\"", `"AQID"`, `"\ud800"`, `"\u00zz"`, `"\u0000`, `"\u0000AQID" trailing`, ` "\u0000AQID"`, `nul`, `"\u0000===="`, `"\u0000A==="`, `"\u0000=AAA"`, `"\u0000AA=A"`,
		`"\u0000AAA=AAAA"`, `"\u0000AAAA\n"`, `"\u0000\nAAAA"`, `"\u0000AA\n=="`, `"\u0000AA=\n="`, `"\u0000AA==\n"`, `"\u0000AAA=\n\r"`, `"\\u0000AQID"`, `"\u0000A-_A"`, `"\u0000A A A"`}
	for i := 0; i < n; i++ {
		raw := genBytes(r.rng)
		bd := serialize.BinaryData(raw)
		mb, merr := bd.MarshalJSON()
		if merr != nil {
			r.disagree(hex.EncodeToString(raw), merr.Error(), "bytes", true, "jsonorc: BinaryData.MarshalJSON fails")
			continue
		}
		// spec, on the implementation: round trip
		var back serialize.BinaryData
		var uerr error
		if p := protect(func() { uerr = back.UnmarshalJSON(mb) }); p != "" || uerr != nil || !reflect.DeepEqual([]byte(back), append([]byte{}, raw...)) && !(len(back) == 0 && len(raw) == 0) {
			r.disagree(hex.EncodeToString(raw), fmt.Sprintf("%x err=%v panic=%q", []byte(back), uerr, p), hex.EncodeToString(raw), true, "jsonorc: BinaryData does not survive MarshalJSON/UnmarshalJSON")
		}
		// embedded in a value: the codec calls MarshalJSON
		if eb, err := js.SerializeDataItem([]any{bd}); err != nil || string(eb) != "["+string(mb)+"]" {
			r.disagree(hex.EncodeToString(raw), string(eb), "["+string(mb)+"]", false, "jsonorc: a BinaryData inside a list is not written as its MarshalJSON form")
		}
		r.sum.Evaluations++
		bjobs = append(bjobs, bjob{"bdm", raw, "ok " + hex.EncodeToString(mb)})
		blines = append(blines, "bdm "+hex.EncodeToString(raw))

		// arbitrary input for UnmarshalJSON
		var in []byte
		switch r.rng.Intn(4) {
		case 0:
			in = []byte(hot[r.rng.Intn(len(hot))])
		case 1:
			in = r.mutate(mb)
		case 2: // base64-ish soup inside the convention
			const soup = "ABCDwxyz0189+/==\n\r-_ "
			s := make([]byte, r.rng.Intn(14))
			for k := range s {
				s[k] = soup[r.rng.Intn(len(soup))]
			}
			q, _ := js.SerializeDataItem("\x00" + string(s))
			in = q
		default:
			in = r.mutate(r.mutate(mb))
		}
		if i < len(hot) {
			in = []byte(hot[i])
		}
		var got serialize.BinaryData
		var gerr error
		p := protect(func() { gerr = got.UnmarshalJSON(in) })
		expect := "ok " + hex.EncodeToString(got)
		if len(got) == 0 {
			expect = "ok -"
		}
		if p != "" {
			expect = "panic"
			r.disagree(string(in), p, "error or bytes", true, "jsonorc: BinaryData.UnmarshalJSON panics")
		} else if gerr != nil {
			expect = "error"
		}
		r.sum.Evaluations++
		r.seen("jsonorc.bdu", string(in))
		r.sum.Count("jsonorc.bdu.impl." + strings.Fields(expect)[0])
		bjobs = append(bjobs, bjob{"bdu", in, expect})
		blines = append(blines, "bdu "+hex.EncodeToString(in))

		// base64 decoder alone
		if i%2 == 0 {
			const soup = "ABCDwxyz0189+/==\n\r-_ "
			s := make([]byte, r.rng.Intn(13))
			for k := range s {
				s[k] = soup[r.rng.Intn(len(soup))]
			}
			if r.rng.Chance(1, 3) {
				s = []byte(base64.StdEncoding.EncodeToString(genBytes(r.rng)))
				if len(s) > 0 && r.rng.Chance(1, 2) {
					s = r.mutate(s)
				}
			}
			d, derr := base64.StdEncoding.DecodeString(string(s))
			e := "ok " + hex.EncodeToString(d)
			if len(d) == 0 {
				e = "ok -"
			}
			if derr != nil {
				e = "error"
			}
			r.sum.Evaluations++
			r.sum.Count("jsonorc.b64d.impl." + strings.Fields(e)[0])
			bjobs = append(bjobs, bjob{"b64d", s, e})
			blines = append(blines, "b64d "+hex.EncodeToString(s))
		}
	}
	bouts, err := runDriverChunks(blines)
	if err != nil || len(bouts) != len(blines) {
		r.disagree("jsonorc.bd", fmt.Sprintf("%d requests", len(blines)), fmt.Sprintf("driver failure: %v", err), false, "jsonorc: the Lean driver did not answer (infrastructure)")
		return
	}
	for i, j := range bjobs {
		got := bouts[i]
		if got == "unsupported" {
			r.sum.Count("jsonorc." + j.kind + ".model-unsupported")
			continue
		}
		if got != j.expect {
			r.sum.Count("jsonorc." + j.kind + ".mismatch")
			r.disagree(map[string]any{"request": j.kind, "input": string(j.in), "hex": hex.EncodeToString(j.in)}, j.expect, got, false,
				"jsonorc: "+j.kind+": model and implementation disagree")
		} else {
			r.sum.Count("jsonorc." + j.kind + ".equal")
		}
	}
}
