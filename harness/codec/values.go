package main

// Canonical value text shared with the Lean driver (Driver/Codec.lean):
//
//	n | t | f | i<decimal> | d<16 hex: float64 bits> | s<hex> | b<hex> | [v,...] | {<hexkey>:v,...}
//
// Integers are rendered by value whatever their Go representation, named types
// (wamp.ID, wamp.URI, wamp.Dict, ...) are erased, map keys are sorted.

import (
	"encoding/hex"
	"fmt"
	"math"
	"math/big"
	"reflect"
	"sort"
	"strings"

	"verif/harness/hcommon"
)

func render(v any) string {
	var b strings.Builder
	renderTo(&b, reflect.ValueOf(v))
	return b.String()
}

func renderTo(b *strings.Builder, rv reflect.Value) {
	if !rv.IsValid() {
		b.WriteString("n")
		return
	}
	switch rv.Kind() {
	case reflect.Interface, reflect.Pointer:
		if rv.IsNil() {
			b.WriteString("n")
			return
		}
		renderTo(b, rv.Elem())
	case reflect.Bool:
		if rv.Bool() {
			b.WriteString("t")
		} else {
			b.WriteString("f")
		}
	case reflect.Int, reflect.Int8, reflect.Int16, reflect.Int32, reflect.Int64:
		fmt.Fprintf(b, "i%d", rv.Int())
	case reflect.Uint, reflect.Uint8, reflect.Uint16, reflect.Uint32, reflect.Uint64:
		fmt.Fprintf(b, "i%d", rv.Uint())
	case reflect.Float32, reflect.Float64:
		fmt.Fprintf(b, "d%016x", math.Float64bits(rv.Float()))
	case reflect.String:
		b.WriteString("s")
		b.WriteString(hex.EncodeToString([]byte(rv.String())))
	case reflect.Slice:
		if rv.IsNil() {
			b.WriteString("n")
			return
		}
		if rv.Type().Elem().Kind() == reflect.Uint8 {
			b.WriteString("b")
			b.WriteString(hex.EncodeToString(rv.Bytes()))
			return
		}
		fallthrough
	case reflect.Array:
		b.WriteString("[")
		for i := 0; i < rv.Len(); i++ {
			if i > 0 {
				b.WriteString(",")
			}
			renderTo(b, rv.Index(i))
		}
		b.WriteString("]")
	case reflect.Map:
		if rv.IsNil() {
			b.WriteString("n")
			return
		}
		type kv struct {
			k string
			v reflect.Value
		}
		var kvs []kv
		it := rv.MapRange()
		for it.Next() {
			k := it.Key()
			for k.Kind() == reflect.Interface {
				k = k.Elem()
			}
			if k.Kind() != reflect.String {
				b.WriteString("x<non-string-key>")
				return
			}
			kvs = append(kvs, kv{k.String(), it.Value()})
		}
		sort.Slice(kvs, func(i, j int) bool { return kvs[i].k < kvs[j].k })
		b.WriteString("{")
		for i, e := range kvs {
			if i > 0 {
				b.WriteString(",")
			}
			b.WriteString(hex.EncodeToString([]byte(e.k)))
			b.WriteString(":")
			renderTo(b, e.v)
		}
		b.WriteString("}")
	default:
		// time.Time, codec.RawExt, ...: outside the model's value type
		fmt.Fprintf(b, "x<%s>", rv.Type())
	}
}

// renderMsg renders a wamp message as "<Struct> [fields]".
func renderMsg(m any) string {
	rv := reflect.ValueOf(m)
	if rv.Kind() == reflect.Pointer {
		rv = rv.Elem()
	}
	var b strings.Builder
	b.WriteString(rv.Type().Name())
	b.WriteString(" [")
	for i := 0; i < rv.NumField(); i++ {
		if i > 0 {
			b.WriteString(",")
		}
		renderTo(&b, rv.Field(i))
	}
	b.WriteString("]")
	return b.String()
}

// parseVal parses canonical text into a Go value: non-negative integers
// become uint64, negative ones int64 (big.Int when out of both ranges).
func parseVal(s string) (any, string, error) {
	if s == "" {
		return nil, "", fmt.Errorf("empty")
	}
	switch s[0] {
	case 'n':
		return nil, s[1:], nil
	case 't':
		return true, s[1:], nil
	case 'f':
		return false, s[1:], nil
	case 'i':
		j := 1
		if j < len(s) && s[j] == '-' {
			j++
		}
		for j < len(s) && s[j] >= '0' && s[j] <= '9' {
			j++
		}
		n, ok := new(big.Int).SetString(s[1:j], 10)
		if !ok {
			return nil, "", fmt.Errorf("bad int")
		}
		if n.Sign() >= 0 && n.IsUint64() {
			return n.Uint64(), s[j:], nil
		}
		if n.IsInt64() {
			return n.Int64(), s[j:], nil
		}
		return n, s[j:], nil
	case 'd':
		if len(s) < 17 {
			return nil, "", fmt.Errorf("bad float")
		}
		b, err := hex.DecodeString(s[1:17])
		if err != nil {
			return nil, "", err
		}
		var u uint64
		for _, x := range b {
			u = u<<8 | uint64(x)
		}
		return math.Float64frombits(u), s[17:], nil
	case 's', 'b':
		j := 1
		for j < len(s) && isHex(s[j]) {
			j++
		}
		b, err := hex.DecodeString(s[1:j])
		if err != nil {
			return nil, "", err
		}
		if s[0] == 's' {
			return string(b), s[j:], nil
		}
		return b, s[j:], nil
	case '[':
		rest := s[1:]
		out := []any{}
		if strings.HasPrefix(rest, "]") {
			return out, rest[1:], nil
		}
		for {
			v, r, err := parseVal(rest)
			if err != nil {
				return nil, "", err
			}
			out = append(out, v)
			if strings.HasPrefix(r, ",") {
				rest = r[1:]
				continue
			}
			if strings.HasPrefix(r, "]") {
				return out, r[1:], nil
			}
			return nil, "", fmt.Errorf("bad list")
		}
	case '{':
		rest := s[1:]
		out := map[string]any{}
		if strings.HasPrefix(rest, "}") {
			return out, rest[1:], nil
		}
		for {
			j := 0
			for j < len(rest) && isHex(rest[j]) {
				j++
			}
			k, err := hex.DecodeString(rest[:j])
			if err != nil || j >= len(rest) || rest[j] != ':' {
				return nil, "", fmt.Errorf("bad dict key")
			}
			v, r, err := parseVal(rest[j+1:])
			if err != nil {
				return nil, "", err
			}
			out[string(k)] = v
			if strings.HasPrefix(r, ",") {
				rest = r[1:]
				continue
			}
			if strings.HasPrefix(r, "}") {
				return out, r[1:], nil
			}
			return nil, "", fmt.Errorf("bad dict")
		}
	}
	return nil, "", fmt.Errorf("bad value %q", s)
}

func isHex(c byte) bool {
	return c >= '0' && c <= '9' || c >= 'a' && c <= 'f'
}

func parseAll(s string) (any, error) {
	v, r, err := parseVal(s)
	if err != nil {
		return nil, err
	}
	if r != "" {
		return nil, fmt.Errorf("trailing %q", r)
	}
	return v, nil
}

// ---- generators -----------------------------------------------------------

// genOpts restricts the generated values to what a format can carry.
type genOpts struct {
	binary      bool // []byte values
	rawStrings  bool // strings that are not valid UTF-8
	nonFinite   bool // NaN / ±Inf
	floats      bool
	bigInts     bool // integers beyond ±2^53 up to the int64/uint64 limits
	maxDepth    int
	maxChildren int
}

var boundaryInts = []int64{0, 1, -1, 23, 24, 31, 32, -32, -33, 127, 128, -128, -129, 255, 256, 32767, 32768, -32768, -32769,
	65535, 65536, 1 << 31, 1<<31 - 1, -(1 << 31), -(1 << 31) - 1, 1 << 32, 1<<32 - 1, -(1 << 32), 1<<53 - 1, 1 << 53, -(1 << 53), -(1<<53 - 1)}

var bigInts = []any{uint64(1<<53 + 1), int64(-(1<<53 + 1)), uint64(math.MaxInt64), int64(math.MinInt64), uint64(1 << 63), uint64(math.MaxUint64), uint64(1<<63 + 1)}

var sampleStrings = []string{"", "a", "abc", "com.example.topic", "héllo", "日本語", "😀", "\x00", "\"quoted\\\"", "line\nbreak\ttab", "  ", "<>&", "\x7f", "wamp.error.no_such_procedure",
	strings.Repeat("x", 31), strings.Repeat("x", 32), strings.Repeat("y", 255), strings.Repeat("z", 256)}

var rawStrings = []string{"\xff", "\xc3", "a\x80b", "\xed\xa0\x80", "\xf8\x88\x80\x80\x80"}

func genInt(r *hcommon.RNG, o genOpts) any {
	var i int64
	switch r.Intn(4) {
	case 0, 1:
		i = boundaryInts[r.Intn(len(boundaryInts))]
	case 2:
		i = int64(r.Intn(2000)) - 1000
	default:
		if o.bigInts && r.Chance(1, 2) {
			return bigInts[r.Intn(len(bigInts))]
		}
		i = int64(r.Uint64()>>uint(11+r.Intn(53))) * int64(1-2*r.Intn(2))
	}
	if i >= 0 {
		return uint64(i)
	}
	return i
}

func genFloat(r *hcommon.RNG, o genOpts) float64 {
	switch r.Intn(6) {
	case 0:
		return []float64{0, 1.5, -2.25, 1e300, -1e-300, math.SmallestNonzeroFloat64, math.MaxFloat64, 0.1, 3.0, 1 << 53}[r.Intn(10)]
	case 1:
		if o.nonFinite {
			return []float64{math.NaN(), math.Inf(1), math.Inf(-1), math.Copysign(0, -1)}[r.Intn(4)]
		}
		return math.Copysign(0, -1)
	default:
		for {
			f := math.Float64frombits(r.Uint64())
			if o.nonFinite || !(math.IsNaN(f) || math.IsInf(f, 0)) {
				return f
			}
		}
	}
}

func genString(r *hcommon.RNG, o genOpts) string {
	if o.rawStrings && r.Chance(1, 8) {
		return rawStrings[r.Intn(len(rawStrings))]
	}
	if r.Chance(1, 2) {
		return sampleStrings[r.Intn(len(sampleStrings))]
	}
	n := r.Intn(12)
	var b strings.Builder
	for i := 0; i < n; i++ {
		switch r.Intn(6) {
		case 0:
			b.WriteRune(rune(0x80 + r.Intn(0x700)))
		case 1:
			b.WriteRune(rune(0x4e00 + r.Intn(0x100)))
		case 2:
			b.WriteRune(rune(0x1f600 + r.Intn(0x40)))
		default:
			b.WriteByte(byte(0x20 + r.Intn(0x5f)))
		}
	}
	return b.String()
}

func genBytes(r *hcommon.RNG) []byte {
	n := []int{0, 1, 3, 31, 32, 255, 256}[r.Intn(7)]
	if r.Chance(1, 2) {
		n = r.Intn(10)
	}
	b := make([]byte, n)
	for i := range b {
		b[i] = byte(r.Uint64())
	}
	return b
}

func genList(r *hcommon.RNG, o genOpts, depth int) []any {
	n := r.Intn(o.maxChildren + 1)
	if r.Chance(1, 40) {
		n = []int{15, 16, 17, 23, 24, 25}[r.Intn(6)]
	}
	l := make([]any, n)
	for i := range l {
		l[i] = genValue(r, o, depth+1)
	}
	return l
}

func genDict(r *hcommon.RNG, o genOpts, depth int) map[string]any {
	n := r.Intn(o.maxChildren + 1)
	if r.Chance(1, 40) {
		n = []int{15, 16, 17, 23, 24}[r.Intn(5)]
	}
	d := make(map[string]any, n)
	for i := 0; i < n; i++ {
		k := genString(r, o)
		if n > 8 {
			k = fmt.Sprintf("%s%d", k, i)
		}
		d[k] = genValue(r, o, depth+1)
	}
	return d
}

func genValue(r *hcommon.RNG, o genOpts, depth int) any {
	k := r.Intn(10)
	if depth >= o.maxDepth && k >= 8 {
		k = r.Intn(8)
	}
	switch k {
	case 0:
		return nil
	case 1:
		return r.Chance(1, 2)
	case 2, 3:
		return genInt(r, o)
	case 4:
		if o.floats {
			return genFloat(r, o)
		}
		return genInt(r, o)
	case 5, 6:
		return genString(r, o)
	case 7:
		if o.binary {
			return genBytes(r)
		}
		return genString(r, o)
	case 8:
		return genList(r, o, depth)
	default:
		return genDict(r, o, depth)
	}
}

// kindOf names the top-level kind of a value for the histogram.
func kindOf(v any) string {
	switch v.(type) {
	case nil:
		return "null"
	case bool:
		return "bool"
	case int64, uint64, int, *big.Int:
		return "int"
	case float64:
		return "float"
	case string:
		return "string"
	case []byte:
		return "binary"
	case []any:
		return "list"
	case map[string]any:
		return "dict"
	}
	return fmt.Sprintf("%T", v)
}
