// Family "codec" (property C14): the real serializers of
// transport/serialize against the Lean models of msgToList/listToMsg and of
// the MessagePack / CBOR / JSON wire formats, plus the property's executable
// specification run straight on the implementation.
//
// Sections (each counted in the histogram):
//
//	roundtrip   (iv)  Deserialize(Serialize(m)) == m for all 24 message types, 3 formats;
//	                  wire layout (position of every field, trailing omission, kwargs position)
//	                  checked on the generically decoded bytes; model: Lean `rt`/`m2l`.
//	cross       (v)   the three formats decode to the same message.
//	l2m               hostile lists (wrong field types, short/long, unknown codes) through the
//	                  real codec + Deserialize vs Lean `l2m`.
//	synthetic         msgToList on harness-defined message structs (all-omitempty, omitempty on
//	                  an ID field: the reflect.Len panic) vs Lean `m2ls`.
//	goenc       (i)   Go-encode → Lean-decode == value; canonical bytes compared.
//	leanenc     (ii)  Lean-encode → Go-decode == value.
//	bytes       (iii) Deserialize of arbitrary / mutated bytes vs the model's verdict; never panics.
//	witness           the Lean counter-example witnesses replayed on the implementation.
//	jsonorc           JSON floats through a sampled oracle (hypotheses + real serializer vs
//	                  Json.encO/decO), []byte in JSON, BinaryData, base64 (jsonorc.go).
package main

import (
	"flag"
	"fmt"
	"hash/fnv"
	"os"
	"reflect"
	"strings"

	"github.com/gammazero/nexus/v3/transport/serialize"
	"github.com/gammazero/nexus/v3/wamp"

	"verif/harness/hcommon"
)

type format struct {
	name string
	s    serialize.Serializer
	opts genOpts
}

var formats = []format{
	{"json", &serialize.JSONSerializer{}, genOpts{floats: true, bigInts: true, maxDepth: 3, maxChildren: 4}},
	{"msgpack", &serialize.MessagePackSerializer{}, genOpts{binary: true, rawStrings: true, nonFinite: true, floats: true, bigInts: true, maxDepth: 3, maxChildren: 4}},
	{"cbor", &serialize.CBORSerializer{}, genOpts{binary: true, rawStrings: true, nonFinite: true, floats: true, bigInts: true, maxDepth: 3, maxChildren: 4}},
}

// wampLayout is the WAMP wire layout written by hand from the specification
// (independently of wamp/message.go): message code → Go field that must sit
// at each position after the code; the last `optional` positions may be
// omitted when empty.
var wampLayout = []struct {
	code     wamp.MessageType
	strct    string
	fields   []string
	optional int
}{
	{1, "Hello", []string{"Realm", "Details"}, 0},
	{2, "Welcome", []string{"ID", "Details"}, 0},
	{3, "Abort", []string{"Details", "Reason"}, 0},
	{4, "Challenge", []string{"AuthMethod", "Extra"}, 0},
	{5, "Authenticate", []string{"Signature", "Extra"}, 0},
	{6, "Goodbye", []string{"Details", "Reason"}, 0},
	{8, "Error", []string{"Type", "Request", "Details", "Error", "Arguments", "ArgumentsKw"}, 2},
	{16, "Publish", []string{"Request", "Options", "Topic", "Arguments", "ArgumentsKw"}, 2},
	{17, "Published", []string{"Request", "Publication"}, 0},
	{32, "Subscribe", []string{"Request", "Options", "Topic"}, 0},
	{33, "Subscribed", []string{"Request", "Subscription"}, 0},
	{34, "Unsubscribe", []string{"Request", "Subscription"}, 0},
	{35, "Unsubscribed", []string{"Request"}, 0},
	{36, "Event", []string{"Subscription", "Publication", "Details", "Arguments", "ArgumentsKw"}, 2},
	{48, "Call", []string{"Request", "Options", "Procedure", "Arguments", "ArgumentsKw"}, 2},
	{49, "Cancel", []string{"Request", "Options"}, 0},
	{50, "Result", []string{"Request", "Details", "Arguments", "ArgumentsKw"}, 2},
	{64, "Register", []string{"Request", "Options", "Procedure"}, 0},
	{65, "Registered", []string{"Request", "Registration"}, 0},
	{66, "Unregister", []string{"Request", "Registration"}, 0},
	{67, "Unregistered", []string{"Request"}, 0},
	{68, "Invocation", []string{"Request", "Registration", "Details", "Arguments", "ArgumentsKw"}, 2},
	{69, "Interrupt", []string{"Request", "Options"}, 0},
	{70, "Yield", []string{"Request", "Options", "Arguments", "ArgumentsKw"}, 2},
}

// constructors allocates each message type independently of wamp.NewMessage.
var constructors = map[wamp.MessageType]func() wamp.Message{
	wamp.HELLO: func() wamp.Message { return &wamp.Hello{} }, wamp.WELCOME: func() wamp.Message { return &wamp.Welcome{} },
	wamp.ABORT: func() wamp.Message { return &wamp.Abort{} }, wamp.CHALLENGE: func() wamp.Message { return &wamp.Challenge{} },
	wamp.AUTHENTICATE: func() wamp.Message { return &wamp.Authenticate{} }, wamp.GOODBYE: func() wamp.Message { return &wamp.Goodbye{} },
	wamp.ERROR: func() wamp.Message { return &wamp.Error{} }, wamp.PUBLISH: func() wamp.Message { return &wamp.Publish{} },
	wamp.PUBLISHED: func() wamp.Message { return &wamp.Published{} }, wamp.SUBSCRIBE: func() wamp.Message { return &wamp.Subscribe{} },
	wamp.SUBSCRIBED: func() wamp.Message { return &wamp.Subscribed{} }, wamp.UNSUBSCRIBE: func() wamp.Message { return &wamp.Unsubscribe{} },
	wamp.UNSUBSCRIBED: func() wamp.Message { return &wamp.Unsubscribed{} }, wamp.EVENT: func() wamp.Message { return &wamp.Event{} },
	wamp.CALL: func() wamp.Message { return &wamp.Call{} }, wamp.CANCEL: func() wamp.Message { return &wamp.Cancel{} },
	wamp.RESULT: func() wamp.Message { return &wamp.Result{} }, wamp.REGISTER: func() wamp.Message { return &wamp.Register{} },
	wamp.REGISTERED: func() wamp.Message { return &wamp.Registered{} }, wamp.UNREGISTER: func() wamp.Message { return &wamp.Unregister{} },
	wamp.UNREGISTERED: func() wamp.Message { return &wamp.Unregistered{} }, wamp.INVOCATION: func() wamp.Message { return &wamp.Invocation{} },
	wamp.INTERRUPT: func() wamp.Message { return &wamp.Interrupt{} }, wamp.YIELD: func() wamp.Message { return &wamp.Yield{} },
}

type runner struct {
	sum      *hcommon.Summary
	rng      *hcommon.RNG
	distinct map[uint64]struct{}
	maxDis   int
}

func (r *runner) seen(kind, key string) {
	h := fnv.New64a()
	h.Write([]byte(kind))
	h.Write([]byte{0})
	h.Write([]byte(key))
	r.distinct[h.Sum64()] = struct{}{}
}

// dedupeFindings keeps, per finding id and leading text, the shortest line.
func dedupeFindings(in []string) []string {
	best := map[string]string{}
	var order []string
	for _, l := range in {
		key := l
		if i := strings.Index(l, "; e.g. "); i > 0 {
			key = l[:i]
		}
		if old, ok := best[key]; !ok {
			best[key] = l
			order = append(order, key)
		} else if len(l) < len(old) {
			best[key] = l
		}
	}
	out := make([]string, 0, len(order))
	for _, k := range order {
		out = append(out, best[k])
	}
	return out
}

func (r *runner) disagree(input, impl, model any, spec bool, detail string) {
	r.sum.Count("disagreement")
	if len(r.sum.Disagreements) >= r.maxDis {
		return
	}
	if os.Getenv("VERIF_CODEC_ALL") == "" {
		for _, d := range r.sum.Disagreements {
			if d.Detail == detail {
				return // one representative per kind
			}
		}
	}
	r.sum.Disagreements = append(r.sum.Disagreements, hcommon.Disagreement{
		Input: input, Impl: impl, Model: model, SpecViolation: spec, Detail: detail})
}

// protect runs f and converts a panic of the implementation into a string.
func protect(f func()) (panicked string) {
	defer func() {
		if p := recover(); p != nil {
			panicked = fmt.Sprint(p)
		}
	}()
	f()
	return ""
}

func genID(r *hcommon.RNG) wamp.ID {
	switch r.Intn(4) {
	case 0:
		return wamp.ID([]uint64{0, 1, 1 << 31, 1 << 32, 1<<53 - 1, 1 << 53, 127, 128, 255, 256, 65535, 65536}[r.Intn(12)])
	case 1:
		return wamp.ID(r.Uint64() >> 11) // < 2^53
	case 2:
		return wamp.ID(r.Intn(1000))
	default:
		return wamp.ID(r.Uint64() >> uint(r.Intn(64)))
	}
}

// genMessage builds a random well-typed message of the given code.
// argsMode: 0 random, 1 both empty, 2 args empty + kwargs non-empty, 3 args non-empty + kwargs empty.
func genMessage(r *hcommon.RNG, code wamp.MessageType, o genOpts, argsMode int) wamp.Message {
	mk, ok := constructors[code]
	if !ok {
		return nil
	}
	m := mk()
	rv := reflect.ValueOf(m).Elem()
	for i := 0; i < rv.NumField(); i++ {
		f := rv.Field(i)
		name := rv.Type().Field(i).Name
		switch f.Interface().(type) {
		case wamp.ID:
			f.SetUint(uint64(genID(r)))
		case wamp.URI, string:
			f.SetString(genString(r, o))
		case wamp.MessageType:
			f.SetInt(int64([]int{0, 1, 8, 16, 32, 48, 64, 68, 70, 255, -1, 1 << 40}[r.Intn(12)]))
		case wamp.Dict:
			mode := r.Intn(4)
			if name == "ArgumentsKw" && argsMode != 0 {
				mode = map[int]int{1: r.Intn(2), 2: 3, 3: r.Intn(2)}[argsMode]
			}
			switch mode {
			case 0:
				f.Set(reflect.Zero(f.Type()))
			case 1:
				f.Set(reflect.ValueOf(wamp.Dict{}))
			default:
				d := genDict(r, o, 1)
				if len(d) == 0 && (name == "ArgumentsKw" && argsMode == 2) {
					d["k"] = genValue(r, o, 2)
				}
				f.Set(reflect.ValueOf(wamp.Dict(d)))
			}
		case wamp.List:
			mode := r.Intn(4)
			if name == "Arguments" && argsMode != 0 {
				mode = map[int]int{1: r.Intn(2), 2: r.Intn(2), 3: 3}[argsMode]
			}
			switch mode {
			case 0:
				f.Set(reflect.Zero(f.Type()))
			case 1:
				f.Set(reflect.ValueOf(wamp.List{}))
			default:
				l := genList(r, o, 1)
				if len(l) == 0 && name == "Arguments" && argsMode == 3 {
					l = append(l, genValue(r, o, 2))
				}
				f.Set(reflect.ValueOf(wamp.List(l)))
			}
		default:
			panic("codec family: unknown field type " + f.Type().String())
		}
	}
	return m
}

// specEqual is the property's notion of "an equal message": same type, every field equal by
// value (numeric representation erased; for JSON a float and an integer that convert to the same
// float64 are the same number), where a nil and an empty Dict/List field are the same.
func specEqual(a, b wamp.Message, loose bool) bool {
	if a == nil || b == nil {
		return false
	}
	ra, rb := reflect.ValueOf(a).Elem(), reflect.ValueOf(b).Elem()
	if ra.Type() != rb.Type() {
		return false
	}
	for i := 0; i < ra.NumField(); i++ {
		fa, fb := ra.Field(i), rb.Field(i)
		if (fa.Kind() == reflect.Map || fa.Kind() == reflect.Slice) && fa.Len() == 0 && fb.Len() == 0 {
			continue
		}
		ra, rb := render(fa.Interface()), render(fb.Interface())
		if ra != rb && !(loose && looseSame(ra, rb)) {
			return false
		}
	}
	return true
}

func structFields(m wamp.Message) (string, []string) {
	rv := reflect.ValueOf(m).Elem()
	var names []string
	for i := 0; i < rv.NumField(); i++ {
		names = append(names, rv.Type().Field(i).Name)
	}
	return rv.Type().Name(), names
}

func fieldsList(m wamp.Message) string {
	s := renderMsg(m)
	return s[strings.Index(s, " ")+1:]
}

func main() {
	seed := flag.Int64("seed", 1, "")
	tier := flag.String("tier", "quick", "")
	out := flag.String("out", ".", "")
	prop := flag.String("property", "C14", "")
	replay := flag.String("replay", "", "")
	n := flag.Int("n", 3000, "number of generated messages / values per section")
	nbytes := flag.Int("bytes", 20000, "number of arbitrary / mutated byte strings")
	flag.Parse()
	_ = replay

	sum := &hcommon.Summary{Family: "codec", Property: *prop, Seed: *seed, Tier: *tier,
		Rule: "distinct (section, canonical input) pairs, counted by 64-bit FNV hash; trivial inputs (empty list / scalar-only) are not excluded but every message carries ≥1 generated field"}
	// Split(): hcommon.NewRNG(seed) streams of nearby seeds are shifted copies of one another
	r := &runner{sum: sum, rng: hcommon.NewRNG(*seed).Split(), distinct: map[uint64]struct{}{}, maxDis: 12}
	if os.Getenv("VERIF_CODEC_ALL") != "" {
		r.maxDis = 1000
	}

	// work in chunks so that the thorough tier does not hold millions of driver lines in memory
	const chunkN, chunkB = 5000, 50000
	for done := 0; done < *n; done += chunkN {
		k := minInt(chunkN, *n-done)
		r.sectionRoundtrip(k)
		r.sectionL2M(k)
		r.wireValues(k)
	}
	for done := 0; done < *nbytes; done += chunkB {
		r.wireBytes(minInt(chunkB, *nbytes-done))
	}
	r.sectionDeep()
	r.sectionSynthetic()
	r.sectionWitness()
	r.sectionJsonOrc(minInt(*n, 20000))

	// The documented way to register MessagePack extensions late is to re-create the global
	// handle with InitMsgpackHandle first. A re-created handle must serialize and deserialize
	// plain WAMP messages exactly like the initial one: run a part of the sections again.
	serialize.InitMsgpackHandle()
	sum.Count("phase.after_InitMsgpackHandle")
	r.sectionRoundtrip(minInt(*n, 1500))
	r.sectionDeep()
	r.wireValues(minInt(*n, 1500))
	r.wireBytes(minInt(*nbytes, 10000))
	r.sum.KnownFindings = dedupeFindings(r.sum.KnownFindings)

	sum.DistinctNontrivial = len(r.distinct)
	if err := sum.Write(*out); err != nil {
		fmt.Fprintln(os.Stderr, err)
		os.Exit(2)
	}
	fmt.Fprintf(os.Stderr, "codec: %d evaluations, %d distinct, %d disagreements\n", sum.Evaluations, sum.DistinctNontrivial, len(sum.Disagreements))
}

// jsonModelled: the Lean JSON fragment is available in the driver.
var jsonModelled = true

func hcommonRun(lines []string) ([]string, error) {
	if len(lines) == 0 {
		return nil, nil
	}
	return hcommon.RunDriver("codec", lines)
}
