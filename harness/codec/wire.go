package main

import (
	"encoding/hex"
	"fmt"
	"math"
	"strings"

	"github.com/gammazero/nexus/v3/wamp"
)

// hasMultiKeyDict reports whether v contains a map with more than one key (Go's iteration
// order then makes the exact bytes unpredictable).
func hasMultiKeyDict(v any) bool {
	switch x := v.(type) {
	case []any:
		for _, e := range x {
			if hasMultiKeyDict(e) {
				return true
			}
		}
	case map[string]any:
		if len(x) > 1 {
			return true
		}
		for _, e := range x {
			if hasMultiKeyDict(e) {
				return true
			}
		}
	}
	return false
}

func hasFloat(v any) bool {
	switch x := v.(type) {
	case float64, float32:
		return true
	case []any:
		for _, e := range x {
			if hasFloat(e) {
				return true
			}
		}
	case map[string]any:
		for _, e := range x {
			if hasFloat(e) {
				return true
			}
		}
	}
	return false
}

// goTyped re-types the integers of a value into other Go integer types (the codec then uses
// other encodings, e.g. the signed MessagePack families for a non-negative int).
func goTyped(r *runner, v any) any {
	switch x := v.(type) {
	case uint64:
		switch {
		case x <= math.MaxInt64 && r.rng.Chance(1, 2):
			return int64(x)
		case x <= math.MaxInt32 && r.rng.Chance(1, 2):
			return int(x)
		case x <= 255:
			return uint8(x)
		case x <= math.MaxUint32:
			return uint32(x)
		}
		return x
	case int64:
		if x >= math.MinInt32 && x <= math.MaxInt32 && r.rng.Chance(1, 2) {
			return int32(x)
		}
		return int(x)
	case float64:
		if float64(float32(x)) == x && r.rng.Chance(1, 2) {
			return float32(x)
		}
		return x
	case []any:
		out := make([]any, len(x))
		for i, e := range x {
			out[i] = goTyped(r, e)
		}
		return out
	case map[string]any:
		out := make(map[string]any, len(x))
		for k, e := range x {
			out[k] = goTyped(r, e)
		}
		return out
	}
	return v
}

// (i) Go-encode → Lean-decode, canonical bytes; (ii) Lean-encode → Go-decode.
func (r *runner) wireValues(n int) {
	type job struct {
		f      format
		v      any
		gob    []byte
		exact  bool // Go bytes must equal the Lean encoder's
		render string
	}
	var jobs []job
	var lines []string
	for i := 0; i < n; i++ {
		f := formats[i%3]
		if f.name == "json" && !jsonModelled {
			continue
		}
		o := f.opts
		o.maxDepth = 4
		v := genValue(r.rng, o, 0)
		if i%5 == 0 {
			v = genList(r.rng, o, 0) // make sure containers are frequent at top level
		}
		exact := !hasMultiKeyDict(v)
		enc := v
		if i%4 == 3 {
			enc = goTyped(r, v)
			exact = false
		}
		var b []byte
		var err error
		if p := protect(func() { b, err = f.s.SerializeDataItem(enc) }); p != "" || err != nil {
			r.disagree(render(v), fmt.Sprintf("panic=%q err=%v", p, err), "bytes", true, "goenc: SerializeDataItem fails on a data-model value ("+f.name+")")
			continue
		}
		r.sum.Count("wire.value." + f.name + "." + kindOf(v))
		r.seen("wire", f.name+render(v))
		jobs = append(jobs, job{f, v, b, exact, render(v)})
		lines = append(lines, "dec "+f.name+" "+hex.EncodeToString(b), "enc "+f.name+" "+render(v))
	}
	outs, err := runDriverChunks(lines)
	if err != nil || len(outs) != len(lines) {
		r.disagree("wire", fmt.Sprintf("%d requests", len(lines)), fmt.Sprintf("driver failure: %v", err), false, "wire: the Lean driver did not answer (infrastructure)")
		return
	}
	for i, j := range jobs {
		decAns, encAns := outs[2*i], outs[2*i+1]
		in := map[string]any{"format": j.f.name, "value": j.render, "go_bytes": hex.EncodeToString(j.gob)}
		r.sum.Evaluations += 2
		if j.f.name == "json" && strings.Contains(j.render, "d") && hasFloat(j.v) {
			// floats are outside the Lean JSON fragment (decimal printing is the codec's)
			if encAns == "invalid" {
				r.sum.Count("wire.json-float-outside-fragment")
				continue
			}
		}
		// (i)
		want := "ok " + j.render + " -"
		if decAns != want && !(j.f.name == "json" && looseSame(decAns, want)) {
			r.sum.Count("wire.goenc-mismatch")
			r.disagree(in, want, decAns, false, "goenc: the Lean "+j.f.name+" decoder does not recover the value from the Go encoding")
		}
		// canonical form
		if !strings.HasPrefix(encAns, "ok ") {
			r.disagree(in, hex.EncodeToString(j.gob), encAns, false, "leanenc: the Lean "+j.f.name+" encoder rejects a value the Go encoder accepts")
			continue
		}
		leanHex := encAns[3:]
		if j.exact && leanHex != hex.EncodeToString(j.gob) {
			r.sum.Count("wire.canonical-mismatch")
			r.disagree(in, hex.EncodeToString(j.gob), leanHex, false, "canonical: Lean "+j.f.name+" encoder and Go encoder emit different bytes")
		} else if j.exact {
			r.sum.Count("wire.canonical-equal")
		}
		// (ii)
		lb, _ := hex.DecodeString(leanHex)
		g, gerr, p := genericDecode(j.f.s, lb)
		if p != "" || gerr != nil || (render(g) != j.render && !(j.f.name == "json" && looseSame("ok "+render(g), "ok "+j.render))) {
			r.sum.Count("wire.leanenc-mismatch")
			r.disagree(map[string]any{"format": j.f.name, "value": j.render, "lean_bytes": leanHex},
				fmt.Sprintf("%s err=%v panic=%q", render(g), gerr, p), j.render, false, "leanenc: the Go "+j.f.name+" decoder does not recover the value from the Lean encoding")
		}
	}
}

func runDriverChunks(lines []string) ([]string, error) {
	return hcommonRun(lines)
}

// interesting first/inner bytes for mutation
var hotBytes = []byte{0x00, 0x01, 0x7f, 0x80, 0x81, 0x8f, 0x90, 0x91, 0x9f, 0xa0, 0xa1, 0xbf, 0xc0, 0xc1, 0xc2, 0xc3, 0xc4, 0xc7, 0xca, 0xcb, 0xcc, 0xcf, 0xd0, 0xd3, 0xd4, 0xd6, 0xd9, 0xdb, 0xdc, 0xdd, 0xde, 0xdf, 0xe0, 0xff,
	0x17, 0x18, 0x19, 0x1a, 0x1b, 0x1c, 0x1f, 0x20, 0x37, 0x38, 0x3b, 0x40, 0x5f, 0x60, 0x7f, 0x9f, 0xbf, 0xc1, 0xc2, 0xd8, 0xf4, 0xf5, 0xf6, 0xf7, 0xf8, 0xf9, 0xfa, 0xfb,
	'[', ']', '{', '}', ',', ':', '"', '\\', ' ', '-', '.', 'e', 'n', 't', 'f', '0', '9'}

func (r *runner) mutate(b []byte) []byte {
	out := append([]byte{}, b...)
	for k := r.rng.Intn(3) + 1; k > 0; k-- {
		switch r.rng.Intn(7) {
		case 0: // flip a bit
			if len(out) > 0 {
				out[r.rng.Intn(len(out))] ^= 1 << uint(r.rng.Intn(8))
			}
		case 1: // hot byte
			if len(out) > 0 {
				out[r.rng.Intn(len(out))] = hotBytes[r.rng.Intn(len(hotBytes))]
			}
		case 2: // truncate
			if len(out) > 0 {
				out = out[:r.rng.Intn(len(out))]
			}
		case 3: // insert
			p := r.rng.Intn(len(out) + 1)
			out = append(out[:p], append([]byte{hotBytes[r.rng.Intn(len(hotBytes))]}, out[p:]...)...)
		case 4: // delete
			if len(out) > 0 {
				p := r.rng.Intn(len(out))
				out = append(out[:p], out[p+1:]...)
			}
		case 5: // random byte
			if len(out) > 0 {
				out[r.rng.Intn(len(out))] = byte(r.rng.Uint64())
			}
		default: // append garbage
			out = append(out, byte(r.rng.Uint64()))
		}
	}
	return out
}

// (iii) arbitrary and mutated bytes.
func (r *runner) wireBytes(n int) {
	type job struct {
		f       format
		b       []byte
		verdict string
	}
	var jobs, ojobs []job
	var lines, olines []string
	for i := 0; i < n; i++ {
		f := formats[i%3]
		var b []byte
		switch r.rng.Intn(6) {
		case 0: // short random
			b = make([]byte, r.rng.Intn(12))
			for k := range b {
				b[k] = byte(r.rng.Uint64())
			}
			r.sum.Count("bytes.source.random")
		case 1: // hot-byte soup
			b = make([]byte, 1+r.rng.Intn(10))
			for k := range b {
				b[k] = hotBytes[r.rng.Intn(len(hotBytes))]
			}
			r.sum.Count("bytes.source.hot")
		default: // mutated valid message
			row := wampLayout[r.rng.Intn(len(wampLayout))]
			o := f.opts
			o.maxDepth, o.maxChildren = 2, 3
			m := genMessage(r.rng, row.code, o, 0)
			if m == nil {
				continue
			}
			vb, err := f.s.Serialize(m)
			if err != nil {
				continue
			}
			b = r.mutate(vb)
			r.sum.Count("bytes.source.mutated")
		}
		m, err, p := deserialize(f.s, b)
		verdict := implVerdict(m, err, p)
		r.sum.Evaluations++
		r.seen("bytes", f.name+hex.EncodeToString(b))
		if p != "" {
			r.disagree(map[string]any{"format": f.name, "bytes": hex.EncodeToString(b)}, verdict, "error or message", true,
				"bytes: Deserialize panics on arbitrary input ("+f.name+")")
			continue
		}
		r.sum.Count("bytes.impl." + f.name + "." + strings.Join(strings.Fields(verdict)[:minInt(2, len(strings.Fields(verdict)))], "-"))
		if f.name == "json" && !jsonModelled {
			continue
		}
		jobs = append(jobs, job{f, b, verdict})
		lines = append(lines, "deser "+f.name+" "+hex.EncodeToString(b))
		if f.name == "json" {
			// the same bytes through the decoder with floats: the number tokens' parses are the oracle
			t := newOrcTab()
			t.addRuns(b)
			ojobs = append(ojobs, job{f, b, verdict})
			olines = append(olines, "jdeser "+t.String()+" "+hex.EncodeToString(b))
		}
	}
	if oouts, err := runDriverChunks(olines); err != nil || len(oouts) != len(olines) {
		r.disagree("bytes", fmt.Sprintf("%d requests", len(olines)), fmt.Sprintf("driver failure: %v", err), false, "bytes: the Lean driver did not answer (infrastructure)")
	} else {
		for i, j := range ojobs {
			got := oouts[i]
			r.sum.Evaluations++
			r.sum.Count("bytes.totalO.json")
			switch {
			case strings.HasPrefix(got, "unsupported"):
				r.sum.Count("bytes.modelO-unsupported.json")
				r.sum.Count("bytes.modelO-unsupported.json." + strings.TrimPrefix(got, "unsupported "))
				continue
			case strings.HasPrefix(got, "ok "):
				r.sum.Count("bytes.modelO-ok.json")
			default:
				r.sum.Count("bytes.modelO-error.json")
			}
			if got != j.verdict {
				r.sum.Count("bytes.verdictO-mismatch.json")
				r.disagree(map[string]any{"format": "json", "bytes": hex.EncodeToString(j.b), "text": string(j.b)}, j.verdict, got, false,
					"bytes: Json.decO under the sampled oracle and the implementation give different verdicts on arbitrary/mutated json bytes")
			}
		}
	}
	outs, err := runDriverChunks(lines)
	if err != nil || len(outs) != len(lines) {
		r.disagree("bytes", fmt.Sprintf("%d requests", len(lines)), fmt.Sprintf("driver failure: %v", err), false, "bytes: the Lean driver did not answer (infrastructure)")
		return
	}
	for i, j := range jobs {
		got := outs[i]
		r.sum.Evaluations++
		r.sum.Count("bytes.total." + j.f.name)
		if got == "unsupported" {
			r.sum.Count("bytes.model-unsupported." + j.f.name)
			continue
		}
		if strings.HasPrefix(got, "ok ") {
			r.sum.Count("bytes.model-ok." + j.f.name)
		} else {
			r.sum.Count("bytes.model-error." + j.f.name)
		}
		r.sum.Count("bytes.compared." + j.f.name)
		if got != j.verdict && !(j.f.name == "json" && looseSame(got, j.verdict)) {
			r.sum.Count("bytes.verdict-mismatch." + j.f.name)
			r.disagree(map[string]any{"format": j.f.name, "bytes": hex.EncodeToString(j.b)}, j.verdict, got, false,
				"bytes: model and implementation give different verdicts on arbitrary/mutated "+j.f.name+" bytes")
		}
	}
}

// looseSame compares two driver-style answers token by token; value tokens are compared with
// numbers "up to representation" (an integer and a float are the same number when they convert
// to the same float64).
func looseSame(a, b string) bool {
	ta, tb := strings.Fields(a), strings.Fields(b)
	if len(ta) != len(tb) {
		return false
	}
	for i := range ta {
		if ta[i] == tb[i] {
			continue
		}
		va, ea := parseAll(ta[i])
		vb, eb := parseAll(tb[i])
		if ea != nil || eb != nil || !looseEqual(va, vb) {
			return false
		}
	}
	return true
}

func toF(v any) (float64, bool) {
	switch x := v.(type) {
	case uint64:
		return float64(x), true
	case int64:
		return float64(x), true
	case float64:
		return x, true
	}
	return 0, false
}

func looseEqual(a, b any) bool {
	switch x := a.(type) {
	case []any:
		y, ok := b.([]any)
		if !ok || len(x) != len(y) {
			return false
		}
		for i := range x {
			if !looseEqual(x[i], y[i]) {
				return false
			}
		}
		return true
	case map[string]any:
		y, ok := b.(map[string]any)
		if !ok || len(x) != len(y) {
			return false
		}
		for k, v := range x {
			w, ok := y[k]
			if !ok || !looseEqual(v, w) {
				return false
			}
		}
		return true
	}
	_, fa := a.(float64)
	_, fb := b.(float64)
	if fa || fb {
		x, ok1 := toF(a)
		y, ok2 := toF(b)
		return ok1 && ok2 && (x == y || (math.IsNaN(x) && math.IsNaN(y)))
	}
	return render(a) == render(b)
}

var _ = wamp.ID(0)
