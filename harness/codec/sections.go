package main

import (
	"encoding/hex"
	"fmt"
	"reflect"
	"strings"

	"github.com/gammazero/nexus/v3/transport/serialize"
	"github.com/gammazero/nexus/v3/wamp"

	"verif/harness/hcommon"
)

// implVerdict renders the outcome of Deserialize the way the Lean driver renders its own.
func implVerdict(m wamp.Message, err error, panicked string) string {
	if panicked != "" {
		return "panic " + panicked
	}
	if err != nil {
		e := err.Error()
		switch {
		case e == "invalid message":
			return "error invalid-message"
		case e == "invalid message: not a list":
			return "error not-a-list"
		case e == "unsupported message format":
			return "error unsupported-format"
		case e == "unsupported message type":
			return "error unsupported-type"
		case strings.HasPrefix(e, "field "):
			var i int
			fmt.Sscanf(e, "field %d not recognized", &i)
			return fmt.Sprintf("error field-not-recognized %d", i)
		}
		return "error decode"
	}
	if m == nil || reflect.ValueOf(m).IsNil() {
		return "ok <nil message>"
	}
	return "ok " + renderMsg(m)
}

func deserialize(s serialize.Serializer, b []byte) (m wamp.Message, err error, panicked string) {
	panicked = protect(func() { m, err = s.Deserialize(b) })
	return
}

func genericDecode(s serialize.Serializer, b []byte) (v any, err error, panicked string) {
	panicked = protect(func() { err = s.DeserializeDataItem(b, &v) })
	return
}

type pending struct {
	line   string // request to the Lean driver
	expect string // what the implementation did, rendered like the driver's answer
	input  any
	detail string
	prefix bool // compare only the first word(s) (panic messages differ)
	loose  bool // numbers up to representation (JSON cannot tell 1e3 from 1000)
}

func (r *runner) flush(section string, ps []pending) {
	if len(ps) == 0 {
		return
	}
	lines := make([]string, len(ps))
	for i, p := range ps {
		lines[i] = p.line
	}
	outs, err := hcommon.RunDriver("codec", lines)
	if err != nil || len(outs) != len(ps) {
		r.disagree(section, fmt.Sprintf("%d requests", len(ps)), fmt.Sprintf("driver failure: %v (%d answers)", err, len(outs)), false,
			section+": the Lean driver did not answer (infrastructure)")
		return
	}
	for i, p := range ps {
		r.sum.Evaluations++
		got := outs[i]
		ok := got == p.expect || (p.loose && looseSame(got, p.expect))
		if p.prefix {
			w := strings.SplitN(p.expect, " ", 2)[0]
			ok = strings.HasPrefix(got, w) && strings.HasPrefix(p.expect, strings.SplitN(got, " ", 2)[0])
		}
		if !ok {
			r.sum.Count(section + ".model-mismatch")
			r.disagree(p.input, p.expect, got, false, section+": "+p.detail)
		}
	}
}

func layoutOf(code wamp.MessageType) (fields []string, optional int, ok bool) {
	for _, l := range wampLayout {
		if l.code == code {
			return l.fields, l.optional, true
		}
	}
	return nil, 0, false
}

// checkOne serialises m with one format and checks the executable specification; returns the
// message that came back and the Lean requests to compare against.
func (r *runner) checkOne(f format, m wamp.Message, ps *[]pending) wamp.Message {
	strct, _ := structFields(m)
	in := map[string]any{"format": f.name, "message": renderMsg(m)}
	var b []byte
	var err error
	if p := protect(func() { b, err = f.s.Serialize(m) }); p != "" || err != nil {
		r.disagree(in, fmt.Sprintf("panic=%q err=%v", p, err), "bytes", true, "roundtrip: Serialize fails on a well-typed "+strct)
		return nil
	}
	in["bytes"] = hex.EncodeToString(b)
	m2, err, p := deserialize(f.s, b)
	r.sum.Evaluations++
	if p != "" {
		r.disagree(in, "panic "+p, "message", true, "roundtrip: Deserialize panics on Serialize's own output ("+strct+")")
		return nil
	}
	if err != nil {
		if f.name == "json" && strings.Contains(err.Error(), "strconv.ParseInt") && hasBigNegFloat(m) {
			// C14-F4: the codec prints a float in (-2^64, -2^63) as a 20-digit integer and then
			// cannot read it back
			r.sum.Count("roundtrip.known-F4")
			return nil
		}
		r.disagree(in, "error "+err.Error(), "equal message", true, "roundtrip: Deserialize(Serialize(m)) is an error for "+strct)
		return nil
	}
	if !specEqual(m, m2, f.name == "json") {
		r.disagree(in, renderMsg(m2), renderMsg(m), true, "roundtrip: Deserialize(Serialize(m)) differs from m for "+strct)
		return m2
	}
	// the message must own its data: a transport reuses or discards the bytes it was decoded from
	before := renderMsg(m2)
	keep := append([]byte(nil), b...)
	for i := range b {
		b[i] = 'Z'
	}
	if after := renderMsg(m2); after != before {
		in["bytes"] = hex.EncodeToString(keep)
		r.disagree(in, after, before, true, "roundtrip: the deserialized "+strct+" changes when the buffer it was read from is overwritten (it aliases its input)")
		return nil
	}
	b = keep
	// wire layout, on the generically decoded bytes
	g, err, p := genericDecode(f.s, b)
	gl, isList := g.([]any)
	if p != "" || err != nil || !isList || len(gl) == 0 {
		r.disagree(in, fmt.Sprintf("%v %v %v", render(g), err, p), "a list", true, "layout: serialised "+strct+" is not a non-empty list")
		return m2
	}
	fields, optional, ok := layoutOf(m.MessageType())
	rv := reflect.ValueOf(m).Elem()
	if !ok || render(gl[0]) != fmt.Sprintf("i%d", int(m.MessageType())) {
		r.disagree(in, render(g), fmt.Sprintf("head %d", m.MessageType()), true, "layout: wrong message code on the wire for "+strct)
		return m2
	}
	// expected length: the trailing optional elements are dropped while empty
	want := len(fields)
	for k := 0; k < optional; k++ {
		fv := rv.FieldByName(fields[want-1])
		if fv.IsValid() && fv.Len() == 0 {
			want--
		} else {
			break
		}
	}
	if len(gl) != want+1 {
		kind := "trailing empty arguments are not omitted"
		if len(gl) < want+1 {
			kind = "a non-empty trailing element (or the position before it) is missing"
		}
		r.disagree(in, render(g), fmt.Sprintf("%d elements", want+1), true, "layout: "+strct+": "+kind)
		return m2
	}
	for j := 0; j < want; j++ {
		fv := rv.FieldByName(fields[j])
		if !fv.IsValid() || (render(gl[j+1]) != render(fv.Interface()) && !(f.name == "json" && looseSame(render(gl[j+1]), render(fv.Interface())))) {
			r.disagree(in, render(g), fmt.Sprintf("position %d = %s", j+1, fields[j]), true,
				"layout: "+strct+": element "+fmt.Sprint(j+1)+" on the wire is not field "+fields[j])
			return m2
		}
	}
	if optional == 2 && want == len(fields) {
		if rv.FieldByName("Arguments").Len() == 0 {
			r.sum.Count("roundtrip.kwargs-without-args")
		}
	}
	if want < len(fields) {
		r.sum.Count(fmt.Sprintf("roundtrip.trailing-omitted-%d", len(fields)-want))
	}
	// the model
	*ps = append(*ps,
		pending{line: "rt " + f.name + " " + renderMsg(m), expect: "ok " + renderMsg(m2), input: in, loose: f.name == "json",
			detail: "Lean msgToList;fromList differs from Deserialize(Serialize(m))"},
		pending{line: "m2l " + renderMsg(m), expect: "ok " + render(g), input: in, loose: f.name == "json",
			detail: "Lean msgToList differs from the list found on the wire"})
	return m2
}

func (r *runner) sectionRoundtrip(n int) {
	var ps []pending
	common := formats[0].opts
	for i := 0; i < n; i++ {
		row := wampLayout[i%len(wampLayout)]
		argsMode := (i / len(wampLayout)) % 4
		r.sum.Count("roundtrip.type." + row.strct)
		if i%2 == 0 {
			// payload every format can carry: all three, then cross-format agreement
			m := genMessage(r.rng, row.code, common, argsMode)
			if m == nil {
				r.disagree(int(row.code), "NewMessage returns nil", row.strct, true, "roundtrip: NewMessage does not know "+row.strct)
				continue
			}
			r.seen("roundtrip", renderMsg(m))
			var back []string
			for _, f := range formats {
				r.sum.Count("roundtrip.format." + f.name)
				m2 := r.checkOne(f, m, &ps)
				if m2 != nil {
					back = append(back, renderMsg(m2))
				}
			}
			r.sum.Evaluations++
			r.sum.Count("cross.compared")
			if len(back) == 3 && !(looseSame(back[0], back[1]) && looseSame(back[1], back[2])) {
				r.disagree(renderMsg(m), back, "three equal messages", true, "cross: the three formats decode "+row.strct+" differently")
			}
		} else {
			f := formats[1+(i/2)%2]
			m := genMessage(r.rng, row.code, f.opts, argsMode)
			if m == nil {
				continue
			}
			r.seen("roundtrip", renderMsg(m))
			r.sum.Count("roundtrip.format." + f.name)
			r.checkOne(f, m, &ps)
		}
		if i < 3 {
			r.sum.AddSample(map[string]any{"section": "roundtrip", "message": renderMsg(wampSample(r, row.code))}, 6)
		}
	}
	r.flush("roundtrip", ps)
}

// nested builds a value nested `depth` containers deep, alternating lists and dicts, with scalar
// siblings on every level so that each level is a real container on the wire.
func nested(depth int) any {
	var v any = "leaf"
	for d := depth; d > 0; d-- {
		if d%2 == 0 {
			v = wamp.Dict{"k": v, "n": int64(d)}
		} else {
			v = wamp.List{int64(d), v, "s"}
		}
	}
	return v
}

// sectionDeep: the round trip is stated for every payload, whatever its nesting depth (the
// Lean value type is unbounded); the random generator stops at depth 3-4, so nesting is
// exercised here directly, through all three formats, in positional and keyword arguments and
// in an options dict. (A decoder depth limit below these depths makes Deserialize refuse
// messages that Serialize of the same serializer has just written: seeded change C14-9.)
func (r *runner) sectionDeep() {
	var ps []pending
	for _, depth := range []int{6, 12, 24, 31, 33, 48, 100, 300} {
		v := nested(depth)
		msgs := []wamp.Message{
			&wamp.Publish{Request: 7, Options: wamp.Dict{}, Topic: "deep.topic", Arguments: wamp.List{v}},
			&wamp.Event{Subscription: 3, Publication: 4, Details: wamp.Dict{}, Arguments: wamp.List{}, ArgumentsKw: wamp.Dict{"deep": v}},
			&wamp.Call{Request: 9, Options: wamp.Dict{"x_deep": v}, Procedure: "deep.proc"},
		}
		for _, m := range msgs {
			r.seen("deep", renderMsg(m))
			for _, f := range formats {
				r.sum.Count(fmt.Sprintf("deep.depth-%d.%s", depth, f.name))
				r.checkOne(f, m, &ps)
			}
		}
	}
	r.flush("deep", ps)
}

func wampSample(r *runner, code wamp.MessageType) wamp.Message {
	return genMessage(r.rng.Split(), code, formats[0].opts, 2)
}

// hasBigNegFloat: some float in the message lies in (-2^64, -2^63).
func hasBigNegFloat(m wamp.Message) bool {
	var walk func(v any) bool
	walk = func(v any) bool {
		switch x := v.(type) {
		case float64:
			return x < -9223372036854775808.0 && x > -18446744073709551616.0
		case []any:
			for _, e := range x {
				if walk(e) {
					return true
				}
			}
		case wamp.List:
			return walk([]any(x))
		case map[string]any:
			for _, e := range x {
				if walk(e) {
					return true
				}
			}
		case wamp.Dict:
			return walk(map[string]any(x))
		}
		return false
	}
	rv := reflect.ValueOf(m).Elem()
	for i := 0; i < rv.NumField(); i++ {
		if walk(rv.Field(i).Interface()) {
			return true
		}
	}
	return false
}

// ---- hostile lists ----------------------------------------------------------

var hostileHeads = []any{uint64(7), uint64(0), uint64(71), uint64(255), uint64(256), uint64(1 << 31), uint64(1 << 63),
	uint64(1<<64 - 1), int64(-1), int64(-8), 1.0, 8.0, "1", nil, true, []any{uint64(1)}, map[string]any{}}

// strictOK is the WAMP reading of "compatible field type".
func strictOK(ft reflect.Type, v any) bool {
	switch ft.Kind() {
	case reflect.Uint64:
		switch x := v.(type) {
		case uint64:
			return true
		case int64:
			return x >= 0
		}
		return false
	case reflect.Int:
		switch v.(type) {
		case uint64, int64:
			return true
		}
		return false
	case reflect.String:
		_, ok := v.(string)
		return ok
	case reflect.Map:
		_, ok := v.(map[string]any)
		return ok || v == nil
	case reflect.Slice:
		_, ok := v.([]any)
		return ok || v == nil
	}
	return false
}

func (r *runner) sectionL2M(n int) {
	var ps []pending
	for i := 0; i < n; i++ {
		f := formats[i%3]
		row := wampLayout[r.rng.Intn(len(wampLayout))]
		m := genMessage(r.rng, row.code, f.opts, 0)
		if m == nil {
			continue
		}
		// start from the fully populated list
		rv := reflect.ValueOf(m).Elem()
		list := []any{uint64(row.code)}
		for j := 0; j < rv.NumField(); j++ {
			list = append(list, rv.Field(j).Interface())
		}
		mut := r.rng.Intn(8)
		switch mut {
		case 0: // wrong type somewhere
			k := 1 + r.rng.Intn(len(list)-1)
			list[k] = genValue(r.rng, f.opts, 2)
		case 1: // two wrong
			for t := 0; t < 2; t++ {
				k := 1 + r.rng.Intn(len(list)-1)
				list[k] = genValue(r.rng, f.opts, 2)
			}
		case 2: // truncated
			list = list[:r.rng.Intn(len(list)+1)]
		case 3: // too long
			for t := r.rng.Intn(3) + 1; t > 0; t-- {
				list = append(list, genValue(r.rng, f.opts, 2))
			}
		case 4: // hostile head
			list[0] = hostileHeads[r.rng.Intn(len(hostileHeads))]
		case 5: // nil items
			k := 1 + r.rng.Intn(len(list)-1)
			list[k] = nil
		case 6: // head as another known code: fields of one type into another
			list[0] = uint64(wampLayout[r.rng.Intn(len(wampLayout))].code)
		default: // unchanged
		}
		r.sum.Count(fmt.Sprintf("l2m.mutation.%d", mut))
		var b []byte
		var err error
		if p := protect(func() { b, err = f.s.SerializeDataItem(list) }); p != "" || err != nil {
			r.sum.Count("l2m.unencodable")
			continue
		}
		g, err, p := genericDecode(f.s, b)
		gl, isList := g.([]any)
		if p != "" || err != nil || !isList {
			r.sum.Count("l2m.generic-decode-failed")
			continue
		}
		in := map[string]any{"format": f.name, "bytes": hex.EncodeToString(b), "list": render(g)}
		r.seen("l2m", f.name+render(g))
		m2, derr, dp := deserialize(f.s, b)
		verdict := implVerdict(m2, derr, dp)
		r.sum.Count("l2m.verdict." + strings.Join(strings.Fields(verdict)[:minInt(2, len(strings.Fields(verdict)))], "-"))
		if dp != "" {
			r.disagree(in, verdict, "error or message", true, "l2m: Deserialize panics")
			continue
		}
		if derr == nil && m2 != nil {
			// accepted: is every item WAMP-compatible with its field?  What is still accepted
			// against the WAMP reading is one of the open findings; anything else is a regression.
			rv2 := reflect.ValueOf(m2).Elem()
			for j := 0; j < rv2.NumField() && j+1 < len(gl); j++ {
				ft, it := rv2.Field(j).Type(), gl[j+1]
				if strictOK(ft, it) {
					continue
				}
				known := ""
				switch {
				case it == nil:
					known = "F1c" // a nil item leaves the field at its zero value
				case ft.Kind() == reflect.Uint64 || ft.Kind() == reflect.Int:
					switch it.(type) {
					case float64, int64:
						known = "F1b" // float or negative number for an id / int
					}
				case ft.Kind() == reflect.Slice:
					if _, ok := it.([]byte); ok {
						known = "F1d"
					}
				}
				if known == "" {
					r.disagree(in, verdict, "error", true, "l2m: accepted a "+kindOf(it)+" for a field of type "+ft.Name()+" (not a compatible field type)")
				} else {
					r.sum.Count("l2m.accepted-incompatible.C14-" + known + "." + kindOf(it) + "-for-" + ft.Name())
				}
				break
			}
			mandatory := 0
			for j := 0; j < rv2.NumField(); j++ {
				if !strings.Contains(rv2.Type().Field(j).Tag.Get("wamp"), "omitempty") {
					mandatory++
				}
			}
			if len(gl)-1 < mandatory {
				r.sum.Count("l2m.accepted-incompatible.C14-F1c.short-list")
			}
		}
		ps = append(ps, pending{line: "l2m " + f.name + " " + render(g), expect: verdict, input: in,
			detail: "Lean fromList differs from Deserialize on a hostile list"})
	}
	r.flush("l2m", ps)
}

func minInt(a, b int) int {
	if a < b {
		return a
	}
	return b
}

// ---- synthetic message structs ----------------------------------------------

type synAllOmit struct {
	A wamp.List `wamp:"omitempty"`
	B wamp.Dict `wamp:"omitempty"`
}

func (*synAllOmit) MessageType() wamp.MessageType { return 200 }

type synOmitID struct {
	X wamp.ID
	Y wamp.ID `wamp:"omitempty"`
}

func (*synOmitID) MessageType() wamp.MessageType { return 201 }

type synOmitStr struct {
	X wamp.ID
	S wamp.URI  `wamp:"omitempty"`
	L wamp.List `wamp:"omitempty"`
}

func (*synOmitStr) MessageType() wamp.MessageType { return 202 }

type synMid struct {
	A wamp.List `wamp:"omitempty"`
	X wamp.ID
	B wamp.List `wamp:"omitempty"`
}

func (*synMid) MessageType() wamp.MessageType { return 203 }

type synOne struct {
	A wamp.Dict `wamp:"omitempty"`
}

func (*synOne) MessageType() wamp.MessageType { return 204 }

// schemaDesc renders a struct's schema for the driver's `m2ls` request.
func schemaDesc(m wamp.Message) string {
	rt := reflect.TypeOf(m).Elem()
	var parts []string
	for i := 0; i < rt.NumField(); i++ {
		k := map[reflect.Kind]string{reflect.Uint64: "u", reflect.Int: "i", reflect.String: "s", reflect.Map: "m", reflect.Slice: "l"}[rt.Field(i).Type.Kind()]
		o := "-"
		if strings.Contains(rt.Field(i).Tag.Get("wamp"), "omitempty") {
			o = "o"
		}
		parts = append(parts, k+o)
	}
	return fmt.Sprintf("%d:%s", int(m.MessageType()), strings.Join(parts, ","))
}

func (r *runner) sectionSynthetic() {
	var ps []pending
	js := formats[0]
	l1 := wamp.List{uint64(1)}
	d1 := wamp.Dict{"a": uint64(1)}
	msgs := []wamp.Message{
		&synAllOmit{}, &synAllOmit{A: wamp.List{}}, &synAllOmit{A: l1}, &synAllOmit{B: d1}, &synAllOmit{A: l1, B: d1}, &synAllOmit{A: wamp.List{}, B: wamp.Dict{}},
		&synOmitID{X: 1, Y: 2}, &synOmitID{},
		&synOmitStr{X: 1}, &synOmitStr{X: 1, S: "a"}, &synOmitStr{X: 1, L: l1}, &synOmitStr{X: 1, S: "a", L: l1}, &synOmitStr{},
		&synMid{}, &synMid{A: l1}, &synMid{B: l1}, &synMid{X: 5},
		&synOne{}, &synOne{A: d1}, &synOne{A: wamp.Dict{}},
	}
	for _, m := range msgs {
		var b []byte
		var err error
		p := protect(func() { b, err = js.s.Serialize(m) })
		r.sum.Count("synthetic." + reflect.TypeOf(m).Elem().Name())
		in := map[string]any{"struct": fmt.Sprintf("%T", m), "schema": schemaDesc(m), "fields": fieldsList(m)}
		r.seen("synthetic", renderMsg(m))
		var expect string
		prefix := false
		switch {
		case p != "":
			expect, prefix = "panic "+p, true
			r.sum.Count("synthetic.panic")
		case err != nil:
			expect = "error " + err.Error()
		default:
			g, _, _ := genericDecode(js.s, b)
			expect = "ok " + render(g)
		}
		ps = append(ps, pending{line: "m2ls " + schemaDesc(m) + " " + fieldsList(m), expect: expect, input: in, prefix: prefix,
			detail: "Lean msgToList differs from Serialize on a harness-defined message struct (" + reflect.TypeOf(m).Elem().Name() + ")"})
	}
	r.flush("synthetic", ps)
}

// ---- witnesses of the Lean counter-example theorems ---------------------------

func (r *runner) sectionWitness() {
	fmtOf := func(name string) format {
		for _, g := range formats {
			if g.name == name {
				return g
			}
		}
		panic("unknown format " + name)
	}
	var ps []pending
	// (a) regression replays of FIXED findings: must be rejected now
	type reg struct {
		id, fmtName, hexBytes, what string
		model                       bool // compare with the Lean model too
	}
	regs := []reg{
		{"C14-F1", "json", hex.EncodeToString([]byte(`[32,1,{},65]`)), "an integer for a URI field ([32,1,{},65] was SUBSCRIBE to topic \"A\")", true},
		{"C14-F1", "json", hex.EncodeToString([]byte(`[1,5,{}]`)), "an integer for a URI field ([1,5,{}])", true},
		{"C14-F1", "msgpack", "9301c4016180", "a []byte for a URI field (msgpack [1, bin \"a\", {}])", true},
		{"C14-F1", "cbor", "8304016180", "an integer for a string field (cbor [4, 1, \"a\"...])", false},
		{"C14-F2", "msgpack", "8101a161", "a top-level MessagePack MAP {1:\"a\"}", false},
		{"C14-F2", "cbor", "a1016161", "a top-level CBOR MAP {1:\"a\"}", false},
		{"C14-F2", "json", hex.EncodeToString([]byte(`{1:"a"}`)), "the top-level JSON text {1:\"a\"}", false},
		{"C14-F2", "json", hex.EncodeToString([]byte(`{1}`)), "the top-level JSON text {1}", false},
		{"C14-F2", "msgpack", "81a16101", "a top-level MessagePack MAP {\"a\":1}", true},
		{"C14-F2", "cbor", "a1616101", "a top-level CBOR MAP {\"a\":1}", true},
		{"C14-F2", "json", hex.EncodeToString([]byte(`{"a":1}`)), "a top-level JSON object {\"a\":1}", true},
		{"C14-F2", "json", hex.EncodeToString([]byte(`null`)), "a top-level JSON null", true},
		{"C14-F2", "msgpack", "c0", "a top-level MessagePack nil", true},
		{"C14-F2", "cbor", "f6", "a top-level CBOR null", true},
		{"C14-F2", "json", hex.EncodeToString([]byte(`"x"`)), "a top-level JSON string", true},
	}
	for _, x := range regs {
		f := fmtOf(x.fmtName)
		b, _ := hex.DecodeString(x.hexBytes)
		m, err, p := deserialize(f.s, b)
		verdict := implVerdict(m, err, p)
		r.sum.Evaluations++
		r.sum.Count("witness.regression." + x.id)
		in := map[string]any{"format": x.fmtName, "bytes": x.hexBytes}
		switch {
		case p != "":
			r.disagree(in, verdict, "error", true, "regression "+x.id+": Deserialize panics on "+x.what)
			continue
		case err == nil:
			r.disagree(in, verdict, "error", true, "regression "+x.id+": "+x.what+" is accepted as a message again")
			continue
		}
		if x.model {
			ps = append(ps, pending{line: "deser " + x.fmtName + " " + x.hexBytes, expect: verdict, input: in,
				detail: "regression " + x.id + ": model and implementation differ on " + x.what})
		}
	}
	// BinaryData.UnmarshalJSON on the empty JSON string (fixed C14-F3): an error, not a panic
	{
		var bd serialize.BinaryData
		var uerr error
		p := protect(func() { uerr = bd.UnmarshalJSON([]byte(`""`)) })
		r.sum.Evaluations++
		r.sum.Count("witness.regression.C14-F3")
		if p != "" {
			r.disagree("BinaryData.UnmarshalJSON(`\"\"`)", "panic "+p, "error", true, "regression C14-F3: serialize.BinaryData.UnmarshalJSON panics on the empty JSON string")
		} else if uerr == nil {
			r.disagree("BinaryData.UnmarshalJSON(`\"\"`)", "nil error", "error", true, "regression C14-F3: serialize.BinaryData.UnmarshalJSON accepts a string without the NUL prefix")
		}
		// and the documented convention still round-trips
		var back serialize.BinaryData
		enc, e1 := serialize.BinaryData{1, 2, 3}.MarshalJSON()
		p = protect(func() { uerr = back.UnmarshalJSON(enc) })
		if p != "" || e1 != nil || uerr != nil || render([]byte(back)) != "b010203" {
			r.disagree(string(enc), fmt.Sprintf("%v %v %v %v", p, e1, uerr, back), "[1 2 3]", true, "BinaryData does not round-trip through its own JSON convention")
		}
	}
	// (b) witnesses of findings that are still OPEN: reproduced -> one stable line per id
	type open struct {
		id, fmtName, hexBytes, line string
	}
	opens := []open{
		{"C14-F1b", "json", hex.EncodeToString([]byte(`[33,1.5,2]`)), "C14-F1b: a float or a negative number is accepted for an id field (C14_rejects_strict_fails: [33,1.5,2] is SUBSCRIBED with request 1; [33,-1,2] with request 2^64-1)"},
		{"C14-F1b", "json", hex.EncodeToString([]byte(`[33,-1,2]`)), ""},
		{"C14-F1c", "json", hex.EncodeToString([]byte(`[1]`)), "C14-F1c: a list shorter than the message's mandatory fields (or with nil items) is accepted, the fields stay zero (C14_rejects_short_fails: [1] is HELLO with empty realm)"},
		{"C14-F1c", "json", hex.EncodeToString([]byte(`[33,null,null]`)), ""},
		{"C14-F1d", "msgpack", "9524010280c403010203", "C14-F1d: a []byte is accepted for a List field and becomes a list of uint8 (C14_bin_for_list_accepted: msgpack 95 24 01 02 80 c4 03 01 02 03 is EVENT with Arguments [1,2,3])"},
	}
	for _, x := range opens {
		f := fmtOf(x.fmtName)
		b, _ := hex.DecodeString(x.hexBytes)
		m, err, p := deserialize(f.s, b)
		verdict := implVerdict(m, err, p)
		r.sum.Evaluations++
		r.sum.Count("witness.open." + x.id)
		in := map[string]any{"format": x.fmtName, "bytes": x.hexBytes}
		switch {
		case p != "":
			r.disagree(in, verdict, "no panic", true, "witness "+x.id+": Deserialize panics")
			continue
		case err != nil:
			r.disagree(in, verdict, "accepted", false, "witness: the implementation no longer reproduces "+x.id+" (defect fixed: update model, theorems and known_findings.json)")
		case x.line != "":
			r.sum.KnownFindings = append(r.sum.KnownFindings, x.line)
		}
		if x.fmtName == "json" && strings.Contains(string(b), ".") {
			continue // JSON floats are outside the Lean JSON fragment; l2m below covers the list level
		}
		ps = append(ps, pending{line: "deser " + x.fmtName + " " + x.hexBytes, expect: verdict, input: in,
			detail: "witness " + x.id + ": model and implementation differ"})
	}
	// the float witness at list level (what the codec hands to listToMsg)
	{
		js := fmtOf("json")
		m, err, p := deserialize(js.s, []byte(`[33,1.5,2]`))
		ps = append(ps, pending{line: "l2m json [i33,d3ff8000000000000,i2]", expect: implVerdict(m, err, p), input: "[33,1.5,2]",
			detail: "witness C14-F1b: model and implementation differ"})
	}
	// C14-F4: a float payload in (-2^64, -2^63) does not survive JSON
	{
		js := formats[0]
		m := &wamp.Hello{Realm: "a", Details: wamp.Dict{"x": -1e19}}
		b, serr := js.s.Serialize(m)
		m2, derr, p := deserialize(js.s, b)
		r.sum.Evaluations++
		r.sum.Count("witness.open.C14-F4")
		switch {
		case p != "":
			r.disagree(string(b), "panic "+p, "no panic", true, "witness: Deserialize panics")
		case serr == nil && derr != nil:
			r.sum.KnownFindings = append(r.sum.KnownFindings,
				"C14-F4: JSON round trip fails for a float payload in (-2^64, -2^63): Hello{Realm:\"a\", Details:{\"x\": -1e19}} is written as [1,\"a\",{\"x\":-10000000000000000000}], which Deserialize cannot parse")
		case serr == nil && derr == nil && specEqual(m, m2, true):
			r.disagree(string(b), renderMsg(m2), "error", false, "witness: the implementation no longer reproduces C14-F4 (defect fixed: remove the exemption in the roundtrip section)")
		default:
			r.disagree(string(b), fmt.Sprintf("%v %v", serr, derr), "error", true, "witness: C14-F4 behaves differently")
		}
	}
	r.flush("witness", ps)
}
