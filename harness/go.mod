module verif/harness

go 1.25

require github.com/gammazero/nexus/v3 v3.0.0

replace github.com/gammazero/nexus/v3 => /repo
