module verif/harness

go 1.25

require (
	github.com/gammazero/nexus/v3 v3.0.0
	github.com/gorilla/websocket v1.5.3
	github.com/ugorji/go/codec v1.3.1
	golang.org/x/crypto v0.48.0
)

require github.com/gammazero/deque v1.2.1 // indirect

replace github.com/gammazero/nexus/v3 => /repo
