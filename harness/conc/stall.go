package conc

import (
	"fmt"
	"strings"
	"testing"
	"testing/synctest"
	"time"

	"github.com/gammazero/nexus/v3/wamp"

	"verif/harness/hcommon"
)

// StallSess describes one scripted client of a stall scenario.
type StallSess struct {
	Name string   `json:"name"`
	Cap  int      `json:"cap"`
	Subs []string `json:"subs,omitempty"`
	Regs []string `json:"regs,omitempty"`
}

// StallCase: the sessions join, subscribe and register; the ops run one by one; before op StallAt
// the sessions of Stalled stop reading (for good, or until ResumeAt).
type StallCase struct {
	ID       string      `json:"id"`
	Sessions []StallSess `json:"sessions"`
	Stalled  []string    `json:"stalled"`
	StallAt  int         `json:"stall_at"`
	ResumeAt int         `json:"resume_at"` // 0 = never
	Ops      []Op        `json:"ops"`
	Directed string      `json:"directed,omitempty"`
}

type StallResult struct {
	Case       StallCase      `json:"case"`
	Violations []string       `json:"violations"`
	Known      []string       `json:"known,omitempty"`
	Stats      map[string]int `json:"stats"`
	MaxLatency int64          `json:"max_latency_ms"`
	Started    bool           `json:"started,omitempty"`
}

// retryPeriodMs is the longest time a callee's handler may be held by a RESULT to a blocked
// caller: the retry wake-ups are 2^k-1 ms after the first attempt and stop at the first one at or
// after sendResultDeadline (60 s), i.e. at 65 535 ms (Nexus.C07.retry_schedule).
const retryPeriodMs = 65535

var stallTopics = []string{"s.a", "s.b", "s.c"}
var stallProcs = []string{"q.a", "q.b", "q.c"}

func genStallCase(rng *hcommon.RNG, id string, n int) StallCase {
	c := StallCase{ID: id}
	names := []string{"a", "b", "c", "d", "e", "f"}
	k := 3 + rng.Intn(4)
	caps := []int{1, 1, 2, 3, 8, 64}
	procOwner := map[string]bool{}
	for i := 0; i < k; i++ {
		s := StallSess{Name: names[i], Cap: hcommon.Pick(rng, caps)}
		for _, t := range stallTopics {
			if rng.Chance(1, 2) {
				s.Subs = append(s.Subs, t)
			}
		}
		for _, p := range stallProcs {
			if !procOwner[p] && rng.Chance(1, 3) {
				procOwner[p] = true
				s.Regs = append(s.Regs, p)
			}
		}
		c.Sessions = append(c.Sessions, s)
	}
	// at least one session keeps reading
	for i := 0; i < k-1; i++ {
		if rng.Chance(2, 5) {
			c.Stalled = append(c.Stalled, names[i])
		}
	}
	if len(c.Stalled) == 0 {
		c.Stalled = []string{names[0]}
	}
	// Queue sizes from 1 up are for the sessions that stop reading. A session that keeps reading
	// gets a queue that holds what can arrive within one instant of the virtual clock (the harness
	// reads between steps, not concurrently): with a 1-slot queue an INTERRUPT and the next reply
	// produced in the same instant would make it lose the second one although it "reads".
	for i := range c.Sessions {
		st := false
		for _, n := range c.Stalled {
			if n == c.Sessions[i].Name {
				st = true
			}
		}
		if !st && c.Sessions[i].Cap < 8 {
			c.Sessions[i].Cap = 8 * c.Sessions[i].Cap
		}
	}
	c.StallAt = rng.Intn(n/2 + 1)
	if rng.Chance(1, 4) {
		c.ResumeAt = c.StallAt + 1 + rng.Intn(n/2+1)
	}
	for len(c.Ops) < n {
		s := names[rng.Intn(k)]
		switch rng.Intn(10) {
		case 0, 1, 2, 3:
			c.Ops = append(c.Ops, Op{Kind: "pub", S: s, Arg: hcommon.Pick(rng, stallTopics), Flag: true})
		case 4, 5, 6:
			c.Ops = append(c.Ops, Op{Kind: "call", S: s, Arg: hcommon.Pick(rng, stallProcs), Timeout: hcommon.Pick(rng, []int{50, 1000})})
		case 7:
			c.Ops = append(c.Ops, Op{Kind: "meta", S: s, Arg: hcommon.Pick(rng, []string{"wamp.session.count", "wamp.registration.list", "wamp.subscription.list", "wamp.session.list"})})
		case 8:
			c.Ops = append(c.Ops, Op{Kind: hcommon.Pick(rng, []string{"sub", "unsub", "reg", "unreg"}), S: s, Arg: "x." + s})
		case 9:
			c.Ops = append(c.Ops, Op{Kind: hcommon.Pick(rng, []string{"join", "leave"}), S: "g"})
		}
	}
	return c
}

type stallWorld struct {
	*world
	viol   func(string, ...any)
	res    *StallResult
	held   map[string]time.Duration // callee name -> until when its handler may be held by a retry
	subID  map[string]wamp.ID       // name/topic -> subscription id
	regID  map[string]wamp.ID
	pubSeq map[string]int    // publisher/topic -> last seq sent
	owner  map[string]string // procedure -> callee session
}

// await waits (advancing the virtual clock as little as possible) until pred holds for s's received
// messages; returns the latency in ms, or -1 if it never does within limit.
func (w *stallWorld) await(s *sess, from int, exact, limit time.Duration, pred func(wamp.Message) bool) int64 {
	t0 := time.Since(w.start)
	check := func() bool {
		w.pump()
		for _, m := range s.got[from:] {
			if pred(m) {
				return true
			}
		}
		return false
	}
	synctest.Wait()
	if check() {
		return 0
	}
	// fine steps first, then exactly to the allowed instant, then coarse steps up to the limit
	elapsed := func() time.Duration { return time.Since(w.start) - t0 }
	try := func(d time.Duration) bool {
		if d > 0 {
			time.Sleep(d)
		}
		synctest.Wait()
		return check()
	}
	for i := 0; i < 64 && elapsed() < limit; i++ {
		if try(time.Millisecond) {
			return int64(elapsed() / time.Millisecond)
		}
	}
	if exact > elapsed() {
		if try(exact - elapsed()) {
			return int64(elapsed() / time.Millisecond)
		}
	}
	for elapsed() < limit {
		if try(500 * time.Millisecond) {
			return int64(elapsed() / time.Millisecond)
		}
	}
	return -1
}

// pump drains every reading client and lets reading callees answer their invocations at once.
func (w *stallWorld) pump() {
	for round := 0; round < 8; round++ {
		w.drain()
		answered := false
		for _, n := range w.order {
			s := w.sess[n]
			if s.stalled || s.closed || s.dropped {
				continue
			}
			for len(s.invocations) > 0 {
				inv := s.invocations[0]
				s.invocations = s.invocations[1:]
				w.send(s, &wamp.Yield{Request: inv.Request, Arguments: inv.Arguments})
				answered = true
				// if the caller does not read, this handler may now be held by the RESULT retry loop
				if len(inv.Arguments) > 0 {
					if cn, ok := wamp.AsString(inv.Arguments[0]); ok {
						// (a caller with a tiny queue counts as blocked even while it reads: two
						// results of one instant overflow it, and that is the same exception)
						if cs := w.sess[cn]; cs != nil && (cs.stalled || cs.Cap < 8) {
							w.held[s.Name] = time.Since(w.start) + retryPeriodMs*time.Millisecond
							w.res.Stats["yields_to_stalled_caller"]++
						}
					}
				}
			}
		}
		if !answered {
			return
		}
		synctest.Wait()
	}
}

func isReplyTo(req wamp.ID, kinds ...wamp.MessageType) func(wamp.Message) bool {
	return func(m wamp.Message) bool {
		ok := false
		for _, k := range kinds {
			if m.MessageType() == k {
				ok = true
			}
		}
		if e, isErr := m.(*wamp.Error); isErr {
			return e.Request == req
		}
		if !ok {
			return false
		}
		switch x := m.(type) {
		case *wamp.Subscribed:
			return x.Request == req
		case *wamp.Unsubscribed:
			return x.Request == req
		case *wamp.Registered:
			return x.Request == req
		case *wamp.Unregistered:
			return x.Request == req
		case *wamp.Published:
			return x.Request == req
		case *wamp.Result:
			return x.Request == req
		}
		return false
	}
}

// request sends a request of a reading session and checks that the reply comes without delay
// (or, for a session whose handler is held by a RESULT retry, within the retry period).
func (w *stallWorld) request(s *sess, m wamp.Message, req wamp.ID, what string, extra time.Duration, kinds ...wamp.MessageType) {
	from := len(s.got)
	w.send(s, m)
	allowed := extra
	if until, ok := w.held[s.Name]; ok && until > time.Since(w.start) {
		allowed += until - time.Since(w.start)
		w.res.Stats["requests_of_possibly_held_callee"]++
	}
	lat := w.await(s, from, allowed, allowed+2*time.Second, isReplyTo(req, kinds...))
	w.res.Stats["requests"]++
	switch {
	case lat < 0 && s.Cap < 4:
		// a session that will stop reading later, with a tiny queue: two messages of one instant
		// can overflow it although it still reads between steps; not a verdict on the router
		w.res.Stats["inconclusive_tiny_queue"]++
	case lat < 0:
		w.viol("%s by %s (request %d) was not answered within %v of virtual time", what, s.Name, req, allowed+2*time.Second)
	case time.Duration(lat)*time.Millisecond > allowed:
		w.viol("%s by %s (request %d) was answered after %d ms; allowed %v", what, s.Name, req, lat, allowed)
	}
	if lat > w.res.MaxLatency {
		w.res.MaxLatency = lat
	}
}

func (w *stallWorld) apply(o Op) {
	s := w.sess[o.S]
	switch o.Kind {
	case "join":
		if s == nil {
			t0 := time.Since(w.start)
			if err := w.attach("g", "r1", 8); err != nil {
				w.viol("a new session could not join while others are stalled: %v", err)
			}
			if d := time.Since(w.start) - t0; d > 0 {
				w.viol("join took %v of virtual time", d)
			}
		}
		return
	case "leave":
		if s != nil && !s.left {
			s.left = true
			w.send(s, &wamp.Goodbye{Reason: wamp.CloseRealm, Details: wamp.Dict{}})
			synctest.Wait()
			w.pump()
			delete(w.sess, "g")
			for i, n := range w.order {
				if n == "g" {
					w.order = append(w.order[:i], w.order[i+1:]...)
					break
				}
			}
		}
		return
	}
	if s == nil || s.left {
		return
	}
	if s.stalled {
		// a stalled client may still send; nobody checks its replies. Guard for open finding F19:
		// it does not call meta procedures (the finding's own replay does).
		switch o.Kind {
		case "pub":
			w.pubSeq[s.Name+"/"+o.Arg]++
			w.send(s, &wamp.Publish{Request: s.req(), Topic: wamp.URI(o.Arg), Arguments: wamp.List{s.Name, w.pubSeq[s.Name+"/"+o.Arg]}})
		case "call":
			w.send(s, &wamp.Call{Request: s.req(), Procedure: wamp.URI(o.Arg), Options: wamp.Dict{"timeout": o.Timeout}, Arguments: wamp.List{s.Name, 1}})
		}
		synctest.Wait()
		w.pump()
		return
	}
	switch o.Kind {
	case "pub":
		w.pubSeq[s.Name+"/"+o.Arg]++
		req := s.req()
		w.request(s, &wamp.Publish{Request: req, Topic: wamp.URI(o.Arg), Options: wamp.Dict{"acknowledge": true},
			Arguments: wamp.List{s.Name, w.pubSeq[s.Name+"/"+o.Arg]}}, req, "PUBLISH", 0, wamp.PUBLISHED)
	case "call":
		req := s.req()
		// A reading callee answers at once. A callee that does not read, or whose handler is held by
		// a RESULT retry, cannot: then the answer is the timeout error, at the timeout at the latest.
		var allowed time.Duration
		if cn, ok := w.owner[o.Arg]; ok {
			if cs := w.sess[cn]; cs != nil {
				until, held := w.held[cn]
				if cs.stalled || (held && until > time.Since(w.start)) {
					allowed = time.Duration(o.Timeout) * time.Millisecond
				}
			}
		}
		w.request(s, &wamp.Call{Request: req, Procedure: wamp.URI(o.Arg), Options: wamp.Dict{"timeout": o.Timeout}, Arguments: wamp.List{s.Name, req}},
			req, "CALL", allowed, wamp.RESULT)
	case "meta":
		req := s.req()
		w.request(s, &wamp.Call{Request: req, Procedure: wamp.URI(o.Arg)}, req, "CALL "+o.Arg, 0, wamp.RESULT)
	case "sub":
		req := s.req()
		w.request(s, &wamp.Subscribe{Request: req, Topic: wamp.URI(o.Arg)}, req, "SUBSCRIBE", 0, wamp.SUBSCRIBED)
		for _, m := range s.got {
			if x, ok := m.(*wamp.Subscribed); ok && x.Request == req {
				w.subID[s.Name+"/"+o.Arg] = x.Subscription
			}
		}
	case "unsub":
		if id, ok := w.subID[s.Name+"/"+o.Arg]; ok {
			delete(w.subID, s.Name+"/"+o.Arg)
			req := s.req()
			w.request(s, &wamp.Unsubscribe{Request: req, Subscription: id}, req, "UNSUBSCRIBE", 0, wamp.UNSUBSCRIBED)
		}
	case "reg":
		req := s.req()
		w.request(s, &wamp.Register{Request: req, Procedure: wamp.URI(o.Arg)}, req, "REGISTER", 0, wamp.REGISTERED)
		for _, m := range s.got {
			if x, ok := m.(*wamp.Registered); ok && x.Request == req {
				w.regID[s.Name+"/"+o.Arg] = x.Registration
			}
		}
	case "unreg":
		if id, ok := w.regID[s.Name+"/"+o.Arg]; ok {
			delete(w.regID, s.Name+"/"+o.Arg)
			req := s.req()
			w.request(s, &wamp.Unregister{Request: req, Registration: id}, req, "UNREGISTER", 0, wamp.UNREGISTERED)
		}
	}
}

func runStallCase(t *testing.T, c StallCase) (res StallResult) {
	res.Case = c
	res.Stats = map[string]int{}
	viol := func(format string, a ...any) {
		if len(res.Violations) < 20 {
			res.Violations = append(res.Violations, fmt.Sprintf(format, a...))
		}
	}
	defer func() {
		if p := recover(); p != nil {
			msg := fmt.Sprint(p)
			if strings.Contains(msg, "deadlock") {
				viol("deadlock: every goroutine of the router and the harness is blocked: %s", msg)
			} else {
				viol("panic: %s", msg)
			}
		}
	}()
	synctest.Test(t, func(t *testing.T) {
		base, err := newWorld("r1")
		if err != nil {
			viol("router construction: %v", err)
			return
		}
		w := &stallWorld{world: base, viol: viol, res: &res, held: map[string]time.Duration{}, subID: map[string]wamp.ID{},
			regID: map[string]wamp.ID{}, pubSeq: map[string]int{}, owner: map[string]string{}}
		if c.Directed != "" {
			runDirectedStall(w, c.Directed)
		} else {
			runGeneratedStall(w, c)
		}
		// the router must still be able to shut down
		done := make(chan struct{})
		w.helpers.Add(1)
		go func() { defer w.helpers.Done(); w.r.Close(); close(done) }()
		time.Sleep(2 * time.Hour)
		synctest.Wait()
		select {
		case <-done:
		default:
			viol("Close did not return after the scenario")
		}
		w.finish()
	})
	return res
}

func runGeneratedStall(w *stallWorld, c StallCase) {
	viol := w.viol
	res := w.res
	stalled := map[string]bool{}
	for _, n := range c.Stalled {
		stalled[n] = true
	}
	for _, ss := range c.Sessions {
		if err := w.attach(ss.Name, "r1", ss.Cap); err != nil {
			viol("setup: %v", err)
			return
		}
		s := w.sess[ss.Name]
		for _, tp := range ss.Subs {
			req := s.req()
			w.request(s, &wamp.Subscribe{Request: req, Topic: wamp.URI(tp)}, req, "SUBSCRIBE", 0, wamp.SUBSCRIBED)
			for _, m := range s.got {
				if x, ok := m.(*wamp.Subscribed); ok && x.Request == req {
					w.subID[s.Name+"/"+tp] = x.Subscription
				}
			}
		}
		for _, p := range ss.Regs {
			req := s.req()
			w.request(s, &wamp.Register{Request: req, Procedure: wamp.URI(p)}, req, "REGISTER", 0, wamp.REGISTERED)
			w.owner[p] = s.Name
		}
	}
	everStalled := map[string]bool{}
	for i, o := range c.Ops {
		if i == c.StallAt {
			for n := range stalled {
				if s := w.sess[n]; s != nil {
					s.stalled = true
					everStalled[n] = true
				}
			}
		}
		if c.ResumeAt > 0 && i == c.ResumeAt {
			for n := range stalled {
				if s := w.sess[n]; s != nil && s.stalled {
					// what was buffered for the stalled client is at most its queue
					before := len(s.got)
					s.stalled = false
					w.drainOne(s)
					if n := len(s.got) - before; n > s.Cap {
						viol("stalled session %s had %d messages buffered, queue size %d", s.Name, n, s.Cap)
					}
					res.Stats["resumed"]++
				}
			}
			w.pump()
		}
		w.apply(o)
	}
	// let every retry loop and timer run out, then: everybody who reads got everything, in order
	time.Sleep(3 * time.Minute)
	synctest.Wait()
	w.pump()
	for _, ss := range c.Sessions {
		s := w.sess[ss.Name]
		if s == nil {
			continue
		}
		if s.stalled {
			before := len(s.got)
			s.stalled = false
			w.drainOne(s)
			if n := len(s.got) - before; n > s.Cap {
				viol("stalled session %s had %d messages buffered, queue size %d", s.Name, n, s.Cap)
			}
			res.Stats["stalled_checked"]++
			continue
		}
		if everStalled[s.Name] {
			continue // was stalled for a while: it lost messages
		}
		// events: for each publisher and subscribed topic, all sequence numbers 1..last, in order
		for _, tp := range ss.Subs {
			id := w.subID[s.Name+"/"+tp]
			next := map[string]int{}
			for _, m := range s.got {
				ev, ok := m.(*wamp.Event)
				if !ok || ev.Subscription != id || len(ev.Arguments) < 2 {
					continue
				}
				p, _ := wamp.AsString(ev.Arguments[0])
				q, _ := wamp.AsInt64(ev.Arguments[1])
				if int(q) != next[p]+1 {
					viol("subscriber %s topic %s: event %d of publisher %s arrived after %d (lost or out of order)", s.Name, tp, q, p, next[p])
				}
				next[p] = int(q)
				res.Stats["events_checked"]++
			}
			for key, last := range w.pubSeq {
				parts := strings.SplitN(key, "/", 2)
				if parts[1] != tp || parts[0] == s.Name {
					continue
				}
				if next[parts[0]] != last {
					viol("subscriber %s topic %s: got %d of %d events of publisher %s", s.Name, tp, next[parts[0]], last, parts[0])
				}
			}
		}
	}
	// final liveness probe: block (no timeout) on a reply for every reading session. If the router's
	// workers were deadlocked, every goroutine of the bubble would now be blocked and synctest panics.
	for _, n := range w.order {
		s := w.sess[n]
		if s.closed || s.dropped || s.left {
			continue
		}
		req := s.req()
		w.send(s, &wamp.Subscribe{Request: req, Topic: "final.probe"})
		for {
			m, ok := <-s.c.Recv()
			if !ok {
				viol("session %s was closed by the router", s.Name)
				break
			}
			if x, ok := m.(*wamp.Subscribed); ok && x.Request == req {
				break
			}
		}
		res.Stats["final_probes"]++
	}
}

// directed stall scenarios
var directedStall = []string{"F19-stalled-meta-caller", "retry-exception"}

func runDirectedStall(w *stallWorld, name string) {
	viol := w.viol
	res := w.res
	must := func(err error) bool {
		if err != nil {
			viol("setup: %v", err)
			return false
		}
		return true
	}
	step := func(s *sess, m wamp.Message) { w.send(s, m); synctest.Wait(); w.drain() }
	switch name {
	case "F19-stalled-meta-caller":
		// S stops reading with a full queue and calls a meta procedure: the meta session's handler
		// sits in the RESULT retry loop; X's REGISTER (whose meta events go through that handler)
		// and a new session's join then wait for it.
		if !must(w.attach("s", "r1", 1)) || !must(w.attach("x", "r1", 64)) {
			return
		}
		s, x := w.sess["s"], w.sess["x"]
		s.stalled = true
		step(s, &wamp.Subscribe{Request: 1, Topic: "t"})
		step(s, &wamp.Call{Request: 2, Procedure: "wamp.session.count"})
		from := len(x.got)
		w.send(x, &wamp.Register{Request: 1, Procedure: "p.one"})
		synctest.Wait()
		w.send(x, &wamp.Register{Request: 2, Procedure: "p.two"})
		lat := w.await(x, from, retryPeriodMs*time.Millisecond, 2*time.Minute, isReplyTo(2, wamp.REGISTERED))
		res.MaxLatency = lat
		res.Stats["f19_latency_ms"] = int(lat)
		if lat != 0 {
			res.Known = append(res.Known, fmt.Sprintf("F19: a session that does not read, calling a wamp.* meta procedure, holds the meta session's handler in the RESULT retry loop: two REGISTERs of another session took %d ms of virtual time (allowed: 0)", lat))
		}
	case "retry-exception":
		// the documented exception: callee Z yields to caller S whose queue is full; Z's next request
		// waits at most the retry period, then the call is cancelled; everybody else is not delayed.
		if !must(w.attach("s", "r1", 1)) || !must(w.attach("z", "r1", 64)) || !must(w.attach("x", "r1", 64)) {
			return
		}
		s, z, x := w.sess["s"], w.sess["z"], w.sess["x"]
		step(z, &wamp.Register{Request: 1, Procedure: "p"})
		s.stalled = true
		step(s, &wamp.Subscribe{Request: 1, Topic: "t"})
		step(s, &wamp.Call{Request: 2, Procedure: "p", Arguments: wamp.List{"s", 2}})
		if len(z.invocations) == 0 {
			viol("setup: no invocation")
			return
		}
		inv := z.invocations[0]
		z.invocations = nil
		step(z, &wamp.Yield{Request: inv.Request})
		// X is not delayed
		w.request(x, &wamp.Subscribe{Request: 1, Topic: "u"}, 1, "SUBSCRIBE", 0, wamp.SUBSCRIBED)
		// Z's next request is held, for at most the retry period
		fromZ := len(z.got)
		w.send(z, &wamp.Subscribe{Request: 2, Topic: "u"})
		lat := w.await(z, fromZ, retryPeriodMs*time.Millisecond, 2*time.Minute, isReplyTo(2, wamp.SUBSCRIBED))
		res.Stats["held_callee_latency_ms"] = int(lat)
		if lat < 0 || lat > retryPeriodMs {
			viol("the callee's next request was held for %d ms; the retry period is %d ms", lat, retryPeriodMs)
		}
		if lat == 0 {
			viol("the callee was not held at all: the scenario did not exercise the retry loop")
		}
		// afterwards the call is cancelled: the callee is told (INTERRUPT), the caller's ERROR is lost
		gotIntr := false
		for _, m := range z.got {
			if _, ok := m.(*wamp.Interrupt); ok {
				gotIntr = true
			}
		}
		if !gotIntr {
			viol("after the retry period the call was not cancelled (no INTERRUPT at the callee)")
		}
		s.stalled = false
		before := len(s.got)
		w.drainOne(s)
		if n := len(s.got) - before; n > s.Cap {
			viol("stalled session s had %d messages buffered, queue size %d", n, s.Cap)
		}
	}
}
