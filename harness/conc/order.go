package conc

import (
	"fmt"
	"io"
	"log"
	"strings"
	"sync"
	"time"

	"github.com/gammazero/nexus/v3/router"
	"github.com/gammazero/nexus/v3/transport"
	"github.com/gammazero/nexus/v3/wamp"

	"verif/harness/hcommon"
)

// OrderCase parameterises one concurrent run (real goroutines, real clock).
type OrderCase struct {
	ID         string `json:"id"`
	Seed       int64  `json:"seed"`
	Publishers int    `json:"publishers"`
	Subs       int    `json:"subscribers"`
	Callers    int    `json:"callers"`
	Events     int    `json:"events"`   // per publisher and topic
	Calls      int    `json:"calls"`    // per caller and procedure
	Progress   int    `json:"progress"` // progressive results per call
	Churn      int    `json:"churn"`    // subscribe/unsubscribe and register/unregister rounds
}

type OrderResult struct {
	Case       OrderCase      `json:"case"`
	Violations []string       `json:"violations"`
	Stats      map[string]int `json:"stats"`
	Started    bool           `json:"started,omitempty"`
	// blocked (function, wait kind) pairs seen in goroutine dumps during the run
	WaitSites []waitSite `json:"wait_sites,omitempty"`
}

func genOrderCase(rng *hcommon.RNG, id string, big bool) OrderCase {
	c := OrderCase{ID: id, Seed: int64(rng.Uint64() >> 1),
		Publishers: 2 + rng.Intn(3), Subs: 2 + rng.Intn(3), Callers: 2 + rng.Intn(3),
		Events: 40 + rng.Intn(60), Calls: 20 + rng.Intn(40), Progress: rng.Intn(4), Churn: 10 + rng.Intn(30)}
	if big {
		c.Events *= 4
		c.Calls *= 4
		c.Churn *= 3
	}
	return c
}

// oclient is a raw client: everything it receives is appended to got, in order.
type oclient struct {
	name string
	c    wamp.Peer
	id   wamp.ID
	mu   sync.Mutex
	got  []wamp.Message
	done chan struct{}
	// callee behaviour
	progress int
	sendMu   sync.Mutex
	nreq     wamp.ID
}

func (o *oclient) send(m wamp.Message) {
	o.sendMu.Lock()
	defer o.sendMu.Unlock()
	o.c.Send() <- m
}

func (o *oclient) req() wamp.ID {
	o.sendMu.Lock()
	defer o.sendMu.Unlock()
	o.nreq++
	return o.nreq
}

func (o *oclient) snapshot() []wamp.Message {
	o.mu.Lock()
	defer o.mu.Unlock()
	return append([]wamp.Message(nil), o.got...)
}

const orderQueue = 1 << 16

func runOrderCase(c OrderCase) (res OrderResult) {
	res.Case = c
	res.Stats = map[string]int{}
	viol := func(format string, a ...any) {
		if len(res.Violations) < 25 {
			res.Violations = append(res.Violations, fmt.Sprintf(format, a...))
		}
	}
	r, err := router.NewRouter(&router.Config{RealmConfigs: []*router.RealmConfig{realmCfg("r1")}}, log.New(io.Discard, "", 0))
	if err != nil {
		viol("router construction: %v", err)
		return
	}
	var readers sync.WaitGroup
	attach := func(name string, progress int) *oclient {
		cl, s := transport.LinkedPeersQSize(orderQueue)
		go func() { cl.Send() <- &wamp.Hello{Realm: "r1", Details: fullRoles} }()
		if err := r.Attach(s); err != nil {
			viol("attach %s: %v", name, err)
			return nil
		}
		m := <-cl.Recv()
		wel, ok := m.(*wamp.Welcome)
		if !ok {
			viol("attach %s: got %s", name, msgName(m))
			return nil
		}
		oc := &oclient{name: name, c: cl, id: wel.ID, done: make(chan struct{}), progress: progress}
		readers.Add(1)
		go func() {
			defer readers.Done()
			for m := range cl.Recv() {
				oc.mu.Lock()
				oc.got = append(oc.got, m)
				oc.mu.Unlock()
				if inv, ok := m.(*wamp.Invocation); ok {
					// answer in the order of arrival: progressive results 1..n, then the final one
					for j := 1; j <= oc.progress; j++ {
						oc.send(&wamp.Yield{Request: inv.Request, Options: wamp.Dict{"progress": true}, Arguments: wamp.List{j}})
					}
					oc.send(&wamp.Yield{Request: inv.Request, Arguments: inv.Arguments})
				}
			}
		}()
		return oc
	}
	topics := []string{"o.t1", "o.t2"}
	procs := []string{"o.p1", "o.p2"}
	var pubs, subs, callers, callees []*oclient
	for i := 0; i < c.Publishers; i++ {
		pubs = append(pubs, attach(fmt.Sprint("pub", i), 0))
	}
	for i := 0; i < c.Subs; i++ {
		subs = append(subs, attach(fmt.Sprint("sub", i), 0))
	}
	for i := 0; i < c.Callers; i++ {
		callers = append(callers, attach(fmt.Sprint("caller", i), 0))
	}
	for i := range procs {
		callees = append(callees, attach(fmt.Sprint("callee", i), c.Progress))
	}
	churnSub := attach("churnsub", 0)
	churnReg := attach("churnreg", 0)
	all := append(append(append(append([]*oclient{}, pubs...), subs...), callers...), callees...)
	all = append(all, churnSub, churnReg)
	for _, o := range all {
		if o == nil {
			return
		}
	}
	// stable subscriptions and registrations; wait for their acknowledgements
	for _, s := range subs {
		s.send(&wamp.Subscribe{Request: s.req(), Topic: "o.t1"})
		s.send(&wamp.Subscribe{Request: s.req(), Topic: "o.", Options: wamp.Dict{"match": "prefix"}})
	}
	for i, ce := range callees {
		ce.send(&wamp.Register{Request: ce.req(), Procedure: wamp.URI(procs[i])})
	}
	waitFor := func(o *oclient, n int, what string, pred func(wamp.Message) bool) bool {
		deadline := time.Now().Add(30 * time.Second)
		for time.Now().Before(deadline) {
			k := 0
			for _, m := range o.snapshot() {
				if pred(m) {
					k++
				}
			}
			if k >= n {
				return true
			}
			time.Sleep(time.Millisecond)
		}
		viol("%s: %s not complete after 30 s", o.name, what)
		return false
	}
	for _, s := range subs {
		if !waitFor(s, 2, "SUBSCRIBED", func(m wamp.Message) bool { _, ok := m.(*wamp.Subscribed); return ok }) {
			return
		}
	}
	for _, ce := range callees {
		if !waitFor(ce, 1, "REGISTERED", func(m wamp.Message) bool { _, ok := m.(*wamp.Registered); return ok }) {
			return
		}
	}

	// sample the blocked goroutines of the router while the work is going on
	seen := map[waitSite]int{}
	stopSampling := make(chan struct{})
	var sampler sync.WaitGroup
	sampler.Add(1)
	go func() {
		defer sampler.Done()
		for {
			select {
			case <-stopSampling:
				return
			case <-time.After(3 * time.Millisecond):
				sampleWaitSites(seen)
			}
		}
	}()
	defer func() {
		for ws := range seen {
			res.WaitSites = append(res.WaitSites, ws)
		}
	}()

	// the concurrent phase
	var work sync.WaitGroup
	for _, p := range pubs {
		work.Add(1)
		go func(p *oclient) {
			defer work.Done()
			for k := 1; k <= c.Events; k++ {
				for _, tp := range topics {
					opts := wamp.Dict{}
					if k%7 == 0 {
						opts["acknowledge"] = true
					}
					p.send(&wamp.Publish{Request: p.req(), Topic: wamp.URI(tp), Options: opts, Arguments: wamp.List{p.name, tp, k}})
				}
			}
		}(p)
	}
	for _, ca := range callers {
		work.Add(1)
		go func(ca *oclient) {
			defer work.Done()
			for k := 1; k <= c.Calls; k++ {
				for _, pr := range procs {
					ca.send(&wamp.Call{Request: ca.req(), Procedure: wamp.URI(pr), Options: wamp.Dict{"receive_progress": true},
						Arguments: wamp.List{ca.name, pr, k}})
				}
				// calls to the procedure that comes and goes
				ca.send(&wamp.Call{Request: ca.req(), Procedure: "o.p3", Arguments: wamp.List{ca.name, "o.p3", k}})
			}
		}(ca)
	}
	work.Add(2)
	go func() {
		defer work.Done()
		for k := 0; k < c.Churn; k++ {
			req := churnSub.req()
			churnSub.send(&wamp.Subscribe{Request: req, Topic: "o.t2"})
			var id wamp.ID
			if !waitFor(churnSub, 1, "SUBSCRIBED (churn)", func(m wamp.Message) bool {
				x, ok := m.(*wamp.Subscribed)
				if ok && x.Request == req {
					id = x.Subscription
				}
				return ok && x.Request == req
			}) {
				return
			}
			ureq := churnSub.req()
			churnSub.send(&wamp.Unsubscribe{Request: ureq, Subscription: id})
			if !waitFor(churnSub, 1, "UNSUBSCRIBED (churn)", func(m wamp.Message) bool {
				x, ok := m.(*wamp.Unsubscribed)
				return ok && x.Request == ureq
			}) {
				return
			}
		}
	}()
	go func() {
		defer work.Done()
		for k := 0; k < c.Churn; k++ {
			req := churnReg.req()
			churnReg.send(&wamp.Register{Request: req, Procedure: "o.p3"})
			var id wamp.ID
			if !waitFor(churnReg, 1, "REGISTERED (churn)", func(m wamp.Message) bool {
				x, ok := m.(*wamp.Registered)
				if ok && x.Request == req {
					id = x.Registration
				}
				return ok && x.Request == req
			}) {
				return
			}
			ureq := churnReg.req()
			churnReg.send(&wamp.Unregister{Request: ureq, Registration: id})
			if !waitFor(churnReg, 1, "UNREGISTERED (churn)", func(m wamp.Message) bool {
				x, ok := m.(*wamp.Unregistered)
				return ok && x.Request == ureq
			}) {
				return
			}
		}
	}()
	work.Wait()
	// completion: every stable subscriber has all events, every caller all final answers
	wantEvents := c.Publishers * c.Events * 3 // o.t1 exact + prefix, o.t2 prefix
	for _, s := range subs {
		waitFor(s, wantEvents, "events", func(m wamp.Message) bool { _, ok := m.(*wamp.Event); return ok })
	}
	for _, ca := range callers {
		waitFor(ca, c.Calls*3, "final answers", func(m wamp.Message) bool {
			switch x := m.(type) {
			case *wamp.Result:
				p, _ := x.Details["progress"].(bool)
				return !p
			case *wamp.Error:
				return x.Type == wamp.CALL
			}
			return false
		})
	}
	close(stopSampling)
	sampler.Wait()
	sampleWaitSites(seen)
	r.Close()
	readers.Wait()

	// ---- the ordering predicates of the property, evaluated on what each client received ----
	for _, o := range all {
		checkStream(o, c, viol, res.Stats)
	}
	return res
}

// checkStream evaluates the property's sentences on one client's received sequence.
func checkStream(o *oclient, c OrderCase, viol func(string, ...any), stats map[string]int) {
	got := o.snapshot()
	activeSub := map[wamp.ID]bool{}
	activeReg := map[wamp.ID]bool{}
	evSeq := map[string]int{}  // subscription/publisher/topic -> last seq
	invSeq := map[string]int{} // caller/proc -> last seq
	type callState struct {
		progress int
		final    bool
	}
	calls := map[wamp.ID]*callState{}
	// The client's own UNSUBSCRIBE/UNREGISTER requests name the id; we need request -> id. The
	// churn clients issue them strictly after the matching SUBSCRIBED/REGISTERED, so the id that
	// an UNSUBSCRIBED ends is the one acknowledged last.
	var lastSub, lastReg wamp.ID
	for i, m := range got {
		switch x := m.(type) {
		case *wamp.Subscribed:
			activeSub[x.Subscription] = true
			lastSub = x.Subscription
		case *wamp.Unsubscribed:
			delete(activeSub, lastSub)
			// a subscription that is ended starts counting afresh when it is taken again
			for k := range evSeq {
				if strings.HasPrefix(k, fmt.Sprint(lastSub)+"/") {
					delete(evSeq, k)
				}
			}
		case *wamp.Registered:
			activeReg[x.Registration] = true
			lastReg = x.Registration
		case *wamp.Unregistered:
			delete(activeReg, lastReg)
		case *wamp.Event:
			stats["events"]++
			if !activeSub[x.Subscription] {
				viol("%s: message %d is an EVENT for subscription %d, which is not (or no longer) acknowledged: SUBSCRIBED must come first and no EVENT may follow UNSUBSCRIBED", o.name, i, x.Subscription)
			}
			if len(x.Arguments) == 3 {
				p, _ := wamp.AsString(x.Arguments[0])
				tp, _ := wamp.AsString(x.Arguments[1])
				k, _ := wamp.AsInt64(x.Arguments[2])
				key := fmt.Sprintf("%d/%s/%s", x.Subscription, p, tp)
				if last, seen := evSeq[key]; seen && int(k) != last+1 {
					viol("%s: subscription %d: event %d of publisher %s on %s arrived after event %d", o.name, x.Subscription, k, p, tp, last)
				} else if !seen && o.name != "churnsub" && k != 1 {
					viol("%s: subscription %d: first event of publisher %s on %s has number %d", o.name, x.Subscription, p, tp, k)
				}
				evSeq[key] = int(k)
			}
		case *wamp.Invocation:
			stats["invocations"]++
			if !activeReg[x.Registration] {
				viol("%s: message %d is an INVOCATION for registration %d, which is not (or no longer) acknowledged", o.name, i, x.Registration)
			}
			if len(x.Arguments) == 3 {
				ca, _ := wamp.AsString(x.Arguments[0])
				pr, _ := wamp.AsString(x.Arguments[1])
				k, _ := wamp.AsInt64(x.Arguments[2])
				key := ca + "/" + pr
				if last, seen := invSeq[key]; seen && int(k) <= last {
					viol("%s: call %d of %s to %s arrived after call %d", o.name, k, ca, pr, last)
				} else if pr != "o.p3" && int(k) != invSeq[key]+1 {
					viol("%s: call %d of %s to %s arrived after call %d (one is missing)", o.name, k, ca, pr, invSeq[key])
				}
				invSeq[key] = int(k)
			}
		case *wamp.Result:
			stats["results"]++
			st := calls[x.Request]
			if st == nil {
				st = &callState{}
				calls[x.Request] = st
			}
			if st.final {
				viol("%s: RESULT for request %d after its final reply", o.name, x.Request)
			}
			if p, _ := x.Details["progress"].(bool); p {
				j := int64(0)
				if len(x.Arguments) == 1 {
					j, _ = wamp.AsInt64(x.Arguments[0])
				}
				if int(j) != st.progress+1 {
					viol("%s: request %d: progressive result %d arrived after %d", o.name, x.Request, j, st.progress)
				}
				st.progress = int(j)
			} else {
				st.final = true
				want := c.Progress
				if (x.Request-1)%3 == 2 { // a call to o.p3, answered by the churning callee without progress
					want = 0
				}
				if st.progress != want {
					viol("%s: request %d: final result after %d of %d progressive results", o.name, x.Request, st.progress, want)
				}
			}
		case *wamp.Error:
			if x.Type == wamp.CALL {
				st := calls[x.Request]
				if st == nil {
					st = &callState{}
					calls[x.Request] = st
				}
				if st.final {
					viol("%s: ERROR for request %d after its final reply", o.name, x.Request)
				}
				st.final = true
				stats["call_errors"]++
			}
		}
	}
	// completeness for the stable subscribers
	if len(o.name) > 3 && o.name[:3] == "sub" {
		n := 0
		for _, last := range evSeq {
			if last == c.Events {
				n++
			}
		}
		if want := c.Publishers * 3; n != want {
			viol("%s: %d of %d (subscription, publisher, topic) streams are complete", o.name, n, want)
		}
	}
}
