// Package conc holds the concurrency families of the L3 properties:
//
//	shutdown (C06)  Router.Close / RemoveRealm / AddRealm injected at every index of generated
//	                histories, under testing/synctest, then virtual hours of waiting;
//	stall    (C07)  subsets of sessions stop reading at any point, all queue sizes from 1;
//	                latency of everybody else measured on the virtual clock;
//	order    (C08)  real goroutines, sequence numbers in payloads, per-peer ordering predicates.
//
// Each family evaluates the property's sentences directly on what the real router does
// (spec_violation = the implementation broke the property on that input). Cases run in child
// processes: a panic of the router kills only the child, and is reported with the case.
package conc

import (
	"fmt"
	"io"
	"log"
	"sync"
	"testing/synctest"
	"time"

	"github.com/gammazero/nexus/v3/router"
	"github.com/gammazero/nexus/v3/transport"
	"github.com/gammazero/nexus/v3/wamp"
)

var fullRoles = wamp.Dict{"roles": wamp.Dict{
	"caller": wamp.Dict{"features": wamp.Dict{"call_canceling": true, "progressive_call_results": true, "call_timeout": true,
		"progressive_call_invocations": true}},
	"callee": wamp.Dict{"features": wamp.Dict{"call_canceling": true, "progressive_call_results": true,
		"shared_registration": true, "pattern_based_registration": true, "progressive_call_invocations": true}},
	"publisher":  wamp.Dict{"features": wamp.Dict{"publisher_exclusion": true}},
	"subscriber": wamp.Dict{"features": wamp.Dict{"pattern_based_subscription": true}},
}}

// remotePeer makes an in-process peer look like a network client (IsLocal false).
type remotePeer struct{ wamp.Peer }

func (remotePeer) IsLocal() bool { return false }

// sess is one scripted client.
type sess struct {
	Name    string
	Realm   string
	c       wamp.Peer
	ID      wamp.ID
	Cap     int
	stalled bool
	dropped bool // the client closed its side
	closed  bool // the router closed the channel towards the client
	left    bool // GOODBYE exchanged or killed before the injection
	got     []wamp.Message
	gotAt   []time.Duration
	nextReq wamp.ID
	slow    bool // the router-side peer parks the session's handler in every message (see shutdown.go)
	// pending invocations delivered to this session (as callee), oldest first
	invocations []*wamp.Invocation
}

func (s *sess) req() wamp.ID { s.nextReq++; return s.nextReq }

// world is one router with scripted clients, driven from inside a synctest bubble.
type world struct {
	r       router.Router
	sess    map[string]*sess
	order   []string
	quit    chan struct{}
	helpers sync.WaitGroup
	start   time.Time
	mu      sync.Mutex
	notes   []string
}

func realmCfg(uri string) *router.RealmConfig {
	// The Authorizer allows everything; with one configured the session handler asks the peer
	// IsLocal() for every message, which is where a "slow" peer parks it (shutdown.go).
	// Two of the topics the histories use keep event history: such a subscription outlives its
	// subscribers, so a session that has left must really be out of its subscriber set when a
	// publication still in flight reaches the broker during a shutdown.
	return &router.RealmConfig{URI: wamp.URI(uri), AnonymousAuth: true, AllowDisclose: true, EnableMetaKill: true, Authorizer: allowAll{},
		TopicEventHistoryConfigs: []*router.TopicEventHistoryConfig{
			{Topic: "w1.t", MatchPolicy: "exact", Limit: 4}, {Topic: "t.a", MatchPolicy: "exact", Limit: 4}}}
}

type allowAll struct{}

func (allowAll) Authorize(*wamp.Session, wamp.Message) (bool, error) { return true, nil }

func newWorld(realms ...string) (*world, error) {
	cfg := &router.Config{}
	for _, u := range realms {
		cfg.RealmConfigs = append(cfg.RealmConfigs, realmCfg(u))
	}
	r, err := router.NewRouter(cfg, log.New(io.Discard, "", 0))
	if err != nil {
		return nil, err
	}
	return &world{r: r, sess: map[string]*sess{}, quit: make(chan struct{}), start: time.Now()}, nil
}

func (w *world) note(format string, a ...any) {
	w.mu.Lock()
	w.notes = append(w.notes, fmt.Sprintf(format, a...))
	w.mu.Unlock()
}

// attachAsync starts an attach of a new client and returns a channel with AttachClient's result.
func (w *world) attachAsync(name, realm string, capacity int, remote bool, wrap func(wamp.Peer) wamp.Peer) (*sess, chan error) {
	c, s := transport.LinkedPeersQSize(capacity)
	var rs wamp.Peer = s
	if remote {
		rs = remotePeer{s}
	}
	if wrap != nil {
		rs = wrap(rs)
	}
	se := &sess{Name: name, Realm: realm, c: c, Cap: capacity}
	w.helpers.Add(2)
	go func() {
		defer w.helpers.Done()
		select {
		case c.Send() <- &wamp.Hello{Realm: wamp.URI(realm), Details: fullRoles}:
		case <-w.quit:
		}
	}()
	errc := make(chan error, 1)
	go func() {
		defer w.helpers.Done()
		errc <- w.r.AttachClient(rs, nil)
	}()
	return se, errc
}

// attach joins a client and reads its WELCOME (bubble only: uses synctest.Wait).
func (w *world) attach(name, realm string, capacity int) error {
	se, errc := w.attachAsync(name, realm, capacity, false, nil)
	synctest.Wait()
	select {
	case err := <-errc:
		if err != nil {
			return err
		}
	default:
		return fmt.Errorf("attach of %s did not return", name)
	}
	select {
	case m, ok := <-se.c.Recv():
		if !ok {
			return fmt.Errorf("%s: closed before WELCOME", name)
		}
		wel, ok := m.(*wamp.Welcome)
		if !ok {
			return fmt.Errorf("%s: expected WELCOME, got %s", name, m.MessageType())
		}
		se.ID = wel.ID
	default:
		return fmt.Errorf("%s: no WELCOME queued", name)
	}
	w.sess[name] = se
	w.order = append(w.order, name)
	return nil
}

// send hands a message to the router on behalf of a client; it does not wait for anything.
func (w *world) send(s *sess, m wamp.Message) {
	if s == nil || s.dropped {
		return
	}
	w.helpers.Add(1)
	go func() {
		defer w.helpers.Done()
		defer func() { recover() }() // the client already closed its side
		select {
		case s.c.Send() <- m:
		case <-w.quit:
		}
	}()
}

// drain reads what is queued for every client that is not stalled.
func (w *world) drain() {
	for _, n := range w.order {
		w.drainOne(w.sess[n])
	}
}

func (w *world) drainOne(s *sess) {
	if s.stalled || s.closed {
		return
	}
	for {
		select {
		case m, ok := <-s.c.Recv():
			if !ok {
				s.closed = true
				return
			}
			s.got = append(s.got, m)
			s.gotAt = append(s.gotAt, time.Since(w.start))
			if inv, ok := m.(*wamp.Invocation); ok {
				s.invocations = append(s.invocations, inv)
			}
		default:
			return
		}
	}
}

// finish releases the helper goroutines of the harness.
func (w *world) finish() {
	close(w.quit)
	w.helpers.Wait()
}

func isShutdownGoodbye(m wamp.Message) bool {
	g, ok := m.(*wamp.Goodbye)
	return ok && g.Reason == wamp.ErrSystemShutdown
}

func msgName(m wamp.Message) string {
	if m == nil {
		return "nil"
	}
	return m.MessageType().String()
}
