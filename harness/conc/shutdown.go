package conc

import (
	"fmt"
	"io"
	"log"
	"strings"
	"testing"
	"testing/synctest"
	"time"

	"github.com/gammazero/nexus/v3/router"
	"github.com/gammazero/nexus/v3/wamp"

	"verif/harness/hcommon"
)

// Op is one step of a generated history (realm r1; sessions x, y live in r2 and are bystanders).
type Op struct {
	Kind    string `json:"k"`
	S       string `json:"s,omitempty"`
	Arg     string `json:"a,omitempty"` // topic, procedure, target session
	Timeout int    `json:"to,omitempty"`
	Ms      int    `json:"ms,omitempty"`
	Cap     int    `json:"cap,omitempty"`
	Flag    bool   `json:"f,omitempty"`    // ack / progress / kill
	Slow    bool   `json:"slow,omitempty"` // join: the session's handler is parked for a few ms in every message it handles
}

// ShutCase is one injection: run Ops[:At], then Inject; InFlight = do not wait for quiescence
// after the last op before the injection.
type ShutCase struct {
	ID       string `json:"id"`
	Ops      []Op   `json:"ops"`
	At       int    `json:"at"`
	Inject   string `json:"inject"` // close | remove | remove+add | directed scenario name
	InFlight bool   `json:"inflight"`
	Directed string `json:"directed,omitempty"`
	Reps     int    `json:"reps,omitempty"`
}

// ShutResult is what was observed.
type ShutResult struct {
	Case       ShutCase       `json:"case"`
	Violations []string       `json:"violations"`
	Stats      map[string]int `json:"stats"`
	Started    bool           `json:"started,omitempty"`
}

var shutTopics = []string{"t.a", "t.b"}
var shutProcs = []string{"p.a", "p.b"}

// genHistory builds one history of about n ops.
func genHistory(rng *hcommon.RNG, n int) []Op {
	ops := []Op{}
	caps := []int{1, 2, 4, 64}
	names := []string{"a", "b", "c", "d"}
	for _, s := range names[:2+rng.Intn(3)] {
		ops = append(ops, Op{Kind: "join", S: s, Cap: hcommon.Pick(rng, caps), Slow: rng.Chance(1, 2)})
	}
	joined := func() []string {
		var js []string
		seen := map[string]bool{}
		for _, o := range ops {
			if o.Kind == "join" && !seen[o.S] {
				seen[o.S] = true
				js = append(js, o.S)
			}
		}
		return js
	}
	for i, s := range joined() {
		if rng.Chance(2, 3) {
			ops = append(ops, Op{Kind: "reg", S: s, Arg: shutProcs[i%len(shutProcs)]})
		}
		if rng.Chance(2, 3) {
			ops = append(ops, Op{Kind: "sub", S: s, Arg: hcommon.Pick(rng, shutTopics)})
		}
	}
	n += len(ops)
	for len(ops) < n {
		js := joined()
		s := hcommon.Pick(rng, js)
		switch rng.Intn(21) {
		case 16, 18:
			// first chunk of a progressive call invocation
			ops = append(ops, Op{Kind: "pcall", S: s, Arg: hcommon.Pick(rng, shutProcs)})
		case 17, 19, 20:
			// a later chunk of the session's last call (same request id)
			ops = append(ops, Op{Kind: "chunk", S: s, Arg: hcommon.Pick(rng, shutProcs), Flag: rng.Chance(1, 2)})
		case 0, 1:
			ops = append(ops, Op{Kind: "sub", S: s, Arg: hcommon.Pick(rng, shutTopics)})
		case 2, 3:
			ops = append(ops, Op{Kind: "pub", S: s, Arg: hcommon.Pick(rng, shutTopics), Flag: rng.Chance(1, 2)})
		case 4, 5:
			ops = append(ops, Op{Kind: "reg", S: s, Arg: hcommon.Pick(rng, shutProcs)})
		case 6, 7, 8:
			to := 0
			if rng.Chance(1, 2) {
				to = hcommon.Pick(rng, []int{1, 5, 50, 2000, 100000})
			}
			ops = append(ops, Op{Kind: "call", S: s, Arg: hcommon.Pick(rng, shutProcs), Timeout: to, Flag: rng.Chance(1, 3)})
		case 9:
			ops = append(ops, Op{Kind: "yield", S: s, Flag: rng.Chance(1, 3)})
		case 10:
			ops = append(ops, Op{Kind: "cancel", S: s, Arg: hcommon.Pick(rng, []string{"kill", "killnowait", "skip"})})
		case 11:
			// Generator guard for open finding F19: a session that is not reading does not call
			// meta procedures here (its own replay does); see stall.go.
			ops = append(ops, Op{Kind: "meta", S: s, Arg: hcommon.Pick(rng, []string{"wamp.session.count", "wamp.session.list", "wamp.registration.list", "wamp.subscription.list"})})
		case 12:
			t := hcommon.Pick(rng, js)
			if t != s {
				ops = append(ops, Op{Kind: "kill", S: s, Arg: t})
			}
		case 13:
			ops = append(ops, Op{Kind: hcommon.Pick(rng, []string{"stall", "resume"}), S: s})
		case 14:
			ops = append(ops, Op{Kind: hcommon.Pick(rng, []string{"drop", "goodbye"}), S: s})
		case 15:
			ops = append(ops, Op{Kind: "tick", Ms: hcommon.Pick(rng, []int{1, 3, 40, 1000, 70000})})
		}
	}
	return ops
}

// shutWorld extends world with what the shutdown checks need.
type shutWorld struct {
	*world
	metaCallers map[string]bool // sessions with a meta call whose reply they have not read
	calls       map[string][]wamp.ID
}

func (w *shutWorld) apply(o Op, wait bool) {
	s := w.sess[o.S]
	switch o.Kind {
	case "join":
		if s == nil {
			var err error
			if o.Slow {
				err = w.attachSlow(o.S, "r1", o.Cap)
			} else {
				err = w.attach(o.S, "r1", o.Cap)
			}
			if err != nil {
				w.note("join %s: %v", o.S, err)
			}
		}
		return
	case "tick":
		time.Sleep(time.Duration(o.Ms) * time.Millisecond)
		synctest.Wait()
		w.drain()
		return
	}
	if s == nil || s.dropped || s.left {
		return
	}
	switch o.Kind {
	case "sub":
		w.send(s, &wamp.Subscribe{Request: s.req(), Topic: wamp.URI(o.Arg)})
	case "pub":
		opts := wamp.Dict{}
		if o.Flag {
			opts["acknowledge"] = true
		}
		w.send(s, &wamp.Publish{Request: s.req(), Topic: wamp.URI(o.Arg), Options: opts, Arguments: wamp.List{1}})
	case "reg":
		w.send(s, &wamp.Register{Request: s.req(), Procedure: wamp.URI(o.Arg)})
	case "call":
		opts := wamp.Dict{}
		if o.Timeout > 0 {
			opts["timeout"] = o.Timeout
		}
		if o.Flag {
			opts["receive_progress"] = true
		}
		id := s.req()
		w.calls[s.Name] = append(w.calls[s.Name], id)
		w.send(s, &wamp.Call{Request: id, Procedure: wamp.URI(o.Arg), Options: opts, Arguments: wamp.List{1}})
	case "pcall":
		id := s.req()
		w.calls[s.Name] = append(w.calls[s.Name], id)
		w.send(s, &wamp.Call{Request: id, Procedure: wamp.URI(o.Arg), Options: wamp.Dict{"progress": true}, Arguments: wamp.List{1}})
	case "chunk":
		if cs := w.calls[s.Name]; len(cs) > 0 {
			opts := wamp.Dict{}
			if o.Flag {
				opts["progress"] = true
			}
			w.send(s, &wamp.Call{Request: cs[len(cs)-1], Procedure: wamp.URI(o.Arg), Options: opts, Arguments: wamp.List{3}})
		}
	case "yield":
		if len(s.invocations) > 0 {
			inv := s.invocations[0]
			opts := wamp.Dict{}
			if o.Flag {
				opts["progress"] = true
			} else {
				s.invocations = s.invocations[1:]
			}
			w.send(s, &wamp.Yield{Request: inv.Request, Options: opts, Arguments: wamp.List{2}})
		}
	case "cancel":
		if cs := w.calls[s.Name]; len(cs) > 0 {
			w.send(s, &wamp.Cancel{Request: cs[len(cs)-1], Options: wamp.Dict{"mode": o.Arg}})
		}
	case "meta":
		if s.stalled {
			return // guard F19
		}
		w.send(s, &wamp.Call{Request: s.req(), Procedure: wamp.URI(o.Arg)})
	case "kill":
		if t := w.sess[o.Arg]; t != nil && !s.stalled {
			w.send(s, &wamp.Call{Request: s.req(), Procedure: "wamp.session.kill", Arguments: wamp.List{t.ID}})
		}
	case "stall":
		s.stalled = true
	case "resume":
		s.stalled = false
	case "drop":
		s.dropped = true
		s.c.Close()
	case "goodbye":
		w.send(s, &wamp.Goodbye{Reason: wamp.CloseRealm, Details: wamp.Dict{}})
	}
	if wait {
		if s.slow {
			time.Sleep(2 * slowHandlerDelay)
		}
		synctest.Wait()
		w.drain()
	}
}

// slowHandlerDelay is how long the handler of a "slow" session is parked in every message it
// handles (in authzMessage, through Peer.IsLocal): at an injection that does not wait for
// quiescence the handler is in the middle of a message while the realm shuts down.
const slowHandlerDelay = 2 * time.Millisecond

func (w *shutWorld) attachSlow(name, realm string, capacity int) error {
	se, errc := w.attachAsync(name, realm, capacity, false, func(p wamp.Peer) wamp.Peer { return slowLocalPeer{p, slowHandlerDelay} })
	time.Sleep(4 * slowHandlerDelay)
	synctest.Wait()
	select {
	case err := <-errc:
		if err != nil {
			return err
		}
	default:
		return fmt.Errorf("attach of %s did not return", name)
	}
	select {
	case m, ok := <-se.c.Recv():
		if !ok {
			return fmt.Errorf("%s: closed before WELCOME", name)
		}
		wel, ok := m.(*wamp.Welcome)
		if !ok {
			return fmt.Errorf("%s: expected WELCOME, got %s", name, m.MessageType())
		}
		se.ID = wel.ID
	default:
		return fmt.Errorf("%s: no WELCOME queued", name)
	}
	se.slow = true
	w.sess[name] = se
	w.order = append(w.order, name)
	return nil
}

// probeRealm checks that a realm still routes: a fresh publication reaches a subscriber and a call
// is answered. Returns a violation text or "".
func (w *world) probeRealm(pubName, subName string) string {
	p, s := w.sess[pubName], w.sess[subName]
	if p == nil || s == nil {
		return "probe sessions missing"
	}
	w.drain()
	if p.closed || s.closed {
		return fmt.Sprintf("a session of the other realm was closed (%s closed=%v, %s closed=%v)", p.Name, p.closed, s.Name, s.closed)
	}
	n0 := len(s.got)
	w.send(p, &wamp.Publish{Request: p.req(), Topic: "probe.topic", Arguments: wamp.List{"probe"}})
	w.send(p, &wamp.Call{Request: p.req(), Procedure: "probe.proc"})
	synctest.Wait()
	w.drain()
	gotEvent, gotInv := false, false
	for _, m := range s.got[n0:] {
		switch x := m.(type) {
		case *wamp.Event:
			gotEvent = true
		case *wamp.Invocation:
			gotInv = true
			w.send(s, &wamp.Yield{Request: x.Request})
		}
	}
	synctest.Wait()
	w.drain()
	gotResult := false
	for _, m := range p.got {
		if _, ok := m.(*wamp.Result); ok {
			gotResult = true
		}
	}
	if !gotEvent || !gotInv || !gotResult {
		return fmt.Sprintf("the other realm stopped routing (event=%v invocation=%v result=%v)", gotEvent, gotInv, gotResult)
	}
	return ""
}

// runShutCase executes one generated case inside a bubble.
func runShutCase(t *testing.T, c ShutCase) (res ShutResult) {
	res.Case = c
	res.Stats = map[string]int{}
	viol := func(format string, a ...any) { res.Violations = append(res.Violations, fmt.Sprintf(format, a...)) }
	defer func() {
		if p := recover(); p != nil {
			msg := fmt.Sprint(p)
			if strings.Contains(msg, "deadlock") {
				viol("goroutines of the router are left behind, blocked for ever: %s", msg)
			} else {
				viol("panic: %s", msg)
			}
		}
	}()
	synctest.Test(t, func(t *testing.T) {
		base, err := newWorld("r1", "r2")
		if err != nil {
			viol("router construction: %v", err)
			return
		}
		w := &shutWorld{world: base, metaCallers: map[string]bool{}, calls: map[string][]wamp.ID{}}
		defer w.finish()
		// bystanders in r2
		for _, n := range []string{"x", "y"} {
			if se, errc := w.attachAsync(n, "r2", 64, false, nil); true {
				synctest.Wait()
				if err := <-errc; err != nil {
					viol("bystander attach: %v", err)
					return
				}
				m := <-se.c.Recv()
				if wel, ok := m.(*wamp.Welcome); ok {
					se.ID = wel.ID
				}
				w.sess[n] = se
				w.order = append(w.order, n)
			}
		}
		w.send(w.sess["y"], &wamp.Subscribe{Request: 1, Topic: "probe.topic"})
		w.send(w.sess["y"], &wamp.Register{Request: 2, Procedure: "probe.proc"})
		synctest.Wait()
		w.drain()

		for i := 0; i < c.At && i < len(c.Ops); i++ {
			last := i == c.At-1
			w.apply(c.Ops[i], !(last && c.InFlight))
		}
		// who is attached to r1 at the injection?
		var attached []*sess
		for _, n := range w.order {
			s := w.sess[n]
			if s.Realm == "r1" {
				w.drainOne(s)
				if !s.closed && !s.dropped {
					attached = append(attached, s)
				}
			}
		}
		res.Stats["attached"] = len(attached)
		for _, s := range attached {
			if s.stalled {
				res.Stats["stalled"]++
			}
			res.Stats["pending_invocations"] += len(s.invocations)
		}

		done := make(chan struct{})
		w.helpers.Add(1)
		go func() {
			defer w.helpers.Done()
			defer close(done)
			switch c.Inject {
			case "close":
				w.r.Close()
			case "remove":
				w.r.RemoveRealm("r1")
			case "remove+add":
				w.r.RemoveRealm("r1")
				if err := w.r.AddRealm(realmCfg("r1")); err != nil {
					w.note("AddRealm after RemoveRealm: %v", err)
				}
			}
		}()
		// advance virtual time by hours: pending call timers, retry loops, HELLO timeouts all expire
		time.Sleep(3 * time.Hour)
		synctest.Wait()
		select {
		case <-done:
		default:
			viol("%s did not return within 3 h of virtual time", c.Inject)
			return
		}
		// every attached client: GOODBYE system_shutdown, or its transport closed
		for _, s := range attached {
			s.stalled = false
			w.drainOne(s)
			gb := false
			for _, m := range s.got {
				if isShutdownGoodbye(m) {
					gb = true
				}
			}
			switch {
			case gb && s.closed:
				res.Stats["goodbye+closed"]++
			case gb:
				res.Stats["goodbye"]++
			case s.closed:
				res.Stats["closed_only"]++
			default:
				viol("session %s got neither GOODBYE wamp.close.system_shutdown nor a closed transport (last: %s)", s.Name, lastMsg(s))
			}
		}
		// a later attach
		se, errc := w.attachAsync("late", "r1", 8, false, nil)
		time.Sleep(10 * time.Second)
		synctest.Wait()
		var aerr error
		returned := false
		select {
		case aerr = <-errc:
			returned = true
		default:
		}
		w.drainOne(se)
		switch {
		case !returned:
			viol("Attach after %s did not return", c.Inject)
		case c.Inject == "remove+add":
			if aerr != nil {
				viol("Attach to the re-added realm failed: %v", aerr)
			} else if len(se.got) == 0 {
				viol("Attach to the re-added realm: no WELCOME")
			} else if _, ok := se.got[0].(*wamp.Welcome); !ok {
				viol("Attach to the re-added realm: first message %s", msgName(se.got[0]))
			}
			res.Stats["late_attach_ok"]++
		default:
			if aerr == nil {
				viol("Attach after %s succeeded", c.Inject)
			} else {
				abort := false
				for _, m := range se.got {
					if _, ok := m.(*wamp.Abort); ok {
						abort = true
					}
				}
				if abort {
					res.Stats["late_attach_abort"]++
				} else if se.closed {
					res.Stats["late_attach_closed"]++
				} else {
					res.Stats["late_attach_error_only"]++
				}
			}
		}
		// the other realm
		if c.Inject != "close" {
			if v := w.probeRealm("x", "y"); v != "" {
				viol("RemoveRealm(r1) affected realm r2: %s", v)
			} else {
				res.Stats["other_realm_ok"]++
			}
			fin := make(chan struct{})
			w.helpers.Add(1)
			go func() { defer w.helpers.Done(); w.r.Close(); close(fin) }()
			time.Sleep(time.Hour)
			synctest.Wait()
			select {
			case <-fin:
			default:
				viol("final Close did not return")
			}
		}
		for _, n := range w.notes {
			if strings.Contains(n, "AddRealm") {
				viol("%s", n)
			}
		}
	})
	return res
}

func lastMsg(s *sess) string {
	if len(s.got) == 0 {
		return "nothing"
	}
	return msgName(s.got[len(s.got)-1])
}

// ---------------------------------------------------------------------------
// directed scenarios: the witnesses of the shutdown defects found so far. They run on every
// check; a fixed defect must stay fixed (a failure is a spec violation), an open one is reported
// with its finding id.

type slowLocalPeer struct {
	wamp.Peer
	d time.Duration
}

func (p slowLocalPeer) IsLocal() bool { time.Sleep(p.d); return false }

type yieldingPeer struct {
	wamp.Peer
	n *int
}

func (p yieldingPeer) Send() chan<- wamp.Message {
	*p.n++
	if *p.n == 1 {
		time.Sleep(time.Millisecond)
	}
	return p.Peer.Send()
}

var directedShut = []string{"F8-timer-after-close", "F8b-timers-at-close", "F9-attach-after-close", "F9b-attach-racing-close", "F26-welcome-vs-close",
	"F27b-meta-reply-pending", "F31-retry-to-closed-peer", "F32-attach-vs-remove", "F33-publish-vs-close",
	"W1-parked-chunk-vs-close", "W1-parked-yield-vs-close", "W1-parked-publish-vs-close", "W1-parked-cancel-vs-close"}

func runDirectedShut(t *testing.T, name string) (res ShutResult) {
	res.Case = ShutCase{ID: name, Directed: name, Inject: name}
	res.Stats = map[string]int{}
	viol := func(format string, a ...any) { res.Violations = append(res.Violations, fmt.Sprintf(format, a...)) }
	defer func() {
		if p := recover(); p != nil {
			msg := fmt.Sprint(p)
			if strings.Contains(msg, "deadlock") {
				viol("goroutines left blocked for ever: %s", msg)
			} else {
				viol("panic: %s", msg)
			}
		}
	}()
	closeWithin := func(w *world, what string, f func()) bool {
		done := make(chan struct{})
		w.helpers.Add(1)
		go func() { defer w.helpers.Done(); f(); close(done) }()
		time.Sleep(3 * time.Hour)
		synctest.Wait()
		select {
		case <-done:
			return true
		default:
			viol("%s did not return within 3 h of virtual time", what)
			return false
		}
	}
	synctest.Test(t, func(t *testing.T) {
		w, err := newWorld("r1")
		if err != nil {
			viol("router construction: %v", err)
			return
		}
		defer w.finish()
		must := func(err error) bool {
			if err != nil {
				viol("setup: %v", err)
				return false
			}
			return true
		}
		step := func(s *sess, m wamp.Message) { w.send(s, m); synctest.Wait(); w.drain() }
		switch name {
		case "F8-timer-after-close":
			// a call with a router-side timeout is pending when the router closes; the timer fires later
			if !must(w.attach("a", "r1", 64)) || !must(w.attach("b", "r1", 64)) {
				return
			}
			step(w.sess["b"], &wamp.Register{Request: 1, Procedure: "p"})
			step(w.sess["a"], &wamp.Call{Request: 1, Procedure: "p", Options: wamp.Dict{"timeout": 60000}})
			closeWithin(w, "Close", w.r.Close)
		case "F8b-timers-at-close":
			// many call timers expire at the very instant the dealer is stopped
			if !must(w.attach("s", "r1", 1)) || !must(w.attach("z", "r1", 1<<14)) || !must(w.attach("v", "r1", 1<<14)) {
				return
			}
			s, z, v := w.sess["s"], w.sess["z"], w.sess["v"]
			step(z, &wamp.Register{Request: 1, Procedure: "p"})
			step(v, &wamp.Register{Request: 1, Procedure: "q"})
			s.stalled = true
			step(s, &wamp.Subscribe{Request: 1, Topic: "t"})
			step(s, &wamp.Call{Request: 2, Procedure: "p"})
			for i := 0; i < 2000; i++ {
				w.send(z, &wamp.Call{Request: wamp.ID(10 + i), Procedure: "q", Options: wamp.Dict{"timeout": 15}})
			}
			synctest.Wait()
			w.drain()
			if len(z.invocations) == 0 {
				viol("setup: no invocation")
				return
			}
			step(z, &wamp.Yield{Request: z.invocations[0].Request})
			time.Sleep(12 * time.Millisecond)
			closeWithin(w, "Close", w.r.Close)
		case "F9-attach-after-close":
			if !must(w.attach("a", "r1", 8)) {
				return
			}
			if !closeWithin(w, "Close", w.r.Close) {
				return
			}
			_, errc := w.attachAsync("late", "r1", 8, false, nil)
			time.Sleep(10 * time.Second)
			synctest.Wait()
			select {
			case err := <-errc:
				if err == nil {
					viol("Attach after Close succeeded")
				}
			default:
				viol("Attach after Close did not return")
			}
			if err := w.r.AddRealm(realmCfg("r9")); err == nil {
				viol("AddRealm after Close succeeded")
			}
			w.r.RemoveRealm("r1")
		case "F9b-attach-racing-close":
			// a router with a realm template: clients attaching to realms that do not exist yet, while
			// Router.Close runs. No attach waits for Close or the other way round. Whoever was welcomed
			// must have been told GOODBYE (or lost its transport) by the time Close has returned: a
			// realm created from the template behind Close's back would keep serving its client.
			tr, terr := router.NewRouter(&router.Config{RealmTemplate: realmCfg("tpl"), RealmConfigs: []*router.RealmConfig{realmCfg("r1")}}, log.New(io.Discard, "", 0))
			if !must(terr) {
				return
			}
			tw := &world{r: tr, sess: map[string]*sess{}, quit: make(chan struct{}), start: time.Now()}
			defer tw.finish()
			w.r.Close() // the default world's router is not used here
			if !must(tw.attach("a", "r1", 8)) {
				return
			}
			var ses []*sess
			var errcs []chan error
			racer := func(i int) {
				se, ec := tw.attachAsync(fmt.Sprint("racer", i), fmt.Sprint("tpl.realm", i), 8, false, nil)
				ses, errcs = append(ses, se), append(errcs, ec)
			}
			for i := 0; i < 4; i++ {
				racer(i)
			}
			done := make(chan struct{})
			tw.helpers.Add(1)
			go func() { defer tw.helpers.Done(); tr.Close(); close(done) }()
			for i := 4; i < 10; i++ {
				racer(i)
			}
			time.Sleep(3 * time.Hour)
			synctest.Wait()
			select {
			case <-done:
			default:
				viol("Close did not return within 3 h of virtual time")
				return
			}
			for i, se := range ses {
				select {
				case err := <-errcs[i]:
					if err != nil {
						res.Stats["racing_attach_refused"]++
						continue
					}
				default:
					viol("Attach of %s racing Close did not return", se.Name)
					continue
				}
				welcomed, told := false, false
			drainRacer:
				for {
					select {
					case m, ok := <-se.c.Recv():
						if !ok {
							told = true
							break drainRacer
						}
						if _, isW := m.(*wamp.Welcome); isW {
							welcomed = true
						}
						if isShutdownGoodbye(m) {
							told = true
						}
						if ab, isA := m.(*wamp.Abort); isA && ab.Reason == wamp.ErrSystemShutdown {
							told = true
						}
					default:
						break drainRacer
					}
				}
				if welcomed {
					res.Stats["racing_attach_welcomed"]++
				}
				if welcomed && !told {
					viol("%s was welcomed to a template realm while Router.Close ran and is still attached after Close returned (no GOODBYE, transport open)", se.Name)
				}
			}
		case "F26-welcome-vs-close":
			// the attaching goroutine is descheduled right before it would hand over the WELCOME
			n := 0
			_, errc := w.attachAsync("a", "r1", 8, false, func(p wamp.Peer) wamp.Peer { return yieldingPeer{p, &n} })
			synctest.Wait()
			closeWithin(w, "Close", w.r.Close)
			select {
			case <-errc:
			default:
				viol("Attach did not return")
			}
		case "F27b-meta-reply-pending":
			// the meta-procedure handler holds a reply that the meta session's handler will never take
			if !must(w.attach("s", "r1", 1)) || !must(w.attach("x", "r1", 8)) {
				return
			}
			s, x := w.sess["s"], w.sess["x"]
			s.stalled = true
			step(s, &wamp.Subscribe{Request: 1, Topic: "t"})
			step(s, &wamp.Call{Request: 2, Procedure: "wamp.session.count"})
			w.send(x, &wamp.Call{Request: 1, Procedure: "wamp.session.count"})
			time.Sleep(5 * time.Millisecond)
			synctest.Wait()
			closeWithin(w, "Close", w.r.Close)
		case "F31-retry-to-closed-peer":
			// a callee's handler retries a YIELD to a caller whose peer the shutdown has closed
			if !must(w.attach("s", "r1", 1)) || !must(w.attach("z", "r1", 64)) {
				return
			}
			s, z := w.sess["s"], w.sess["z"]
			step(z, &wamp.Register{Request: 1, Procedure: "p"})
			s.stalled = true
			step(s, &wamp.Subscribe{Request: 1, Topic: "t"})
			step(s, &wamp.Call{Request: 2, Procedure: "p"})
			if len(z.invocations) == 0 {
				viol("setup: no invocation")
				return
			}
			step(z, &wamp.Yield{Request: z.invocations[0].Request})
			time.Sleep(2 * time.Millisecond)
			closeWithin(w, "Close", w.r.Close)
		case "F32-attach-vs-remove":
			// the realm is removed while an attach that already looked it up is still authenticating
			_, errc := w.attachAsync("a", "r1", 8, false, func(p wamp.Peer) wamp.Peer { return slowLocalPeer{p, 10 * time.Millisecond} })
			time.Sleep(5 * time.Millisecond)
			w.r.RemoveRealm("r1")
			time.Sleep(time.Second)
			synctest.Wait()
			select {
			case err := <-errc:
				if err == nil {
					viol("Attach to a removed realm succeeded")
				}
			default:
				viol("Attach did not return")
			}
			closeWithin(w, "Close", w.r.Close)
		case "F33-publish-vs-close":
			// publishers keep publishing to a subscriber while the router closes
			if !must(w.attach("s", "r1", 4)) {
				return
			}
			step(w.sess["s"], &wamp.Subscribe{Request: 1, Topic: "t"})
			for i := 0; i < 6; i++ {
				if !must(w.attach(fmt.Sprint("p", i), "r1", 4)) {
					return
				}
			}
			for i := 0; i < 6; i++ {
				p := w.sess[fmt.Sprint("p", i)]
				for k := 0; k < 30; k++ {
					w.send(p, &wamp.Publish{Request: p.req(), Topic: "t", Arguments: wamp.List{k}})
				}
			}
			closeWithin(w, "Close", w.r.Close)
		case "W1-parked-chunk-vs-close", "W1-parked-yield-vs-close", "W1-parked-publish-vs-close", "W1-parked-cancel-vs-close":
			// The realm shuts down while a session handler is in the middle of a message (parked
			// in the Authorizer): other sessions' handlers complete their shutdown first, and the
			// parked one then still routes what it holds - a further chunk of its pending
			// progressive call, a YIELD, a PUBLISH - against tables from which its peers are gone.
			for _, kind := range []string{strings.TrimSuffix(strings.TrimPrefix(name, "W1-parked-"), "-vs-close")} {
				cn, zn := "c-"+kind, "z-"+kind
				slowc, slowz := kind != "yield", kind == "yield"
				wrap := func(p wamp.Peer) wamp.Peer { return slowLocalPeer{p, 2 * time.Millisecond} }
				for name, slow := range map[string]bool{cn: slowc, zn: slowz} {
					if slow {
						se, errc := w.attachAsync(name, "r1", 64, false, wrap)
						time.Sleep(10 * time.Millisecond)
						synctest.Wait()
						select {
						case err := <-errc:
							if !must(err) {
								return
							}
						default:
							viol("setup: attach of %s did not return", name)
							return
						}
						if wel, ok := (<-se.c.Recv()).(*wamp.Welcome); ok {
							se.ID = wel.ID
						}
						se.slow = true
						w.sess[name] = se
						w.order = append(w.order, name)
					} else if !must(w.attach(name, "r1", 64)) {
						return
					}
				}
				slowStep := func(s *sess, m wamp.Message) {
					w.send(s, m)
					time.Sleep(5 * time.Millisecond)
					synctest.Wait()
					w.drain()
				}
				c, z := w.sess[cn], w.sess[zn]
				proc := wamp.URI("w1." + kind)
				slowStep(z, &wamp.Register{Request: 1, Procedure: proc})
				slowStep(z, &wamp.Subscribe{Request: 2, Topic: "w1.t"})
				slowStep(c, &wamp.Call{Request: 7, Procedure: proc, Options: wamp.Dict{"progress": true, "receive_progress": true}})
				if len(z.invocations) == 0 {
					viol("setup: no invocation (%s); caller got %s, callee got %s", kind, lastMsg(c), lastMsg(z))
					return
				}
				// the in-flight message: its handler is parked when the shutdown starts
				switch kind {
				case "chunk":
					w.send(c, &wamp.Call{Request: 7, Procedure: proc, Options: wamp.Dict{}})
				case "yield":
					w.send(z, &wamp.Yield{Request: z.invocations[0].Request, Options: wamp.Dict{"progress": true}})
				case "publish":
					w.send(c, &wamp.Publish{Request: 8, Topic: "w1.t", Options: wamp.Dict{"acknowledge": true}})
				case "cancel":
					w.send(c, &wamp.Cancel{Request: 7, Options: wamp.Dict{"mode": "kill"}})
				}
				time.Sleep(time.Millisecond) // the handler has taken the message and is parked for another millisecond
			}
			closeWithin(w, "Close", w.r.Close)
		default:
			viol("unknown directed scenario %s", name)
		}
	})
	return res
}

var _ = router.NewRouter
