package conc

import (
	"bufio"
	"encoding/json"
	"flag"
	"fmt"
	"os"
	"os/exec"
	"path/filepath"
	"runtime"
	"sort"
	"strings"
	"sync"
	"testing"
	"time"

	"verif/harness/hcommon"
)

var (
	flagSeed     = flag.Int64("seed", 1, "VERIF_SEED")
	flagTier     = flag.String("tier", "quick", "quick|thorough")
	flagOut      = flag.String("out", "", "output directory")
	flagProperty = flag.String("property", "C06", "property id")
	flagReplay   = flag.String("replay", "", "replay file")
	flagN        = flag.Int("n", 0, "number of histories / cases (0 = tier default)")
	flagMode     = flag.String("childmode", "", "child: shutdown|stall|order")
	flagReq      = flag.String("req", "", "child: request file")
	flagRes      = flag.String("res", "", "child: result file")
)

type childReq struct {
	Shut  []ShutCase  `json:"shut,omitempty"`
	Stall []StallCase `json:"stall,omitempty"`
	Order []OrderCase `json:"order,omitempty"`
}

// TestChild runs a batch of cases in this process, streaming one JSON line per case (preceded by a
// "started" marker, so that the parent knows which case killed the process).
func TestChild(t *testing.T) {
	if *flagMode == "" {
		t.Skip("child only")
	}
	var req childReq
	b, err := os.ReadFile(*flagReq)
	if err != nil {
		t.Fatal(err)
	}
	if err := json.Unmarshal(b, &req); err != nil {
		t.Fatal(err)
	}
	f, err := os.Create(*flagRes)
	if err != nil {
		t.Fatal(err)
	}
	defer f.Close()
	enc := json.NewEncoder(f)
	emit := func(v any) { enc.Encode(v); f.Sync() }
	switch *flagMode {
	case "shutdown":
		for _, c := range req.Shut {
			emit(ShutResult{Case: ShutCase{ID: c.ID}, Started: true})
			reps := c.Reps
			if reps == 0 {
				reps = 1
			}
			var res ShutResult
			for i := 0; i < reps; i++ {
				var r ShutResult
				if c.Directed != "" {
					r = runDirectedShut(t, c.Directed)
					r.Case = c
				} else {
					r = runShutCase(t, c)
				}
				if i == 0 {
					res = r
				} else {
					res.Violations = append(res.Violations, r.Violations...)
				}
				if len(res.Violations) > 0 {
					break
				}
			}
			emit(res)
		}
	case "stall":
		for _, c := range req.Stall {
			emit(StallResult{Case: StallCase{ID: c.ID}, Started: true})
			emit(runStallCase(t, c))
		}
	case "order":
		for _, c := range req.Order {
			emit(OrderResult{Case: OrderCase{ID: c.ID}, Started: true})
			emit(runOrderCase(c))
		}
	}
}

// runChild runs a batch in a child process. It returns the raw result lines and, if the child
// died or hung, the id of the case that was running and the tail of its output.
func runChild(dir, mode, tag string, req childReq, timeout time.Duration) (lines [][]byte, crashedID string, tail string) {
	rf := filepath.Join(dir, "req-"+tag+".json")
	of := filepath.Join(dir, "res-"+tag+".jsonl")
	b, _ := json.Marshal(req)
	os.WriteFile(rf, b, 0o644)
	cmd := exec.Command(os.Args[0], "-test.run", "^TestChild$", "-test.timeout", "0", "-childmode", mode, "-req", rf, "-res", of)
	var out strings.Builder
	cmd.Stdout = &out
	cmd.Stderr = &out
	if err := cmd.Start(); err != nil {
		return nil, "?", "cannot start child: " + err.Error()
	}
	done := make(chan error, 1)
	go func() { done <- cmd.Wait() }()
	var err error
	select {
	case err = <-done:
	case <-time.After(timeout):
		cmd.Process.Kill()
		<-done
		err = fmt.Errorf("child timed out after %v (the implementation hangs in real time)", timeout)
	}
	started := ""
	if f, e := os.Open(of); e == nil {
		sc := bufio.NewScanner(f)
		sc.Buffer(make([]byte, 1<<20), 1<<28)
		for sc.Scan() {
			line := append([]byte(nil), sc.Bytes()...)
			var probe struct {
				Case struct {
					ID string `json:"id"`
				} `json:"case"`
				Started bool `json:"started"`
			}
			if json.Unmarshal(line, &probe) != nil {
				continue
			}
			if probe.Started {
				started = probe.Case.ID
				continue
			}
			started = ""
			lines = append(lines, line)
		}
		f.Close()
	}
	os.Remove(rf)
	os.Remove(of)
	if err != nil {
		tail = out.String()
		if i := strings.Index(tail, "panic:"); i >= 0 {
			tail = tail[i:]
		}
		if len(tail) > 2500 {
			tail = tail[:2500]
		}
		if started == "" {
			started = "?"
			if strings.Contains(out.String(), "WARNING: DATA RACE") {
				started = "!race"
				tail = out.String()
				if i := strings.Index(tail, "WARNING: DATA RACE"); i >= 0 {
					tail = tail[i:]
				}
				if len(tail) > 4000 {
					tail = tail[:4000]
				}
			}
		}
		return lines, started, err.Error() + "\n" + tail
	}
	return lines, "", ""
}

// runBatches distributes cases over worker children; a crashing case is reported and the rest of
// its batch re-run without it.
func runBatches[C any](dir, mode string, cases []C, idOf func(C) string, mk func([]C) childReq, timeout time.Duration,
	onLine func([]byte), onCrash func(C, string)) {
	workers := runtime.NumCPU()
	if workers > 12 {
		workers = 12
	}
	if mode == "order" {
		workers = 3 // real goroutines: do not oversubscribe
	}
	var mu sync.Mutex
	var wg sync.WaitGroup
	per := (len(cases) + workers - 1) / workers
	for wk := 0; wk < workers; wk++ {
		lo, hi := wk*per, (wk+1)*per
		if lo >= len(cases) {
			break
		}
		if hi > len(cases) {
			hi = len(cases)
		}
		wg.Add(1)
		go func(wk int, batch []C) {
			defer wg.Done()
			for len(batch) > 0 {
				lines, crashed, tail := runChild(dir, mode, fmt.Sprint(mode, wk), mk(batch), timeout)
				mu.Lock()
				for _, l := range lines {
					onLine(l)
				}
				mu.Unlock()
				if crashed == "" {
					return
				}
				idx := -1
				for i, c := range batch {
					if idOf(c) == crashed {
						idx = i
					}
				}
				if idx < 0 {
					mu.Lock()
					var zero C
					if crashed == "!race" {
						onCrash(zero, "the race detector reported a data race during this batch: "+tail)
					} else {
						onCrash(zero, "child failed outside any case: "+tail)
					}
					mu.Unlock()
					return
				}
				mu.Lock()
				onCrash(batch[idx], tail)
				mu.Unlock()
				batch = batch[idx+1:]
			}
		}(wk, cases[lo:hi])
	}
	wg.Wait()
}

func replayInputs(file string) []json.RawMessage {
	var rp struct {
		Broken []struct {
			Detail struct {
				Input json.RawMessage `json:"input"`
			} `json:"detail"`
		} `json:"broken"`
	}
	b, err := os.ReadFile(file)
	if err != nil {
		return nil
	}
	json.Unmarshal(b, &rp)
	var ins []json.RawMessage
	for _, br := range rp.Broken {
		if len(br.Detail.Input) > 0 {
			ins = append(ins, br.Detail.Input)
		}
	}
	return ins
}

func skipUnlessFamily(t *testing.T) {
	if *flagMode != "" {
		t.Skip("child")
	}
	if *flagOut == "" {
		t.Skip("no -out: not run by bin/check")
	}
	os.MkdirAll(*flagOut, 0o755)
}

// ---------------------------------------------------------------------------
// shutdown (C06)

func TestShutdown(t *testing.T) {
	skipUnlessFamily(t)
	sum := &hcommon.Summary{Family: "shutdown", Property: *flagProperty, Seed: *flagSeed, Tier: *flagTier,
		Rule: "generated histories (joins, subscribe, register, publish, calls with/without timeout, yields, cancels, meta calls, kills, stalls, drops, ticks) in realm r1 with bystanders in r2; " +
			"Router.Close / RemoveRealm / RemoveRealm+AddRealm injected at EVERY index (quiescent, and racing with the last op), then 3 h of virtual time; " +
			"distinct = distinct (op-kind prefix, injection, in-flight) shapes; non-trivial = at least one session attached at the injection"}
	nh := 6
	if *flagTier == "thorough" {
		nh = 150
	}
	if *flagN > 0 {
		nh = *flagN
	}
	var cases []ShutCase
	if *flagReplay != "" {
		for _, in := range replayInputs(*flagReplay) {
			var c ShutCase
			if json.Unmarshal(in, &c) == nil && (len(c.Ops) > 0 || c.Directed != "") {
				cases = append(cases, c)
			}
		}
	} else {
		for _, d := range directedShut {
			reps := 1
			if d == "F27b-meta-reply-pending" || d == "F33-publish-vs-close" || d == "F9b-attach-racing-close" {
				reps = 20 // the outcome depended on a random choice of select
			}
			cases = append(cases, ShutCase{ID: "directed/" + d, Directed: d, Inject: d, Reps: reps})
		}
		for h := 0; h < nh; h++ {
			rng := hcommon.NewRNG(*flagSeed*7919 + int64(h))
			ops := genHistory(rng, 12+rng.Intn(10))
			for at := 0; at <= len(ops); at++ {
				for _, inj := range []string{"close", "remove", "remove+add"} {
					for _, fl := range []bool{false, true} {
						if fl && (at == 0 || ops[at-1].Kind == "join" || ops[at-1].Kind == "tick") {
							continue
						}
						cases = append(cases, ShutCase{ID: fmt.Sprintf("h%d/%d/%s/%v", h, at, inj, fl), Ops: ops, At: at, Inject: inj, InFlight: fl})
					}
				}
			}
		}
	}
	shapes := map[string]bool{}
	onLine := func(l []byte) {
		var r ShutResult
		if json.Unmarshal(l, &r) != nil {
			return
		}
		sum.Evaluations++
		for k, v := range r.Stats {
			if sum.Histogram == nil {
				sum.Histogram = map[string]int{}
			}
			sum.Histogram[k] += v
		}
		sum.Count("inject." + r.Case.Inject)
		if r.Case.Directed != "" {
			sum.Count("directed")
		}
		if r.Stats["attached"] > 0 || r.Case.Directed != "" {
			var sh strings.Builder
			for i := 0; i < r.Case.At && i < len(r.Case.Ops); i++ {
				sh.WriteString(r.Case.Ops[i].Kind[:2])
			}
			fmt.Fprintf(&sh, "|%s|%v", r.Case.Inject, r.Case.InFlight)
			shapes[sh.String()] = true
		}
		sum.AddSample(map[string]any{"case": r.Case.ID, "stats": r.Stats}, 3)
		if len(r.Violations) > 0 {
			sum.Disagreements = append(sum.Disagreements, hcommon.Disagreement{
				Input: r.Case, Impl: r.Violations, Model: "C06: returns, no panic, GOODBYE or closed transport for every client, later Attach refused, no goroutine left, other realm unaffected",
				SpecViolation: true, Detail: fmt.Sprintf("shutdown %s: %s", r.Case.ID, r.Violations[0])})
		}
	}
	onCrash := func(c ShutCase, tail string) {
		sum.Evaluations++
		sum.Disagreements = append(sum.Disagreements, hcommon.Disagreement{Input: c, Impl: tail,
			Model: "C06: never panics then or later", SpecViolation: true,
			Detail: fmt.Sprintf("shutdown %s: the router process crashed or hung: %s", c.ID, firstLine(tail))})
	}
	runBatches(*flagOut, "shutdown", cases, func(c ShutCase) string { return c.ID },
		func(b []ShutCase) childReq { return childReq{Shut: b} }, 20*time.Minute, onLine, onCrash)
	sum.DistinctNontrivial = len(shapes)
	sum.TracesValidated = sum.Evaluations
	finishSummary(sum)
}

func firstLine(s string) string {
	lines := strings.Split(s, "\n")
	for i, l := range lines {
		if strings.HasPrefix(l, "panic:") || strings.HasPrefix(l, "fatal error:") {
			return l
		}
		if strings.HasPrefix(l, "WARNING: DATA RACE") {
			// name the first nexus frame of the racing access
			for _, f := range lines[i:] {
				if strings.Contains(f, "gammazero/nexus") && strings.HasSuffix(strings.TrimSpace(f), ")") {
					return "DATA RACE at " + strings.TrimSpace(f)
				}
			}
			return "DATA RACE (see impl)"
		}
	}
	if i := strings.Index(s, "\n"); i >= 0 {
		return s[:i]
	}
	return s
}

func finishSummary(sum *hcommon.Summary) {
	sort.Slice(sum.Disagreements, func(i, j int) bool { return sum.Disagreements[i].Detail < sum.Disagreements[j].Detail })
	if len(sum.Disagreements) > 12 {
		sum.Notes = append(sum.Notes, fmt.Sprintf("%d disagreements in all; the first 12 are listed", len(sum.Disagreements)))
		sum.Disagreements = sum.Disagreements[:12]
	}
	sum.Write(*flagOut)
}

// ---------------------------------------------------------------------------
// stall (C07)

func TestStall(t *testing.T) {
	skipUnlessFamily(t)
	sum := &hcommon.Summary{Family: "stall", Property: *flagProperty, Seed: *flagSeed, Tier: *flagTier,
		Rule: "3-6 sessions with queue sizes 1,2,3,8,64; a random subset stops reading before a random op (some resume later); every request of a reading session must be answered " +
			"without any advance of the virtual clock (calls to a non-reading or held callee: at their timeout; requests of a callee held by a RESULT retry: within 65 535 ms); " +
			"reading subscribers must get every event in order; a stalled session has at most its queue size buffered; final blocking probes make synctest's deadlock detector the oracle; " +
			"distinct = distinct (caps, stalled set, stall index, op kinds) shapes; non-trivial = at least one request answered while somebody is stalled"}
	n := 150
	if *flagTier == "thorough" {
		n = 6000
	}
	if *flagN > 0 {
		n = *flagN
	}
	var cases []StallCase
	if *flagReplay != "" {
		for _, in := range replayInputs(*flagReplay) {
			var c StallCase
			if json.Unmarshal(in, &c) == nil && (len(c.Ops) > 0 || c.Directed != "") {
				cases = append(cases, c)
			}
		}
	} else {
		for _, d := range directedStall {
			cases = append(cases, StallCase{ID: "directed/" + d, Directed: d})
		}
		for i := 0; i < n; i++ {
			rng := hcommon.NewRNG(*flagSeed*104729 + int64(i))
			cases = append(cases, genStallCase(rng, fmt.Sprint("s", i), 14+rng.Intn(16)))
		}
	}
	shapes := map[string]bool{}
	var maxLat int64
	onLine := func(l []byte) {
		var r StallResult
		if json.Unmarshal(l, &r) != nil {
			return
		}
		sum.Evaluations++
		for k, v := range r.Stats {
			if sum.Histogram == nil {
				sum.Histogram = map[string]int{}
			}
			sum.Histogram[k] += v
		}
		if r.MaxLatency > maxLat && r.Case.Directed == "" {
			maxLat = r.MaxLatency
		}
		if r.Stats["requests"] > 0 {
			var sh strings.Builder
			for _, s := range r.Case.Sessions {
				fmt.Fprintf(&sh, "%d,", s.Cap)
			}
			fmt.Fprintf(&sh, "|%v|%d|%d|", r.Case.Stalled, r.Case.StallAt, r.Case.ResumeAt)
			for _, o := range r.Case.Ops {
				sh.WriteString(o.Kind[:2])
			}
			shapes[sh.String()] = true
		}
		sum.AddSample(map[string]any{"case": r.Case.ID, "stats": r.Stats, "max_latency_ms": r.MaxLatency}, 3)
		sum.KnownFindings = append(sum.KnownFindings, r.Known...)
		if len(r.Violations) > 0 {
			sum.Disagreements = append(sum.Disagreements, hcommon.Disagreement{
				Input: r.Case, Impl: r.Violations, Model: "C07: bounded buffering; others answered without delay, completely and in order; retry exception bounded; no deadlock",
				SpecViolation: true, Detail: fmt.Sprintf("stall %s: %s", r.Case.ID, r.Violations[0])})
		}
	}
	onCrash := func(c StallCase, tail string) {
		sum.Evaluations++
		sum.Disagreements = append(sum.Disagreements, hcommon.Disagreement{Input: c, Impl: tail, Model: "C07", SpecViolation: true,
			Detail: fmt.Sprintf("stall %s: the router process crashed or hung: %s", c.ID, firstLine(tail))})
	}
	runBatches(*flagOut, "stall", cases, func(c StallCase) string { return c.ID },
		func(b []StallCase) childReq { return childReq{Stall: b} }, 20*time.Minute, onLine, onCrash)
	sum.DistinctNontrivial = len(shapes)
	sum.TracesValidated = sum.Evaluations
	sum.Notes = append(sum.Notes, fmt.Sprintf("largest latency of a request in the generated cases: %d ms of virtual time", maxLat))
	finishSummary(sum)
}

// ---------------------------------------------------------------------------
// order (C08)

func TestOrder(t *testing.T) {
	skipUnlessFamily(t)
	sum := &hcommon.Summary{Family: "order", Property: *flagProperty, Seed: *flagSeed, Tier: *flagTier,
		Rule: "concurrent runs with real goroutines and the real clock: 2-4 publishers x 2 topics, 2-4 subscribers with an exact and a prefix subscription, 2-4 callers pipelining calls to 2 callees " +
			"(0-3 progressive results per call), plus a session that subscribes/unsubscribes and one that registers/unregisters in a loop; sequence numbers in the payloads; " +
			"per receiver: per (subscription, publisher, topic) consecutive numbers, per (caller, procedure) consecutive calls, progressive results 1..n then the final one, nothing after a final reply, " +
			"EVENT only between SUBSCRIBED and UNSUBSCRIBED, INVOCATION only between REGISTERED and UNREGISTERED; distinct = distinct parameter tuples; all are non-trivial"}
	n := 12
	if *flagTier == "thorough" {
		n = 400
	}
	if *flagN > 0 {
		n = *flagN
	}
	var cases []OrderCase
	if *flagReplay != "" {
		for _, in := range replayInputs(*flagReplay) {
			var c OrderCase
			if json.Unmarshal(in, &c) == nil && c.Publishers > 0 {
				cases = append(cases, c)
			}
		}
	} else {
		for i := 0; i < n; i++ {
			rng := hcommon.NewRNG(*flagSeed*15485863 + int64(i))
			cases = append(cases, genOrderCase(rng, fmt.Sprint("o", i), *flagTier == "thorough" && i%10 == 0))
		}
	}
	shapes := map[string]bool{}
	waitSeen := map[waitSite]bool{}
	onLine := func(l []byte) {
		var r OrderResult
		if json.Unmarshal(l, &r) != nil {
			return
		}
		for _, ws := range r.WaitSites {
			waitSeen[ws] = true
		}
		sum.Evaluations++
		for k, v := range r.Stats {
			if sum.Histogram == nil {
				sum.Histogram = map[string]int{}
			}
			sum.Histogram[k] += v
		}
		c := r.Case
		shapes[fmt.Sprint(c.Publishers, c.Subs, c.Callers, c.Events, c.Calls, c.Progress, c.Churn)] = true
		sum.AddSample(map[string]any{"case": c, "stats": r.Stats}, 3)
		if len(r.Violations) > 0 {
			sum.Disagreements = append(sum.Disagreements, hcommon.Disagreement{
				Input: r.Case, Impl: r.Violations, Model: "C08: per-peer ordering predicates", SpecViolation: true,
				Detail: fmt.Sprintf("order %s: %s", r.Case.ID, r.Violations[0])})
		}
	}
	onCrash := func(c OrderCase, tail string) {
		sum.Evaluations++
		sum.Disagreements = append(sum.Disagreements, hcommon.Disagreement{Input: c, Impl: tail, Model: "C08", SpecViolation: true,
			Detail: fmt.Sprintf("order %s: the router process crashed, hung or raced: %s", c.ID, firstLine(tail))})
	}
	runBatches(*flagOut, "order", cases, func(c OrderCase) string { return c.ID },
		func(b []OrderCase) childReq { return childReq{Order: b} }, 20*time.Minute, onLine, onCrash)
	sum.DistinctNontrivial = len(shapes)
	sum.TracesValidated = sum.Evaluations
	// runtime cross-check of gen's channel-operation table
	if table, err := tableWaitSites(); err != nil {
		sum.Notes = append(sum.Notes, "cross-check of the channel-operation table skipped: "+err.Error())
	} else {
		missing := 0
		for ws := range waitSeen {
			sum.Count("blocked_site_seen")
			if !table[ws] {
				missing++
				sum.Disagreements = append(sum.Disagreements, hcommon.Disagreement{Input: ws, Impl: "goroutine blocked there in a dump",
					Model: "table (c) of Nexus/Gen/Sites.lean has no such blocking operation", SpecViolation: false,
					Detail: fmt.Sprintf("order: gen's channel-operation table is incomplete: a goroutine was seen blocked in %s (%s)", ws.Fn, ws.Kind)})
			}
		}
		sum.Notes = append(sum.Notes, fmt.Sprintf("goroutine dumps: %d distinct blocked (function, kind) sites of router/transport/wamp seen, %d not in table (c)", len(waitSeen), missing))
	}
	finishSummary(sum)
}
