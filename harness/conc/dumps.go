package conc

import (
	"bufio"
	"os"
	"path/filepath"
	"regexp"
	"runtime"
	"strings"
)

// Runtime cross-check of the extractor (DESIGN §4.2(3)): during the concurrent runs the goroutines
// of the process are dumped now and then; for every goroutine blocked in a channel operation
// whose innermost nexus frame is router/transport/wamp code, the (function, kind of wait) must
// occur in table (c) of lean/Nexus/Gen/Sites.lean. A blocked site that the table does not know
// means that gen's channel-operation table is incomplete.

type waitSite struct {
	Fn   string `json:"fn"`
	Kind string `json:"kind"` // send | recv | select
}

var goroutineHdr = regexp.MustCompile(`^goroutine \d+ \[([^\],]+)`)
var frameRe = regexp.MustCompile(`^github\.com/gammazero/nexus/v3/((?:router|transport|wamp)[\w/]*)\.(.+)\(`)

// sampleWaitSites parses one dump of all goroutines.
func sampleWaitSites(into map[waitSite]int) {
	buf := make([]byte, 1<<20)
	for {
		n := runtime.Stack(buf, true)
		if n < len(buf) {
			buf = buf[:n]
			break
		}
		buf = make([]byte, 2*len(buf))
	}
	kind := ""
	for _, line := range strings.Split(string(buf), "\n") {
		if m := goroutineHdr.FindStringSubmatch(line); m != nil {
			switch m[1] {
			case "chan send":
				kind = "send"
			case "chan receive":
				kind = "recv"
			case "select":
				kind = "select"
			default:
				kind = ""
			}
			continue
		}
		if kind == "" || strings.HasPrefix(line, "\t") || line == "" {
			continue
		}
		if strings.HasPrefix(line, "created by") {
			kind = ""
			continue
		}
		m := frameRe.FindStringSubmatch(line)
		if m == nil {
			// a frame outside the three trees (runtime, harness, client code): if it is not a
			// runtime frame the wait is not in router code
			if !strings.HasPrefix(line, "runtime.") && !strings.HasPrefix(line, "time.") {
				kind = ""
			}
			continue
		}
		fn := m[2]
		// (*dealer).yield.func1 -> dealer.yield ; NewRouter.gowrap1 -> NewRouter
		fn = strings.ReplaceAll(strings.ReplaceAll(fn, "(*", ""), ")", "")
		parts := strings.Split(fn, ".")
		var keep []string
		for _, p := range parts {
			if strings.HasPrefix(p, "func") || strings.HasPrefix(p, "gowrap") || (len(p) > 0 && p[0] >= '0' && p[0] <= '9') {
				break
			}
			keep = append(keep, p)
		}
		into[waitSite{Fn: m[1] + "." + strings.Join(keep, "."), Kind: kind}]++
		kind = ""
	}
}

// tableWaitSites reads table (c) from the generated Lean file (its comment lines).
func tableWaitSites() (map[waitSite]bool, error) {
	dir := os.Getenv("VERIF_DIR")
	if dir == "" {
		dir = "/verif"
	}
	f, err := os.Open(filepath.Join(dir, "lean", "Nexus", "Gen", "Sites.lean"))
	if err != nil {
		return nil, err
	}
	defer f.Close()
	res := map[waitSite]bool{}
	in := false
	sc := bufio.NewScanner(f)
	sc.Buffer(make([]byte, 1<<20), 1<<26)
	for sc.Scan() {
		l := sc.Text()
		if strings.HasPrefix(l, "def chanOps ") {
			in = true
			continue
		}
		if in && l == "]" {
			break
		}
		if !in || !strings.HasPrefix(l, "  -- ") {
			continue
		}
		// -- fn|op|chan  [file] cls owner=… sel alts=… ctx=…
		body := strings.TrimPrefix(l, "  -- ")
		parts := strings.SplitN(body, "|", 3)
		if len(parts) < 3 {
			continue
		}
		fn, op := parts[0], parts[1]
		sel := "plain"
		for _, s := range []string{" selMulti ", " selDefault ", " selSingle "} {
			if strings.Contains(body, s) {
				sel = strings.TrimSpace(s)
			}
		}
		switch {
		case sel == "selMulti":
			res[waitSite{fn, "select"}] = true
		case sel == "selDefault":
			// never blocks
		case op == "send":
			res[waitSite{fn, "send"}] = true
		default:
			res[waitSite{fn, "recv"}] = true
		}
	}
	return res, sc.Err()
}
