// Command transrace is a real-concurrency family for what sessions of different realms share below
// the realm: the socket servers, their serializers and transports. Several realms each get a
// subscriber, a publisher, a callee and a caller, attached over loopback websocket and rawsocket
// connections with each serializer; all of them work at once (real scheduler, all cores). Every
// payload names its realm and sequence number: a session must only ever see payloads of its own
// realm, complete and in order. The deterministic families cannot reach interleavings inside a
// serializer or transport; this one samples them (it proves nothing).
package main

import (
	"context"
	"flag"
	"fmt"
	"io"
	"log"
	"net"
	"os"
	"sync"
	"time"

	"github.com/gammazero/nexus/v3/client"
	"github.com/gammazero/nexus/v3/router"
	"github.com/gammazero/nexus/v3/transport/serialize"
	"github.com/gammazero/nexus/v3/wamp"

	"verif/harness/hcommon"
)

const (
	outQueue = 64 // per-client outbound queue of both servers
	window   = 16 // publications a publisher keeps in flight (plus one INVOCATION: well below outQueue)
)

func main() {
	seed := flag.Int64("seed", 1, "")
	tier := flag.String("tier", "quick", "")
	out := flag.String("out", ".", "")
	prop := flag.String("property", "C11", "")
	iters := flag.Int("iters", 300, "publications and calls per realm and connection kind")
	patience := flag.Int("patience", 90, "seconds without any delivery after which the run counts as hung")
	flag.String("replay", "", "")
	flag.Parse()
	sum := &hcommon.Summary{Family: "transrace", Property: *prop, Seed: *seed, Tier: *tier,
		Rule: "messages received over socket transports by sessions of several realms working concurrently (each payload names its realm and sequence number)"}
	var mu sync.Mutex
	bad := func(in any, got, want, detail string) {
		mu.Lock()
		defer mu.Unlock()
		if len(sum.Disagreements) < 6 {
			sum.Disagreements = append(sum.Disagreements, hcommon.Disagreement{Input: in, Impl: got, Model: want, SpecViolation: true, Detail: detail})
		}
	}
	finish := func() {
		mu.Lock()
		sum.DistinctNontrivial = sum.Evaluations
		err := sum.Write(*out)
		mu.Unlock()
		if err != nil {
			fmt.Fprintln(os.Stderr, err)
			os.Exit(2)
		}
	}
	lg := log.New(io.Discard, "", 0)
	realms := []string{"race.a", "race.b", "race.c"}
	cfg := &router.Config{}
	for _, u := range realms {
		cfg.RealmConfigs = append(cfg.RealmConfigs, &router.RealmConfig{URI: wamp.URI(u), AnonymousAuth: true})
	}
	r, err := router.NewRouter(cfg, lg)
	if err != nil {
		bad(nil, err.Error(), "router", "router construction failed")
		finish()
		return
	}
	defer r.Close()
	// The per-client outbound queue is set explicitly: the broker drops an EVENT for a
	// session whose queue is full (that is allowed), so the run keeps fewer messages in
	// flight towards any session (window below) than the queue holds; then none may be
	// dropped and each subscriber must see every publication of its pair, in order.
	wss := router.NewWebsocketServer(r)
	wss.OutQueueSize = outQueue
	wsCloser, err := wss.ListenAndServe("127.0.0.1:0")
	if err != nil {
		bad(nil, err.Error(), "listener", "websocket listener")
		finish()
		return
	}
	defer wsCloser.Close()
	rss := router.NewRawSocketServer(r)
	rss.OutQueueSize = outQueue
	rsCloser, err := rss.ListenAndServe("tcp", "127.0.0.1:0")
	if err != nil {
		bad(nil, err.Error(), "listener", "rawsocket listener")
		finish()
		return
	}
	defer rsCloser.Close()
	wsURL := "ws://" + wsCloser.(net.Listener).Addr().String()
	rsURL := "tcp://" + rsCloser.(net.Listener).Addr().String()

	type kind struct {
		name string
		url  string
		ser  serialize.Serialization
	}
	kinds := []kind{{"ws-json", wsURL, serialize.JSON}, {"ws-msgpack", wsURL, serialize.MSGPACK}, {"ws-cbor", wsURL, serialize.CBOR},
		{"raw-json", rsURL, serialize.JSON}, {"raw-msgpack", rsURL, serialize.MSGPACK}}
	connect := func(realm string, k kind) (*client.Client, error) {
		ctx, cancel := context.WithTimeout(context.Background(), 20*time.Second)
		defer cancel()
		return client.ConnectNet(ctx, k.url, client.Config{Realm: realm, Serialization: k.ser, ResponseTimeout: 20 * time.Second, Logger: lg})
	}
	var wg sync.WaitGroup
	var closers []*client.Client
	for _, realm := range realms {
		for _, k := range kinds {
			realm, k := realm, k
			in := map[string]any{"realm": realm, "transport": k.name}
			sub, err1 := connect(realm, k)
			pub, err2 := connect(realm, k)
			if err1 != nil || err2 != nil {
				bad(in, fmt.Sprint(err1, err2), "connected", "could not connect")
				continue
			}
			closers = append(closers, sub, pub)
			topic := "race.topic." + k.name // the same topic (and so the same subscription id) in every realm
			proc := "race.echo." + k.name
			var next int
			var smu sync.Mutex
			got := make(chan struct{}, *iters)
			handler := func(ev *wamp.Event) {
				smu.Lock()
				defer smu.Unlock()
				want := fmt.Sprintf("%s/%s/%d", realm, k.name, next)
				if len(ev.Arguments) != 1 || ev.Arguments[0] != want {
					bad(in, fmt.Sprint(ev.Arguments), want, "a subscriber received an EVENT that is not the next publication of its own realm")
				}
				next++
				mu.Lock()
				sum.Evaluations++
				sum.TracesValidated++
				mu.Unlock()
				got <- struct{}{}
			}
			if err := sub.Subscribe(topic, handler, nil); err != nil {
				bad(in, err.Error(), "SUBSCRIBED", "subscribe failed")
				continue
			}
			echo := func(_ context.Context, inv *wamp.Invocation) client.InvokeResult {
				return client.InvokeResult{Args: inv.Arguments}
			}
			if err := sub.Register(proc, echo, nil); err != nil {
				bad(in, err.Error(), "REGISTERED", "register failed")
				continue
			}
			wg.Add(2)
			go func() { // publisher
				defer wg.Done()
				acked := 0
				for i := 0; i < *iters; i++ {
					for i-acked >= window {
						select {
						case <-got:
							acked++
						case <-time.After(30 * time.Second):
							bad(in, fmt.Sprintf("%d events", acked), fmt.Sprintf("%d events", i), "events of the realm's own publications are missing")
							return
						}
					}
					tag := fmt.Sprintf("%s/%s/%d", realm, k.name, i)
					if err := pub.Publish(topic, wamp.Dict{"acknowledge": true}, wamp.List{tag}, nil); err != nil {
						bad(in, err.Error(), "PUBLISHED", "publish failed")
						return
					}
				}
				for i := acked; i < *iters; i++ {
					select {
					case <-got:
					case <-time.After(30 * time.Second):
						bad(in, fmt.Sprintf("%d events", i), fmt.Sprintf("%d events", *iters), "events of the realm's own publications are missing")
						return
					}
				}
			}()
			go func() { // caller
				defer wg.Done()
				for i := 0; i < *iters; i++ {
					tag := fmt.Sprintf("call/%s/%s/%d", realm, k.name, i)
					res, err := pub.Call(context.Background(), proc, nil, wamp.List{tag}, nil, nil)
					if err != nil {
						bad(in, err.Error(), "RESULT ["+tag+"]", "call failed")
						return
					}
					if len(res.Arguments) != 1 || res.Arguments[0] != tag {
						bad(in, fmt.Sprint(res.Arguments), "RESULT ["+tag+"]", "a caller received a RESULT that is not the echo of its own call")
						return
					}
					mu.Lock()
					sum.Evaluations++
					sum.TracesValidated++
					mu.Unlock()
				}
			}()
		}
	}
	done := make(chan struct{})
	go func() { wg.Wait(); close(done) }()
	// hung = no delivery at all for `patience` seconds (a slow machine is not a hang)
	last, idle := -1, 0
wait:
	for {
		select {
		case <-done:
			break wait
		case <-time.After(time.Second):
			mu.Lock()
			cur := sum.Evaluations
			mu.Unlock()
			if cur != last {
				last, idle = cur, 0
			} else if idle++; idle >= *patience {
				bad(nil, "still running", "finished", fmt.Sprintf("the concurrent transport run made no progress for %d s", *patience))
				finish()
				os.Exit(0)
			}
		}
	}
	for _, c := range closers {
		c.Close()
	}
	sum.Count(fmt.Sprintf("connections.%d", len(closers)))
	finish()
}
