// Package clientfam is the correspondence family for the client model (Lean
// Nexus.Client): it runs the REAL client.NewClient over transport.LinkedPeers
// against a scripted router peer inside a testing/synctest bubble (virtual
// clock), with N API goroutines and recording handlers, feeds the same timed
// script to the Lean model driver (`nexus-driver client`) and compares; the
// property sentences of C16/C17 are also evaluated directly on what the
// implementation did (executable specification).
package clientfam

import (
	"encoding/hex"
	"encoding/json"
	"fmt"
	"sort"

	"github.com/gammazero/nexus/v3/wamp"
)

// Behav scripts an invocation handler: it returns Res ("" = a normal result,
// "omit" = InternalProgressiveOmitResult, else an error URI) after Delay ms, or
// OnCancel as soon as its context is done when WaitCtx is set.
type Behav struct {
	Delay    int    `json:"delay"`
	Res      string `json:"res"`
	WaitCtx  bool   `json:"wait_ctx"`
	OnCancel string `json:"on_cancel,omitempty"`
	// Progress: SendProgress calls the handler makes when it starts (before anything else).
	Progress int `json:"progress,omitempty"`
}

// ScriptStep is one further call of a CallProgressive's sendProg callback: after D ms it returns a
// chunk with progress=true ("chunk"), the final chunk ("final": progress=false, "unset": options
// without progress, which the documentation allows for the last chunk) or an error ("err"); "ctx" waits
// for the caller's context to end and returns its error. The first call (made by the API
// goroutine) returns at once, with progress=true iff the script is not empty; when the script
// is used up the next call returns the final chunk at once.
type ScriptStep struct {
	D int    `json:"d"`
	K string `json:"k"`
}

// DeserEntry records what the real serializer made of one byte string (the
// model takes the third-party decoders as a parameter).
type DeserEntry struct {
	Ser  string         `json:"ser"`
	Hex  string         `json:"hex"`
	Kind string         `json:"kind"` // err | nil | val
	Args []any          `json:"args,omitempty"`
	Kw   map[string]any `json:"kw,omitempty"`
}

type Cfg struct {
	Timeout    int              `json:"timeout"`     // response timeout, ms
	CancelMode string           `json:"cancel_mode"` // "" = default
	DealerPPT  bool             `json:"dealer_ppt"`  // router announces payload_passthru_mode (broker and dealer)
	EventDelay int              `json:"event_delay"`
	ProgDelay  int              `json:"prog_delay"`
	Behav      map[string]Behav `json:"behav,omitempty"`
	Deser      []DeserEntry     `json:"deser,omitempty"`
	// GoodbyeReply >= 0: the router answers the client's GOODBYE after that many ms.
	GoodbyeReply int `json:"goodbye_reply"`
	// StallAfterGoodbye: having received the client's GOODBYE the router stops reading (as a
	// router does once the session is over). Only the F43 replay uses it.
	StallAfterGoodbye bool `json:"stall_after_goodbye,omitempty"`
}

// Stim is one timed stimulus. Router messages are JSON lists [code, fields…] in
// WAMP field order; {"$req":g} stands for the request id API call g drew.
type Stim struct {
	T    int    `json:"t"`
	Stim string `json:"stim"` // api | router | rclose | cancel | close
	G    int    `json:"g,omitempty"`
	Op   string `json:"op,omitempty"` // … | call | callprog
	Name string `json:"name,omitempty"`
	Prog bool   `json:"prog,omitempty"`
	// Script: op callprog only.
	Script []ScriptStep `json:"script,omitempty"`
	Kind   string       `json:"kind,omitempty"` // cancel: canceled | deadline
	M      []any        `json:"m,omitempty"`
}

type Scenario struct {
	ID    int      `json:"id"`
	Cfg   Cfg      `json:"cfg"`
	Stims []Stim   `json:"stims"`
	End   int      `json:"end"`
	Tags  []string `json:"tags,omitempty"` // generator's note of the shapes it put in (histogram only)
}

// Obs is one observation [t, kind, …] in the canonical form shared with the model.
type Obs []any

// Result is what the implementation did on one scenario.
type Result struct {
	ID       int    `json:"id"`
	Started  bool   `json:"started,omitempty"`
	Out      []Obs  `json:"out"`
	Raw      []Obs  `json:"raw"`      // the same observations in the order they were made
	Concrete []Stim `json:"concrete"` // the stimuli with ids resolved and auto-replies added: the model's input
	// Req maps API call g to the request id attributed to it.
	Req map[int]uint64 `json:"req"`
	// Unreturned lists API calls that had not returned when the scenario ended.
	Unreturned    []int  `json:"unreturned,omitempty"`
	CloseCalled   bool   `json:"close_called"`
	CloseReturned bool   `json:"close_returned"`
	DoneClosed    bool   `json:"done_closed"`
	Leftover      string `json:"leftover,omitempty"` // synctest's end-of-bubble report + where goroutines sit
	Panic         string `json:"panic,omitempty"`    // panic recovered in a harness-owned goroutine
	EventOverlap  bool   `json:"event_overlap,omitempty"`
	Err           string `json:"err,omitempty"`
}

// ---- values ------------------------------------------------------------------------

// toGo converts a JSON value of a script into what a (local, in-process) router
// peer would hand to the client.
func toGo(v any) any {
	switch x := v.(type) {
	case float64:
		return int64(x)
	case json.Number:
		n, _ := x.Int64()
		return n
	case []any:
		l := make(wamp.List, len(x))
		for i := range x {
			l[i] = toGo(x[i])
		}
		return l
	case map[string]any:
		if len(x) == 1 {
			if h, ok := x["$bin"].(string); ok {
				b, _ := hex.DecodeString(h)
				return b
			}
			if t, ok := x["$other"].(string); ok {
				switch t {
				case "float64":
					return 1.5
				case "uri":
					return wamp.URI("x")
				default:
					return struct{ X int }{1}
				}
			}
			if p, ok := x["$payload"].(map[string]any); ok {
				if nilp, _ := p["nil"].(bool); nilp {
					return (*wamp.PassthruPayload)(nil)
				}
				pp := &wamp.PassthruPayload{}
				if a, ok := p["args"].([]any); ok {
					pp.Arguments = toGo(a).(wamp.List)
				}
				if k, ok := p["kw"].(map[string]any); ok {
					pp.ArgumentsKw = toGo(k).(wamp.Dict)
				}
				return pp
			}
		}
		d := wamp.Dict{}
		for k, e := range x {
			d[k] = toGo(e)
		}
		return d
	}
	return v
}

// canon renders a Go value the client handed to a handler / returned as JSON-able.
func canon(v any) any {
	switch x := v.(type) {
	case nil:
		return nil
	case bool, string:
		return x
	case wamp.URI:
		return string(x)
	case wamp.ID:
		return int64(x)
	case int:
		return int64(x)
	case int64:
		return x
	case uint64:
		return int64(x)
	case float64:
		return map[string]any{"$other": "float64"}
	case []byte:
		return map[string]any{"$bin": hex.EncodeToString(x)}
	case wamp.List:
		return canonList(x)
	case []any:
		return canonList(x)
	case wamp.Dict:
		return canonDict(x)
	case map[string]any:
		return canonDict(x)
	case *wamp.PassthruPayload:
		if x == nil {
			return map[string]any{"$payload": map[string]any{"nil": true, "args": []any{}, "kw": map[string]any{}}}
		}
		return map[string]any{"$payload": map[string]any{"nil": false, "args": canonList(x.Arguments), "kw": canonDict(x.ArgumentsKw)}}
	}
	return map[string]any{"$other": fmt.Sprintf("%T", v)}
}

func canonList(l []any) []any {
	out := make([]any, len(l))
	for i := range l {
		out[i] = canon(l[i])
	}
	return out
}

func canonDict(d map[string]any) map[string]any {
	out := map[string]any{}
	for k, v := range d {
		out[k] = canon(v)
	}
	return out
}

func num(v any) int64 {
	switch x := v.(type) {
	case float64:
		return int64(x)
	case int:
		return int64(x)
	case int64:
		return x
	case uint64:
		return int64(x)
	case wamp.ID:
		return int64(x)
	case json.Number:
		n, _ := x.Int64()
		return n
	}
	return 0
}

func strOf(v any) string { s, _ := v.(string); return s }

func dictOf(v any) wamp.Dict {
	if m, ok := v.(map[string]any); ok {
		return toGo(m).(wamp.Dict)
	}
	return wamp.Dict{}
}

func listOf(v any) wamp.List {
	if l, ok := v.([]any); ok {
		return toGo(l).(wamp.List)
	}
	return nil
}

func at(m []any, i int) any {
	if i < len(m) {
		return m[i]
	}
	return nil
}

// buildMsg makes the wamp.Message of a script entry (ids already resolved).
func buildMsg(m []any) wamp.Message {
	if len(m) == 0 {
		return &wamp.Welcome{}
	}
	id := func(i int) wamp.ID { return wamp.ID(num(at(m, i))) }
	switch num(m[0]) {
	case 36:
		return &wamp.Event{Subscription: id(1), Publication: id(2), Details: dictOf(at(m, 3)), Arguments: listOf(at(m, 4)), ArgumentsKw: dictOf(at(m, 5))}
	case 68:
		return &wamp.Invocation{Request: id(1), Registration: id(2), Details: dictOf(at(m, 3)), Arguments: listOf(at(m, 4)), ArgumentsKw: dictOf(at(m, 5))}
	case 69:
		return &wamp.Interrupt{Request: id(1), Options: dictOf(at(m, 2))}
	case 65:
		return &wamp.Registered{Request: id(1), Registration: id(2)}
	case 33:
		return &wamp.Subscribed{Request: id(1), Subscription: id(2)}
	case 35:
		return &wamp.Unsubscribed{Request: id(1)}
	case 67:
		return &wamp.Unregistered{Request: id(1)}
	case 50:
		return &wamp.Result{Request: id(1), Details: dictOf(at(m, 2)), Arguments: listOf(at(m, 3)), ArgumentsKw: dictOf(at(m, 4))}
	case 17:
		return &wamp.Published{Request: id(1), Publication: id(2)}
	case 8:
		return &wamp.Error{Type: wamp.MessageType(num(at(m, 1))), Request: id(2), Details: dictOf(at(m, 3)), Error: wamp.URI(strOf(at(m, 4))),
			Arguments: listOf(at(m, 5)), ArgumentsKw: dictOf(at(m, 6))}
	case 6:
		return &wamp.Goodbye{Details: dictOf(at(m, 1)), Reason: wamp.URI(strOf(at(m, 2)))}
	case 3:
		return &wamp.Abort{Details: dictOf(at(m, 1)), Reason: wamp.URI(strOf(at(m, 2)))}
	case 1:
		return &wamp.Hello{Realm: "r", Details: wamp.Dict{}}
	case 2:
		return &wamp.Welcome{ID: 5, Details: wamp.Dict{}}
	case 4:
		return &wamp.Challenge{AuthMethod: "x", Extra: wamp.Dict{}}
	case 16:
		return &wamp.Publish{Request: 1, Options: wamp.Dict{}, Topic: "t"}
	case 48:
		return &wamp.Call{Request: 1, Options: wamp.Dict{}, Procedure: "p"}
	case 70:
		return &wamp.Yield{Request: 1, Options: wamp.Dict{}}
	case 32:
		return &wamp.Subscribe{Request: 1, Options: wamp.Dict{}, Topic: "t"}
	case 64:
		return &wamp.Register{Request: 1, Options: wamp.Dict{}, Procedure: "p"}
	case 49:
		return &wamp.Cancel{Request: 1, Options: wamp.Dict{}}
	case 5:
		return &wamp.Authenticate{}
	case 34:
		return &wamp.Unsubscribe{Request: 1, Subscription: 1}
	case 66:
		return &wamp.Unregister{Request: 1, Registration: 1}
	}
	return &wamp.Welcome{}
}

// canonCMsg renders a message the client sent in the model's compact form.
func canonCMsg(m wamp.Message) []any {
	switch x := m.(type) {
	case *wamp.Subscribe:
		return []any{32, int64(x.Request), string(x.Topic)}
	case *wamp.Unsubscribe:
		return []any{34, int64(x.Request), int64(x.Subscription)}
	case *wamp.Publish:
		ack, _ := x.Options[wamp.OptAcknowledge].(bool)
		return []any{16, int64(x.Request), string(x.Topic), ack}
	case *wamp.Register:
		return []any{64, int64(x.Request), string(x.Procedure)}
	case *wamp.Unregister:
		return []any{66, int64(x.Request), int64(x.Registration)}
	case *wamp.Call:
		rp, _ := x.Options[wamp.OptReceiveProgress].(bool)
		if more, ok := x.Options[wamp.OptProgress].(bool); ok {
			// a CALL of a progressive call (CallProgressive)
			return []any{48, int64(x.Request), string(x.Procedure), rp, more}
		}
		return []any{48, int64(x.Request), string(x.Procedure), rp}
	case *wamp.Cancel:
		mode, _ := x.Options[wamp.OptMode].(string)
		return []any{49, int64(x.Request), mode}
	case *wamp.Yield:
		p, _ := x.Options[wamp.OptProgress].(bool)
		return []any{70, int64(x.Request), p}
	case *wamp.Error:
		return []any{8, int64(x.Type), int64(x.Request), string(x.Error)}
	case *wamp.Goodbye:
		return []any{6, string(x.Reason)}
	case *wamp.Abort:
		return []any{3, string(x.Reason)}
	}
	return []any{int64(m.MessageType())}
}

func jsonKey(v any) string {
	b, _ := json.Marshal(v)
	return string(b)
}

// roundTrip normalises a value through JSON (numbers become float64 etc.).
func roundTrip[T any](v T) T {
	b, _ := json.Marshal(v)
	var r T
	json.Unmarshal(b, &r)
	return r
}

// sortObs orders observations by time, then by their JSON text: within one
// instant the order in which different goroutines act is not defined.
func sortObs(o []Obs) []Obs {
	out := append([]Obs{}, o...)
	sort.SliceStable(out, func(i, j int) bool {
		ti, tj := num(out[i][0]), num(out[j][0])
		if ti != tj {
			return ti < tj
		}
		return jsonKey(out[i]) < jsonKey(out[j])
	})
	return out
}
