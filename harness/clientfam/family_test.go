package clientfam

import (
	"bufio"
	"encoding/json"
	"flag"
	"fmt"
	"os"
	"os/exec"
	"path/filepath"
	"regexp"
	"runtime"
	"sort"
	"strings"
	"sync"
	"testing"
	"time"

	"verif/harness/hcommon"
)

var (
	flagSeed     = flag.Int64("seed", 1, "VERIF_SEED")
	flagTier     = flag.String("tier", "quick", "quick|thorough")
	flagOut      = flag.String("out", "", "output directory")
	flagProperty = flag.String("property", "C17", "C16 | C17 (generator bias and which clauses are reported)")
	flagReplay   = flag.String("replay", "", "replay file")
	flagN        = flag.Int("n", 0, "number of scenarios (0 = tier default)")
	flagBatch    = flag.String("batch", "", "child: batch request file")
	flagResult   = flag.String("result", "", "child: result file")
)

type batchReq struct {
	Scenarios []Scenario `json:"scenarios"`
}

// TestChild runs a batch of scenarios in this process and streams the results.
func TestChild(t *testing.T) {
	if *flagBatch == "" {
		t.Skip("child only")
	}
	var req batchReq
	b, err := os.ReadFile(*flagBatch)
	if err != nil {
		t.Fatal(err)
	}
	if err := json.Unmarshal(b, &req); err != nil {
		t.Fatal(err)
	}
	f, err := os.Create(*flagResult)
	if err != nil {
		t.Fatal(err)
	}
	defer f.Close()
	enc := json.NewEncoder(f)
	for _, sc := range req.Scenarios {
		enc.Encode(Result{ID: sc.ID, Started: true})
		f.Sync()
		enc.Encode(runScenario(t, sc))
		f.Sync()
	}
}

var childSeq struct {
	sync.Mutex
	n int
}

// runChild runs scenarios in a child process. If the child dies, crashedID is
// the scenario that was running and tail the end of its stderr.
func runChild(dir string, scs []Scenario) (results []Result, crashedID int, tail string) {
	crashedID = -1
	childSeq.Lock()
	childSeq.n++
	tag := fmt.Sprint(childSeq.n)
	childSeq.Unlock()
	bf := filepath.Join(dir, "batch-"+tag+".json")
	rf := filepath.Join(dir, "result-"+tag+".jsonl")
	b, _ := json.Marshal(batchReq{Scenarios: scs})
	os.WriteFile(bf, b, 0o644)
	defer os.Remove(bf)
	defer os.Remove(rf)
	cmd := exec.Command(os.Args[0], "-test.run", "^TestChild$", "-test.timeout", "0", "-batch", bf, "-result", rf)
	var stderr strings.Builder
	cmd.Stderr = &stderr
	cmd.Stdout = &stderr
	if err := cmd.Start(); err != nil {
		return nil, scs[0].ID, "cannot start child: " + err.Error()
	}
	done := make(chan error, 1)
	go func() { done <- cmd.Wait() }()
	// The child writes a record when it starts a scenario and one when it has finished it
	// (milliseconds apart): a result file that has not grown for a minute means the scenario
	// that is running hangs. (Overall cap: five minutes per batch.)
	var err error
	start, lastGrowth, lastSize := time.Now(), time.Now(), int64(-1)
wait:
	for {
		select {
		case err = <-done:
			break wait
		case <-time.After(time.Second):
			if fi, e := os.Stat(rf); e == nil && fi.Size() != lastSize {
				lastSize, lastGrowth = fi.Size(), time.Now()
			}
			if time.Since(lastGrowth) > time.Minute || time.Since(start) > 5*time.Minute {
				cmd.Process.Kill()
				err = fmt.Errorf("child timed out")
				<-done
				break wait
			}
		}
	}
	started := -1
	if f, e := os.Open(rf); e == nil {
		sc := bufio.NewScanner(f)
		sc.Buffer(make([]byte, 1<<20), 1<<28)
		for sc.Scan() {
			var r Result
			if json.Unmarshal(sc.Bytes(), &r) != nil {
				continue
			}
			if r.Started {
				started = r.ID
				continue
			}
			started = -1
			results = append(results, r)
		}
		f.Close()
	}
	// the child's exit status is non-zero whenever a bubble ended with blocked goroutines
	// (the test is marked failed); only a missing result means it died.
	if started >= 0 {
		tl := stderr.String()
		if len(tl) > 6000 {
			tl = tl[:6000]
		}
		return results, started, fmt.Sprint(err) + "\n" + tl
	}
	if len(results) < len(scs) && err != nil {
		tl := stderr.String()
		if len(tl) > 6000 {
			tl = tl[:6000]
		}
		return results, scs[len(results)].ID, fmt.Sprint(err) + "\n" + tl
	}
	return results, -1, ""
}

// runAll runs scenarios in child processes, restarting after a crash.
func runAll(dir string, scs []Scenario) (map[int]Result, map[int]string) {
	results := map[int]Result{}
	crashes := map[int]string{}
	workers := runtime.NumCPU()
	if workers > 8 {
		workers = 8
	}
	const batch = 40
	var mu sync.Mutex
	var wg sync.WaitGroup
	ch := make(chan []Scenario)
	for i := 0; i < workers; i++ {
		wg.Add(1)
		go func() {
			defer wg.Done()
			for b := range ch {
				for len(b) > 0 {
					// once six scenarios have crashed or hung the client the verdict is settled; the
					// remaining batches are not run (every hang costs its watchdog's minute)
					mu.Lock()
					enough := len(crashes) >= 6
					mu.Unlock()
					if enough {
						break
					}
					rs, cid, tail := runChild(dir, b)
					mu.Lock()
					for _, r := range rs {
						results[r.ID] = r
					}
					if cid >= 0 {
						crashes[cid] = tail
					}
					mu.Unlock()
					if cid < 0 {
						break
					}
					k := 0
					for k < len(b) && b[k].ID != cid {
						k++
					}
					if k+1 >= len(b) {
						break
					}
					b = b[k+1:]
				}
			}
		}()
	}
	for i := 0; i < len(scs); i += batch {
		j := i + batch
		if j > len(scs) {
			j = len(scs)
		}
		ch <- scs[i:j]
	}
	close(ch)
	wg.Wait()
	return results, crashes
}

var rePanicFn = regexp.MustCompile(`nexus/v3/client\.(?:\(\*Client\)\.)?([A-Za-z0-9_]+)`)

// panicSite summarises a crashed child's stderr: runtime error kind and the
// innermost client function.
func panicSite(tail string) (kind, fn, line string) {
	for _, l := range strings.Split(tail, "\n") {
		if strings.HasPrefix(l, "panic: ") {
			line = l
			break
		}
	}
	switch {
	case strings.Contains(line, "index out of range"):
		kind = "index"
	case strings.Contains(line, "interface conversion"):
		kind = "assert"
	case strings.Contains(line, "nil pointer dereference"):
		kind = "deref"
	case strings.Contains(line, "closed channel"):
		kind = "chan"
	}
	if i := strings.Index(tail, "[running"); i >= 0 {
		if m := rePanicFn.FindStringSubmatch(tail[i:]); m != nil {
			fn = m[1]
		}
	}
	return
}

// siteMatches compares a model panic text "fn: kind expr" with the crash.
func siteMatches(model, kind, fn string) bool {
	if strings.Contains(model, "closed channel") {
		return kind == "chan"
	}
	parts := strings.SplitN(model, ": ", 2)
	if len(parts) != 2 {
		return false
	}
	mk := strings.SplitN(parts[1], " ", 2)[0]
	return parts[0] == fn && mk == kind
}

func concreteOf(sc Scenario, res Result) Scenario {
	c := sc
	c.Stims = res.Concrete
	return c
}

func shapeOf(sc Scenario) string {
	var b strings.Builder
	for _, st := range sc.Stims {
		switch st.Stim {
		case "api":
			b.WriteString(st.Op[:3])
		case "router":
			fmt.Fprintf(&b, "r%v", num(at(st.M, 0)))
		default:
			b.WriteString(st.Stim[:2])
		}
		b.WriteByte(',')
	}
	return b.String()
}

// compareWithModel runs the model on the concrete histories: first under the default policy,
// then, for those that differ, searching a per-instant schedule.
func compareWithModel(items []Scenario, impl map[int]Result) (matched map[int]string, firstDiff map[int][2]string, mouts map[int]ModelOut, err error) {
	matched = map[int]string{}
	firstDiff = map[int][2]string{}
	mouts = map[int]ModelOut{}
	if len(items) == 0 {
		return
	}
	outs, e := modelRun(items, policies[0], false)
	if e != nil {
		return nil, nil, nil, e
	}
	var todo []Scenario
	for i, sc := range items {
		mouts[sc.ID] = outs[i]
		ok, a, b := sameObs(impl[sc.ID].Out, outs[i].Out)
		if ok {
			matched[sc.ID] = policies[0].Name
			continue
		}
		firstDiff[sc.ID] = [2]string{a, b}
		todo = append(todo, sc)
	}
	// the rest: search a per-instant schedule, in parallel
	var mu sync.Mutex
	var wg sync.WaitGroup
	sem := make(chan struct{}, 8)
	for _, sc := range todo {
		wg.Add(1)
		sem <- struct{}{}
		go func(sc Scenario) {
			defer wg.Done()
			defer func() { <-sem }()
			ok, _, e := searchSchedule(sc, impl[sc.ID].Out, 8000)
			mu.Lock()
			defer mu.Unlock()
			if e != nil {
				err = e
			}
			if ok {
				matched[sc.ID] = "searched"
			}
		}(sc)
	}
	wg.Wait()
	if err != nil {
		return nil, nil, nil, err
	}
	return
}

func TestFamily(t *testing.T) {
	if *flagBatch != "" {
		t.Skip("child")
	}
	if *flagOut == "" {
		t.Skip("no -out: not run by bin/check")
	}
	prop := *flagProperty
	n := 260
	if *flagTier == "thorough" {
		n = 6000
	}
	if *flagN > 0 {
		n = *flagN
	}
	os.MkdirAll(*flagOut, 0o755)
	sum := &hcommon.Summary{Family: "client", Property: prop, Seed: *flagSeed, Tier: *flagTier,
		Rule: "timed scripts (API goroutines + scripted router peer) run against the real client under testing/synctest and through the Lean client model " +
			"(all scheduler policies); distinct = distinct stimulus-shape hashes; non-trivial = at least one reply handed to an API call or a handler invoked"}
	fail := func(msg string) {
		sum.Notes = append(sum.Notes, msg)
		sum.Disagreements = append(sum.Disagreements, hcommon.Disagreement{Detail: msg})
		sum.Write(*flagOut)
	}

	t0 := time.Now()
	phase := func(name string) {
		sum.Notes = append(sum.Notes, fmt.Sprintf("phase %s done at %.1fs", name, time.Since(t0).Seconds()))
	}
	facts, err := driverQuery([]string{`{"q":"facts"}`})
	if err != nil {
		fail("model driver failed: " + err.Error())
		return
	}
	if rec, _ := facts[0]["hashes_reconciled"].(bool); !rec {
		sum.Notes = append(sum.Notes, fmt.Sprintf("source of modelled functions changed since the model was reconciled (%v): run widened x3", facts[0]["changed_functions"]))
		n *= 3
	}

	// ---- scenarios ---------------------------------------------------------------------
	var scs []Scenario
	if *flagReplay != "" {
		var rp struct {
			Broken []struct {
				Detail hcommon.Disagreement `json:"detail"`
			} `json:"broken"`
		}
		b, _ := os.ReadFile(*flagReplay)
		json.Unmarshal(b, &rp)
		for i, br := range rp.Broken {
			bb, _ := json.Marshal(br.Detail.Input)
			var s Scenario
			if json.Unmarshal(bb, &s) == nil && len(s.Stims) > 0 {
				s.ID = i
				scs = append(scs, normalise(s))
			}
		}
	} else {
		for i := 0; i < n; i++ {
			scs = append(scs, generate(*flagSeed, i, prop))
		}
	}
	byID := map[int]Scenario{}
	for _, sc := range scs {
		byID[sc.ID] = sc
		for _, tg := range sc.Tags {
			sum.Count("shape." + tg)
		}
	}

	// ---- which scenarios does the model expect to crash the client? (open finding F43; any other
	// predicted panic means a bare assertion is back) -------------------------------------------------
	pre, err := modelRun(scs, policies[0], false)
	if err != nil {
		fail("model driver failed: " + err.Error())
		return
	}
	phase("generate+prerun")
	var safe, guarded []Scenario
	for i, sc := range scs {
		if pre[i].Crashed != "" {
			guarded = append(guarded, sc)
			sum.Count("guarded.model-predicts-panic")
		} else {
			safe = append(safe, sc)
		}
	}

	shapes := map[string]bool{}
	addDis := func(d hcommon.Disagreement) {
		if d.Finding == findingCloseRace && prop == "C17" {
			line := findingCloseRace + ": a goroutine of the client sending while Close() closes the send channel panics (send on closed channel)"
			have := false
			for _, l := range sum.KnownFindings {
				have = have || l == line
			}
			if !have {
				sum.KnownFindings = append(sum.KnownFindings, line)
			}
		}
		if d.Finding != "" {
			for _, e := range sum.Disagreements {
				if e.Finding == d.Finding {
					sum.Count("known." + d.Finding)
					return
				}
			}
		}
		sum.Disagreements = append(sum.Disagreements, d)
	}
	// ---- the scenarios the model expects to crash the client, each in its own child -----------------------
	var extra []Scenario
	extraRes := map[int]Result{}
	if prop == "C17" {
		seenSite := map[string]int{}
		var pick []Scenario
		for i, sc := range scs {
			if pre[i].Crashed == "" {
				continue
			}
			if seenSite[pre[i].Crashed] < 2 && len(pick) < 14 {
				seenSite[pre[i].Crashed]++
				pick = append(pick, sc)
			}
		}
		preBy := map[int]ModelOut{}
		for i, sc := range scs {
			preBy[sc.ID] = pre[i]
		}
		var wg sync.WaitGroup
		var mu sync.Mutex
		sem := make(chan struct{}, 8)
		for _, sc := range pick {
			wg.Add(1)
			sem <- struct{}{}
			go func(sc Scenario) {
				defer wg.Done()
				defer func() { <-sem }()
				rs, cid, tail := runChild(*flagOut, []Scenario{sc})
				mu.Lock()
				defer mu.Unlock()
				sum.Evaluations++
				site := preBy[sc.ID].Crashed
				switch {
				case cid >= 0:
					kind, fn, line := panicSite(tail)
					if siteMatches(site, kind, fn) {
						sum.TracesValidated++
						sum.Count("crash-site-agrees." + fn + "." + kind)
						f := ""
						if kind == "chan" {
							f = findingCloseRace
						}
						addDis(hcommon.Disagreement{Input: sc, Impl: line, Model: site, SpecViolation: true, Finding: f,
							Detail: fmt.Sprintf("scenario %d: router-supplied data crashes the client (%s), as the model predicts (%s)", sc.ID, line, site)})
					} else {
						addDis(hcommon.Disagreement{Input: sc, Impl: tail, Model: site, SpecViolation: true,
							Detail: fmt.Sprintf("scenario %d: the client crashed (%s in %s) at another site than the model's (%s)", sc.ID, kind, fn, site)})
					}
				case len(rs) == 1 && rs[0].Panic != "":
					// panic in the goroutine of an API call or of Close (recovered by the harness)
					f := ""
					if strings.Contains(site, "send on closed channel") && strings.Contains(rs[0].Panic, "send on closed channel") {
						f = findingCloseRace
						sum.TracesValidated++
					}
					addDis(hcommon.Disagreement{Input: sc, Impl: rs[0].Panic, Model: site, SpecViolation: true, Finding: f,
						Detail: fmt.Sprintf("scenario %d: the client panicked in an API goroutine (%s); model: %s", sc.ID, rs[0].Panic, site)})
				default:
					// the symbolic pre-run and the run itself took different schedules: judged like
					// every other scenario, against the model on the history as it really went
					sum.Evaluations--
					sum.Count("guarded.no-panic-on-this-schedule")
					if len(rs) == 1 {
						extra = append(extra, sc)
						extraRes[sc.ID] = rs[0]
					}
				}
			}(sc)
		}
		wg.Wait()
	}

	// ---- run the implementation -----------------------------------------------------------------
	phase("guarded")
	impl, crashes := runAll(*flagOut, safe)
	phase("impl")
	for _, sc := range extra {
		safe = append(safe, sc)
		impl[sc.ID] = extraRes[sc.ID]
	}
	var done []Scenario
	for _, sc := range safe {
		if r, ok := impl[sc.ID]; ok && r.Err == "" {
			done = append(done, concreteOf(sc, r))
		}
	}
	matched, firstDiff, mouts, err := compareWithModel(done, impl)
	if err != nil {
		fail("model driver failed: " + err.Error())
		return
	}
	phase("compare")

	ids := make([]int, 0, len(safe))
	for _, sc := range safe {
		ids = append(ids, sc.ID)
	}
	sort.Ints(ids)
	shrinkBudget := 3
	for _, id := range ids {
		sc := byID[id]
		sum.Evaluations++
		if tail, ok := crashes[id]; ok {
			kind, fn, line := panicSite(tail)
			sum.Count("impl.crashed")
			// the pre-run used one schedule; the crash is the known one if the model crashes at a
			// matching site under another
			known := ""
			for _, pol := range policies[1:] {
				mo, err := modelRun([]Scenario{sc}, pol, false)
				if err == nil && mo[0].Crashed != "" && siteMatches(mo[0].Crashed, kind, fn) && kind == "chan" {
					known = findingCloseRace
					break
				}
			}
			if known != "" {
				addDis(hcommon.Disagreement{Input: sc, Impl: line, SpecViolation: true, Finding: known,
					Detail: fmt.Sprintf("scenario %d: router-supplied data crashes the client (%s), as the model predicts under another schedule", id, line)})
				continue
			}
			addDis(hcommon.Disagreement{Input: sc, Impl: tail, Model: "no panic",
				SpecViolation: true, Detail: fmt.Sprintf("scenario %d: the client crashed the process (%s in %s: %s); the model expects no panic", id, kind, fn, line)})
			continue
		}
		r, ok := impl[id]
		if !ok {
			continue
		}
		if r.Err != "" {
			addDis(hcommon.Disagreement{Input: sc, Impl: r.Err, Detail: fmt.Sprintf("scenario %d: harness error: %s", id, r.Err)})
			continue
		}
		nontrivial := false
		for _, o := range r.Out {
			k := strOf(o[1])
			sum.Count("obs." + k)
			if k == "ret" && len(o) > 3 {
				sum.Count("ret." + strings.SplitN(strOf(o[3]), ":", 2)[0])
				if s := strOf(o[3]); s == "ok" || s == "result" || strings.HasPrefix(s, "error:") {
					nontrivial = true
				}
			}
			if k == "event" || k == "inv" || k == "progress" {
				nontrivial = true
			}
		}
		if nontrivial {
			shapes[shapeOf(sc)] = true
		}
		vs := check(sc, r, prop)
		if r.Panic != "" {
			// a panic in an API goroutine (recovered by the harness): known iff the model, on the
			// same history, crashes at a matching site under some schedule
			kind, _, _ := panicSite("panic: " + r.Panic)
			for _, pol := range policies {
				mo, err := modelRun([]Scenario{concreteOf(sc, r)}, pol, false)
				if err != nil || mo[0].Crashed == "" {
					continue
				}
				if strings.Contains(mo[0].Crashed, "send on closed channel") && kind == "chan" {
					vs = []Violation{{Clause: "C17.no-panic", Detail: "the client panicked: " + r.Panic + " (model: " + mo[0].Crashed + ")", Finding: findingCloseRace}}
					matched[id] = pol.Name
					break
				}
			}
		}
		for _, v := range vs {
			sum.Count("spec." + v.Clause)
			addDis(hcommon.Disagreement{Input: concreteOf(sc, r), Impl: r.Out, Model: mouts[id].Out, SpecViolation: true, Finding: v.Finding,
				Detail: fmt.Sprintf("scenario %d: %s: %s", id, v.Clause, v.Detail)})
		}
		if pol, ok := matched[id]; ok {
			sum.TracesValidated++
			sum.Count("policy." + pol)
			if len(sum.Samples) < 2 && len(sc.Stims) <= 14 && nontrivial {
				sum.AddSample(map[string]any{"scenario": concreteOf(sc, r), "observed": r.Out}, 2)
			}
		} else if len(vs) == 0 && rerunMatches(sc, prop) {
			// what the implementation does on a racy scenario varies from run to run (Go's select
			// picks at random); a later run of the same scenario is reproduced by the model
			sum.TracesValidated++
			sum.Count("policy.matched-on-rerun")
		} else if len(vs) == 0 {
			sum.Count("disagreeing")
			d := hcommon.Disagreement{Input: concreteOf(sc, r), Impl: r.Out, Model: mouts[id].Out,
				Detail: fmt.Sprintf("scenario %d: model (no policy) and implementation differ: impl %s / model %s", id, firstDiff[id][0], firstDiff[id][1])}
			if shrinkBudget > 0 {
				shrinkBudget--
				d = shrink(sc, d)
			}
			addDis(d)
		}
	}

	phase("evaluate")
	for _, d := range witnessReplays(*flagOut, sum, prop) {
		addDis(d)
	}
	sum.DistinctNontrivial = len(shapes)
	if len(sum.Disagreements) > 12 {
		sum.Notes = append(sum.Notes, fmt.Sprintf("%d disagreements, first 12 kept", len(sum.Disagreements)))
		sum.Disagreements = sum.Disagreements[:12]
	}
	if err := sum.Write(*flagOut); err != nil {
		t.Fatal(err)
	}
}

var hungReruns int // re-runs in which the client crashed or hung

// rerunMatches runs the implementation again (up to twelve times) on a scenario for which no
// schedule of the model reproduced the first run, and reports whether some run is reproduced
// and satisfies the specification. A deterministic difference fails every time.
func rerunMatches(sc Scenario, prop string) bool {
	if hungReruns >= 3 {
		return false // the client hangs on re-runs (a minute each): the verdict is settled
	}
	// (Twelve: on a heavily loaded machine the unusual interleavings of goroutines woken at the same
	// virtual instant are the common ones, and three tries left 3 of 36 000 scenarios unmatched.)
	for k := 0; k < 12; k++ {
		rs, cid, _ := runChild(*flagOut, []Scenario{sc})
		if cid >= 0 {
			hungReruns++
		}
		if cid >= 0 || len(rs) != 1 || rs[0].Err != "" {
			return false
		}
		if len(check(sc, rs[0], prop)) > 0 {
			return false
		}
		m, _, _, err := compareWithModel([]Scenario{concreteOf(sc, rs[0])}, map[int]Result{sc.ID: rs[0]})
		if err != nil {
			return false
		}
		if _, ok := m[sc.ID]; ok {
			return true
		}
	}
	return false
}

// shrink delta-debugs the stimulus list of a disagreeing scenario.
func shrink(sc Scenario, d hcommon.Disagreement) hcommon.Disagreement {
	differs := func(s Scenario) (bool, Result, ModelOut, [2]string) {
		s = normalise(s)
		rs, cid, _ := runChild(*flagOut, []Scenario{s})
		if cid >= 0 || len(rs) != 1 {
			return false, Result{}, ModelOut{}, [2]string{}
		}
		c := concreteOf(s, rs[0])
		m, fd, mo, err := compareWithModel([]Scenario{c}, map[int]Result{s.ID: rs[0]})
		if err != nil {
			return false, Result{}, ModelOut{}, [2]string{}
		}
		_, ok := m[s.ID]
		return !ok, rs[0], mo[s.ID], fd[s.ID]
	}
	cur := sc
	budget := 40
	deadline := time.Now().Add(2 * time.Minute) // a candidate that hangs the client costs its watchdog's minute
	for chunk := len(cur.Stims) / 2; chunk >= 1 && budget > 0 && time.Now().Before(deadline); chunk /= 2 {
		for i := 0; i+chunk <= len(cur.Stims) && budget > 0 && time.Now().Before(deadline); {
			cand := cur
			cand.End = 0
			cand.Stims = append(append([]Stim{}, cur.Stims[:i]...), cur.Stims[i+chunk:]...)
			budget--
			if df, _, _, _ := differs(cand); df {
				cur = cand
			} else {
				i += chunk
			}
		}
	}
	cur.End = 0
	cur = normalise(cur)
	if df, r, mo, fd := differs(cur); df {
		d.Input = concreteOf(cur, r)
		d.Impl = r.Out
		d.Model = mo.Out
		d.Detail += fmt.Sprintf(" | minimised to %d stimuli: impl %s / model %s", len(cur.Stims), fd[0], fd[1])
	}
	return d
}
