package clientfam

import (
	"context"
	"errors"
	"fmt"
	"io"
	"log"
	"regexp"
	"runtime"
	"sort"
	"strings"
	"sync"
	"sync/atomic"
	"testing"
	"testing/synctest"
	"time"

	"github.com/gammazero/nexus/v3/client"
	"github.com/gammazero/nexus/v3/transport"
	"github.com/gammazero/nexus/v3/wamp"
)

var typeCodeByName = func() map[string]int {
	m := map[string]int{}
	for i := 1; i <= 70; i++ {
		m[wamp.MessageType(i).String()] = i
	}
	return m
}()

var reURI = regexp.MustCompile(`wamp\.error\.[a-z0-9_]+|e\.[a-z0-9_]+`)
var reUnexpected = regexp.MustCompile(`received unexpected (\S+) message`)

// classify renders what an API call returned in the model's vocabulary.
func classify(op string, res *wamp.Result, err error) []any {
	if err == nil {
		if op == "call" || op == "callprog" {
			return []any{"result", canonList(res.Arguments), canonDict(res.ArgumentsKw)}
		}
		return []any{"ok"}
	}
	var rpc client.RPCError
	switch {
	case errors.Is(err, client.ErrReplyTimeout):
		return []any{"timeout"}
	case errors.Is(err, client.ErrNotConn):
		return []any{"notconn"}
	case errors.Is(err, context.Canceled):
		return []any{"ctx:canceled"}
	case errors.Is(err, context.DeadlineExceeded):
		return []any{"ctx:deadline"}
	case errors.Is(err, client.ErrNotSubscribed):
		return []any{"notsubscribed"}
	case errors.Is(err, client.ErrNotRegistered):
		return []any{"notregistered"}
	case errors.Is(err, client.ErrPPTNotSupportedByRouter):
		return []any{"pptabort"}
	case errors.Is(err, client.ErrPPTSchemeInvalid):
		return []any{"ppterr:schemeInvalid"}
	case errors.Is(err, client.ErrPPTSerializerInvalid):
		return []any{"ppterr:serializerInvalid"}
	case errors.Is(err, client.ErrSerialization):
		return []any{"ppterr:serialization"}
	case errors.As(err, &rpc):
		return []any{"error:" + string(rpc.Err.Error)}
	}
	s := err.Error()
	if m := reUnexpected.FindStringSubmatch(s); m != nil {
		return []any{fmt.Sprintf("unexpected:%d", typeCodeByName[m[1]])}
	}
	if u := reURI.FindString(s); u != "" {
		return []any{"error:" + u}
	}
	return []any{"other:" + s}
}

type world struct {
	sc       Scenario
	start    time.Time
	mu       sync.Mutex
	out      []Obs
	pending  map[string][]int // op -> API calls started, request not yet seen by the router
	names    map[int]string
	req      map[int]uint64
	conc     []Stim
	rclosed  bool
	retd     map[int]bool
	startedG map[int]bool
	inEvent  atomic.Int32
	overlap  atomic.Bool
}

func (w *world) ms() int { return int(time.Since(w.start) / time.Millisecond) }

func (w *world) obs(kind string, rest ...any) {
	t := w.ms()
	w.mu.Lock()
	w.out = append(w.out, append(Obs{t, kind}, rest...))
	w.mu.Unlock()
}

// attribute finds the API call a request message from the client belongs to.
func (w *world) attribute(op, name string, id wamp.ID) {
	w.mu.Lock()
	defer w.mu.Unlock()
	ps := w.pending[op]
	for i, g := range ps {
		if name == "" || w.names[g] == name {
			w.req[g] = uint64(id)
			w.pending[op] = append(append([]int{}, ps[:i]...), ps[i+1:]...)
			return
		}
	}
}

func (w *world) attributed(id wamp.ID) bool {
	w.mu.Lock()
	defer w.mu.Unlock()
	for _, r := range w.req {
		if r == uint64(id) {
			return true
		}
	}
	return false
}

func (w *world) resolve(m []any) []any {
	out := make([]any, len(m))
	w.mu.Lock()
	defer w.mu.Unlock()
	for i, e := range m {
		out[i] = e
		if d, ok := e.(map[string]any); ok && len(d) == 1 {
			if gv, ok := d["$req"]; ok {
				g := int(num(gv))
				if r, ok := w.req[g]; ok {
					out[i] = float64(r)
				} else {
					out[i] = float64(9000 + g)
				}
			}
		}
	}
	return out
}

func welcomeMsg(ppt bool) *wamp.Welcome {
	f := wamp.Dict{"progressive_call_invocations": true, "progressive_call_results": true, "call_canceling": true}
	if ppt {
		f["payload_passthru_mode"] = true
	}
	return &wamp.Welcome{ID: 77, Details: wamp.Dict{"roles": wamp.Dict{
		"broker": wamp.Dict{"features": f}, "dealer": wamp.Dict{"features": f}}}}
}

// clientStacks lists, for every goroutine that has a frame of the client
// package, its wait state and the innermost client function.
func clientStacks() []string {
	buf := make([]byte, 4<<20)
	n := runtime.Stack(buf, true)
	var out []string
	bubble := ""
	for i, g := range strings.Split(string(buf[:n]), "\n\n") {
		lines := strings.Split(g, "\n")
		if len(lines) == 0 {
			continue
		}
		state := lines[0]
		if j := strings.Index(state, "["); j >= 0 {
			state = strings.TrimSuffix(state[j+1:], "]:")
		}
		b := ""
		if j := strings.Index(state, "synctest bubble"); j >= 0 {
			b = strings.TrimSpace(state[j:])
		}
		if i == 0 {
			bubble = b // the calling goroutine comes first
			continue
		}
		// goroutines of earlier (dead) bubbles are still in the process: skip them
		if b != bubble || !strings.Contains(g, "nexus/v3/client.") {
			continue
		}
		fn := ""
		for _, l := range lines[1:] {
			if strings.HasPrefix(l, "github.com/gammazero/nexus/v3/client.") {
				fn = strings.TrimPrefix(l, "github.com/gammazero/nexus/v3/client.")
				if k := strings.LastIndex(fn, "("); k >= 0 {
					fn = fn[:k]
				}
				break
			}
		}
		out = append(out, fn+" ["+strings.Split(state, ",")[0]+"]")
	}
	sort.Strings(out)
	return out
}

// runScenario runs one scenario against the real client inside a bubble.
func runScenario(t *testing.T, sc Scenario) (res Result) {
	res.ID = sc.ID
	res.Req = map[int]uint64{}
	var w *world
	collect := func() {
		if w == nil {
			return
		}
		w.mu.Lock()
		res.Out = sortObs(w.out)
		res.Raw = append([]Obs{}, w.out...)
		res.Concrete = append([]Stim{}, w.conc...)
		sort.SliceStable(res.Concrete, func(i, j int) bool { return res.Concrete[i].T < res.Concrete[j].T })
		for g, r := range w.req {
			res.Req[g] = r
		}
		for g := range w.startedG {
			if !w.retd[g] {
				res.Unreturned = append(res.Unreturned, g)
			}
		}
		sort.Ints(res.Unreturned)
		w.mu.Unlock()
		res.EventOverlap = w.overlap.Load()
	}
	defer func() {
		if r := recover(); r != nil {
			// synctest: "deadlock: main bubble goroutine has exited but blocked goroutines remain"
			res.Leftover = fmt.Sprint(r) + " | " + res.Leftover
			collect()
		}
	}()
	synctest.Test(t, func(t *testing.T) {
		cfg := sc.Cfg
		timeout := time.Duration(cfg.Timeout) * time.Millisecond
		cp, rp := transport.LinkedPeers()
		go func() {
			<-rp.Recv()
			rp.Send() <- welcomeMsg(cfg.DealerPPT)
		}()
		c, err := client.NewClient(cp, client.Config{Realm: "r", ResponseTimeout: timeout, Logger: log.New(io.Discard, "", 0)})
		if err != nil {
			res.Err = "NewClient: " + err.Error()
			return
		}
		if err := c.SetCallCancelMode(cfg.CancelMode); err != nil {
			res.Err = "SetCallCancelMode: " + err.Error()
		}
		w = &world{sc: sc, start: time.Now(), pending: map[string][]int{}, names: map[int]string{}, req: map[int]uint64{},
			retd: map[int]bool{}, startedG: map[int]bool{}}

		// record and send in one critical section: the concrete history lists the router's
		// messages in the order they really entered the transport
		var sendMu sync.Mutex
		send := func(tag string, st Stim) {
			sendMu.Lock()
			defer sendMu.Unlock()
			w.mu.Lock()
			w.conc = append(w.conc, st)
			closed := w.rclosed
			w.mu.Unlock()
			if closed {
				w.obs("rejected", tag)
				return
			}
			select {
			case rp.Send() <- buildMsg(st.M):
			default:
				w.obs("router_blocked")
			}
		}

		// the scripted router's receive side
		routerDone := make(chan struct{})
		go func() {
			defer close(routerDone)
			for m := range rp.Recv() {
				w.obs("send", canonCMsg(m))
				switch x := m.(type) {
				case *wamp.Subscribe:
					w.attribute("subscribe", string(x.Topic), x.Request)
				case *wamp.Unsubscribe:
					w.attribute("unsubscribe", "", x.Request)
				case *wamp.Register:
					w.attribute("register", string(x.Procedure), x.Request)
				case *wamp.Unregister:
					w.attribute("unregister", "", x.Request)
				case *wamp.Publish:
					if ack, _ := x.Options[wamp.OptAcknowledge].(bool); ack {
						w.attribute("publish", string(x.Topic), x.Request)
					} else {
						w.attribute("publish_noack", string(x.Topic), x.Request)
					}
				case *wamp.Call:
					// (later chunks of a progressive call repeat the request id)
					if !w.attributed(x.Request) {
						w.attribute("call", string(x.Procedure), x.Request)
					}
				case *wamp.Goodbye:
					if cfg.GoodbyeReply >= 0 {
						d := cfg.GoodbyeReply
						reply := []any{float64(6), map[string]any{}, "wamp.close.goodbye_and_out"}
						go func() {
							time.Sleep(time.Duration(d) * time.Millisecond)
							send("router", Stim{T: w.ms(), Stim: "router", M: reply})
						}()
					}
					if cfg.StallAfterGoodbye {
						return // the session is over for the router: it reads no more
					}
				}
			}
		}()

		go func() {
			<-c.Done()
			w.obs("done")
			res.DoneClosed = true
		}()

		evHandler := func(ev *wamp.Event) {
			if w.inEvent.Add(1) > 1 {
				w.overlap.Store(true)
			}
			w.obs("event", int64(ev.Subscription), int64(ev.Publication), canonList(ev.Arguments), canonDict(ev.ArgumentsKw))
			time.Sleep(time.Duration(cfg.EventDelay) * time.Millisecond)
			w.inEvent.Add(-1)
		}
		invHandler := func(name string) client.InvocationHandler {
			b := cfg.Behav[name]
			mk := func(res string) client.InvokeResult {
				switch res {
				case "":
					return client.InvokeResult{Args: wamp.List{"r"}}
				case "omit":
					return client.InvokeResult{Err: wamp.InternalProgressiveOmitResult}
				}
				return client.InvokeResult{Err: wamp.URI(res)}
			}
			return func(ctx context.Context, inv *wamp.Invocation) client.InvokeResult {
				prog, _ := inv.Details[wamp.OptProgress].(bool)
				w.obs("inv", int64(inv.Request), int64(inv.Registration), canonList(inv.Arguments), canonDict(inv.ArgumentsKw), prog)
				for k := 0; k < b.Progress; k++ {
					if err := c.SendProgress(ctx, wamp.List{int64(k)}, nil); err != nil {
						w.obs("sp", int64(inv.Request), "refused")
					} else {
						w.obs("sp", int64(inv.Request), "ok")
					}
				}
				if b.WaitCtx {
					tm := time.NewTimer(time.Duration(b.Delay) * time.Millisecond)
					defer tm.Stop()
					select {
					case <-ctx.Done():
						oc := b.OnCancel
						if oc == "" {
							oc = string(wamp.ErrCanceled)
						}
						return mk(oc)
					case <-tm.C:
						return mk(b.Res)
					}
				}
				time.Sleep(time.Duration(b.Delay) * time.Millisecond)
				return mk(b.Res)
			}
		}

		cancels := map[int]context.CancelFunc{}
		var apiWG sync.WaitGroup
		startAPI := func(st Stim, idx int) {
			g := st.G
			w.mu.Lock()
			w.names[g] = st.Name
			w.startedG[g] = true
			opKey := st.Op
			if opKey == "callprog" {
				opKey = "call"
			}
			w.pending[opKey] = append(w.pending[opKey], g)
			w.mu.Unlock()
			ctx := context.Background()
			if st.Op == "call" || st.Op == "callprog" {
				// a later `cancel` stimulus for g of kind deadline = the ctx's own deadline
				var cf context.CancelFunc
				ctx, cf = context.WithCancel(ctx)
				for _, later := range sc.Stims[idx+1:] {
					if later.Stim == "cancel" && later.G == g && later.Kind == "deadline" {
						cf()
						ctx, cf = context.WithTimeout(context.Background(), time.Duration(later.T-st.T)*time.Millisecond)
						break
					}
				}
				cancels[g] = cf
			}
			apiWG.Add(1)
			go func() {
				defer apiWG.Done()
				var r []any
				func() {
					defer func() {
						if p := recover(); p != nil {
							r = []any{"panic:" + fmt.Sprint(p)}
							res.Panic = fmt.Sprint(p)
						}
					}()
					var err error
					var result *wamp.Result
					switch st.Op {
					case "subscribe":
						err = c.Subscribe(st.Name, evHandler, nil)
					case "unsubscribe":
						err = c.Unsubscribe(st.Name)
					case "register":
						err = c.Register(st.Name, invHandler(st.Name), nil)
					case "unregister":
						err = c.Unregister(st.Name)
					case "publish":
						err = c.Publish(st.Name, wamp.Dict{wamp.OptAcknowledge: true}, nil, nil)
					case "publish_noack":
						err = c.Publish(st.Name, nil, nil, nil)
					case "call":
						var pcb client.ProgressHandler
						if st.Prog {
							pcb = func(pr *wamp.Result) {
								w.obs("progress", g, canonList(pr.Arguments), canonDict(pr.ArgumentsKw))
								time.Sleep(time.Duration(cfg.ProgDelay) * time.Millisecond)
							}
						}
						result, err = c.Call(ctx, st.Name, nil, nil, nil, pcb)
					case "callprog":
						var pcb client.ProgressHandler
						if st.Prog {
							pcb = func(pr *wamp.Result) {
								w.obs("progress", g, canonList(pr.Arguments), canonDict(pr.ArgumentsKw))
								time.Sleep(time.Duration(cfg.ProgDelay) * time.Millisecond)
							}
						}
						calls := 0
						sendProg := func(ctx context.Context) (wamp.Dict, wamp.List, wamp.Dict, error) {
							k := calls
							calls++
							if k == 0 {
								return wamp.Dict{wamp.OptProgress: len(st.Script) > 0}, wamp.List{int64(0)}, nil, nil
							}
							if k > len(st.Script) {
								return wamp.Dict{wamp.OptProgress: false}, wamp.List{int64(k)}, nil, nil
							}
							step := st.Script[k-1]
							if step.K == "ctx" {
								<-ctx.Done()
								return nil, nil, nil, ctx.Err()
							}
							time.Sleep(time.Duration(step.D) * time.Millisecond)
							switch step.K {
							case "chunk":
								return wamp.Dict{wamp.OptProgress: true}, wamp.List{int64(k)}, nil, nil
							case "err":
								return nil, nil, nil, errors.New("sendprog failed")
							case "unset":
								return nil, wamp.List{int64(k)}, nil, nil
							}
							return wamp.Dict{wamp.OptProgress: false}, wamp.List{int64(k)}, nil, nil
						}
						result, err = c.CallProgressive(ctx, st.Name, sendProg, pcb)
					default:
						err = fmt.Errorf("unknown op %s", st.Op)
					}
					r = classify(st.Op, result, err)
					if err == nil {
						switch st.Op {
						case "subscribe":
							id, _ := c.SubscriptionID(st.Name)
							r = append(r, int64(id))
						case "register":
							id, _ := c.RegistrationID(st.Name)
							r = append(r, int64(id))
						}
					}
				}()
				w.obs("ret", append([]any{g}, r...)...)
				w.mu.Lock()
				w.retd[g] = true
				ps := w.pending[opKey]
				for i, x := range ps {
					if x == g {
						w.pending[opKey] = append(append([]int{}, ps[:i]...), ps[i+1:]...)
						break
					}
				}
				w.mu.Unlock()
			}()
		}

		closeDone := make(chan struct{})
		for idx, st := range sc.Stims {
			if d := time.Duration(st.T)*time.Millisecond - time.Since(w.start); d > 0 {
				time.Sleep(d)
			}
			switch st.Stim {
			case "api":
				w.mu.Lock()
				w.conc = append(w.conc, st)
				w.mu.Unlock()
				startAPI(st, idx)
				// let the call get as far as it can (request sent, waiting) before anything else of
				// this instant happens: a router cannot answer a request it has not received
				synctest.Wait()
			case "router":
				cs := st
				cs.M = w.resolve(st.M)
				send("router", cs)
			case "rclose":
				sendMu.Lock()
				w.mu.Lock()
				already := w.rclosed
				w.rclosed = true
				w.conc = append(w.conc, st)
				w.mu.Unlock()
				sendMu.Unlock()
				if already {
					w.obs("rejected", "rclose")
				} else {
					rp.Close()
				}
			case "cancel":
				w.mu.Lock()
				w.conc = append(w.conc, st)
				w.mu.Unlock()
				if cf, ok := cancels[st.G]; ok && st.Kind != "deadline" {
					cf()
				}
			case "close":
				w.mu.Lock()
				w.conc = append(w.conc, st)
				w.mu.Unlock()
				if res.CloseCalled {
					continue
				}
				res.CloseCalled = true
				go func() {
					defer close(closeDone)
					defer func() {
						if p := recover(); p != nil {
							res.Panic = fmt.Sprint(p)
							w.obs("crashed", fmt.Sprint(p))
						}
					}()
					c.Close()
					res.CloseReturned = true
					w.obs("close_returned")
				}()
			}
		}
		if d := time.Duration(sc.End)*time.Millisecond - time.Since(w.start); d > 0 {
			time.Sleep(d)
		}
		synctest.Wait()
		if st := clientStacks(); len(st) > 0 {
			res.Leftover = strings.Join(st, "; ")
		}
		collect()
	})
	return res
}
