package clientfam

import (
	"fmt"
	"strings"

	"verif/harness/hcommon"
)

// The witnesses of the `…_full_fails` theorems (Nexus.Client.Witness), as timed
// scenarios for the real client. Each runs in its own child process on every
// C17 run: the known wedges and crashes are exercised there and nowhere else.

func wScenario(id int, cfg Cfg, end int, stims ...Stim) Scenario {
	return normalise(Scenario{ID: id, Cfg: cfg, Stims: stims, End: end})
}

// f16Variants: the reply lands at the very instant the response timer fires.
// Which of the two the scheduler runs first is its choice; extra timers due at
// the same instant shuffle it.
func f16Variants() []Scenario {
	var out []Scenario
	for k := 0; k < 6; k++ {
		st := []Stim{{T: 0, Stim: "api", G: 1, Op: "subscribe", Name: "t1"}}
		for j := 0; j < k; j++ {
			// other calls whose timers fire at the same instant
			st = append(st, Stim{T: 0, Stim: "api", G: 2 + j, Op: "publish", Name: fmt.Sprintf("x%d", j)})
		}
		st = append(st, Stim{T: 100, Stim: "router", M: []any{33.0, map[string]any{"$req": 1}, 5.0}},
			Stim{T: 150, Stim: "api", G: 50, Op: "subscribe", Name: "later"},
			Stim{T: 151, Stim: "router", M: []any{33.0, map[string]any{"$req": 50}, 6.0}},
			Stim{T: 400, Stim: "close"})
		out = append(out, wScenario(9000+k, Cfg{Timeout: 100, GoodbyeReply: 0}, 0, st...))
	}
	return out
}

func f16Dup() Scenario {
	return wScenario(9010, Cfg{Timeout: 100, GoodbyeReply: 0}, 0,
		Stim{T: 0, Stim: "api", G: 1, Op: "subscribe", Name: "t1"},
		Stim{T: 5, Stim: "router", M: []any{33.0, map[string]any{"$req": 1}, 5.0}},
		Stim{T: 5, Stim: "router", M: []any{33.0, map[string]any{"$req": 1}, 5.0}},
		Stim{T: 50, Stim: "api", G: 2, Op: "subscribe", Name: "t2"},
		Stim{T: 51, Stim: "router", M: []any{33.0, map[string]any{"$req": 2}, 6.0}},
		Stim{T: 300, Stim: "close"})
}

func pptAbort() Scenario {
	return wScenario(9020, Cfg{Timeout: 100, GoodbyeReply: 0, DealerPPT: false}, 0,
		Stim{T: 0, Stim: "api", G: 1, Op: "call", Name: "p1"},
		Stim{T: 2, Stim: "router", M: []any{50.0, map[string]any{"$req": 1}, map[string]any{"ppt_scheme": "x_a"}, []any{}, map[string]any{}}},
		Stim{T: 10, Stim: "close"})
}

func dupInv() Scenario {
	return wScenario(9030, Cfg{Timeout: 100, GoodbyeReply: 0, DealerPPT: true,
		Behav: map[string]Behav{"p1": {WaitCtx: true, Delay: 100000000}}}, 3000,
		Stim{T: 0, Stim: "api", G: 1, Op: "register", Name: "p1"},
		Stim{T: 1, Stim: "router", M: []any{65.0, map[string]any{"$req": 1}, 9.0}},
		Stim{T: 5, Stim: "router", M: []any{68.0, 1.0, 9.0, map[string]any{}, []any{}, map[string]any{}}},
		Stim{T: 6, Stim: "router", M: []any{68.0, 1.0, 9.0, map[string]any{}, []any{}, map[string]any{}}},
		Stim{T: 7, Stim: "router", M: []any{68.0, 1.0, 9.0, map[string]any{}, []any{}, map[string]any{}}},
		Stim{T: 8, Stim: "router", M: []any{69.0, 1.0, map[string]any{}}},
		Stim{T: 500, Stim: "close"})
}

// closeRace (F43, observed, not modelled): an API call started at the very instant the session
// ends passes its Connected() check and then sends on the channel Close() has closed.
func closeRace(k int) Scenario {
	st := []Stim{{T: 1, Stim: "close"}}
	for j := 0; j <= k; j++ {
		st = append(st, Stim{T: 2 + j, Stim: "api", G: 1 + j, Op: "subscribe", Name: fmt.Sprintf("t%d", j)})
	}
	return wScenario(9040+k, Cfg{Timeout: 100, GoodbyeReply: 8, StallAfterGoodbye: true}, 0, st...)
}

// witnessReplays replays the Lean witnesses against the real client and checks
// that it fails the way the model says.
func witnessReplays(dir string, sum *hcommon.Summary) []hcommon.Disagreement {
	var out []hcommon.Disagreement
	w, err := driverQuery([]string{`{"q":"witness","name":"f16"}`, `{"q":"witness","name":"f16dup"}`,
		`{"q":"witness","name":"pptabort"}`, `{"q":"witness","name":"dupinv"}`})
	if err != nil {
		return []hcommon.Disagreement{{Detail: "model driver failed: " + err.Error()}}
	}
	stuck := func(i int) bool { b, _ := w[i]["stuck"].(bool); return b }
	run1 := func(sc Scenario) (Result, bool, string) {
		rs, cid, tail := runChild(dir, []Scenario{sc})
		sum.Evaluations++
		if cid >= 0 || len(rs) != 1 {
			return Result{}, false, tail
		}
		return rs[0], true, ""
	}

	// F16: reply at the timeout instant
	hit := 0
	var firstHit Result
	var hitSc Scenario
	for _, sc := range f16Variants() {
		r, ok, tail := run1(sc)
		if !ok {
			out = append(out, hcommon.Disagreement{Input: sc, Impl: tail, SpecViolation: true, Detail: "F16 replay: the child died"})
			continue
		}
		vs := check(sc, r, "C17")
		for _, v := range vs {
			if v.Finding == findingWedge {
				if hit == 0 {
					firstHit, hitSc = r, sc
				}
				hit++
			} else {
				out = append(out, hcommon.Disagreement{Input: concreteOf(sc, r), Impl: r.Out, SpecViolation: true,
					Detail: fmt.Sprintf("F16 replay %d: %s: %s", sc.ID, v.Clause, v.Detail)})
			}
		}
	}
	sum.Count(fmt.Sprintf("witness.f16.wedged-%d-of-6", hit))
	switch {
	case hit > 0 && stuck(0):
		sum.TracesValidated++
		out = append(out, hcommon.Disagreement{Input: concreteOf(hitSc, firstHit), Impl: firstHit.Out, Model: w[0], SpecViolation: true, Finding: findingWedge,
			Detail: fmt.Sprintf("a reply arriving as its waiter times out wedges the receive loop in runSignalReply; later calls time out, Close() never returns (%d of 6 schedules; model witness run_never_stuck_full_fails agrees)", hit)})
	case hit == 0 && stuck(0):
		sum.Notes = append(sum.Notes, "F16 timing witness: none of the 6 schedules wedged this time (the duplicate-reply witness decides)")
	case hit > 0:
		out = append(out, hcommon.Disagreement{Input: concreteOf(hitSc, firstHit), Impl: firstHit.Out, Model: w[0], SpecViolation: true,
			Detail: "the implementation wedges on a reply at the timeout instant but the model no longer predicts it"})
	}

	// F16: duplicate reply (whether run or the waiter goes first after the rendezvous is the scheduler's choice)
	{
		hits := 0
		var hr Result
		var hsc Scenario
		for k := 0; k < 4; k++ {
			sc := f16Dup()
			sc.ID += k
			r, ok, tail := run1(sc)
			if !ok {
				out = append(out, hcommon.Disagreement{Input: sc, Impl: tail, SpecViolation: true, Detail: "F16 duplicate-reply replay: the child died"})
				continue
			}
			for _, v := range check(sc, r, "C17") {
				if v.Finding == findingWedge {
					if hits == 0 {
						hr, hsc = r, sc
					}
					hits++
				} else {
					out = append(out, hcommon.Disagreement{Input: concreteOf(sc, r), Impl: r.Out, SpecViolation: true,
						Detail: fmt.Sprintf("F16 duplicate-reply replay: %s: %s", v.Clause, v.Detail)})
				}
			}
		}
		sum.Count(fmt.Sprintf("witness.f16dup.wedged-%d-of-4", hits))
		switch {
		case hits > 0 && stuck(1):
			sum.TracesValidated++
			out = append(out, hcommon.Disagreement{Input: concreteOf(hsc, hr), Impl: hr.Out, Model: w[1], SpecViolation: true, Finding: findingWedge,
				Detail: fmt.Sprintf("a router that answers one request twice wedges the receive loop in runSignalReply; later calls time out, Close() never returns (%d of 4 runs; model witness agrees)", hits)})
		case hits > 0:
			out = append(out, hcommon.Disagreement{Input: concreteOf(hsc, hr), Impl: hr.Out, Model: w[1], SpecViolation: true,
				Detail: "the implementation wedges on a duplicate reply but the model no longer predicts it"})
		case stuck(1):
			sum.Notes = append(sum.Notes, "F16 duplicate-reply witness: none of the 4 runs wedged this time")
		}
	}

	// F41: PPT result from a router that did not announce the feature, then Close
	{
		sc := pptAbort()
		r, ok, tail := run1(sc)
		mc, _ := w[2]["crashed"].(string)
		switch {
		case !ok:
			out = append(out, hcommon.Disagreement{Input: sc, Impl: tail, SpecViolation: true, Detail: "ppt-abort replay: the child died"})
		case strings.Contains(r.Panic, "closed channel") && strings.Contains(mc, "closed channel"):
			sum.TracesValidated++
			sum.Count("witness.pptabort.panicked")
			out = append(out, hcommon.Disagreement{Input: concreteOf(sc, r), Impl: r.Panic, Model: mc, SpecViolation: true, Finding: findingPPTAbort,
				Detail: "a RESULT using ppt_scheme from a router that did not announce PPT makes Call close the session's send side; the next send (Close's GOODBYE) panics: " + r.Panic})
		case (r.Panic != "") != (mc != ""):
			out = append(out, hcommon.Disagreement{Input: concreteOf(sc, r), Impl: r.Panic, Model: mc, SpecViolation: r.Panic != "",
				Detail: fmt.Sprintf("ppt-abort witness: implementation panic=%q, model crash=%q", r.Panic, mc)})
		}
	}

	// F42: three INVOCATIONs with one request id
	{
		sc := dupInv()
		r, ok, tail := run1(sc)
		wf := false
		if ok {
			for _, v := range check(sc, r, "C17") {
				if v.Finding == findingDupInv {
					wf = true
				}
			}
		}
		switch {
		case !ok:
			out = append(out, hcommon.Disagreement{Input: sc, Impl: tail, SpecViolation: true, Detail: "dup-invocation replay: the child died"})
		case wf && stuck(3):
			sum.TracesValidated++
			sum.Count("witness.dupinv.wedged")
			out = append(out, hcommon.Disagreement{Input: concreteOf(sc, r), Impl: r.Out, Model: w[3], SpecViolation: true, Finding: findingDupInv,
				Detail: "three INVOCATIONs repeating a live request id block the receive loop in `handlerQueue <- msg`; the INTERRUPT behind them is never read, Close() never returns"})
		case wf != stuck(3):
			out = append(out, hcommon.Disagreement{Input: concreteOf(sc, r), Impl: r.Out, Model: w[3], SpecViolation: wf,
				Detail: fmt.Sprintf("dup-invocation witness: implementation wedged=%v, model stuck=%v", wf, stuck(3))})
		}
	}
	// F43: API call racing with Close (guarded in the generator; not in the Lean model)
	{
		hits := 0
		var hr Result
		var hsc Scenario
		for k := 0; k < 2; k++ {
			sc := closeRace(k)
			r, ok, tail := run1(sc)
			if !ok {
				if strings.Contains(tail, "closed channel") {
					hits++
				}
				continue
			}
			if strings.Contains(r.Panic, "closed channel") {
				if hits == 0 {
					hr, hsc = r, sc
				}
				hits++
			}
		}
		sum.Count(fmt.Sprintf("witness.closerace.panicked-%d-of-2", hits))
		if hits > 0 {
			out = append(out, hcommon.Disagreement{Input: concreteOf(hsc, hr), Impl: hr.Panic, SpecViolation: true, Finding: findingCloseRace,
				Detail: fmt.Sprintf("an API call blocked in its send (the router stopped reading after GOODBYE) when Close() closes the send channel panics: %s (%d of 2 replays)", hr.Panic, hits)})
		}
	}
	return out
}
