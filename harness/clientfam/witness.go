package clientfam

import (
	"fmt"
	"strings"

	"github.com/gammazero/nexus/v3/wamp"

	"verif/harness/hcommon"
)

// The witness histories of Nexus.Client.Witness as timed scenarios for the real
// client, each in its own child process on every run. Those of the defects
// fixed by 652e15e / 710325f / aee6f97 / c166f26 (formerly F15, F16, F41, F42) are
// regressions: the client must now behave as the fixed model says, and if the
// defect returns the replay is reported as a violation with the witness as the
// concrete failing input. The one open finding, F43, is replayed as such (C17 runs only).

func wScenario(id int, cfg Cfg, end int, stims ...Stim) Scenario {
	return normalise(Scenario{ID: id, Cfg: cfg, Stims: stims, End: end})
}

// f16Variants: the reply lands at the very instant the response timer fires.
// Which of the two the scheduler runs first is its choice; extra timers due at
// the same instant shuffle it.
func f16Variants() []Scenario {
	var out []Scenario
	for k := 0; k < 6; k++ {
		st := []Stim{{T: 0, Stim: "api", G: 1, Op: "subscribe", Name: "t1"}}
		for j := 0; j < k; j++ {
			// other calls whose timers fire at the same instant
			st = append(st, Stim{T: 0, Stim: "api", G: 2 + j, Op: "publish", Name: fmt.Sprintf("x%d", j)})
		}
		st = append(st, Stim{T: 100, Stim: "router", M: []any{33.0, map[string]any{"$req": 1}, 5.0}},
			Stim{T: 150, Stim: "api", G: 50, Op: "subscribe", Name: "later"},
			Stim{T: 151, Stim: "router", M: []any{33.0, map[string]any{"$req": 50}, 6.0}},
			Stim{T: 400, Stim: "close"})
		out = append(out, wScenario(9000+k, Cfg{Timeout: 100, GoodbyeReply: 0}, 0, st...))
	}
	return out
}

func f16Dup() Scenario {
	return wScenario(9010, Cfg{Timeout: 100, GoodbyeReply: 0}, 0,
		Stim{T: 0, Stim: "api", G: 1, Op: "subscribe", Name: "t1"},
		Stim{T: 5, Stim: "router", M: []any{33.0, map[string]any{"$req": 1}, 5.0}},
		Stim{T: 5, Stim: "router", M: []any{33.0, map[string]any{"$req": 1}, 5.0}},
		Stim{T: 50, Stim: "api", G: 2, Op: "subscribe", Name: "t2"},
		Stim{T: 51, Stim: "router", M: []any{33.0, map[string]any{"$req": 2}, 6.0}},
		Stim{T: 300, Stim: "close"})
}

func pptAbort() Scenario {
	return wScenario(9020, Cfg{Timeout: 100, GoodbyeReply: 0, DealerPPT: false}, 0,
		Stim{T: 0, Stim: "api", G: 1, Op: "call", Name: "p1"},
		Stim{T: 2, Stim: "router", M: []any{50.0, map[string]any{"$req": 1}, map[string]any{"ppt_scheme": "x_a"}, []any{}, map[string]any{}}},
		Stim{T: 10, Stim: "close"})
}

func dupInv() Scenario {
	return wScenario(9030, Cfg{Timeout: 100, GoodbyeReply: 0, DealerPPT: true,
		Behav: map[string]Behav{"p1": {WaitCtx: true, Delay: 100000000}}}, 3000,
		Stim{T: 0, Stim: "api", G: 1, Op: "register", Name: "p1"},
		Stim{T: 1, Stim: "router", M: []any{65.0, map[string]any{"$req": 1}, 9.0}},
		Stim{T: 5, Stim: "router", M: []any{68.0, 1.0, 9.0, map[string]any{}, []any{}, map[string]any{}}},
		Stim{T: 6, Stim: "router", M: []any{68.0, 1.0, 9.0, map[string]any{}, []any{}, map[string]any{}}},
		Stim{T: 7, Stim: "router", M: []any{68.0, 1.0, 9.0, map[string]any{}, []any{}, map[string]any{}}},
		Stim{T: 8, Stim: "router", M: []any{69.0, 1.0, map[string]any{}}},
		Stim{T: 500, Stim: "close"})
}

// closeRace (open finding F43; the model's own witness is Nexus.Client.Witness.closeRace, the CANCEL of
// a Call whose context ends as Close() completes): API calls started while Close() waits for the
// router's GOODBYE pass their Connected() check and block in their send, the router having stopped
// reading; Close() then closes the channel under them.
func closeRace(k int) Scenario {
	st := []Stim{{T: 1, Stim: "close"}}
	for j := 0; j <= k; j++ {
		st = append(st, Stim{T: 2 + j, Stim: "api", G: 1 + j, Op: "subscribe", Name: fmt.Sprintf("t%d", j)})
	}
	return wScenario(9040+k, Cfg{Timeout: 100, GoodbyeReply: 8, StallAfterGoodbye: true}, 0, st...)
}

// progChunks: by design, not a finding — progressive chunks arriving faster than the handler takes
// them make the loop wait; the wait ends when the handler returns (here after 30 ms), and the reply
// queued behind the chunks is then handed over.
func progChunks() Scenario {
	prog := map[string]any{"progress": true}
	return wScenario(9050, Cfg{Timeout: 100, GoodbyeReply: 0, DealerPPT: true,
		Behav: map[string]Behav{"p1": {Delay: 30, Res: string(wamp.InternalProgressiveOmitResult)}}}, 0,
		Stim{T: 0, Stim: "api", G: 1, Op: "register", Name: "p1"},
		Stim{T: 1, Stim: "router", M: []any{65.0, map[string]any{"$req": 1}, 9.0}},
		Stim{T: 5, Stim: "router", M: []any{68.0, 1.0, 9.0, prog, []any{1.0}, map[string]any{}}},
		Stim{T: 6, Stim: "router", M: []any{68.0, 1.0, 9.0, prog, []any{2.0}, map[string]any{}}},
		Stim{T: 7, Stim: "router", M: []any{68.0, 1.0, 9.0, prog, []any{3.0}, map[string]any{}}},
		Stim{T: 8, Stim: "router", M: []any{68.0, 1.0, 9.0, map[string]any{}, []any{4.0}, map[string]any{}}},
		Stim{T: 9, Stim: "api", G: 2, Op: "subscribe", Name: "t2"},
		Stim{T: 10, Stim: "router", M: []any{33.0, map[string]any{"$req": 2}, 6.0}},
		Stim{T: 300, Stim: "close"})
}

// progCancel: a CallProgressive under cancel mode "kill" whose context ends while sendProg (which
// honours it) waits for the next chunk — the model's RP.doubleCancel.
func progCancel() Scenario {
	return wScenario(9080, Cfg{Timeout: 100, CancelMode: "kill", GoodbyeReply: 0, DealerPPT: true}, 0,
		Stim{T: 0, Stim: "api", G: 1, Op: "callprog", Name: "c1", Script: []ScriptStep{{D: 2, K: "chunk"}, {K: "ctx"}}},
		Stim{T: 6, Stim: "cancel", G: 1, Kind: "canceled"},
		Stim{T: 9, Stim: "router", M: []any{8.0, 48.0, map[string]any{"$req": 1}, map[string]any{}, "wamp.error.canceled"}},
		Stim{T: 40, Stim: "close"})
}

// progUnset: the last chunk of a progressive call leaves `progress` unset.
func progUnset() Scenario {
	return wScenario(9081, Cfg{Timeout: 100, GoodbyeReply: 0, DealerPPT: true}, 0,
		Stim{T: 0, Stim: "api", G: 1, Op: "callprog", Name: "c1", Script: []ScriptStep{{D: 2, K: "chunk"}, {D: 1, K: "unset"}}},
		Stim{T: 6, Stim: "router", M: []any{50.0, map[string]any{"$req": 1}, map[string]any{}, []any{1.0}, map[string]any{}}},
		Stim{T: 40, Stim: "close"})
}

// f15Scenarios: the former crash inputs of the PPT code, one per model site.
func f15Scenarios() []Scenario {
	ev := func(id int, details map[string]any, args []any) Scenario {
		return wScenario(id, Cfg{Timeout: 100, GoodbyeReply: 0, DealerPPT: true}, 0,
			Stim{T: 0, Stim: "api", G: 1, Op: "subscribe", Name: "t1"},
			Stim{T: 1, Stim: "router", M: []any{33.0, map[string]any{"$req": 1}, 5.0}},
			Stim{T: 3, Stim: "router", M: []any{36.0, 5.0, 7.0, details, args, map[string]any{}}},
			Stim{T: 5, Stim: "router", M: []any{36.0, 5.0, 8.0, map[string]any{}, []any{1.0}, map[string]any{}}},
			Stim{T: 20, Stim: "close"})
	}
	nullBin := map[string]any{"$bin": "6e756c6c"}
	scs := []Scenario{
		ev(9060, map[string]any{"ppt_scheme": "mqtt"}, []any{}),
		ev(9061, map[string]any{"ppt_scheme": "mqtt", "ppt_serializer": 7.0}, []any{nullBin}),
		ev(9062, map[string]any{"ppt_scheme": "mqtt", "ppt_serializer": "json"}, []any{"str"}),
		ev(9063, map[string]any{"ppt_scheme": "mqtt"}, []any{map[string]any{"a": 1.0}}),
		ev(9064, map[string]any{"ppt_scheme": "mqtt"}, []any{map[string]any{"$payload": map[string]any{"nil": true}}}),
		ev(9065, map[string]any{"ppt_scheme": "mqtt", "ppt_serializer": "json"}, []any{nullBin}),
		ev(9066, map[string]any{"ppt_scheme": "wamp"}, []any{nullBin}),
		ev(9067, map[string]any{"ppt_scheme": "wamp", "ppt_serializer": "cbor"}, []any{}),
		ev(9068, map[string]any{"ppt_scheme": "wamp", "ppt_serializer": "cbor"}, []any{5.0}),
	}
	for i := range scs {
		for _, ser := range []string{"json", "msgpack", "cbor"} {
			scs[i].Cfg.Deser = append(scs[i].Cfg.Deser, deserOf(ser, []byte("null")))
		}
	}
	return scs
}

// witnessReplays replays the witness histories against the real client.
func witnessReplays(dir string, sum *hcommon.Summary, prop string) []hcommon.Disagreement {
	var out []hcommon.Disagreement
	run1 := func(sc Scenario) (Result, bool, string) {
		rs, cid, tail := runChild(dir, []Scenario{sc})
		sum.Evaluations++
		if cid >= 0 || len(rs) != 1 {
			return Result{}, false, tail
		}
		return rs[0], true, ""
	}
	// regression: the client must satisfy the specification on the witness and do what the
	// (fixed) model does under some schedule; extra expectations are checked by `want`.
	regress := func(name string, sc Scenario, want func(Result) string) {
		r, ok, tail := run1(sc)
		if !ok {
			kind, fn, line := panicSite(tail)
			out = append(out, hcommon.Disagreement{Input: sc, Impl: tail, SpecViolation: true,
				Detail: fmt.Sprintf("regression %s: the client crashed the process (%s in %s: %s)", name, kind, fn, line)})
			return
		}
		bad := false
		for _, v := range check(sc, r, prop) {
			bad = true
			out = append(out, hcommon.Disagreement{Input: concreteOf(sc, r), Impl: r.Out, SpecViolation: true,
				Detail: fmt.Sprintf("regression %s: %s: %s", name, v.Clause, v.Detail)})
		}
		if bad {
			return
		}
		if msg := want(r); msg != "" {
			out = append(out, hcommon.Disagreement{Input: concreteOf(sc, r), Impl: r.Out, SpecViolation: true,
				Detail: fmt.Sprintf("regression %s: %s", name, msg)})
			return
		}
		m, fd, mo, err := compareWithModel([]Scenario{concreteOf(sc, r)}, map[int]Result{sc.ID: r})
		if err != nil {
			out = append(out, hcommon.Disagreement{Detail: "model driver failed: " + err.Error()})
			return
		}
		if _, ok := m[sc.ID]; !ok {
			out = append(out, hcommon.Disagreement{Input: concreteOf(sc, r), Impl: r.Out, Model: mo[sc.ID].Out,
				Detail: fmt.Sprintf("regression %s: model and implementation differ: impl %s / model %s", name, fd[sc.ID][0], fd[sc.ID][1])})
			return
		}
		sum.TracesValidated++
		sum.Count("regression." + name + ".passed")
	}
	retOf := func(r Result, g int) string {
		for _, o := range r.Out {
			if o[1] == "ret" && int(num(o[2])) == g && len(o) > 3 {
				return strOf(o[3])
			}
		}
		return ""
	}
	count := func(r Result, kind string) int {
		n := 0
		for _, o := range r.Out {
			if o[1] == kind {
				n++
			}
		}
		return n
	}
	closed := func(r Result) string {
		if !r.CloseReturned {
			return "Close() did not return"
		}
		return ""
	}

	// formerly F16: reply at the timeout instant (six schedules), and the duplicate reply
	for _, sc := range f16Variants() {
		regress(fmt.Sprintf("f16-reply-at-timeout-%d", sc.ID-9000), sc, func(r Result) string {
			if retOf(r, 50) != "ok" {
				return "a Subscribe issued after the reply-at-timeout instant returned " + retOf(r, 50) + " (the receive loop is not processing replies)"
			}
			return closed(r)
		})
	}
	for k := 0; k < 3; k++ {
		sc := f16Dup()
		sc.ID += k
		regress(fmt.Sprintf("f16-duplicate-reply-%d", k), sc, func(r Result) string {
			if retOf(r, 2) != "ok" {
				return "a Subscribe issued after a duplicate reply returned " + retOf(r, 2)
			}
			return closed(r)
		})
	}
	// formerly F41: PPT result from a router that did not announce the feature, then Close
	regress("f41-ppt-abort-then-close", pptAbort(), func(r Result) string {
		if retOf(r, 1) != "pptabort" {
			return "Call returned " + retOf(r, 1) + ", expected the protocol-violation error"
		}
		return closed(r)
	})
	// formerly F42: three INVOCATIONs with one request id, then INTERRUPT
	regress("f42-repeated-invocation", dupInv(), func(r Result) string {
		if n := count(r, "inv"); n != 1 {
			return fmt.Sprintf("the handler ran %d times for three INVOCATIONs with one id", n)
		}
		return closed(r)
	})
	// by design: progressive chunks faster than the handler (the loop waits, then goes on)
	regress("progressive-backpressure", progChunks(), func(r Result) string {
		if n := count(r, "inv"); n != 4 {
			return fmt.Sprintf("the handler ran %d times for four chunks", n)
		}
		if retOf(r, 2) != "ok" {
			return "a Subscribe answered while the loop waited behind the chunks returned " + retOf(r, 2)
		}
		return closed(r)
	})
	// formerly finding candidate A (fixed by 4f8171f): a CallProgressive under mode "kill" whose context
	// ends while sendProg waits — the waiter's CANCEL and the sender goroutine's both say "kill"
	regress("callprogressive-ctx-cancel", progCancel(), func(r Result) string {
		var modes []string
		for _, o := range r.Out {
			if len(o) < 3 || o[1] != "send" {
				continue
			}
			if m, ok := o[2].([]any); ok && num(at(m, 0)) == 49 {
				modes = append(modes, strOf(at(m, 2)))
			}
		}
		if got := strings.Join(modes, "+"); got != "kill+kill" {
			return "the CANCELs of the cancelled progressive call carry modes " + got + ", configured mode is kill"
		}
		return closed(r)
	})
	// formerly a panic of the sender goroutine (fixed by 42310e3): the last chunk's options leave progress unset
	regress("callprogressive-unset-progress", progUnset(), func(r Result) string {
		if retOf(r, 1) != "result" {
			return "the progressive call returned " + retOf(r, 1)
		}
		return closed(r)
	})
	// formerly F15: every former crash input of the PPT code is answered with an error
	for _, sc := range f15Scenarios() {
		regress(fmt.Sprintf("f15-ppt-input-%d", sc.ID-9060), sc, func(r Result) string {
			if n := count(r, "event"); n != 1 {
				return fmt.Sprintf("%d events reached the handler, expected only the one after the malformed PPT event", n)
			}
			return closed(r)
		})
	}

	// F43 (open, listed under C17 only): a goroutine of the client sending while Close() closes
	// the send channel
	if prop == "C17" {
		hits := 0
		var hr Result
		var hsc Scenario
		for k := 0; k < 2; k++ {
			sc := closeRace(k)
			r, ok, tail := run1(sc)
			if !ok {
				if strings.Contains(tail, "closed channel") {
					hits++
				}
				continue
			}
			if strings.Contains(r.Panic, "send on closed channel") {
				if hits == 0 {
					hr, hsc = r, sc
				}
				hits++
			}
		}
		sum.Count(fmt.Sprintf("witness.closerace.panicked-%d-of-2", hits))
		if hits > 0 {
			out = append(out, hcommon.Disagreement{Input: concreteOf(hsc, hr), Impl: hr.Panic, SpecViolation: true, Finding: findingCloseRace,
				Detail: fmt.Sprintf("an API call blocked in its send (the router stopped reading after GOODBYE) when Close() closes the send channel panics: %s (%d of 2 replays)", hr.Panic, hits)})
		}
	}
	return out
}
