package clientfam

import (
	"bufio"
	"encoding/json"
	"fmt"
	"io"
	"os/exec"

	"verif/harness/hcommon"
)

// The Go scheduler's free choices are local: a scenario with two racy instants
// may resolve the first one way and the second the other way. searchSchedule
// looks for a choice of policy PER INSTANT under which the model reproduces the
// implementation's observations: depth-first over the instants, comparing the
// observations of each window [T_i, T_{i+1}), exploring only choices that lead
// to different model states (the driver's state fingerprint) and backtracking
// through the driver's save/restore.

type group struct {
	t     int
	stims []Stim
}

func groupsOf(sc Scenario) []group {
	var gs []group
	for _, st := range sc.Stims {
		if n := len(gs); n > 0 && gs[n-1].t == st.T {
			gs[n-1].stims = append(gs[n-1].stims, st)
		} else {
			gs = append(gs, group{t: st.T, stims: []Stim{st}})
		}
	}
	return gs
}

func stimLines(g group, pol Policy) []string {
	var out []string
	for k, st := range g.stims {
		m := map[string]any{}
		b, _ := json.Marshal(st)
		json.Unmarshal(b, &m)
		if k == 0 {
			m["policy"] = pol
		}
		if pol.Batch && st.Stim != "api" && k+1 < len(g.stims) {
			m["hold"] = true
		}
		b, _ = json.Marshal(m)
		out = append(out, string(b))
	}
	return out
}

// drv is an interactive model driver process.
type drv struct {
	cmd *exec.Cmd
	in  io.WriteCloser
	out *bufio.Reader
}

func startDrv() (*drv, error) {
	cmd := exec.Command(hcommon.DriverPath(), "client")
	in, err := cmd.StdinPipe()
	if err != nil {
		return nil, err
	}
	out, err := cmd.StdoutPipe()
	if err != nil {
		return nil, err
	}
	if err := cmd.Start(); err != nil {
		return nil, err
	}
	return &drv{cmd: cmd, in: in, out: bufio.NewReaderSize(out, 1<<20)}, nil
}

func (d *drv) close() {
	d.in.Close()
	d.cmd.Wait()
}

type drvReply struct {
	Out []Obs  `json:"out"`
	FP  string `json:"fp"`
	Err string `json:"err"`
}

func (d *drv) ask(line string) (drvReply, error) {
	var r drvReply
	if _, err := io.WriteString(d.in, line+"\n"); err != nil {
		return r, err
	}
	l, err := d.out.ReadString('\n')
	if err != nil {
		return r, fmt.Errorf("model driver: %v", err)
	}
	if err := json.Unmarshal([]byte(l), &r); err != nil {
		return r, fmt.Errorf("model driver line %q: %v", l, err)
	}
	return r, nil
}

func obsWindow(o []Obs, from, to int) []Obs {
	var out []Obs
	for _, x := range o {
		if t := int(num(x[0])); t >= from && t <= to {
			out = append(out, x)
		}
	}
	return out
}

// searchSchedule reports whether some per-instant schedule of the model
// reproduces implOut, and the non-default policies it used.
func searchSchedule(sc Scenario, implOut []Obs, budget int) (bool, []string, error) {
	gs := groupsOf(sc)
	if len(gs) == 0 {
		return false, nil, nil
	}
	d, err := startDrv()
	if err != nil {
		return false, nil, err
	}
	defer d.close()
	cfg := map[string]any{}
	b, _ := json.Marshal(sc.Cfg)
	json.Unmarshal(b, &cfg)
	b, _ = json.Marshal(map[string]any{"cfg": cfg})
	if _, err := d.ask(string(b)); err != nil {
		return false, nil, err
	}
	if _, err := d.ask(`{"save":0}`); err != nil {
		return false, nil, err
	}
	var names []string
	var rec func(i int) (bool, error)
	rec = func(i int) (bool, error) {
		horizon := sc.End
		if i+1 < len(gs) {
			horizon = gs[i+1].t - 1
		}
		from := gs[i].t
		if i == 0 {
			from = 0
		}
		want := obsWindow(implOut, from, horizon)
		seen := map[string]bool{}
		// try feeds one candidate schedule of this instant (the stimulus lines with their policies) to
		// the model and, if the window's observations agree, goes on with the next instant.
		try := func(lines []string, name string) (bool, error) {
			if _, err := d.ask(fmt.Sprintf(`{"restore":%d}`, i)); err != nil {
				return false, err
			}
			var got []Obs
			bad := false
			var fp string
			for _, l := range append(lines, fmt.Sprintf(`{"end":%d,"fp":true}`, horizon)) {
				r, err := d.ask(l)
				if err != nil {
					return false, err
				}
				if r.Err != "" {
					bad = true
				}
				got = append(got, r.Out...)
				fp = r.FP
			}
			if bad {
				return false, nil
			}
			if ok, _, _ := sameObs(want, got); !ok {
				return false, nil
			}
			// same observations and same state as a choice already explored: nothing new below
			if seen[fp] {
				return false, nil
			}
			seen[fp] = true
			names = append(names, name)
			if i+1 == len(gs) {
				return true, nil
			}
			if _, err := d.ask(fmt.Sprintf(`{"save":%d}`, i+1)); err != nil {
				return false, err
			}
			ok, err := rec(i + 1)
			if ok || err != nil {
				return ok, err
			}
			names = names[:len(names)-1]
			return false, nil
		}
		for _, pol := range policies {
			if budget <= 0 {
				return false, nil
			}
			budget--
			if ok, err := try(stimLines(gs[i], pol), pol.Name); ok || err != nil {
				return ok, err
			}
		}
		// The stimuli of one instant land one after the other, and the goroutines woken by the first
		// ones may have run (under one policy) before the later ones land (and are scheduled under
		// another): split the instant in two at every position.
		for j := 1; j < len(gs[i].stims); j++ {
			a, b := group{t: gs[i].t, stims: gs[i].stims[:j]}, group{t: gs[i].t, stims: gs[i].stims[j:]}
			for _, pa := range policies {
				for _, pb := range []Policy{policies[0], policies[1], pa} {
					if budget <= 0 {
						return false, nil
					}
					budget--
					lines := append(append(stimLines(a, pa), fmt.Sprintf(`{"end":%d}`, gs[i].t)), stimLines(b, pb)...)
					if ok, err := try(lines, pa.Name+" | "+pb.Name); ok || err != nil {
						return ok, err
					}
				}
			}
		}
		return false, nil
	}
	ok, err := rec(0)
	if !ok {
		return false, nil, err
	}
	var used []string
	for i, n := range names {
		if n != policies[0].Name {
			used = append(used, fmt.Sprintf("t=%d:%s", gs[i].t, n))
		}
	}
	return true, used, nil
}
