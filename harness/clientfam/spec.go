package clientfam

import (
	"fmt"
	"strings"
)

// Violation is one failure of the executable specification on what the
// implementation did.
type Violation struct {
	Clause  string
	Detail  string
	Finding string // id of the known finding whose signature this matches, if any
}

// findingCloseRace is the one open finding the family knows (known_findings.json, C17): a
// goroutine of the client sending while Close() closes the send channel panics. The defects
// formerly known as F15, F16, F41 and F42 are fixed (652e15e, 710325f, aee6f97, c166f26): their
// shapes are in the main stream and their witnesses are replayed as regressions; a reappearance
// is an ordinary violation.
const findingCloseRace = "F43"

var replyReqIndex = map[int]int{33: 1, 35: 1, 65: 1, 67: 1, 17: 1, 50: 1, 8: 2}

type view struct {
	sc      Scenario
	res     Result
	startT  map[int]int
	op      map[int]string
	name    map[int]string
	ret     map[int][]any
	retT    map[int]int
	cancelT map[int]int
	closeT  int
	sends   []Obs // client -> router
	// senderCancels: progressive calls whose scripted sendProg fails or ends with the context: their
	// sender goroutine sends one CANCEL of its own (with the configured mode)
	senderCancels map[int]bool
}

func newView(sc Scenario, res Result) *view {
	v := &view{sc: sc, res: res, startT: map[int]int{}, op: map[int]string{}, name: map[int]string{}, ret: map[int][]any{},
		retT: map[int]int{}, cancelT: map[int]int{}, closeT: -1, senderCancels: map[int]bool{}}
	for _, st := range res.Concrete {
		switch st.Stim {
		case "api":
			v.startT[st.G] = st.T
			v.op[st.G] = st.Op
			if st.Op == "callprog" {
				// the API goroutine of CallProgressive is that of Call
				v.op[st.G] = "call"
				for _, step := range st.Script {
					if step.K == "err" || step.K == "ctx" {
						v.senderCancels[st.G] = true
					}
				}
			}
			v.name[st.G] = st.Name
		case "cancel":
			if _, ok := v.cancelT[st.G]; !ok {
				v.cancelT[st.G] = st.T
			}
		case "close":
			if v.closeT < 0 {
				v.closeT = st.T
			}
		}
	}
	for _, o := range res.Out {
		switch o[1] {
		case "ret":
			g := int(num(o[2]))
			v.ret[g] = o[3:]
			v.retT[g] = int(num(o[0]))
		case "send":
			v.sends = append(v.sends, o)
		}
	}
	return v
}

// sessionEndT is the first instant at which the router side ended the session
// (GOODBYE, ABORT, closing the transport) or Close was called; -1 if never.
func (v *view) sessionEndT() int {
	end := -1
	upd := func(t int) {
		if end < 0 || t < end {
			end = t
		}
	}
	for _, st := range v.res.Concrete {
		switch st.Stim {
		case "router":
			if c := num(at(st.M, 0)); c == 6 || c == 3 {
				upd(st.T)
			}
		case "rclose", "close":
			upd(st.T)
		}
	}
	// the client ends the session itself when it answers a protocol violation with ABORT
	// (abortSession: a PPT result or option without the router having announced the feature)
	for _, s := range v.sends {
		if m, ok := s[2].([]any); ok && num(at(m, 0)) == 3 {
			upd(int(num(s[0])))
		}
	}
	return end
}

func (v *view) routerEnded() bool {
	for _, st := range v.res.Concrete {
		if st.Stim == "rclose" {
			return true
		}
		if st.Stim == "router" {
			if c := num(at(st.M, 0)); c == 6 || c == 3 {
				return true
			}
		}
	}
	return false
}

// check evaluates the property sentences on the implementation's behaviour.
func check(sc Scenario, res Result, prop string) []Violation {
	v := newView(sc, res)
	var out []Violation
	add := func(clause, detail string) { out = append(out, Violation{Clause: clause, Detail: detail}) }
	timeout := sc.Cfg.Timeout

	if res.Panic != "" {
		f := ""
		if strings.Contains(res.Panic, "send on closed channel") && v.closeT >= 0 {
			f = findingCloseRace // a goroutine of the client was sending when Close() closed the channel
		}
		out = append(out, Violation{Clause: "C17.no-panic", Detail: "the client panicked: " + res.Panic, Finding: f})
		return out
	}
	if strings.Contains(res.Leftover, "runSignalReply") || strings.Contains(res.Leftover, "runHandleInvocation [chan send") ||
		strings.Contains(res.Leftover, "runHandleInvocation [select") && res.CloseCalled && !res.CloseReturned {
		what := "the receive loop is blocked for good (" + res.Leftover + ")"
		if len(res.Unreturned) > 0 {
			what += fmt.Sprintf("; API calls %v never returned", res.Unreturned)
		}
		if res.CloseCalled && !res.CloseReturned {
			what += "; Close() did not return"
		}
		out = append(out, Violation{Clause: "C17.never-stuck", Detail: what})
		return out
	}

	// ---- C17: every call returns, Done, Close ----------------------------------------
	if len(res.Unreturned) > 0 {
		add("C17.calls-return", fmt.Sprintf("API calls %v had not returned %d ms after the last stimulus", res.Unreturned, sc.End))
	}
	if v.routerEnded() && !res.DoneClosed {
		add("C17.done", "the router said GOODBYE/ABORT or closed the transport but Done() was never signalled")
	}
	if res.CloseCalled && !res.CloseReturned {
		add("C17.close-returns", "Close() did not return; "+res.Leftover)
	}
	if res.CloseReturned && res.Leftover != "" {
		add("C17.no-leftover", "goroutines of the client remain after Close() returned: "+res.Leftover)
	}
	if res.EventOverlap {
		add("C16.events-serial", "two event handlers ran at the same time")
	}

	// ---- C16: correlation -------------------------------------------------------------------
	// every reply carries a marker the API call hands back (subscription / registration id,
	// first result argument, error URI): the replies with that marker must include one that
	// bears the call's own request id.
	reqsOfMarker := func(code int, idx int, marker any) []int64 {
		var rs []int64
		for _, st := range res.Concrete {
			if st.Stim == "router" && int(num(at(st.M, 0))) == code {
				x := at(st.M, idx)
				if code == 50 {
					if a, ok := x.([]any); ok && len(a) > 0 {
						x = a[0]
					} else {
						continue
					}
				}
				if jsonKey(x) == jsonKey(marker) {
					rs = append(rs, num(at(st.M, replyReqIndex[code])))
				}
			}
		}
		return rs
	}
	for g, r := range v.ret {
		if len(r) == 0 {
			continue
		}
		req, known := res.Req[g]
		kind := strOf(r[0])
		var got []int64
		switch {
		case kind == "ok" && v.op[g] == "subscribe" && len(r) > 1:
			got = reqsOfMarker(33, 2, r[1])
		case kind == "ok" && v.op[g] == "register" && len(r) > 1:
			got = reqsOfMarker(65, 2, r[1])
		case kind == "result" && len(r) > 1:
			if l, ok := r[1].([]any); ok && len(l) > 0 && !sc.hasPPTResult() {
				got = reqsOfMarker(50, 3, l[0])
			}
		case strings.HasPrefix(kind, "error:wamp.error.m"):
			got = reqsOfMarker(8, 4, strings.TrimPrefix(kind, "error:"))
		}
		if len(got) == 0 || !known {
			continue
		}
		own := false
		for _, q := range got {
			if uint64(q) == req {
				own = true
			}
		}
		if !own {
			add("C16.correlation", fmt.Sprintf("API call %d (request %d) returned a reply that the router addressed to request %v", g, req, got))
		}
	}

	// ---- C16: a reply in time is returned ------------------------------------------------------
	sessEnd := v.sessionEndT()
	if sc.Cfg.EventDelay == 0 && sc.Cfg.ProgDelay == 0 {
		for g, r := range v.ret {
			req, known := res.Req[g]
			if !known || len(r) == 0 {
				continue
			}
			first := -1
			for _, st := range res.Concrete {
				if st.Stim != "router" {
					continue
				}
				code := int(num(at(st.M, 0)))
				ri, ok := replyReqIndex[code]
				if !ok || uint64(num(at(st.M, ri))) != req {
					continue
				}
				if code == 50 {
					if d, ok := at(st.M, 2).(map[string]any); ok && d["progress"] == true && v.op[g] == "call" {
						continue
					}
				}
				first = st.T
				break
			}
			if first < 0 || first <= v.startT[g] {
				continue
			}
			if sessEnd >= 0 && sessEnd <= first {
				continue
			}
			kind := strOf(r[0])
			if v.op[g] != "call" {
				if first < v.startT[g]+timeout && (kind == "timeout" || kind == "notconn") {
					add("C16.own-reply", fmt.Sprintf("the router answered request %d of API call %d at %d ms (timeout at %d ms) but the call returned %q",
						req, g, first, v.startT[g]+timeout, kind))
				}
			} else if ct, ok := v.cancelT[g]; !ok || first < ct {
				if kind == "notconn" || strings.HasPrefix(kind, "ctx:") || kind == "timeout" {
					add("C16.own-reply", fmt.Sprintf("the router answered request %d of Call %d at %d ms but the call returned %q", req, g, first, kind))
				}
			}
		}
	}

	// ---- C16: cancellation ----------------------------------------------------------------------
	mode := sc.Cfg.CancelMode
	if mode == "" {
		mode = "killnowait"
	}
	for g, op := range v.op {
		if op != "call" {
			continue
		}
		req, known := res.Req[g]
		if !known {
			continue
		}
		var cancels []Obs
		for _, s := range v.sends {
			if m, ok := s[2].([]any); ok && num(at(m, 0)) == 49 && uint64(num(at(m, 1))) == req {
				cancels = append(cancels, s)
			}
		}
		if v.senderCancels[g] {
			// CallProgressive: when its scripted sendProg fails or returns the context's error, the sender
			// goroutine sends a CANCEL of its own next to the waiter's: one more CANCEL, which must carry
			// the configured mode like every other (checked below before it is set aside)
			for _, cm := range cancels {
				if m := cm[2].([]any); strOf(at(m, 2)) != mode {
					add("C16.cancel", fmt.Sprintf("Call %d: CANCEL carries mode %q, configured mode is %q", g, strOf(at(m, 2)), mode))
				}
			}
			if len(cancels) > 0 {
				cancels = cancels[1:]
			}
		}
		ct, cancelled := v.cancelT[g]
		rt, returned := v.retT[g]
		kind := ""
		if r := v.ret[g]; len(r) > 0 {
			kind = strOf(r[0])
		}
		switch {
		case !cancelled || (returned && rt < ct):
			if len(cancels) > 0 {
				add("C16.cancel", fmt.Sprintf("Call %d sent CANCEL although its context had not ended", g))
			}
		case returned && rt > ct && len(cancels) == 0 && !strings.HasPrefix(kind, "ctx:") && kind != "timeout" && kind != "notconn":
			// the select found a reply ready next to ctx.Done() and took the reply: allowed
		case returned && rt > ct && kind == "notconn" && len(cancels) == 0:
			// … or Done()
		case returned && rt > ct:
			if len(cancels) != 1 {
				add("C16.cancel", fmt.Sprintf("Call %d: context ended at %d ms while pending, %d CANCEL messages sent (want exactly 1)", g, ct, len(cancels)))
			}
			if !strings.HasPrefix(kind, "ctx:") && kind != "timeout" {
				add("C16.cancel", fmt.Sprintf("Call %d: context ended at %d ms while pending but the call returned %q", g, ct, kind))
			}
		}
		for _, cm := range cancels {
			if m := cm[2].([]any); strOf(at(m, 2)) != mode {
				add("C16.cancel", fmt.Sprintf("Call %d: CANCEL carries mode %q, configured mode is %q", g, strOf(at(m, 2)), mode))
			}
		}
	}

	// ---- C16: progressive results -----------------------------------------------------------------
	for g := range v.op {
		req, known := res.Req[g]
		if !known {
			continue
		}
		var sent, seen []string
		for _, st := range res.Concrete {
			if st.Stim == "router" && num(at(st.M, 0)) == 50 && uint64(num(at(st.M, 1))) == req {
				if d, ok := at(st.M, 2).(map[string]any); ok && d["progress"] == true {
					sent = append(sent, jsonKey(at(st.M, 3)))
				}
			}
		}
		for _, o := range res.Raw {
			if o[1] == "progress" && int(num(o[2])) == g {
				seen = append(seen, jsonKey(o[3]))
				if rt, ok := v.retT[g]; ok && int(num(o[0])) > rt {
					add("C16.progress", fmt.Sprintf("progress handler of Call %d ran at %d ms, after Call returned at %d ms", g, num(o[0]), rt))
				}
			}
		}
		if !isSubsequence(seen, sent) {
			add("C16.progress", fmt.Sprintf("Call %d: progress handler saw %v, router sent %v", g, seen, sent))
		}
	}

	// ---- C16: invocations -----------------------------------------------------------------------------
	answers := map[int64][]int{}
	for _, s := range v.sends {
		m, _ := s[2].([]any)
		switch {
		case num(at(m, 0)) == 70 && at(m, 2) == false:
			answers[num(at(m, 1))] = append(answers[num(at(m, 1))], int(num(s[0])))
		case num(at(m, 0)) == 8 && num(at(m, 1)) == 68 && strOf(at(m, 3)) != "wamp.error.invalid_argument":
			answers[num(at(m, 2))] = append(answers[num(at(m, 2))], int(num(s[0])))
		}
	}
	for id, ts := range answers {
		if len(ts) > 1 {
			add("C16.one-answer", fmt.Sprintf("invocation %d was answered %d times (at %v ms)", id, len(ts), ts))
		}
	}
	// which INVOCATION messages may reach a handler: those for a registration the client holds a
	// handler for, whose id is new (IsNewRecvID) or continues a progressive invocation
	type regSpan struct{ from, to int }
	held := map[int64]regSpan{}
	for g, r := range v.ret {
		if v.op[g] == "register" && len(r) > 1 && strOf(r[0]) == "ok" {
			sp := regSpan{from: v.retT[g], to: 1 << 30}
			for u, op := range v.op {
				if op == "unregister" && v.name[u] == v.name[g] && v.startT[u] >= v.retT[g] && v.startT[u] < sp.to {
					sp.to = v.startT[u]
				}
			}
			held[num(r[1])] = sp
		}
	}
	may := map[int64]int{}
	var last int64
	progOpen := map[int64]bool{}
	for _, st := range res.Concrete {
		if st.Stim != "router" {
			continue
		}
		switch num(at(st.M, 0)) {
		case 68:
			id := num(at(st.M, 1))
			d, _ := at(st.M, 3).(map[string]any)
			sp, ok := held[num(at(st.M, 2))]
			if ok && (st.T == sp.from || st.T == sp.to) {
				// same instant as the REGISTERED being returned / the Unregister: handled or answered
				// with ERROR before its id is looked at — either; `last` keeps the certain value
				may[id]++
				continue
			}
			if !ok || st.T < sp.from || st.T > sp.to {
				continue // no handler: answered with ERROR before the id is looked at
			}
			if _, ppt := d["ppt_scheme"]; ppt {
				// PPT handling comes first and may reject the message before its id is looked
				// at: not judged here, and `last` keeps the lower (certain) value
				may[id]++
				continue
			}
			if isNewID(last, id) || progOpen[id] {
				may[id]++
			}
			if isNewID(last, id) {
				last = id
			}
			progOpen[id] = d["progress"] == true
		case 69:
			if id := num(at(st.M, 1)); isNewID(last, id) {
				last = id
			}
		}
	}
	ran := map[int64]int{}
	for _, o := range res.Out {
		if o[1] == "inv" {
			ran[num(o[2])]++
		}
	}
	for id, n := range ran {
		// (with slow event / progress handlers the loop lags behind the script: not judged then)
		if n > may[id] && sc.Cfg.EventDelay == 0 && sc.Cfg.ProgDelay == 0 {
			add("C16.invocation-once", fmt.Sprintf("the handler ran %d times for invocation id %d; only %d INVOCATION messages with that id were new or continued a progressive one", n, id, may[id]))
		}
	}

	// ---- C16: events in arrival order --------------------------------------------------------------------
	var pubsSent, pubsSeen []string
	for _, st := range res.Concrete {
		if st.Stim == "router" && num(at(st.M, 0)) == 36 {
			pubsSent = append(pubsSent, jsonKey(at(st.M, 2)))
		}
	}
	for _, o := range res.Raw {
		if o[1] == "event" {
			pubsSeen = append(pubsSeen, jsonKey(o[3]))
		}
	}
	if !isSubsequence(pubsSeen, pubsSent) {
		add("C16.events-serial", fmt.Sprintf("event handlers ran for publications %v, the router sent %v", pubsSeen, pubsSent))
	}
	_ = prop
	return out
}

const maxID = int64(1) << 53

// isNewID is the WAMP rule Session.IsNewRecvID implements.
func isNewID(last, id int64) bool {
	if id <= 0 || id > maxID {
		return false
	}
	if last == 0 || id > last {
		return true
	}
	if id == last {
		return false
	}
	return maxID-(last-id) < 500
}

func isSubsequence(sub, full []string) bool {
	i := 0
	for _, x := range full {
		if i < len(sub) && sub[i] == x {
			i++
		}
	}
	return i == len(sub)
}

// hasPPTResult: some RESULT carries PPT details (its arguments are then rewritten by the client).
func (sc Scenario) hasPPTResult() bool {
	for _, st := range sc.Stims {
		if st.Stim == "router" && num(at(st.M, 0)) == 50 {
			if d, ok := at(st.M, 2).(map[string]any); ok {
				if _, ok := d["ppt_scheme"]; ok {
					return true
				}
			}
		}
	}
	return false
}
