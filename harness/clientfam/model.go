package clientfam

import (
	"encoding/json"
	"fmt"

	"verif/harness/hcommon"
)

// Policy is one way of resolving what the Go scheduler is free to choose.
type Policy struct {
	Name        string `json:"-"`
	RunFirst    bool   `json:"run_first"`
	TimersFirst bool   `json:"timers_first"`
	Wedge       bool   `json:"wedge"`
	ExitFirst   bool   `json:"exit_first"`
	SwapExits   bool   `json:"swap_exits"`
	APILast     bool   `json:"api_last"`
	// Batch: stimuli of one instant all land before any goroutine they woke runs.
	Batch bool `json:"-"`
}

var policies = func() []Policy {
	ps := []Policy{{Name: "timers-first", TimersFirst: true}, {Name: "stimulus-first"}}
	for _, batch := range []bool{false, true} {
		for _, exit := range []bool{false, true} {
			for _, run := range []bool{false, true} {
				for _, tf := range []bool{true, false} {
					for _, wedge := range []bool{false, true} {
						if wedge && !tf {
							continue
						}
						p := Policy{RunFirst: run, TimersFirst: tf, Wedge: wedge, ExitFirst: exit, Batch: batch}
						if p == (Policy{TimersFirst: true}) || p == (Policy{}) {
							continue
						}
						p.Name = fmt.Sprintf("run=%v,timers=%v,wedge=%v,exit=%v,batch=%v", run, tf, wedge, exit, batch)
						ps = append(ps, p)
					}
				}
			}
		}
	}
	// the API goroutine woken by a reply runs after everything else due at that instant
	for _, batch := range []bool{true, false} {
		for _, exit := range []bool{false, true} {
			for _, tf := range []bool{true, false} {
				ps = append(ps, Policy{APILast: true, TimersFirst: tf, ExitFirst: exit, Batch: batch,
					Name: fmt.Sprintf("api-last,timers=%v,exit=%v,batch=%v", tf, exit, batch)})
			}
		}
	}
	// a worker's select with its context and the client's Done both ready takes the other one
	for _, p := range ps {
		p.SwapExits = true
		p.Name += ",swap-exits"
		ps = append(ps, p)
	}
	return ps
}()

// ModelOut is what the model did on one scenario under one policy.
type ModelOut struct {
	Out     []Obs
	Stuck   bool
	Crashed string
	Err     string
}

type modelLine struct {
	Out   []Obs  `json:"out"`
	Stuck bool   `json:"stuck"`
	Err   string `json:"err"`
	OK    bool   `json:"ok"`
}

// modelRun feeds scenarios (their Stims as given) to the Lean driver under one policy.
func modelRun(scs []Scenario, pol Policy, debug bool) ([]ModelOut, error) {
	var in []string
	for _, sc := range scs {
		cfg := map[string]any{}
		b, _ := json.Marshal(sc.Cfg)
		json.Unmarshal(b, &cfg)
		cfg["policy"] = pol
		cfg["debug"] = debug
		b, _ = json.Marshal(map[string]any{"cfg": cfg})
		in = append(in, string(b))
		for k, st := range sc.Stims {
			m := map[string]any{}
			b, _ := json.Marshal(st)
			json.Unmarshal(b, &m)
			if pol.Batch && st.Stim != "api" && k+1 < len(sc.Stims) && sc.Stims[k+1].T == st.T {
				m["hold"] = true
			}
			b, _ = json.Marshal(m)
			in = append(in, string(b))
		}
		in = append(in, fmt.Sprintf(`{"end":%d}`, sc.End))
	}
	lines, err := hcommon.RunDriver("client", in)
	if err != nil {
		return nil, err
	}
	if len(lines) != len(in) {
		return nil, fmt.Errorf("model driver answered %d lines for %d inputs", len(lines), len(in))
	}
	res := make([]ModelOut, len(scs))
	p := 0
	for i, sc := range scs {
		p++ // cfg
		for k := 0; k <= len(sc.Stims); k++ {
			var l modelLine
			if err := json.Unmarshal([]byte(lines[p]), &l); err != nil {
				return nil, fmt.Errorf("model line %q: %v", lines[p], err)
			}
			if l.Err != "" {
				res[i].Err = l.Err
			}
			for _, o := range l.Out {
				if len(o) > 2 && o[1] == "crashed" {
					res[i].Crashed = strOf(o[2])
				}
				res[i].Out = append(res[i].Out, o)
			}
			res[i].Stuck = l.Stuck
			p++
		}
		res[i].Out = sortObs(res[i].Out)
	}
	return res, nil
}

// sameObs compares canonical observation lists.
func sameObs(a, b []Obs) (bool, string, string) {
	a, b = sortObs(roundTrip(a)), sortObs(roundTrip(b))
	n := len(a)
	if len(b) > n {
		n = len(b)
	}
	for i := 0; i < n; i++ {
		var x, y string
		if i < len(a) {
			x = jsonKey(a[i])
		}
		if i < len(b) {
			y = jsonKey(b[i])
		}
		if x != y {
			return false, x, y
		}
	}
	return true, "", ""
}

// driverQuery asks the driver one-line questions.
func driverQuery(lines []string) ([]map[string]any, error) {
	out, err := hcommon.RunDriver("client", lines)
	if err != nil {
		return nil, err
	}
	res := make([]map[string]any, len(out))
	for i, l := range out {
		if err := json.Unmarshal([]byte(l), &res[i]); err != nil {
			return nil, fmt.Errorf("driver line %q: %v", l, err)
		}
	}
	return res, nil
}
