package clientfam

import (
	"encoding/json"
	"flag"
	"fmt"
	"os"
	"strings"
	"testing"
)

var flagID = flag.Int("id", -1, "debug: scenario index to run and print")
var flagWitness = flag.String("witness", "", "debug: witness scenario to run and print")

// TestDebug runs one generated scenario in this process and prints both sides.
func TestDebug(t *testing.T) {
	if *flagID < 0 && *flagWitness == "" {
		t.Skip("debug only")
	}
	var sc Scenario
	if f, ok := strings.CutPrefix(*flagWitness, "@"); ok {
		// -witness @file: a scenario in JSON (the "input" of a replay file)
		b, err := os.ReadFile(f)
		if err != nil {
			t.Fatal(err)
		}
		if err := json.Unmarshal(b, &sc); err != nil {
			t.Fatal(err)
		}
		sc = normalise(sc)
		*flagWitness = "@"
	}
	switch *flagWitness {
	case "@":
	case "f16dup":
		sc = f16Dup()
	case "pptabort":
		sc = pptAbort()
	case "dupinv":
		sc = dupInv()
	case "f16":
		sc = f16Variants()[2]
	case "progchunks":
		sc = progChunks()
	case "progcancel":
		sc = progCancel()
	default:
		sc = generate(*flagSeed, *flagID, *flagProperty)
	}
	fmt.Println("SCENARIO", jsonKey(sc.Cfg), "end", sc.End, sc.Tags)
	res := runScenario(t, sc)
	for _, st := range res.Concrete {
		fmt.Println("  stim", jsonKey(st))
	}
	fmt.Println("IMPL leftover:", res.Leftover, "panic:", res.Panic, "unreturned:", res.Unreturned, "req:", res.Req)
	for _, o := range res.Out {
		fmt.Println("  impl", jsonKey(o))
	}
	for _, pol := range policies {
		mo, err := modelRun([]Scenario{concreteOf(sc, res)}, pol, true)
		if err != nil {
			t.Fatal(err)
		}
		ok, a, b := sameObs(res.Out, stripDbg(mo[0].Out))
		fmt.Println("MODEL", pol.Name, "same:", ok, "first diff impl/model:", a, "/", b, "stuck:", mo[0].Stuck)
		if pol.Name == policies[0].Name || ok {
			for _, o := range mo[0].Out {
				fmt.Println("  model", jsonKey(o))
			}
		}
		if ok {
			break
		}
	}
	ok, used, err := searchSchedule(concreteOf(sc, res), res.Out, 8000)
	fmt.Println("SEARCH", ok, used, err)
	for _, v := range check(sc, res, *flagProperty) {
		fmt.Println("SPEC", v.Clause, v.Finding, v.Detail)
	}
}

func stripDbg(o []Obs) []Obs {
	var out []Obs
	for _, x := range o {
		if len(x) > 1 && x[1] == "dbg" {
			continue
		}
		out = append(out, x)
	}
	return out
}
