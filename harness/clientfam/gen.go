package clientfam

import (
	"encoding/hex"
	"fmt"
	"sort"

	"github.com/gammazero/nexus/v3/transport/serialize"
	"github.com/gammazero/nexus/v3/wamp"

	"verif/harness/hcommon"
)

// The generator builds a scenario from "threads": one API call plus what the
// scripted router does about it (reply in a chosen order/delay, wrong id, wrong
// type, duplicate, nothing), placed on a common virtual timeline. Hostile
// traffic (unknown types, PPT details of every shape, GOODBYE/ABORT, abrupt
// close) is sprinkled in between. Property bias: C16 favours concurrency,
// cancellation, progressive results and invocations; C17 favours hostile values,
// the exact-timeout instants and disconnects.

func serializerFor(name string) serialize.Serializer {
	switch name {
	case "json":
		return &serialize.JSONSerializer{}
	case "msgpack":
		return &serialize.MessagePackSerializer{}
	case "cbor":
		return &serialize.CBORSerializer{}
	}
	return nil
}

// deserOf runs the real decoder the way unpackPPTPayload does.
func deserOf(ser string, b []byte) DeserEntry {
	e := DeserEntry{Ser: ser, Hex: hex.EncodeToString(b), Kind: "err"}
	s := serializerFor(ser)
	if s == nil {
		return e
	}
	var p *wamp.PassthruPayload
	err := func() (err error) {
		defer func() {
			if r := recover(); r != nil {
				err = fmt.Errorf("panic: %v", r)
			}
		}()
		return s.DeserializeDataItem(b, &p)
	}()
	switch {
	case err != nil:
	case p == nil:
		e.Kind = "nil"
	default:
		e.Kind = "val"
		e.Args = canonList(p.Arguments)
		e.Kw = canonDict(p.ArgumentsKw)
	}
	return e
}

func encodePayload(ser string, args wamp.List) []byte {
	b, err := serializerFor(ser).SerializeDataItem(&wamp.PassthruPayload{Arguments: args})
	if err != nil {
		return nil
	}
	return b
}

func binV(b []byte) map[string]any { return map[string]any{"$bin": hex.EncodeToString(b)} }

type gen struct {
	r    *hcommon.RNG
	prop string
	sc   *Scenario
	g    int // next API call index
	mark int // unique marker for replies
	tags map[string]bool
}

func (g *gen) tag(s string) { g.tags[s] = true }

func (g *gen) add(st Stim) { g.sc.Stims = append(g.sc.Stims, st) }

func (g *gen) router(t int, m ...any) { g.add(Stim{T: t, Stim: "router", M: m}) }

func (g *gen) marker() int { g.mark++; return g.mark }

func reqOf(call int) map[string]any { return map[string]any{"$req": call} }

// pptCase returns hostile/benign PPT details and arguments for an EVENT,
// INVOCATION or RESULT.
func (g *gen) pptCase() (map[string]any, []any) {
	r := g.r
	d := map[string]any{}
	switch r.Intn(8) {
	case 0, 1:
		d["ppt_scheme"] = "mqtt"
	case 2:
		d["ppt_scheme"] = "wamp"
	case 3:
		d["ppt_scheme"] = "x_custom"
	case 4:
		d["ppt_scheme"] = "bad"
	case 5:
		d["ppt_scheme"] = float64(5)
	case 6:
		d["ppt_scheme"] = ""
	case 7:
		d["ppt_scheme"] = "mqtt"
		d["ppt_cipher"] = float64(1)
		d["ppt_keyid"] = []any{}
	}
	ser := ""
	switch r.Intn(9) {
	case 0:
	case 1:
		ser = "native"
		d["ppt_serializer"] = ser
	case 2, 3:
		ser = hcommon.Pick(r, []string{"json", "msgpack", "cbor"})
		d["ppt_serializer"] = ser
	case 4:
		ser = "cbor"
		d["ppt_serializer"] = ser
	case 5:
		d["ppt_serializer"] = "bogus"
	case 6:
		d["ppt_serializer"] = float64(7)
	case 7:
		d["ppt_serializer"] = nil
	case 8:
		d["ppt_serializer"] = map[string]any{"$other": "uri"}
	}
	var args []any
	good := wamp.List{int64(g.marker()), "a"}
	switch r.Intn(10) {
	case 0:
		args = []any{}
	case 1, 2:
		args = []any{map[string]any{"$payload": map[string]any{"nil": false, "args": canonList(good), "kw": map[string]any{}}}}
	case 3:
		args = []any{map[string]any{"$payload": map[string]any{"nil": true}}}
	case 4, 5:
		s := ser
		if serializerFor(s) == nil {
			s = "json"
		}
		args = []any{binV(encodePayload(s, good)), "extra"}
	case 6:
		args = []any{binV(hcommon.Pick(r, [][]byte{[]byte("null"), {0xc0}, {0xf6}}))}
	case 7:
		args = []any{binV([]byte{0xff, 0x00, 0x13})}
	case 8:
		args = []any{"str"}
	case 9:
		args = []any{map[string]any{"args": []any{1.0}}}
	}
	// record what the real decoders make of the byte string (model parameter)
	if len(args) > 0 {
		if m, ok := args[0].(map[string]any); ok {
			if h, ok := m["$bin"].(string); ok {
				b, _ := hex.DecodeString(h)
				for _, s := range []string{"json", "msgpack", "cbor"} {
					g.sc.Cfg.Deser = append(g.sc.Cfg.Deser, deserOf(s, b))
				}
			}
		}
	}
	g.tag("ppt")
	return d, args
}

// replyDelay picks when the router answers, relative to the request.
func (g *gen) replyDelay() int {
	r := g.r
	to := g.sc.Cfg.Timeout
	hostile := g.prop == "C17"
	switch x := r.Intn(20); {
	case x < 9:
		return 1 + r.Intn(8)
	case x < 11:
		return 0 // same instant as the request
	case x < 13:
		return to - 1
	case x < 14 || (hostile && x < 16):
		g.tag("reply-at-timeout")
		return to
	case x < 17:
		return to + 1
	default:
		return to + 5 + r.Intn(20)
	}
}

func (g *gen) threadSubscribe(t int) int {
	r := g.r
	g.g++
	c := g.g
	name := fmt.Sprintf("t%d", c)
	g.add(Stim{T: t, Stim: "api", G: c, Op: "subscribe", Name: name})
	sub := 100 + c
	end := t
	switch x := r.Intn(12); {
	case x < 6: // proper reply
		d := g.replyDelay()
		g.router(t+d, 33.0, reqOf(c), float64(sub))
		end = t + d
		if r.Chance(1, 6) {
			g.tag("dup-reply")
			dd := hcommon.Pick(r, []int{0, 0, 1, 3})
			g.router(t+d+dd, 33.0, reqOf(c), float64(sub))
			end += dd
		}
	case x < 7:
		g.tag("error-reply")
		g.router(t+1+r.Intn(5), 8.0, 32.0, reqOf(c), map[string]any{}, fmt.Sprintf("wamp.error.m%d", g.marker()))
		end = t + 6
	case x < 8:
		g.tag("wrong-type")
		g.router(t+2, hcommon.Pick(r, []float64{65, 35, 67, 17}), reqOf(c), 5.0)
		end = t + 2
	case x < 9:
		g.tag("wrong-id")
		g.router(t+2, 33.0, float64(7000+r.Intn(50)), float64(900+c))
		g.router(t+4, 33.0, reqOf(c), float64(sub))
		end = t + 4
	case x < 10:
		g.tag("no-reply")
		end = t + g.sc.Cfg.Timeout
	default:
		g.tag("result-to-subscribe")
		g.router(t+1, 50.0, reqOf(c), map[string]any{}, []any{1.0}, map[string]any{})
		end = t + 1
	}
	// events
	n := r.Intn(4)
	et := end + 1 + r.Intn(3)
	if r.Chance(1, 8) {
		et = end // right behind the SUBSCRIBED (F24 window)
		g.tag("event-behind-subscribed")
	}
	for i := 0; i < n; i++ {
		d, a := map[string]any{}, []any{float64(g.marker())}
		if r.Chance(1, 3) || (g.prop == "C17" && r.Chance(1, 2)) {
			d, a = g.pptCase()
		}
		s := float64(sub)
		if r.Chance(1, 10) {
			s = 999
		}
		g.router(et, 36.0, s, float64(g.marker()), d, a, map[string]any{})
		et += r.Intn(3)
	}
	if r.Chance(1, 3) {
		g.g++
		u := g.g
		ut := et + 1 + r.Intn(5)
		g.add(Stim{T: ut, Stim: "api", G: u, Op: "unsubscribe", Name: name})
		switch r.Intn(4) {
		case 0, 1:
			g.router(ut+g.replyDelay(), 35.0, reqOf(u))
		case 2:
			g.router(ut+1, 8.0, 34.0, reqOf(u), map[string]any{}, fmt.Sprintf("wamp.error.m%d", g.marker()))
		}
		et = ut + 2
	}
	return et
}

func (g *gen) threadPublish(t int) int {
	r := g.r
	g.g++
	c := g.g
	name := fmt.Sprintf("t%d", c)
	if r.Chance(1, 4) {
		g.add(Stim{T: t, Stim: "api", G: c, Op: "publish_noack", Name: name})
		return t + 1
	}
	g.add(Stim{T: t, Stim: "api", G: c, Op: "publish", Name: name})
	switch r.Intn(5) {
	case 0, 1, 2:
		d := g.replyDelay()
		g.router(t+d, 17.0, reqOf(c), float64(g.marker()))
		return t + d
	case 3:
		g.router(t+2, 8.0, 16.0, reqOf(c), map[string]any{}, fmt.Sprintf("wamp.error.m%d", g.marker()))
	}
	return t + 3
}

func (g *gen) threadCall(t int) int {
	r := g.r
	g.g++
	c := g.g
	name := fmt.Sprintf("c%d", c)
	prog := r.Chance(1, 2)
	g.add(Stim{T: t, Stim: "api", G: c, Op: "call", Name: name, Prog: prog})
	cur := t + 1 + r.Intn(4)
	// progressive results (without a progress handler the first one is final and the rest are
	// duplicate replies)
	if r.Chance(1, 2) {
		g.tag("progressive")
		for i, n := 0, 1+r.Intn(3); i < n; i++ {
			g.router(cur, 50.0, reqOf(c), map[string]any{"progress": true}, []any{float64(g.marker())}, map[string]any{})
			cur += r.Intn(3)
		}
	}
	cancelAt := -1
	// (guard F43: a waiter kept busy by a slow progress handler may notice its context only after
	// Close() has closed the send channel, and then send CANCEL on it)
	if (r.Chance(2, 5) || g.prop == "C16" && r.Chance(1, 3)) && !(prog && g.sc.Cfg.ProgDelay > 0) {
		cancelAt = cur + r.Intn(6)
		kind := hcommon.Pick(r, []string{"canceled", "deadline"})
		g.add(Stim{T: cancelAt, Stim: "cancel", G: c, Kind: kind})
		g.tag("cancel")
	}
	final := func(at int) {
		switch x := r.Intn(10); {
		case x < 5:
			d, a := map[string]any{}, []any{float64(g.marker())}
			if r.Chance(1, 4) {
				d, a = g.pptCase()
			}
			g.router(at, 50.0, reqOf(c), d, a, map[string]any{})
		case x < 8:
			g.router(at, 8.0, 48.0, reqOf(c), map[string]any{}, fmt.Sprintf("wamp.error.m%d", g.marker()))
		case x < 9:
			g.tag("wrong-type")
			g.router(at, 33.0, reqOf(c), 5.0)
		}
	}
	if cancelAt < 0 {
		at := cur + 1 + r.Intn(5)
		final(at)
		if r.Chance(1, 8) {
			g.tag("dup-reply")
			final(at + r.Intn(2))
		}
		return at + 1
	}
	// after the cancellation: the router answers the CANCEL (or not)
	to := g.sc.Cfg.Timeout
	switch x := r.Intn(10); {
	case x < 4:
		g.router(cancelAt+1+r.Intn(4), 8.0, 48.0, reqOf(c), map[string]any{}, "wamp.error.canceled")
	case x < 5:
		g.tag("result-then-error-after-cancel")
		g.router(cancelAt+1, 50.0, reqOf(c), map[string]any{}, []any{float64(g.marker())}, map[string]any{})
		g.router(cancelAt+3, 8.0, 48.0, reqOf(c), map[string]any{}, "wamp.error.canceled")
	case x < 6:
		g.tag("reply-at-cancel")
		final(cancelAt)
	case x < 7:
		g.tag("reply-at-timeout")
		g.router(cancelAt+to, 8.0, 48.0, reqOf(c), map[string]any{}, "wamp.error.canceled")
	case x < 8:
		g.router(cancelAt+to+1+r.Intn(3), 8.0, 48.0, reqOf(c), map[string]any{}, "wamp.error.canceled")
	}
	return cancelAt + 5
}

// threadCallProg: a CallProgressive with a scripted sendProg (chunks, an error or the end of the
// caller's context mid-way), the router answering with progressive results and a final reply.
func (g *gen) threadCallProg(t int) int {
	r := g.r
	g.g++
	c := g.g
	name := fmt.Sprintf("c%d", c)
	prog := r.Chance(1, 2)
	var script []ScriptStep
	at := t
	cancelAt := -1
	for i, n := 0, r.Intn(4); i < n; i++ {
		d := hcommon.Pick(r, []int{0, 1, 3, 7})
		switch x := r.Intn(10); {
		case x < 6:
			script = append(script, ScriptStep{D: d, K: "chunk"})
			at += d
		case x < 7:
			script = append(script, ScriptStep{D: d, K: hcommon.Pick(r, []string{"final", "unset"})})
			at += d
			i = n
		case x < 8:
			script = append(script, ScriptStep{D: d, K: "err"})
			at += d
			i = n
			g.tag("sendprog-error")
		default:
			// sendProg waits for the caller's context, which is cancelled d+1 ms later
			script = append(script, ScriptStep{K: "ctx"})
			cancelAt = at + d + 1
			at = cancelAt
			i = n
			g.tag("sendprog-ctx")
		}
	}
	g.add(Stim{T: t, Stim: "api", G: c, Op: "callprog", Name: name, Prog: prog, Script: script})
	g.tag("call-progressive")
	cur := t + 1 + r.Intn(4)
	if r.Chance(1, 2) {
		g.tag("progressive")
		for i, n := 0, 1+r.Intn(3); i < n; i++ {
			g.router(cur, 50.0, reqOf(c), map[string]any{"progress": true}, []any{float64(g.marker())}, map[string]any{})
			cur += r.Intn(3)
		}
	}
	if cancelAt < 0 && r.Chance(1, 4) && !(prog && g.sc.Cfg.ProgDelay > 0) {
		cancelAt = cur + r.Intn(6)
	}
	if cancelAt >= 0 {
		if prog && g.sc.Cfg.ProgDelay > 0 {
			// (guard F43, as in threadCall) no progress results pending when the context ends
			g.sc.Cfg.ProgDelay = 0
		}
		g.add(Stim{T: cancelAt, Stim: "cancel", G: c, Kind: "canceled"})
		g.tag("cancel")
		if r.Chance(2, 3) {
			g.router(cancelAt+1+r.Intn(4), 8.0, 48.0, reqOf(c), map[string]any{}, "wamp.error.canceled")
		}
		if cancelAt+5 > at {
			at = cancelAt + 5
		}
		return at + 1
	}
	fin := cur + 1 + r.Intn(6)
	switch x := r.Intn(10); {
	case x < 6:
		g.router(fin, 50.0, reqOf(c), map[string]any{}, []any{float64(g.marker())}, map[string]any{})
	case x < 9:
		g.router(fin, 8.0, 48.0, reqOf(c), map[string]any{}, fmt.Sprintf("wamp.error.m%d", g.marker()))
	}
	if fin > at {
		at = fin
	}
	return at + 1
}

func (g *gen) threadRegister(t int) int {
	r := g.r
	g.g++
	c := g.g
	name := fmt.Sprintf("p%d", c)
	reg := 200 + c
	b := Behav{Delay: hcommon.Pick(r, []int{0, 0, 2, 5, 20})}
	switch r.Intn(6) {
	case 0:
		b.Res = "e.app_failed"
	case 1:
		b.Res = "wamp.error.canceled"
	case 2, 3:
		b.WaitCtx = true
		b.Delay = hcommon.Pick(r, []int{10, 30, 500})
	}
	if r.Chance(1, 3) {
		// the handler calls SendProgress when it starts (refused unless the caller asked for progress)
		b.Progress = 1 + r.Intn(2)
		g.tag("send-progress")
	}
	if g.sc.Cfg.Behav == nil {
		g.sc.Cfg.Behav = map[string]Behav{}
	}
	g.sc.Cfg.Behav[name] = b
	g.add(Stim{T: t, Stim: "api", G: c, Op: "register", Name: name})
	d := 1 + r.Intn(4)
	if r.Chance(1, 10) {
		g.tag("no-reply")
		return t + 2
	}
	g.router(t+d, 65.0, reqOf(c), float64(reg))
	cur := t + d + 1 + r.Intn(3)
	g.tag("invocation")
	// invocation ids: a counter the script may repeat or rewind
	id := 1 + r.Intn(3) + 10*c
	lastChunkT := cur
	for i, n := 0, 1+r.Intn(4); i < n; i++ {
		det := map[string]any{}
		args := []any{float64(g.marker())}
		if r.Chance(1, 4) {
			det["timeout"] = float64(hcommon.Pick(r, []int{3, 8, 50}))
			g.tag("inv-timeout")
		}
		if r.Chance(1, 4) || (b.Progress > 0 && r.Chance(1, 2)) {
			det["receive_progress"] = true
		}
		if r.Chance(1, 5) || (g.prop == "C17" && r.Chance(1, 3)) {
			pd, pa := g.pptCase()
			for k, v := range pd {
				det[k] = v
			}
			args = pa
		}
		rg := float64(reg)
		if r.Chance(1, 12) {
			rg = 998
			g.tag("unknown-registration")
		}
		chunks := 1
		if r.Chance(1, 4) {
			chunks = 2 + r.Intn(2)
			g.tag("progressive-invocation")
		}
		for k := 0; k < chunks; k++ {
			dk := map[string]any{}
			for kk, v := range det {
				dk[kk] = v
			}
			if k < chunks-1 {
				dk["progress"] = true
			}
			g.router(cur, 68.0, float64(id), rg, dk, args, map[string]any{})
			lastChunkT = cur
			cur += 1 + b.Delay + r.Intn(3)
		}
		if r.Chance(1, 3) {
			g.tag("interrupt")
			at := cur - 1 + r.Intn(3)
			if r.Chance(1, 3) {
				// right behind the INVOCATION, at the same instant: the receive loop reads both
				// before the invocation's worker goroutine has run
				at = lastChunkT
				g.tag("interrupt-behind-invocation")
			}
			g.router(at, 69.0, float64(id), map[string]any{})
		}
		switch x := r.Intn(10); {
		case x < 6:
			id += 1 + r.Intn(2)
		case x < 8:
			g.tag("dup-invocation-id") // same id again (after the first finished or not)
		default:
			g.tag("old-invocation-id")
			if id > 1 {
				id--
			}
		}
		cur += r.Intn(8)
	}
	if r.Chance(1, 4) {
		g.g++
		u := g.g
		g.add(Stim{T: cur, Stim: "api", G: u, Op: "unregister", Name: name})
		if r.Chance(3, 4) {
			g.router(cur+g.replyDelay(), 67.0, reqOf(u))
		}
		cur += 2
	}
	return cur
}

func (g *gen) hostile(t int) {
	r := g.r
	switch r.Intn(7) {
	case 0:
		g.tag("unknown-type")
		g.router(t, hcommon.Pick(r, []float64{1, 2, 4, 5, 16, 32, 34, 48, 49, 64, 66, 70}))
	case 1:
		g.tag("unknown-id")
		g.router(t, hcommon.Pick(r, []float64{33, 35, 65, 67, 17}), float64(5000+r.Intn(9)), 1.0)
	case 2:
		g.tag("stray-error")
		g.router(t, 8.0, hcommon.Pick(r, []float64{32, 48, 64, 99}), float64(g.strayID()), map[string]any{}, "wamp.error.stray")
	case 3:
		g.tag("stray-result")
		g.router(t, 50.0, float64(g.strayID()), map[string]any{"progress": r.Chance(1, 2)}, []any{}, map[string]any{})
	case 4:
		g.tag("stray-interrupt")
		g.router(t, 69.0, float64(r.Intn(40)), map[string]any{"reason": float64(3)})
	case 5:
		g.tag("stray-event")
		d, a := g.pptCase()
		g.router(t, 36.0, float64(100+r.Intn(8)), float64(g.marker()), d, a, map[string]any{})
	case 6:
		g.tag("stray-invocation")
		g.router(t, 68.0, float64(r.Intn(30)), float64(200+r.Intn(8)), map[string]any{}, []any{}, map[string]any{})
	}
}

// lagging: application handlers take time, so the receive loop can fall behind its script.
func (g *gen) lagging() bool { return g.sc.Cfg.EventDelay > 0 || g.sc.Cfg.ProgDelay > 0 }

// strayID: an id for a stray reply; it may hit a request in flight (and then double its real reply).
func (g *gen) strayID() int { return g.r.Intn(6) }

// generate builds scenario idx of the run.
func generate(seed int64, idx int, prop string) Scenario {
	r := hcommon.NewRNG(seed*1000003 + int64(idx))
	sc := Scenario{ID: idx}
	sc.Cfg = Cfg{Timeout: hcommon.Pick(r, []int{40, 100, 1000}), CancelMode: hcommon.Pick(r, []string{"", "kill", "killnowait", "skip"}),
		DealerPPT: r.Chance(3, 4), GoodbyeReply: hcommon.Pick(r, []int{-1, 0, 0, 3})}
	if r.Chance(1, 6) {
		sc.Cfg.EventDelay = hcommon.Pick(r, []int{1, 5})
	}
	if r.Chance(1, 6) {
		sc.Cfg.ProgDelay = hcommon.Pick(r, []int{1, 4})
	}
	g := &gen{r: r, prop: prop, sc: &sc, tags: map[string]bool{}}
	n := 1 + r.Intn(5)
	if prop == "C16" {
		n = 2 + r.Intn(5)
	}
	t := r.Intn(3)
	end := t
	for i := 0; i < n; i++ {
		var e int
		switch x := r.Intn(10); {
		case x < 3:
			e = g.threadSubscribe(t)
		case x < 4:
			e = g.threadPublish(t)
		case x < 7 || g.lagging():
			// (no invocation workers while slow event / progress handlers make the loop lag: what a
			// burst of queued messages does to them is the scheduler's choice, step by step)
			if r.Chance(1, 4) {
				e = g.threadCallProg(t)
			} else {
				e = g.threadCall(t)
			}
		default:
			e = g.threadRegister(t)
		}
		if e > end {
			end = e
		}
		// the next thread starts while this one is in flight, or after it
		if r.Chance(1, 2) {
			t += 1 + r.Intn(6)
		} else {
			t = end + 1 + r.Intn(5)
		}
		hc := 1
		if prop == "C17" {
			hc = 3
		}
		if r.Chance(hc, 6) {
			g.hostile(t + r.Intn(4))
		}
	}
	end += 3
	// how the session ends
	switch x := r.Intn(10); {
	case x < 2 || (prop == "C17" && x < 4):
		at := r.Intn(end + 1)
		g.tag("router-goodbye")
		g.router(at, hcommon.Pick(r, []float64{6, 3}), map[string]any{"message": "bye"}, "wamp.close.system_shutdown")
	case x < 5 && prop == "C17" || x < 3:
		g.tag("abrupt-close")
		g.add(Stim{T: r.Intn(end + 1), Stim: "rclose"})
	}
	closeAt := end + r.Intn(5)
	if r.Chance(1, 4) {
		closeAt = r.Intn(end + 1)
		g.tag("early-close")
	}
	g.add(Stim{T: closeAt, Stim: "close"})
	g.guardCloseRace()
	sort.SliceStable(sc.Stims, func(i, j int) bool { return sc.Stims[i].T < sc.Stims[j].T })
	for k := range g.tags {
		sc.Tags = append(sc.Tags, k)
	}
	sort.Strings(sc.Tags)
	return normalise(sc)
}

// normalise makes a scenario self-contained: sorted, with a final Close and an
// end late enough for every timer it can arm.
func normalise(sc Scenario) Scenario {
	sort.SliceStable(sc.Stims, func(i, j int) bool { return sc.Stims[i].T < sc.Stims[j].T })
	last := 0
	hasClose := false
	for _, st := range sc.Stims {
		if st.T > last {
			last = st.T
		}
		if st.Stim == "close" {
			hasClose = true
		}
	}
	if !hasClose {
		sc.Stims = append(sc.Stims, Stim{T: last + 1, Stim: "close"})
		last++
	}
	slack := 0
	for _, b := range sc.Cfg.Behav {
		if b.Delay > slack {
			slack = b.Delay
		}
	}
	if sc.Cfg.Timeout <= 0 {
		sc.Cfg.Timeout = 100
	}
	if sc.End <= last {
		sc.End = last + 4*sc.Cfg.Timeout + slack + 100
	}
	return roundTrip(sc)
}

// guardCloseRace (open finding F43, the only generator guard left): an API call started at the very instant the session
// ends (Close, the GOODBYE that answers it, a router GOODBYE/ABORT, the transport closing)
// can pass its Connected() check and then send on the channel Close() has closed: panic.
// The shape is exercised by its own replay; here such calls are moved one ms later.
func (g *gen) guardCloseRace() {
	bad := map[int]bool{}
	for _, st := range g.sc.Stims {
		switch st.Stim {
		case "close":
			bad[st.T] = true
			if g.sc.Cfg.GoodbyeReply >= 0 {
				bad[st.T+g.sc.Cfg.GoodbyeReply] = true
			}
			bad[st.T+2*g.sc.Cfg.Timeout] = true
		case "rclose":
			bad[st.T] = true
		case "router":
			if c := num(at(st.M, 0)); c == 6 || c == 3 {
				bad[st.T] = true
			}
		}
	}
	for i := range g.sc.Stims {
		st := &g.sc.Stims[i]
		if st.Stim != "api" && st.Stim != "cancel" { // (a cancelled Call sends CANCEL)
			continue
		}
		for bad[st.T] {
			st.T++
		}
	}
	// (same finding, the sender goroutine of a CallProgressive: it watches neither the call's return
	// nor Done and its next send after Close() panics) every sender is through before Close():
	// scripts are cut short, a "ctx" step whose cancellation comes too late becomes "final"
	closeT := -1
	for _, st := range g.sc.Stims {
		if st.Stim == "close" && (closeT < 0 || st.T < closeT) {
			closeT = st.T
		}
	}
	for i := range g.sc.Stims {
		st := &g.sc.Stims[i]
		if st.Stim != "api" || st.Op != "callprog" {
			continue
		}
		at := st.T
		for k := range st.Script {
			step := &st.Script[k]
			if step.K == "ctx" {
				ct := -1
				for _, o := range g.sc.Stims {
					if o.Stim == "cancel" && o.G == st.G {
						ct = o.T
					}
				}
				if ct < 0 || ct+1 >= closeT {
					step.K, step.D = "final", 0
				} else {
					at = ct
				}
			} else {
				at += step.D
			}
			if at+1 >= closeT {
				st.Script = st.Script[:k]
				break
			}
		}
	}
}
