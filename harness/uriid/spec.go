package main

// The property's rule, written directly from the text of C19 and independent
// of both the nexus code (no regexp, no strings.Split/HasPrefix) and the Lean
// model. specCheck says whether the implementation's answer to a request line
// is the answer the rule demands.

import (
	"fmt"
	"math"
	"math/big"
	"strconv"
	"strings"
)

const specDelta = 500 // "the allowed wrap-around window" (WAMP: deltaID)

// components splits on '.'; the empty string is one empty component.
func components(s []byte) [][]byte {
	out := [][]byte{}
	cur := []byte{}
	for _, c := range s {
		if c == '.' {
			out = append(out, cur)
			cur = []byte{}
		} else {
			cur = append(cur, c)
		}
	}
	return append(out, cur)
}

// looseOK: no whitespace, '.' or '#' inside a component. "Whitespace" is the
// class the WAMP pattern's \s denotes in Go/RE2: tab, LF, FF, CR, space
// (recorded interpretation; \v and Unicode spaces are NOT whitespace here).
func looseOK(c byte) bool {
	switch c {
	case '\t', '\n', '\f', '\r', ' ', '.', '#':
		return false
	}
	return true
}

func strictOK(c byte) bool {
	return (c >= '0' && c <= '9') || (c >= 'a' && c <= 'z') || c == '_'
}

func specValid(strict bool, match string, u []byte) bool {
	cs := components(u)
	for i, c := range cs {
		for _, b := range c {
			if strict && !strictOK(b) || !strict && !looseOK(b) {
				return false
			}
		}
		if len(c) == 0 {
			switch match {
			case "wildcard": // any component may be empty
			case "prefix": // only the last
				if i != len(cs)-1 {
					return false
				}
			default: // exact use: none
				return false
			}
		}
	}
	return true
}

func specPrefix(u, p []byte) bool {
	if len(p) > len(u) {
		return false
	}
	for i := range p {
		if u[i] != p[i] {
			return false
		}
	}
	return true
}

func specWild(u, w []byte) bool {
	uc, wc := components(u), components(w)
	if len(uc) != len(wc) {
		return false
	}
	for i := range wc {
		if len(wc[i]) != 0 && string(wc[i]) != string(uc[i]) {
			return false
		}
	}
	return true
}

var bigMaxID = new(big.Int).Lsh(big.NewInt(1), 53)

// specAsID: the mathematical value the Go value denotes (floats: truncated
// toward zero; NaN/±Inf denote nothing) is accepted iff it lies in [1, 2^53],
// and then the id is that value.
func specAsID(kind, val string) (string, error) {
	var v *big.Int
	switch kind {
	case "int64", "int", "int32", "uint64", "uint", "id", "uint32":
		var ok bool
		v, ok = new(big.Int).SetString(val, 10)
		if !ok {
			return "", fmt.Errorf("bad integer")
		}
	case "float64", "float32":
		var f float64
		if kind == "float64" {
			u, err := strconv.ParseUint(val, 16, 64)
			if err != nil {
				return "", err
			}
			f = math.Float64frombits(u)
		} else {
			u, err := strconv.ParseUint(val, 16, 32)
			if err != nil {
				return "", err
			}
			f = float64(math.Float32frombits(uint32(u))) // exact widening
		}
		if math.IsNaN(f) || math.IsInf(f, 0) {
			return "none", nil
		}
		v, _ = new(big.Float).SetFloat64(f).Int(nil) // exact, truncates toward zero
	default:
		return "", fmt.Errorf("bad kind")
	}
	if v.Sign() > 0 && v.Cmp(bigMaxID) <= 0 {
		return v.String(), nil
	}
	return "none", nil
}

func specRecv(ids []uint64) string {
	var b strings.Builder
	last := uint64(0)
	for _, id := range ids {
		valid := id >= 1 && id <= maxID
		isNew := valid && (last == 0 || // nothing received yet
			id > last || // larger than the last one
			(id < last && maxID-(last-id) < specDelta)) // within the wrap-around window
		if isNew {
			last = id
		}
		b.WriteString(bit(isNew))
	}
	return b.String() + " " + strconv.FormatUint(last, 10)
}

// specNext: ids start at 1, increase by 1, wrap from 2^53 to 1. Only defined
// for reachable generator states (0 = fresh, or a previously issued id).
func specNext(st uint64, k int) (string, bool) {
	if st > maxID {
		return "", false
	}
	parts := make([]string, k)
	for i := range parts {
		if st == maxID {
			st = 1
		} else {
			st++
		}
		parts[i] = strconv.FormatUint(st, 10)
	}
	return strings.Join(parts, ","), true
}

// specGlobal: router-wide random ids lie in [1, 2^53] — for the draw r the id must be r+1.
func specGlobal(line, ans string) (bool, string) {
	r, err := strconv.ParseUint(strings.TrimPrefix(line, "global "), 10, 64)
	if err != nil {
		return true, ""
	}
	id, err := strconv.ParseUint(ans, 10, 64)
	if err != nil || id < 1 || id > maxID {
		return false, "random ids must lie in [1, 2^53]"
	}
	if id != r+1 {
		return false, fmt.Sprintf("the draws [0, 2^53) must map one-to-one onto [1, 2^53] (expected %d)", r+1)
	}
	return true, ""
}

func specCheck(line, impl string) (bool, string) {
	f := strings.Split(line, " ")
	want := ""
	switch f[0] {
	case "valid", "rule":
		if len(f) != 4 {
			return true, ""
		}
		m, e1 := unhx(f[2])
		u, e2 := unhx(f[3])
		if e1 != nil || e2 != nil {
			return true, ""
		}
		want = bit(specValid(f[1] == "1", string(m), u))
	case "prefix", "wild":
		if len(f) != 3 {
			return true, ""
		}
		u, e1 := unhx(f[1])
		p, e2 := unhx(f[2])
		if e1 != nil || e2 != nil {
			return true, ""
		}
		if f[0] == "prefix" {
			want = bit(specPrefix(u, p))
		} else {
			want = bit(specWild(u, p))
		}
	case "asid":
		if len(f) != 3 {
			return true, ""
		}
		w, err := specAsID(f[1], f[2])
		if err != nil {
			return true, ""
		}
		want = w
	case "recv":
		if len(f) != 2 {
			return true, ""
		}
		ids, err := parseIDs(f[1])
		if err != nil {
			return true, ""
		}
		want = specRecv(ids)
	case "nextn":
		if len(f) != 3 || impl == "skipped" {
			return true, ""
		}
		st, e1 := strconv.ParseUint(f[1], 10, 64)
		k, e2 := strconv.Atoi(f[2])
		if e1 != nil || e2 != nil {
			return true, ""
		}
		w, ok := specNext(st, k)
		if !ok {
			return true, "" // unreachable generator state: the rule says nothing
		}
		want = w
	case "consts":
		want = fmt.Sprintf("%d %d", maxID, specDelta)
	default:
		return true, ""
	}
	if impl == want {
		return true, ""
	}
	return false, fmt.Sprintf("the rule demands %q", want)
}
