// Command uriid is the correspondence family of property C19 (URI validation /
// matching and id generation follow the WAMP rules).
//
// Every case is one request line of the Lean driver's "uriid" protocol (see
// lean/Driver/UriId.lean). For each line the family
//
//   - runs the REAL nexus code (wamp.URI.ValidURI / PrefixMatch / WildcardMatch,
//     wamp.AsID on every Go numeric representation, wamp.Session.IsNewRecvID /
//     UpdateLastRecvID on a fresh session, wamp.IDGen.Next, wamp.GlobalID),
//   - asks the Lean model (executable matcher on the regenerated regexes,
//     regenerated id functions) for its answer to the same line,
//   - evaluates the property's rule, implemented here independently straight
//     from the property text (spec.go), on the implementation's answer.
//
// A difference impl/model is a disagreement; it is a spec_violation iff the
// implementation's answer also contradicts the rule.
package main

import (
	"encoding/hex"
	"encoding/json"
	"flag"
	"fmt"
	"math"
	"os"
	"runtime"
	"strconv"
	"strings"
	"time"
	"unsafe"

	"github.com/gammazero/nexus/v3/wamp"

	"verif/harness/hcommon"
)

const maxID = uint64(1) << 53

// ---------------------------------------------------------------------------
// request lines

func hx(b []byte) string {
	if len(b) == 0 {
		return "-"
	}
	return hex.EncodeToString(b)
}

func unhx(s string) ([]byte, error) {
	if s == "-" {
		return nil, nil
	}
	return hex.DecodeString(s)
}

func bit(b bool) string {
	if b {
		return "1"
	}
	return "0"
}

// pokeOK reports whether writing the first 8 bytes of a wamp.IDGen sets its
// counter (white-box access used ONLY to reach the 2^53 wrap, which would need
// 2^53 calls otherwise). Verified at start-up on small values.
var pokeOK bool

func pokeIDGen(g *wamp.IDGen, v uint64) { *(*uint64)(unsafe.Pointer(g)) = v }

func checkPoke() bool {
	if unsafe.Sizeof(wamp.IDGen{}) != 8 {
		return false
	}
	for _, v := range []uint64{41, 1000, 123456789} {
		var g wamp.IDGen
		pokeIDGen(&g, v)
		if uint64(g.Next()) != v+1 || uint64(g.Next()) != v+2 {
			return false
		}
	}
	var g wamp.IDGen
	return g.Next() == 1
}

// goNum builds the Go value of the given representation; ok=false if the
// textual value does not fit the representation.
func goNum(kind, val string) (v any, ok bool) {
	switch kind {
	case "int64", "int", "int32":
		bits := 64
		if kind == "int32" {
			bits = 32
		}
		i, err := strconv.ParseInt(val, 10, bits)
		if err != nil {
			return nil, false
		}
		switch kind {
		case "int64":
			return i, true
		case "int":
			return int(i), true
		}
		return int32(i), true
	case "uint64", "uint", "id", "uint32":
		bits := 64
		if kind == "uint32" {
			bits = 32
		}
		u, err := strconv.ParseUint(val, 10, bits)
		if err != nil {
			return nil, false
		}
		switch kind {
		case "uint64":
			return u, true
		case "uint":
			return uint(u), true
		case "id":
			return wamp.ID(u), true
		}
		return uint32(u), true
	case "float64":
		u, err := strconv.ParseUint(val, 16, 64)
		if err != nil {
			return nil, false
		}
		return math.Float64frombits(u), true
	case "float32":
		u, err := strconv.ParseUint(val, 16, 32)
		if err != nil {
			return nil, false
		}
		return math.Float32frombits(uint32(u)), true
	}
	return nil, false
}

func parseIDs(s string) ([]uint64, error) {
	var ids []uint64
	for _, p := range strings.Split(s, ",") {
		u, err := strconv.ParseUint(p, 10, 64)
		if err != nil {
			return nil, err
		}
		ids = append(ids, u)
	}
	return ids, nil
}

// evalImpl runs the real nexus code on a request line. Panics are recovered
// and reported as the answer "panic: …".
func evalImpl(line string) (ans string) {
	defer func() {
		if r := recover(); r != nil {
			ans = fmt.Sprintf("panic: %v", r)
		}
	}()
	f := strings.Split(line, " ")
	bad := "error cannot parse: " + line
	switch f[0] {
	case "global":
		// The draw of the random source cannot be injected into the real GlobalID; the model
		// line evaluates the REGENERATED expression of GlobalID at the given draw and is judged
		// by the rule alone (see the comparison loop).
		return "unobservable"
	case "valid", "rule":
		// "rule" asks the Lean side for its executable component RULE (not the regex) — the
		// real ValidURI must agree with it (theorem validURI_iff_rule, tested on the real code).
		if len(f) != 4 {
			return bad
		}
		m, e1 := unhx(f[2])
		u, e2 := unhx(f[3])
		if e1 != nil || e2 != nil || (f[1] != "0" && f[1] != "1") {
			return bad
		}
		return bit(wamp.URI(u).ValidURI(f[1] == "1", string(m)))
	case "prefix", "wild":
		if len(f) != 3 {
			return bad
		}
		u, e1 := unhx(f[1])
		p, e2 := unhx(f[2])
		if e1 != nil || e2 != nil {
			return bad
		}
		if f[0] == "prefix" {
			return bit(wamp.URI(u).PrefixMatch(wamp.URI(p)))
		}
		return bit(wamp.URI(u).WildcardMatch(wamp.URI(p)))
	case "asid":
		if len(f) != 3 {
			return bad
		}
		v, ok := goNum(f[1], f[2])
		if !ok {
			return bad
		}
		id, ok := wamp.AsID(v)
		if !ok {
			if id != 0 {
				return fmt.Sprintf("none-with-id-%d", uint64(id))
			}
			return "none"
		}
		return strconv.FormatUint(uint64(id), 10)
	case "recv":
		if len(f) != 2 {
			return bad
		}
		ids, err := parseIDs(f[1])
		if err != nil {
			return bad
		}
		// A fresh session; IsNewRecvID (pure) must agree with what UpdateLastRecvID then does.
		var s wamp.Session
		var b strings.Builder
		for _, id := range ids {
			s.Lock()
			isNew := s.IsNewRecvID(wamp.ID(id))
			s.Unlock()
			upd := s.UpdateLastRecvID(wamp.ID(id))
			if isNew != upd {
				return fmt.Sprintf("inconsistent: IsNewRecvID(%d)=%v but UpdateLastRecvID=%v", id, isNew, upd)
			}
			b.WriteString(bit(upd))
		}
		// The final lastRecvID is observed black-box: an id is "new" after last iff …; we report
		// the last accepted id, which is what lastRecvID must hold.
		last := uint64(0)
		bits := b.String()
		for i, id := range ids {
			if bits[i] == '1' {
				last = id
			}
		}
		return bits + " " + strconv.FormatUint(last, 10)
	case "nextn":
		if len(f) != 3 {
			return bad
		}
		st, e1 := strconv.ParseUint(f[1], 10, 64)
		k, e2 := strconv.Atoi(f[2])
		if e1 != nil || e2 != nil {
			return bad
		}
		var g wamp.IDGen
		if st != 0 {
			if !pokeOK {
				return "skipped"
			}
			pokeIDGen(&g, st)
		}
		parts := make([]string, k)
		for i := range parts {
			parts[i] = strconv.FormatUint(uint64(g.Next()), 10)
		}
		return strings.Join(parts, ",")
	case "consts":
		return fmt.Sprintf("%d %d", uint64(wamp.MaxID), deltaIDObserved())
	}
	return bad
}

// deltaIDObserved measures the wrap-around window of the implementation
// black-box (deltaID is unexported): the largest d such that, after MaxID, the
// ids 1..d-… are new. With last = MaxID, id is new iff MaxID-(MaxID-id) = id < deltaID.
func deltaIDObserved() uint64 {
	lo, hi := uint64(1), uint64(1)<<20 // new(lo) assumed true, search first non-new id
	isNew := func(id uint64) bool {
		var s wamp.Session
		s.UpdateLastRecvID(wamp.ID(maxID))
		return s.UpdateLastRecvID(wamp.ID(id))
	}
	if !isNew(lo) {
		return 1
	}
	if isNew(hi) {
		return hi + 1
	}
	for hi-lo > 1 {
		mid := (lo + hi) / 2
		if isNew(mid) {
			lo = mid
		} else {
			hi = mid
		}
	}
	return hi // first id that is not new = deltaID
}

// ---------------------------------------------------------------------------
// case generation

type gen struct {
	withRule bool // also emit "rule" lines (Lean's executable rule vs the real ValidURI)
	rng      *hcommon.RNG
	lines    []string
	seen     map[string]struct{}
	sum      *hcommon.Summary
}

func (g *gen) add(line string) {
	if _, dup := g.seen[line]; dup {
		return
	}
	g.seen[line] = struct{}{}
	g.lines = append(g.lines, line)
}

var matchStrings = []string{
	"exact", "prefix", "wildcard", "", "Prefix", "WILDCARD", "wildcard ", " prefix", "prefix\x00",
	"prefi", "wildcards", "\xff", "pr\u00e9fix", "exact\n",
}

var mainMatches = []string{"exact", "prefix", "wildcard"}

func (g *gen) addValid(u []byte, allMatches bool) {
	ms := mainMatches
	if allMatches {
		ms = matchStrings
	}
	for _, m := range ms {
		g.add("valid 0 " + hx([]byte(m)) + " " + hx(u))
		g.add("valid 1 " + hx([]byte(m)) + " " + hx(u))
		if g.withRule {
			g.add("rule 0 " + hx([]byte(m)) + " " + hx(u))
			g.add("rule 1 " + hx([]byte(m)) + " " + hx(u))
		}
	}
}

// exhaustive enumerates all concatenations of up to n symbols.
func exhaustive(symbols []string, n int, f func([]byte)) {
	var rec func(prefix []byte, depth int)
	rec = func(prefix []byte, depth int) {
		f(prefix)
		if depth == n {
			return
		}
		for _, s := range symbols {
			rec(append(prefix[:len(prefix):len(prefix)], s...), depth+1)
		}
	}
	rec(nil, 0)
}

// The ~8-symbol alphabet of the exhaustive URI scope: a strict byte, an
// underscore, an upper-case letter (loose only), the separator, '#', a space,
// an invalid UTF-8 byte, and a two-byte Unicode space (U+00A0).
var uriAlphabet = []string{"a", "_", "Z", ".", "#", " ", "\xff", "\u00a0"}

var interesting = []string{
	"\t", "\n", "\v", "\f", "\r", " ", "\u0085", "\u00a0", "\u1680", "\u2003", "\u2028", "\u2029", "\u3000", "\ufeff",
	"\x00", "\x1c", "\x1f", "\x7f", "\x80", "\x85", "\xa0", "\xc0", "\xc2", "\xe2\x80", "\xff", "\xed\xa0\x80", "\xf4\x90\x80\x80",
	".", "..", "#", "\u00e9", "\u65e5\u672c", "A", "Z", "-", "/", "*", "%", "0", "9", "a", "z", "_", "`", "{",
}

func (g *gen) randomURI() []byte {
	r := g.rng
	var b []byte
	switch r.Intn(4) {
	case 0: // raw bytes
		n := r.Intn(25)
		for i := 0; i < n; i++ {
			b = append(b, byte(r.Intn(256)))
		}
	case 1: // interesting pieces
		n := r.Intn(10)
		for i := 0; i < n; i++ {
			b = append(b, hcommon.Pick(r, interesting)...)
		}
	default: // well-formed-ish URI with mutations
		nc := 1 + r.Intn(5)
		for i := 0; i < nc; i++ {
			if i > 0 {
				b = append(b, '.')
			}
			cl := r.Intn(6)
			if r.Chance(1, 6) {
				cl = 0
			}
			for j := 0; j < cl; j++ {
				b = append(b, "abcxyz0189_"[r.Intn(11)])
			}
		}
		for k := r.Intn(3); k > 0; k-- {
			pos := r.Intn(len(b) + 1)
			ins := hcommon.Pick(r, interesting)
			b = append(b[:pos:pos], append([]byte(ins), b[pos:]...)...)
		}
	}
	return b
}

var idEdges = []uint64{
	0, 1, 2, 3, 498, 499, 500, 501, 502, 1000, 1<<31 - 1, 1 << 31, 1<<32 - 1, 1 << 32, 1<<52 + 7,
	maxID - 1001, maxID - 502, maxID - 501, maxID - 500, maxID - 499, maxID - 498, maxID - 2, maxID - 1, maxID,
	maxID + 1, maxID + 2, maxID + 500, 1<<62 + 3, 1<<63 - 1, 1 << 63, 1<<63 + 1, 1<<64 - 2, 1<<64 - 1,
}

func (g *gen) addAsID(u uint64) {
	us := strconv.FormatUint(u, 10)
	for _, k := range []string{"uint64", "uint", "id"} {
		g.add("asid " + k + " " + us)
	}
	if u <= math.MaxUint32 {
		g.add("asid uint32 " + us)
	}
	i := int64(u) // every bit pattern also as a signed value
	is := strconv.FormatInt(i, 10)
	g.add("asid int64 " + is)
	g.add("asid int " + is)
	if i >= math.MinInt32 && i <= math.MaxInt32 {
		g.add("asid int32 " + is)
	}
	g.add("asid int64 " + strconv.FormatInt(-i, 10))
	// the nearest floats
	f := float64(u)
	for _, x := range []float64{f, math.Nextafter(f, 0), math.Nextafter(f, math.Inf(1)), f + 0.5, -f} {
		g.add("asid float64 " + strconv.FormatUint(math.Float64bits(x), 16))
	}
	f32 := float32(u)
	for _, x := range []float32{f32, math.Nextafter32(f32, 0), math.Nextafter32(f32, float32(math.Inf(1))), -f32} {
		g.add("asid float32 " + strconv.FormatUint(uint64(math.Float32bits(x)), 16))
	}
}

func (g *gen) randomID() uint64 {
	r := g.rng
	switch r.Intn(6) {
	case 0:
		return r.Uint64()
	case 1:
		return r.Uint64() % (maxID + 1)
	case 2:
		return hcommon.Pick(r, idEdges)
	case 3:
		return hcommon.Pick(r, idEdges) + uint64(r.Intn(1200)) - 600
	case 4:
		return uint64(r.Intn(1500))
	default:
		return maxID - uint64(r.Intn(1500))
	}
}

func joinIDs(ids []uint64) string {
	p := make([]string, len(ids))
	for i, v := range ids {
		p[i] = strconv.FormatUint(v, 10)
	}
	return strings.Join(p, ",")
}

func (g *gen) build(tier string, n, maxlen, wildlen int) {
	// --- URI validation: exhaustive small scope -------------------------------
	g.withRule = true
	exhaustive(uriAlphabet, maxlen-1, func(b []byte) { g.addValid(b, false) })
	g.withRule = false
	exhaustive(uriAlphabet, maxlen, func(b []byte) { g.addValid(b, false) })
	g.withRule = true
	// all weird match strings on a smaller exhaustive scope
	exhaustive(uriAlphabet, 2, func(b []byte) { g.addValid(b, true) })
	// each single byte 0..255 alone and inside a component
	for c := 0; c < 256; c++ {
		g.addValid([]byte{byte(c)}, false)
		g.addValid([]byte{'a', byte(c), 'b'}, false)
		g.addValid([]byte{'a', '.', byte(c)}, false)
	}
	for _, s := range interesting {
		g.addValid([]byte(s), true)
		g.addValid([]byte("a."+s+".b"), false)
		g.addValid([]byte("a"+s), false)
		g.addValid([]byte(s+"a"), false)
	}
	// --- prefix / wildcard: exhaustive small scope ------------------------------
	var small [][]byte
	exhaustive([]string{"a", "b", "."}, wildlen, func(b []byte) { small = append(small, append([]byte(nil), b...)) })
	for _, u := range small {
		for _, p := range small {
			g.add("wild " + hx(u) + " " + hx(p))
			if len(p) <= len(u)+1 {
				g.add("prefix " + hx(u) + " " + hx(p))
			}
		}
	}
	// --- ids: edges ---------------------------------------------------------------
	for _, e := range idEdges {
		g.addAsID(e)
	}
	for _, s := range []string{"0", "8000000000000000", "1", "8000000000000001", "7ff0000000000000", "fff0000000000000",
		"7ff8000000000000", "7ff0000000000001", "fff8000000000000", "3fe0000000000000", "3fefffffffffffff", "3ff0000000000000",
		"3ff8000000000000", "bff0000000000000", "4340000000000000", "4340000000000001", "433fffffffffffff", "43e0000000000000",
		"c3e0000000000000", "43dfffffffffffff", "c3e0000000000001", "7fefffffffffffff", "000fffffffffffff"} {
		g.add("asid float64 " + s)
	}
	for _, s := range []string{"0", "80000000", "1", "7f800000", "ff800000", "7fc00000", "3f000000", "3f7fffff", "3f800000", "3fc00000",
		"5a000000", "5a000001", "59ffffff", "5f000000", "df000000", "5effffff", "7f7fffff", "4b800000"} {
		g.add("asid float32 " + s)
	}
	for _, a := range idEdges {
		g.add("recv " + joinIDs([]uint64{a}))
		for _, b := range idEdges {
			g.add("recv " + joinIDs([]uint64{a, b}))
			g.add("recv " + joinIDs([]uint64{a, b, a}))
		}
	}
	g.add("consts")
	for _, r := range []uint64{0, 1, 2, maxID / 2, maxID - 2, maxID - 1} {
		g.add("global " + strconv.FormatUint(r, 10))
	}
	g.add("nextn 0 1")
	g.add("nextn 0 1000")
	if pokeOK {
		for _, st := range []uint64{1, 499, maxID - 3, maxID - 2, maxID - 1, maxID, maxID + 1, 1<<64 - 1} {
			g.add("nextn " + strconv.FormatUint(st, 10) + " 5")
		}
	}
	// --- random ---------------------------------------------------------------------
	r := g.rng
	for i := 0; i < n; i++ {
		switch r.Intn(10) {
		case 0, 1, 2, 3: // valid
			u := g.randomURI()
			m := hcommon.Pick(r, mainMatches)
			if r.Chance(1, 5) {
				m = hcommon.Pick(r, matchStrings)
			}
			if r.Chance(1, 40) {
				m = string(g.randomURI())
			}
			st := bit(r.Chance(1, 2))
			g.add("valid " + st + " " + hx([]byte(m)) + " " + hx(u))
			if r.Chance(1, 3) {
				g.add("rule " + st + " " + hx([]byte(m)) + " " + hx(u))
			}
		case 4: // prefix
			u := g.randomURI()
			var p []byte
			switch r.Intn(3) {
			case 0:
				p = u[:r.Intn(len(u)+1)]
			case 1:
				p = append(append([]byte(nil), u[:r.Intn(len(u)+1)]...), hcommon.Pick(r, interesting)...)
			default:
				p = g.randomURI()
			}
			g.add("prefix " + hx(u) + " " + hx(p))
		case 5, 6: // wildcard: blank / perturb components of u
			u := g.randomURI()
			parts := strings.Split(string(u), ".")
			wp := make([]string, len(parts))
			copy(wp, parts)
			for j := range wp {
				switch r.Intn(6) {
				case 0, 1:
					wp[j] = ""
				case 2:
					wp[j] += "x"
				}
			}
			if r.Chance(1, 6) {
				wp = append(wp, "")
			}
			if r.Chance(1, 6) && len(wp) > 1 {
				wp = wp[1:]
			}
			g.add("wild " + hx(u) + " " + hx([]byte(strings.Join(wp, "."))))
		case 7: // asid
			v := g.randomID()
			g.addAsID(v)
			g.add("asid float64 " + strconv.FormatUint(r.Uint64(), 16))
			g.add("asid float32 " + strconv.FormatUint(r.Uint64()>>32, 16))
		default: // recv sequences
			k := 1 + r.Intn(8)
			ids := make([]uint64, k)
			cur := g.randomID()
			for j := range ids {
				switch r.Intn(5) {
				case 0:
					cur = g.randomID()
				case 1:
					cur++
				case 2:
					cur += uint64(r.Intn(700))
				case 3:
					cur -= uint64(r.Intn(700))
				default:
					// wrap: step beyond MaxID and come back in at the bottom
					cur = (cur+uint64(r.Intn(700))-1)%maxID + 1
				}
				ids[j] = cur
			}
			g.add("recv " + joinIDs(ids))
		}
	}
}

// ---------------------------------------------------------------------------

func features(line string, sum *hcommon.Summary) {
	f := strings.Split(line, " ")
	if f[0] != "valid" {
		return
	}
	u, _ := unhx(f[3])
	s := string(u)
	if strings.ToValidUTF8(s, "") != s {
		sum.Count("uri.invalid_utf8")
	}
	for _, sp := range []string{"\u0085", "\u00a0", "\u1680", "\u2003", "\u2028", "\u2029", "\u3000"} {
		if strings.Contains(s, sp) {
			sum.Count("uri.unicode_space")
			break
		}
	}
	if strings.Contains(s, "\v") {
		sum.Count("uri.vt")
	}
	if strings.HasPrefix(s, ".") {
		sum.Count("uri.leading_dot")
	}
	if strings.HasSuffix(s, ".") {
		sum.Count("uri.trailing_dot")
	}
	if strings.Contains(s, "..") {
		sum.Count("uri.double_dot")
	}
	if strings.Contains(s, "#") {
		sum.Count("uri.hash")
	}
	if strings.ToLower(s) != s {
		sum.Count("uri.uppercase")
	}
	if s == "" {
		sum.Count("uri.empty")
	}
}

func trivial(line string) bool {
	f := strings.Split(line, " ")
	switch f[0] {
	case "valid", "rule":
		return f[3] == "-"
	case "prefix", "wild":
		return f[1] == "-" && f[2] == "-"
	}
	return false
}

func answerClass(line, ans string) string {
	kind := line[:strings.IndexByte(line+" ", ' ')]
	switch {
	case kind == "asid" && ans != "none" && !strings.HasPrefix(ans, "panic"):
		return "asid.accepted"
	case kind == "nextn" || kind == "recv" || kind == "consts" || kind == "global":
		return kind
	case ans == "1":
		return kind + ".accept"
	case ans == "0":
		return kind + ".reject"
	case ans == "none":
		return kind + ".rejected"
	case strings.HasPrefix(ans, "panic"):
		return kind + ".panic"
	}
	if kind == "valid" || kind == "rule" || kind == "prefix" || kind == "wild" {
		return kind + ".other"
	}
	if kind == "asid" {
		return "asid.accepted"
	}
	return kind
}

// runDriver sends the lines in chunks.
func runDriver(lines []string) ([]string, error) {
	const chunk = 250000
	var out []string
	for i := 0; i < len(lines); i += chunk {
		j := i + chunk
		if j > len(lines) {
			j = len(lines)
		}
		res, err := hcommon.RunDriver("uriid", lines[i:j])
		if err != nil {
			return nil, err
		}
		if len(res) != j-i {
			return nil, fmt.Errorf("driver answered %d lines for %d requests", len(res), j-i)
		}
		out = append(out, res...)
	}
	return out, nil
}

// minimise shrinks the byte-string arguments of a failing valid / prefix / wild
// line while it still fails (impl and model differ, or the implementation's
// answer violates the rule).
func minimise(line string) string {
	f := strings.Split(line, " ")
	var idx []int
	switch f[0] {
	case "valid", "rule":
		idx = []int{3}
	case "prefix", "wild":
		idx = []int{1, 2}
	default:
		return line
	}
	differs := func(l string) bool {
		impl := evalImpl(l)
		if ok, _ := specCheck(l, impl); !ok {
			return true
		}
		res, err := hcommon.RunDriver("uriid", []string{l})
		return err == nil && len(res) == 1 && res[0] != impl
	}
	for changed := true; changed; {
		changed = false
		for _, k := range idx {
			b, _ := unhx(f[k])
			for i := 0; i < len(b); i++ {
				nb := append(append([]byte(nil), b[:i]...), b[i+1:]...)
				g := append([]string(nil), f...)
				g[k] = hx(nb)
				if differs(strings.Join(g, " ")) {
					f, b, changed = g, nb, true
					i--
				}
			}
		}
	}
	return strings.Join(f, " ")
}

type replayFile struct {
	Broken []struct {
		Detail struct {
			Input any `json:"input"`
		} `json:"detail"`
	} `json:"broken"`
	Lines []string `json:"lines"`
}

func inputLine(in any) (string, bool) {
	m, ok := in.(map[string]any)
	if !ok {
		return "", false
	}
	s, ok := m["line"].(string)
	return s, ok
}

// readable renders a request line with its byte strings quoted.
func readable(line string) string {
	f := strings.Split(line, " ")
	q := func(h string) string { b, _ := unhx(h); return strconv.QuoteToASCII(string(b)) }
	switch {
	case f[0] == "valid" && len(f) == 4:
		return fmt.Sprintf("ValidURI(strict=%v, match=%s) on URI %s", f[1] == "1", q(f[2]), q(f[3]))
	case f[0] == "rule" && len(f) == 4:
		return fmt.Sprintf("ValidURI(strict=%v, match=%s) on URI %s [model side: Lean's component rule]", f[1] == "1", q(f[2]), q(f[3]))
	case f[0] == "prefix" && len(f) == 3:
		return fmt.Sprintf("URI %s PrefixMatch(%s)", q(f[1]), q(f[2]))
	case f[0] == "wild" && len(f) == 3:
		return fmt.Sprintf("URI %s WildcardMatch(%s)", q(f[1]), q(f[2]))
	}
	return line
}

func describe(line string) map[string]any {
	m := map[string]any{"line": line}
	f := strings.Split(line, " ")
	q := func(h string) string { b, _ := unhx(h); return strconv.QuoteToASCII(string(b)) }
	switch f[0] {
	case "valid", "rule":
		if len(f) == 4 {
			m["strict"], m["match"], m["uri"] = f[1] == "1", q(f[2]), q(f[3])
		}
	case "prefix", "wild":
		if len(f) == 3 {
			m["uri"], m["pattern"] = q(f[1]), q(f[2])
		}
	}
	return m
}

func main() {
	seed := flag.Int64("seed", 1, "seed")
	tier := flag.String("tier", "quick", "quick|thorough")
	out := flag.String("out", ".", "output directory")
	prop := flag.String("property", "C19", "property id")
	replay := flag.String("replay", "", "replay file (bin/check replay-N.json, or {\"lines\":[…]})")
	n := flag.Int("n", 20000, "number of random cases")
	maxlen := flag.Int("maxlen", 4, "exhaustive URI scope: all strings of up to this many alphabet symbols")
	wildlen := flag.Int("wildlen", 4, "exhaustive prefix/wildcard scope: all pairs of strings up to this length over {a,b,.}")
	flag.Parse()

	t0 := time.Now()
	sum := &hcommon.Summary{Family: "uriid", Property: *prop, Seed: *seed, Tier: *tier}
	pokeOK = checkPoke()
	if !pokeOK {
		sum.Notes = append(sum.Notes, "IDGen white-box poke unavailable: the 2^53 wrap of IDGen.Next is covered by the regenerated definition only")
	} else {
		sum.Notes = append(sum.Notes, "IDGen.Next near 2^53 reached by writing the generator's counter through unsafe.Pointer (layout verified on small values); all other cases are black-box")
	}
	if runtime.GOARCH != "amd64" {
		sum.Notes = append(sum.Notes, "GOARCH="+runtime.GOARCH+": out-of-range float→int64 conversions are implementation-defined; the model mirrors amd64 (all such values are rejected on every platform)")
	}

	g := &gen{rng: hcommon.NewRNG(*seed), seen: map[string]struct{}{}, sum: sum}
	if *replay != "" {
		raw, err := os.ReadFile(*replay)
		if err != nil {
			fmt.Fprintln(os.Stderr, "uriid: replay:", err)
			os.Exit(2)
		}
		var rf replayFile
		if err := json.Unmarshal(raw, &rf); err != nil {
			fmt.Fprintln(os.Stderr, "uriid: replay:", err)
			os.Exit(2)
		}
		for _, b := range rf.Broken {
			if l, ok := inputLine(b.Detail.Input); ok {
				g.add(l)
			}
		}
		for _, l := range rf.Lines {
			g.add(l)
		}
		sum.Notes = append(sum.Notes, fmt.Sprintf("replay of %d request lines from %s", len(g.lines), *replay))
	} else {
		// escalation: if the source text of a hand-modelled function changed since the model was
		// last reconciled, widen the quick tier to the thorough scope.
		if res, err := hcommon.RunDriver("uriid", []string{"hashes"}); err == nil && len(res) == 1 && res[0] != "same" {
			sum.Notes = append(sum.Notes, "source hashes differ from the reconciled ones ("+res[0]+"): running at thorough width")
			if *maxlen < 5 {
				*maxlen = 5
			}
			if *wildlen < 5 {
				*wildlen = 5
			}
			if *n < 300000 {
				*n = 300000
			}
		}
		g.build(*tier, *n, *maxlen, *wildlen)
	}

	model, err := runDriver(g.lines)
	if err != nil {
		fmt.Fprintln(os.Stderr, "uriid:", err)
		os.Exit(2)
	}

	distinct := 0
	reported := map[string]bool{}
	minimised := 0
	for i, line := range g.lines {
		impl := evalImpl(line)
		sum.Evaluations++
		if !trivial(line) {
			distinct++
		}
		sum.Count(answerClass(line, impl))
		features(line, sum)
		if i%(len(g.lines)/8+1) == 0 {
			d := describe(line)
			d["impl"], d["model"] = impl, model[i]
			sum.AddSample(d, 8)
		}
		if strings.HasPrefix(line, "global ") {
			// no observable implementation answer: judge the regenerated expression by the rule
			if ok, why := specGlobal(line, model[i]); !ok {
				sum.Disagreements = append(sum.Disagreements, hcommon.Disagreement{
					Input: describe(line), Impl: "GlobalID's source expression, regenerated: " + model[i], Model: model[i], SpecViolation: true,
					Detail: "GlobalID: for the draw r=" + strings.TrimPrefix(line, "global ") + " of secureInt63n(MaxID) the expression in the source yields " + model[i] + "; " + why,
				})
			}
			continue
		}
		specOK, why := specCheck(line, impl)
		if impl == model[i] && specOK {
			continue
		}
		if len(sum.Disagreements) >= 20 {
			sum.Count("disagreements.not_listed")
			continue
		}
		l := line
		if minimised < 8 {
			minimised++
			l = minimise(line)
		}
		if reported[l] {
			sum.Count("disagreements.same_minimised_input")
			continue
		}
		reported[l] = true
		impl2 := evalImpl(l)
		m2 := model[i]
		if l != line {
			if res, err := hcommon.RunDriver("uriid", []string{l}); err == nil && len(res) == 1 {
				m2 = res[0]
			}
		}
		specOK, why = specCheck(l, impl2)
		detail := fmt.Sprintf("%s: implementation answers %q, Lean model answers %q", readable(l), impl2, m2)
		if !specOK {
			detail += "; the implementation's answer violates the property's rule: " + why
		} else if impl2 != m2 {
			detail += "; the implementation's answer is what the property's rule demands (model/gen differs)"
		}
		sum.Disagreements = append(sum.Disagreements, hcommon.Disagreement{
			Input: describe(l), Impl: impl2, Model: m2, SpecViolation: !specOK, Detail: detail,
		})
	}

	// GlobalID: the implementation's random ids against the rule (no model counterpart:
	// the random source is a parameter of the model; its range theorem is C19 globalid_range).
	ng := 20000
	if *tier == "thorough" {
		ng = 500000
	}
	if *replay == "" {
		lo, hi := uint64(math.MaxUint64), uint64(0)
		for i := 0; i < ng; i++ {
			id := uint64(wamp.GlobalID())
			sum.Evaluations++
			if id < lo {
				lo = id
			}
			if id > hi {
				hi = id
			}
			if id < 1 || id > maxID {
				sum.Disagreements = append(sum.Disagreements, hcommon.Disagreement{
					Input: map[string]any{"line": "globalid"}, Impl: id, Model: "in [1, 2^53]", SpecViolation: true,
					Detail: fmt.Sprintf("GlobalID returned %d outside [1, 2^53]", id),
				})
				break
			}
		}
		sum.Histogram["globalid.calls"] = ng
		sum.Notes = append(sum.Notes, fmt.Sprintf("GlobalID: %d draws, min %d, max %d", ng, lo, hi))
	}

	sum.DistinctNontrivial = distinct
	sum.Rule = "distinct request lines (kind + inputs, deduplicated) excluding empty-URI/empty-pattern cases; " +
		fmt.Sprintf("exhaustive: all strings of ≤%d symbols over %q × strict{0,1} × {exact,prefix,wildcard}, all pairs of strings of ≤%d symbols over {a,b,.} for prefix/wildcard, all single bytes, id edge set %d² for recv; plus %d seeded random cases", *maxlen, uriAlphabet, *wildlen, len(idEdges), *n)
	sum.TracesValidated = sum.Evaluations
	sum.Notes = append(sum.Notes, fmt.Sprintf("wall %.1fs", time.Since(t0).Seconds()))
	if err := sum.Write(*out); err != nil {
		fmt.Fprintln(os.Stderr, "uriid:", err)
		os.Exit(2)
	}
}
