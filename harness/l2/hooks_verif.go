//go:build verif

package l2

import "github.com/gammazero/nexus/v3/router"

// snapshot reads the router's table sizes through the verif hook.
func (w *world) snapshot() map[string]map[string]int {
	res := map[string]map[string]int{}
	for uri, sizes := range router.VerifSnapshot(w.r) {
		res[string(uri)] = sizes
	}
	return res
}
