package l2

import (
	"bufio"
	"encoding/json"
	"flag"
	"fmt"
	"os"
	"os/exec"
	"path/filepath"
	"runtime"
	"sort"
	"strings"
	"sync"
	"testing"
	"testing/synctest"
	"time"

	"verif/harness/hcommon"
)

var (
	flagSeed     = flag.Int64("seed", 1, "VERIF_SEED")
	flagTier     = flag.String("tier", "quick", "quick|thorough")
	flagOut      = flag.String("out", "", "output directory")
	flagProperty = flag.String("property", "C01", "property id (selects generator bias and spec)")
	flagReplay   = flag.String("replay", "", "replay file")
	flagN        = flag.Int("n", 0, "number of histories (0 = tier default)")
	flagLen      = flag.Int("len", 0, "ops per history (0 = tier default)")
	flagBatch    = flag.String("batch", "", "child: batch request file")
	flagResult   = flag.String("result", "", "child: result file")
	flagEnum     = flag.Int("enum", 0, "depth of the exhaustive small-scope enumeration (0 = tier default)")
	flagTrace    = flag.Bool("trace", false, "child: print every op to stderr before applying it")
)

// batchReq asks a child process to run histories: either generate them online
// (Count histories from Seed) or replay the given scenarios.
type batchReq struct {
	Property string     `json:"property"`
	Seed     int64      `json:"seed"`
	First    int        `json:"first"`
	Count    int        `json:"count"`
	Len      int        `json:"len"`
	Replay   []Scenario `json:"replay,omitempty"`
}

// histResult is what the implementation did on one history.
type histResult struct {
	Scenario Scenario        `json:"scenario"`
	Lines    []Line          `json:"lines"`
	MetaReq  map[string]bool `json:"meta_req"`
	Err      string          `json:"err,omitempty"`
	Started  bool            `json:"started,omitempty"` // marker line written before the history runs
}

// runHistory runs one history against the real router inside a synctest bubble.
func runHistory(t *testing.T, prop string, seed int64, idx int, n int, replay *Scenario) (res histResult) {
	res.MetaReq = map[string]bool{}
	synctest.Test(t, func(t *testing.T) {
		var g *genState
		var cfg map[string]any
		if replay != nil {
			cfg = replay.Cfg
			res.Scenario = Scenario{ID: replay.ID, Cfg: cfg}
		} else {
			g = newGen(hcommon.NewRNG(seed*1000003+int64(idx)), prop)
			cfg = roundTrip(g.config())
			res.Scenario = Scenario{ID: idx, Cfg: cfg}
		}
		w, err := newWorld(cfg)
		if err != nil {
			res.Err = "config: " + err.Error()
			return
		}
		steps := n
		if replay != nil {
			steps = len(replay.Ops)
		}
		for i := 0; i < steps; i++ {
			var op map[string]any
			if replay != nil {
				op = replay.Ops[i]
			} else {
				op = roundTrip(g.next())
				g.noteOp(op)
			}
			if *flagTrace {
				o := map[string]any{}
				for k, v := range op {
					if k != "hello" && k != "details" {
						o[k] = v
					}
				}
				fmt.Fprintln(os.Stderr, "OP", i, jsonKey(o))
			}
			out, closed, note := w.apply(op)
			if *flagTrace {
				fmt.Fprintln(os.Stderr, "  ->", jsonKey(w.line(out, closed, note)))
			}
			line := w.line(out, closed, note)
			if op["op"] == "join" {
				line.Welcome, w.lastRoles = w.lastRoles, ""
			}
			// in-process clients may do what they like with what they were handed: once recorded, every
			// EVENT they got is overwritten; nothing the router keeps or hands to others may change (C12, C20)
			w.scribble(out)
			if op["op"] == "snapshot" {
				line.Sizes = w.lastSizes
				w.lastSizes = nil
			}
			res.Scenario.Ops = append(res.Scenario.Ops, op)
			res.Lines = append(res.Lines, line)
			if g != nil {
				g.observe(line)
			}
			if m, _ := op["m"].([]any); op["op"] == "msg" && len(m) > 3 && num(m[0]) == 48 {
				if p, _ := m[3].(string); strings.HasPrefix(p, "wamp.") {
					res.MetaReq[fmt.Sprintf("%d/%s", int(num(op["s"])), jsonKey(m[1]))] = true
				}
			}
		}
		if err := w.shutdown(); err != nil {
			res.Err = err.Error()
		}
	})
	return res
}

// TestChild runs a batch in this process and streams results to the result file.
func TestChild(t *testing.T) {
	if *flagBatch == "" {
		t.Skip("child only")
	}
	var req batchReq
	b, err := os.ReadFile(*flagBatch)
	if err != nil {
		t.Fatal(err)
	}
	if err := json.Unmarshal(b, &req); err != nil {
		t.Fatal(err)
	}
	f, err := os.Create(*flagResult)
	if err != nil {
		t.Fatal(err)
	}
	defer f.Close()
	enc := json.NewEncoder(f)
	emit := func(r histResult) { enc.Encode(r); f.Sync() }
	if len(req.Replay) > 0 {
		for i := range req.Replay {
			emit(histResult{Started: true, Scenario: Scenario{ID: req.Replay[i].ID}})
			emit(runHistory(t, req.Property, req.Seed, 0, 0, &req.Replay[i]))
		}
		return
	}
	for i := 0; i < req.Count; i++ {
		emit(histResult{Started: true, Scenario: Scenario{ID: req.First + i}})
		emit(runHistory(t, req.Property, req.Seed, req.First+i, req.Len, nil))
	}
}

// runChild executes a batch in a child process; a crash of the implementation
// kills only the child. Returns the results and, if the child died, the id of
// the history that was running and the tail of its stderr.
func runChild(dir string, tag string, req batchReq) (results []histResult, crashedID int, crashTail string) {
	crashedID = -1
	bf := filepath.Join(dir, "batch-"+tag+".json")
	rf := filepath.Join(dir, "result-"+tag+".jsonl")
	b, _ := json.Marshal(req)
	os.WriteFile(bf, b, 0o644)
	cmd := exec.Command(os.Args[0], "-test.run", "^TestChild$", "-test.timeout", "0", "-batch", bf, "-result", rf)
	var stderr strings.Builder
	cmd.Stderr = &stderr
	cmd.Stdout = &stderr
	done := make(chan error, 1)
	if err := cmd.Start(); err != nil {
		return nil, req.First, "cannot start child: " + err.Error()
	}
	go func() { done <- cmd.Wait() }()
	// The child writes a record when it starts a history and one when it has finished it
	// (milliseconds apart): a result file that has not grown for a minute means the
	// history that is running hangs. (Overall cap: ten minutes per batch.)
	var err error
	start, lastGrowth, lastSize := time.Now(), time.Now(), int64(-1)
wait:
	for {
		select {
		case err = <-done:
			break wait
		case <-time.After(time.Second):
			if fi, e := os.Stat(rf); e == nil && fi.Size() != lastSize {
				lastSize, lastGrowth = fi.Size(), time.Now()
			}
			if time.Since(lastGrowth) > time.Minute || time.Since(start) > 10*time.Minute {
				cmd.Process.Kill()
				err = fmt.Errorf("child timed out (implementation wedged?)")
				<-done
				break wait
			}
		}
	}
	started := -1
	if f, e := os.Open(rf); e == nil {
		sc := bufio.NewScanner(f)
		sc.Buffer(make([]byte, 1<<20), 1<<28)
		for sc.Scan() {
			var r histResult
			if json.Unmarshal(sc.Bytes(), &r) != nil {
				continue
			}
			if r.Started {
				started = r.Scenario.ID
				continue
			}
			started = -1
			results = append(results, r)
		}
		f.Close()
	}
	os.Remove(bf)
	os.Remove(rf)
	if err != nil {
		tail := stderr.String()
		if len(tail) > 3000 {
			tail = tail[len(tail)-3000:]
		}
		if started < 0 {
			started = req.First + len(results)
		}
		return results, started, err.Error() + "\n" + tail
	}
	return results, -1, ""
}

// modelLines runs the Lean model on the scenarios, one driver process for all.
func modelLines(scs []Scenario) ([][]Line, error) {
	var in []string
	for _, s := range scs {
		b, _ := json.Marshal(map[string]any{"cfg": s.Cfg})
		in = append(in, string(b))
		for _, op := range s.Ops {
			b, _ := json.Marshal(op)
			in = append(in, string(b))
		}
	}
	outLines, err := hcommon.RunDriver("l2", in)
	if err != nil {
		return nil, err
	}
	if len(outLines) != len(in) {
		return nil, fmt.Errorf("model driver answered %d lines for %d inputs", len(outLines), len(in))
	}
	res := make([][]Line, len(scs))
	p := 0
	for i, s := range scs {
		p++ // cfg answer
		for range s.Ops {
			var l Line
			if err := json.Unmarshal([]byte(outLines[p]), &l); err != nil {
				return nil, fmt.Errorf("model line %q: %v", outLines[p], err)
			}
			if strings.HasPrefix(outLines[p], `{"err"`) {
				l.Note = outLines[p]
			}
			res[i] = append(res[i], l)
			p++
		}
	}
	return res, nil
}

// compare returns the index of the first differing step, or -1.
// lazyOf finds the sessions attached through a real transport and the steps at which they drop.
func lazyOf(ops []map[string]any) (map[string]bool, map[int][]string) {
	lazy := map[string]bool{}
	dropAt := map[int][]string{}
	for i, op := range ops {
		k := fmt.Sprint(int(num(op["s"])))
		if via, _ := op["via"].(string); op["op"] == "join" && via != "" {
			if b, ok := op["local"].(bool); ok && !b {
				lazy[k] = true
			}
		}
		if op["op"] == "drop" && lazy[k] {
			dropAt[i] = append(dropAt[i], k)
		}
	}
	return lazy, dropAt
}

func compare(ops []map[string]any, impl, model []Line, metaReq map[string]bool) (int, string, string) {
	lazy, dropAt := lazyOf(ops)
	ci := canonLinesFor(*flagProperty, impl, metaReq, lazy, dropAt)
	cm := canonLinesFor(*flagProperty, model, metaReq, lazy, dropAt)
	for i := range ci {
		a := jsonKey(map[string]any{"out": ci[i].Out, "closed": nonNil(ci[i].Closed), "panic": ci[i].Panic, "refused": ci[i].Note == "refused", "sizes": sizesOrNil(ci[i].Sizes)})
		if strings.HasPrefix(ci[i].Note, "aliased") {
			// in-process recipients were handed shared containers (C12): never equal to the model's answer
			a = ci[i].Note + " " + a
		}
		var b string
		if i < len(cm) {
			if strings.HasPrefix(cm[i].Note, "{") {
				b = cm[i].Note
			} else {
				b = jsonKey(map[string]any{"out": cm[i].Out, "closed": nonNil(cm[i].Closed), "panic": cm[i].Panic, "refused": cm[i].Note == "refused", "sizes": sizesOrNil(cm[i].Sizes)})
			}
		}
		if a != b {
			return i, a, b
		}
	}
	return -1, "", ""
}

func sizesOrNil(m map[string]map[string]int) any {
	if len(m) == 0 {
		return nil
	}
	return m
}

func nonNil(x []int) []int {
	if x == nil {
		return []int{}
	}
	sort.Ints(x)
	return x
}

// shape is the op-shape hash used to count distinct non-trivial histories.
func shape(s Scenario) string {
	var b strings.Builder
	for _, op := range s.Ops {
		b.WriteString(fmt.Sprint(op["op"]))
		if m, ok := op["m"].([]any); ok && len(m) > 0 {
			fmt.Fprintf(&b, "%v", m[0])
			if len(m) > 2 {
				if o, ok := m[2].(map[string]any); ok {
					for _, k := range sortedKeys(o) {
						b.WriteString(k[:1])
					}
				}
			}
		}
		b.WriteByte(',')
	}
	return b.String()
}

// enoughCrashes: once six histories have crashed or hung the implementation the verdict is
// settled; the remaining batches are not run (every hang costs its watchdog's minute).
func enoughCrashes(mu *sync.Mutex, crashes *[]hcommon.Disagreement) bool {
	mu.Lock()
	defer mu.Unlock()
	return len(*crashes) >= 6
}

func TestFamily(t *testing.T) {
	if *flagBatch != "" {
		t.Skip("child")
	}
	if *flagOut == "" {
		t.Skip("no -out: not run by bin/check")
	}
	n, ln := 150, 40
	if *flagTier == "thorough" {
		n, ln = 4000, 120
	}
	if *flagN > 0 {
		n = *flagN
	}
	if *flagLen > 0 {
		ln = *flagLen
	}
	sum := &hcommon.Summary{Family: "l2", Property: *flagProperty, Seed: *flagSeed, Tier: *flagTier,
		Rule: "random histories generated online against the real router (ids taken from its answers), replayed through the Lean realm model; " +
			"distinct = distinct op-shape hashes (op kinds + option key initials); non-trivial = at least one routed EVENT/INVOCATION/RESULT observed"}
	os.MkdirAll(*flagOut, 0o755)

	var all []histResult
	var crashes []hcommon.Disagreement
	if *flagReplay != "" {
		var rp struct {
			Broken []struct {
				Detail hcommon.Disagreement `json:"detail"`
			} `json:"broken"`
		}
		b, _ := os.ReadFile(*flagReplay)
		json.Unmarshal(b, &rp)
		var scs []Scenario
		for _, br := range rp.Broken {
			bb, _ := json.Marshal(br.Detail.Input)
			var s Scenario
			if json.Unmarshal(bb, &s) == nil && len(s.Ops) > 0 {
				scs = append(scs, s)
			}
		}
		rs, cid, tail := runChild(*flagOut, "replay", batchReq{Property: *flagProperty, Seed: *flagSeed, Replay: scs})
		all = rs
		if cid >= 0 {
			crashes = append(crashes, hcommon.Disagreement{Input: scs, Impl: tail, SpecViolation: true, Detail: "implementation crashed or hung on replay"})
		}
	} else {
		workers := runtime.NumCPU()
		if workers > 12 {
			workers = 12
		}
		per := (n + workers - 1) / workers
		var mu sync.Mutex
		var wg sync.WaitGroup
		for wk := 0; wk < workers; wk++ {
			first := wk * per
			count := per
			if first+count > n {
				count = n - first
			}
			if count <= 0 {
				continue
			}
			wg.Add(1)
			go func(wk, first, count int) {
				defer wg.Done()
				for count > 0 && !enoughCrashes(&mu, &crashes) {
					rs, cid, tail := runChild(*flagOut, fmt.Sprint(wk), batchReq{Property: *flagProperty, Seed: *flagSeed, First: first, Count: count, Len: ln})
					mu.Lock()
					all = append(all, rs...)
					if cid >= 0 {
						crashes = append(crashes, hcommon.Disagreement{
							Input:         map[string]any{"generated": true, "seed": *flagSeed, "index": cid, "len": ln, "property": *flagProperty},
							Impl:          tail,
							SpecViolation: true,
							Detail:        fmt.Sprintf("the implementation crashed or hung while running generated history %d", cid)})
					}
					mu.Unlock()
					if cid < 0 {
						break
					}
					done := cid - first + 1
					first += done
					count -= done
				}
			}(wk, first, count)
		}
		wg.Wait()
	}
	// exhaustive small-scope enumerations for the RPC properties (shallow in the quick tier)
	rpcProp := *flagProperty == "C02" || *flagProperty == "C13" || *flagProperty == "C05" || *flagProperty == "C03" || *flagProperty == "C04" ||
		*flagProperty == "C06" || *flagProperty == "C07" || *flagProperty == "C08"
	if *flagReplay == "" && (*flagEnum > 0 || rpcProp) {
		depth := *flagEnum
		if depth == 0 {
			depth = 2
			if *flagTier == "thorough" {
				depth = 4
			}
		}
		var scs []Scenario
		if *flagProperty != "C04" || *flagEnum > 0 {
			scs = append(scs, enumScenariosFor(*flagProperty, depth)...)
		}
		if *flagProperty == "C03" || *flagProperty == "C05" || *flagProperty == "C04" {
			scs = append(scs, enumShared(depth+1)...)
		}
		sum.Notes = append(sum.Notes, fmt.Sprintf("exhaustive enumeration: %d histories (all follow-up sequences of length <= %d after one CALL over 13 events x2 callee feature sets; for C03/C05 all sequences of length <= %d over call/unregister/leave/re-register on a shared registration x3 policies)", len(scs), depth, depth+1))
		workers := 12
		per := (len(scs) + workers - 1) / workers
		var mu sync.Mutex
		var wg sync.WaitGroup
		for wk := 0; wk < workers; wk++ {
			lo, hi := wk*per, (wk+1)*per
			if hi > len(scs) {
				hi = len(scs)
			}
			if lo >= hi {
				continue
			}
			wg.Add(1)
			go func(wk int, part []Scenario) {
				defer wg.Done()
				for len(part) > 0 && !enoughCrashes(&mu, &crashes) {
					rs, cid, tail := runChild(*flagOut, fmt.Sprintf("enum%d", wk), batchReq{Property: *flagProperty, Seed: *flagSeed, Replay: part})
					mu.Lock()
					all = append(all, rs...)
					mu.Unlock()
					if cid < 0 {
						break
					}
					// the child died on scenario cid: report it and continue after it
					idx := 0
					for i := range part {
						if part[i].ID == cid {
							idx = i
						}
					}
					mu.Lock()
					crashes = append(crashes, hcommon.Disagreement{Input: part[idx], Impl: tail, SpecViolation: true,
						Detail: fmt.Sprintf("the implementation crashed or hung on enumerated history %d", cid)})
					mu.Unlock()
					part = part[idx+1:]
				}
			}(wk, scs[lo:hi])
		}
		wg.Wait()
	}
	// C11: what a realm announces in WELCOME must not depend on which other realms the router has.
	// Reference: a fresh process with that realm alone (one with, one without event history).
	if *flagProperty == "C11" && *flagReplay == "" {
		welcomeCheck(sum, all)
	}

	// directed witnesses of recorded findings
	if *flagReplay == "" {
		for _, wt := range witnessesFor(*flagProperty) {
			rs, cid, tail := runChild(*flagOut, "witness-"+wt.ID, batchReq{Property: *flagProperty, Seed: *flagSeed, Replay: []Scenario{wt.Scenario()}})
			if cid >= 0 || len(rs) == 0 {
				crashes = append(crashes, hcommon.Disagreement{Input: wt.Scenario(), Impl: tail, SpecViolation: true, Finding: wt.ID,
					Detail: "the implementation crashed or hung on the witness of " + wt.ID})
				continue
			}
			sum.Count("witness." + wt.ID)
			if wt.Manifests(rs[0].Lines) {
				sum.KnownFindings = append(sum.KnownFindings, wt.ID+": "+wt.Text)
			} else {
				sum.Count("witness." + wt.ID + ".absent")
			}
			all = append(all, rs...)
		}
	}
	sort.Slice(all, func(i, j int) bool { return all[i].Scenario.ID < all[j].Scenario.ID })

	scs := make([]Scenario, len(all))
	for i := range all {
		scs[i] = all[i].Scenario
	}
	models, err := modelLines(scs)
	if err != nil {
		sum.Notes = append(sum.Notes, "model driver failed: "+err.Error())
		sum.Disagreements = append(sum.Disagreements, hcommon.Disagreement{Detail: "model driver failed: " + err.Error()})
		sum.Write(*flagOut)
		return
	}
	shapes := map[string]bool{}
	for i, r := range all {
		sum.Evaluations++
		nontrivial := false
		for _, l := range r.Lines {
			for _, ms := range l.Out {
				for _, m := range ms {
					code := int(num(m[0]))
					sum.Count(fmt.Sprintf("out.%d", code))
					if code == 36 || code == 68 || code == 50 {
						nontrivial = true
					}
				}
			}
		}
		for _, op := range r.Scenario.Ops {
			key := fmt.Sprint(op["op"])
			if m, ok := op["m"].([]any); ok && len(m) > 0 {
				key += fmt.Sprintf(".%v", m[0])
			}
			sum.Count("op." + key)
		}
		if nontrivial {
			shapes[shape(r.Scenario)] = true
		}
		if r.Err != "" {
			sum.Disagreements = append(sum.Disagreements, hcommon.Disagreement{Input: r.Scenario, Impl: r.Err,
				SpecViolation: strings.Contains(r.Err, "panic"), Detail: "history " + fmt.Sprint(r.Scenario.ID) + ": " + r.Err})
			continue
		}
		step, a, b := compare(r.Scenario.Ops, r.Lines, models[i], r.MetaReq)
		if step >= 0 {
			if len(sum.Disagreements) < 8 {
				if d, reproducible := shrink(r, step); reproducible {
					sum.Count("disagreeing_histories")
					sum.Disagreements = append(sum.Disagreements, d)
				} else {
					// The implementation behaved differently when the same history was run again:
					// the difference depends on goroutine scheduling (e.g. which of several messages
					// of one action overflows a tiny queue), not on the history. Not a disagreement.
					sum.Count("scheduling_dependent_histories")
				}
			} else {
				sum.Count("disagreeing_histories")
			}
		} else {
			sum.TracesValidated++
			if len(sum.Samples) < 2 {
				s := r.Scenario
				if len(s.Ops) > 12 {
					s.Ops = s.Ops[:12]
				}
				sum.AddSample(s, 2)
			}
		}
		_ = a
		_ = b
	}
	sum.Disagreements = append(sum.Disagreements, crashes...)
	sum.DistinctNontrivial = len(shapes)
	if len(sum.Disagreements) > 8 {
		sum.Notes = append(sum.Notes, fmt.Sprintf("%d disagreements, first 8 kept", len(sum.Disagreements)))
		sum.Disagreements = sum.Disagreements[:8]
	}
	if err := sum.Write(*flagOut); err != nil {
		t.Fatal(err)
	}
}

// shrink delta-debugs a disagreeing history: it re-runs the implementation (in a
// child) and the model on sub-histories and keeps the smallest that still differs.
func shrink(r histResult, step int) (hcommon.Disagreement, bool) {
	cur := r.Scenario
	cur.Ops = cur.Ops[:step+1]
	differs := func(s Scenario) (bool, int, string, string, bool) {
		rs, cid, tail := runChild(*flagOut, "shrink", batchReq{Property: *flagProperty, Seed: *flagSeed, Replay: []Scenario{s}})
		if cid >= 0 || len(rs) != 1 {
			return true, len(s.Ops) - 1, "crash: " + tail, "", true
		}
		ms, err := modelLines([]Scenario{s})
		if err != nil {
			return false, 0, "", "", false
		}
		meta := map[string]bool{}
		for k, v := range rs[0].MetaReq {
			meta[k] = v
		}
		st, a, b := compare(s.Ops, rs[0].Lines, ms[0], meta)
		return st >= 0, st, a, b, false
	}
	budget := 60
	deadline := time.Now().Add(3 * time.Minute) // a candidate that hangs costs its watchdog's minute
	// remove chunks, then single ops, never the last one
	for chunk := len(cur.Ops) / 2; chunk >= 1 && budget > 0 && time.Now().Before(deadline); chunk /= 2 {
		for i := 0; i+chunk < len(cur.Ops) && budget > 0 && time.Now().Before(deadline); {
			cand := cur
			cand.Ops = append(append([]map[string]any{}, cur.Ops[:i]...), cur.Ops[i+chunk:]...)
			budget--
			if d, _, _, _, _ := differs(cand); d {
				cur = cand
			} else {
				i += chunk
			}
		}
	}
	still, st, a, b, _ := differs(cur)
	if !still {
		// fall back to the unshrunk history; if that does not differ again either, it is scheduling
		cur = r.Scenario
		cur.Ops = cur.Ops[:step+1]
		still, st, a, b, _ = differs(cur)
		if !still {
			return hcommon.Disagreement{}, false
		}
	}
	if st >= 0 && st+1 < len(cur.Ops) {
		cur.Ops = cur.Ops[:st+1]
	}
	// The model satisfies the property's theorems and the compared projection is a function of
	// the history, so an implementation that deviates on it fails the property on this input.
	d := hcommon.Disagreement{Input: cur, Impl: a, Model: b, SpecViolation: true,
		Detail: fmt.Sprintf("history %d: model and implementation differ at step %d of the minimised history (%d ops)", r.Scenario.ID, st, len(cur.Ops))}
	return d, true
}

// welcomeCheck compares the roles every WELCOME announced with the roles a router announces that
// has this realm alone, obtained from a fresh child process (package-level state of the router
// code is process-wide, so the reference must not share a process with other realms).
func welcomeCheck(sum *hcommon.Summary, all []histResult) {
	base := map[string]any{"strict": false, "disclose": false, "metaKill": true, "metaModify": false, "metaStrict": false}
	mk := func(id int, hist bool) Scenario {
		cfg := map[string]any{"uri": "r1"}
		for k, v := range base {
			cfg[k] = v
		}
		if hist {
			cfg["history"] = []any{map[string]any{"topic": "a", "match": "exact", "limit": 2}}
		}
		return Scenario{ID: id, Cfg: roundTrip(cfg), Ops: []map[string]any{roundTrip(mkJoin(1, map[string][]string{"caller": {}, "subscriber": {}}))}}
	}
	ref := map[bool]string{}
	for _, hist := range []bool{true, false} {
		// one process each: the reference for a realm with history must not come after a realm without
		rs, cid, _ := runChild(*flagOut, fmt.Sprintf("welcome-ref-%v", hist), batchReq{Property: *flagProperty, Seed: *flagSeed, Replay: []Scenario{mk(3000001, hist)}})
		if cid >= 0 || len(rs) == 0 || len(rs[0].Lines) == 0 || rs[0].Lines[0].Welcome == "" {
			sum.Notes = append(sum.Notes, "welcome reference could not be obtained")
			return
		}
		ref[hist] = rs[0].Lines[0].Welcome
	}
	hasHist := func(c map[string]any) bool { h, ok := c["history"].([]any); return ok && len(h) > 0 }
	for _, r := range all {
		cfgOf := func(name string) (map[string]any, bool) {
			if list, ok := r.Scenario.Cfg["realms"].([]any); ok {
				for _, x := range list {
					if m, ok := x.(map[string]any); ok && m["uri"] == name {
						return m, true
					}
				}
				if t, ok := r.Scenario.Cfg["template"].(map[string]any); ok {
					return t, true
				}
				return nil, false
			}
			return r.Scenario.Cfg, r.Scenario.Cfg["uri"] == name || name == ""
		}
		for i, op := range r.Scenario.Ops {
			if op["op"] != "join" || i >= len(r.Lines) || r.Lines[i].Welcome == "" {
				continue
			}
			name, _ := op["realm"].(string)
			c, ok := cfgOf(name)
			if !ok {
				continue
			}
			sum.Count("welcome_checked")
			if want := ref[hasHist(c)]; r.Lines[i].Welcome != want {
				sc := r.Scenario
				sc.Ops = sc.Ops[:i+1]
				sum.Disagreements = append(sum.Disagreements, hcommon.Disagreement{Input: sc, Impl: r.Lines[i].Welcome, Model: want, SpecViolation: true,
					Detail: fmt.Sprintf("history %d: the roles in the WELCOME of realm %q differ from what a router with that realm alone announces: what a realm tells its sessions depends on other realms", r.Scenario.ID, name)})
				return
			}
		}
	}
}
