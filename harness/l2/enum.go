package l2

import "encoding/json"

// roundTrip normalises an op to what decoding its JSON form gives (numbers as float64).
func roundTrip(v map[string]any) map[string]any {
	b, _ := json.Marshal(v)
	var r map[string]any
	json.Unmarshal(b, &r)
	return r
}

// Exhaustive small-scope histories (thorough tier): after one CALL routed to a
// callee, every sequence of length ≤ depth over a fixed alphabet of follow-up
// events (cancel in each mode, final and progressive YIELD, INVOCATION ERROR, a
// foreign YIELD, departure of callee or caller, ticks around the call timeout).

func mkJoin(k int, feats map[string][]string) map[string]any {
	roles := map[string]any{}
	helloRoles := map[string]any{}
	for role, fs := range feats {
		l := make([]any, len(fs))
		fd := map[string]any{}
		for i, f := range fs {
			l[i] = f
			fd[f] = true
		}
		roles[role] = l
		helloRoles[role] = map[string]any{"features": fd}
	}
	authid := "u" + string(rune('0'+k))
	return map[string]any{"op": "join", "s": k, "realm": "r1", "local": true, "cap": 64,
		"hello":   map[string]any{"roles": helloRoles, "authid": authid},
		"details": map[string]any{"authid": authid, "authrole": "trusted", "authmethod": "local", "authprovider": "static", "session": map[string]any{"$sid": k}},
		"roles":   roles}
}

func enumScenarios(depth int) []Scenario { return enumScenariosFor("", depth) }

// enumScenariosFor adds, for C06, a Router.Close at the end of every history (with a progressive
// call whose chunks each arm a long timer), and for C07 a callee that does not read and whose
// one-slot queue is full.
func enumScenariosFor(prop string, depth int) []Scenario {
	cfg := map[string]any{"uri": "r1", "strict": false, "disclose": false, "metaKill": true, "metaModify": false, "metaStrict": false}
	msg := func(k int, m ...any) map[string]any { return map[string]any{"op": "msg", "s": k, "m": m} }
	var res []Scenario
	type variant struct {
		calleeCancels bool
		progressive   bool // the call is a progressive call invocation with a long router-side timeout
		stalledCallee bool // the callee stopped reading and its queue (one slot) holds the INVOCATION
		forwarded     bool // progressive call invocation to a callee that handles the timeout itself (forward_timeout)
		restart       bool // progressive call invocation whose later chunks restart a short router-side timeout
		sharedFwd     bool // shared registration (policy last): the first callee handles timeouts itself, the one called does not
		blockedChunk  bool // (with progressive+stalledCallee) a later chunk has already been refused: the callee's queue was full
		stalledCaller bool // the caller does not read and its one-slot queue is full: a progressive result is being retried
		finalRetry    bool // (with stalledCaller) the result being retried is the final one
		ppt           bool // caller and callee announce payload passthru; results (progressive and final) come with ppt_* options
		kills         bool // a third session ends the callee or the caller through wamp.session.kill (also with the router's own shutdown reason)
	}
	variants := []variant{{calleeCancels: true}, {}}
	if prop == "C06" || prop == "C13" || prop == "C02" {
		variants = append(variants, variant{calleeCancels: true, progressive: true})
	}
	if prop == "C07" || prop == "C13" {
		variants = append(variants, variant{calleeCancels: true, stalledCallee: true})
	}
	if prop == "C13" || prop == "C02" || prop == "C03" {
		variants = append(variants, variant{calleeCancels: true, progressive: true, forwarded: true})
	}
	if prop == "C13" || prop == "C02" {
		variants = append(variants, variant{calleeCancels: true, progressive: true, restart: true})
	}
	if prop == "C13" || prop == "C03" {
		variants = append(variants, variant{calleeCancels: true, sharedFwd: true})
	}
	if prop == "C02" || prop == "C05" || prop == "C07" {
		variants = append(variants, variant{calleeCancels: true, progressive: true, stalledCallee: true, blockedChunk: true})
	}
	if prop == "C08" || prop == "C07" || prop == "C02" {
		variants = append(variants, variant{calleeCancels: true, stalledCaller: true},
			variant{calleeCancels: true, stalledCaller: true, finalRetry: true})
	}
	if prop == "C08" || prop == "C02" || prop == "C03" || prop == "C18" {
		variants = append(variants, variant{calleeCancels: true, ppt: true})
	}
	if prop == "C02" || prop == "C05" || prop == "C13" {
		variants = append(variants, variant{calleeCancels: true, kills: true})
	}
	for _, v := range variants {
		calleeFeats := []string{"progressive_call_results"}
		if v.calleeCancels {
			calleeFeats = append(calleeFeats, "call_canceling")
		}
		callerFeats := []string{"call_canceling", "progressive_call_results"}
		callOpts := map[string]any{"receive_progress": true, "timeout": 100}
		if v.progressive {
			calleeFeats = append(calleeFeats, "progressive_call_invocations")
			callerFeats = append(callerFeats, "progressive_call_invocations")
			callOpts = map[string]any{"receive_progress": true, "timeout": 3600000, "progress": true}
		}
		if v.ppt {
			calleeFeats = append(calleeFeats, "payload_passthru_mode")
			callerFeats = append(callerFeats, "payload_passthru_mode")
		}
		regOpts := map[string]any{}
		if v.restart {
			callOpts = map[string]any{"receive_progress": true, "timeout": 100, "progress": true}
		}
		if v.forwarded {
			calleeFeats = append(calleeFeats, "call_timeout")
			callOpts = map[string]any{"receive_progress": true, "timeout": 100, "progress": true}
			regOpts = map[string]any{"forward_timeout": true}
		}
		third := map[string][]string{"callee": {"call_canceling"}, "caller": {}}
		if v.sharedFwd {
			// whether the timeout is forwarded depends on the callee that gets the call, not on the one that registered first
			calleeFeats = append(calleeFeats, "call_timeout", "shared_registration")
			regOpts = map[string]any{"forward_timeout": true, "invoke": "last"}
			third = map[string][]string{"callee": {"call_canceling", "shared_registration"}, "caller": {}}
		}
		callee := mkJoin(2, map[string][]string{"callee": calleeFeats})
		if v.stalledCallee {
			callee["cap"] = 1
		}
		setup := []map[string]any{
			mkJoin(1, map[string][]string{"caller": callerFeats, "subscriber": {}}),
			callee,
			mkJoin(3, third),
			msg(2, 64, 1, regOpts, "p"),
		}
		if v.sharedFwd {
			setup = append(setup, msg(3, 64, 1, map[string]any{"invoke": "last"}, "p"))
		}
		if v.stalledCallee {
			setup = append(setup, map[string]any{"op": "stall", "s": 2})
		}
		if v.stalledCaller {
			// the caller's only queue slot is taken by an EVENT it does not read
			setup[0] = mkJoin(1, map[string][]string{"caller": callerFeats, "subscriber": {}})
			setup[0]["cap"] = 1
			setup = append(setup, msg(1, 32, 9, map[string]any{}, "t"), map[string]any{"op": "stall", "s": 1},
				msg(3, 16, 1, map[string]any{}, "t", []any{"filler"}, map[string]any{}))
			callOpts = map[string]any{"receive_progress": true}
		}
		setup = append(setup, msg(1, 48, 1, callOpts, "p", []any{1}, map[string]any{}))
		if v.blockedChunk {
			// the callee's one-slot queue holds the first INVOCATION: this chunk is answered "callee blocked"
			setup = append(setup, msg(1, 48, 1, map[string]any{"progress": true}, "p", []any{2}, map[string]any{}))
		}
		if v.stalledCaller {
			// the first progressive result cannot be queued: the callee's handler starts retrying
			if v.finalRetry {
				// ... or the final result: the call must stay answerable until the retry gets through or gives up
				setup = append(setup, msg(2, 70, 1, map[string]any{}, []any{"final1"}, map[string]any{}))
			} else {
				setup = append(setup, msg(2, 70, 1, map[string]any{"progress": true}, []any{"part1"}, map[string]any{}))
			}
		}
		if v.restart {
			// time passes before a later chunk re-arms the timer (with the first chunk's value: the
			// dealer reads the timeout from the options stored with the invocation)
			setup = append(setup, map[string]any{"op": "tick", "ms": 50})
		}
		alphabet := []map[string]any{
			msg(1, 49, 1, map[string]any{"mode": "skip"}),
			msg(1, 49, 1, map[string]any{"mode": "kill"}),
			msg(1, 49, 1, map[string]any{"mode": "killnowait"}),
			msg(2, 70, 1, map[string]any{}, []any{"final"}, map[string]any{}),
			msg(2, 70, 1, map[string]any{"progress": true}, []any{"part"}, map[string]any{}),
			msg(2, 8, 68, 1, map[string]any{}, "app.err", []any{"e"}, map[string]any{}),
			msg(3, 70, 1, map[string]any{}, []any{"foreign"}, map[string]any{}),
			{"op": "drop", "s": 2},
			{"op": "drop", "s": 1},
			msg(2, 66, 9, 23), // the callee unregisters (22 meta procedures come first: the registration has id 23)
			msg(2, 6, map[string]any{}, "wamp.close.normal"),
			{"op": "tick", "ms": 99},
			{"op": "tick", "ms": 1},
		}
		if v.progressive {
			alphabet = append(alphabet,
				msg(1, 48, 1, map[string]any{"progress": true}, "p", []any{2}, map[string]any{}),
				msg(1, 48, 1, map[string]any{}, "p", []any{3}, map[string]any{}))
		}
		if v.stalledCallee {
			alphabet = append(alphabet, map[string]any{"op": "resume", "s": 2})
		}
		if v.restart {
			// later chunks restart the timeout with a longer one: the first timer must not fire any more,
			// neither on this call nor, once it has completed, on a new call with the same request id
			alphabet = append(alphabet,
				msg(1, 48, 1, map[string]any{"progress": true, "timeout": 1000}, "p", []any{6}, map[string]any{}),
				msg(1, 48, 1, map[string]any{"timeout": 1000}, "p", []any{7}, map[string]any{}),
				map[string]any{"op": "tick", "ms": 101})
		}
		if v.kills {
			// a session ended by a kill has left like any other: its pending invocations are answered
			// "callee gone", its calls are forgotten (whatever reason the killer gave)
			alphabet = append(alphabet,
				msg(3, 48, 7, map[string]any{}, "wamp.session.kill", []any{map[string]any{"$sid": 2}}, map[string]any{"reason": "wamp.close.system_shutdown"}),
				msg(3, 48, 8, map[string]any{}, "wamp.session.kill", []any{map[string]any{"$sid": 2}}, map[string]any{}),
				msg(3, 48, 9, map[string]any{}, "wamp.session.kill", []any{map[string]any{"$sid": 1}}, map[string]any{"reason": "wamp.close.system_shutdown"}))
		}
		if v.ppt {
			alphabet = append(alphabet,
				msg(2, 70, 1, map[string]any{"progress": true, "ppt_scheme": "mqtt"}, []any{"pptpart"}, map[string]any{}),
				msg(2, 70, 1, map[string]any{"ppt_scheme": "mqtt", "ppt_serializer": "cbor"}, []any{"pptfinal"}, map[string]any{}),
				msg(3, 48, 1, map[string]any{"ppt_scheme": "mqtt"}, "p", []any{"no-feature"}, map[string]any{}))
		}
		if v.stalledCaller {
			alphabet = append(alphabet, map[string]any{"op": "tick", "ms": 6000}, map[string]any{"op": "tick", "ms": 61000},
				map[string]any{"op": "resume", "s": 1},
				msg(2, 70, 1, map[string]any{"progress": true}, []any{"part2"}, map[string]any{}))
		}
		if v.sharedFwd {
			alphabet = append(alphabet, map[string]any{"op": "tick", "ms": 101},
				msg(3, 70, 1, map[string]any{}, []any{"by3"}, map[string]any{}))
		}
		if v.forwarded {
			// later chunks carrying the timeout again, and enough time for a router-side timer to fire
			alphabet = append(alphabet,
				msg(1, 48, 1, map[string]any{"progress": true, "timeout": 100}, "p", []any{4}, map[string]any{}),
				msg(1, 48, 1, map[string]any{"timeout": 100}, "p", []any{5}, map[string]any{}),
				map[string]any{"op": "tick", "ms": 101})
		}
		var rec func(prefix []map[string]any, d int)
		rec = func(prefix []map[string]any, d int) {
			if len(prefix) > 0 {
				ops := append(append([]map[string]any{}, setup...), prefix...)
				ops = append(ops, map[string]any{"op": "snapshot"})
				if prop == "C06" {
					ops = append(ops, map[string]any{"op": "close"})
				}
				res = append(res, Scenario{ID: 1000000 + len(res), Cfg: cfg, Ops: ops})
			}
			if d == 0 {
				return
			}
			for _, a := range alphabet {
				rec(append(append([]map[string]any{}, prefix...), a), d-1)
			}
		}
		rec(nil, depth)
	}
	for i := range res {
		res[i].Cfg = roundTrip(res[i].Cfg)
		for j := range res[i].Ops {
			res[i].Ops[j] = roundTrip(res[i].Ops[j])
		}
	}
	return res
}

// enumShared enumerates histories over one shared registration with three
// callees: calls interleaved with callees unregistering, leaving and
// re-registering, for each invocation policy.
func enumShared(depth int) []Scenario {
	cfg := map[string]any{"uri": "r1", "strict": false, "disclose": false, "metaKill": true, "metaModify": false, "metaStrict": false}
	msg := func(k int, m ...any) map[string]any { return map[string]any{"op": "msg", "s": k, "m": m} }
	var res []Scenario
	type variant struct {
		policy   string
		precalls int // calls made before the enumerated part (moves the round-robin cursor)
	}
	variants := []variant{{"first", 0}, {"last", 0}, {"roundrobin", 0}, {"roundrobin", 1}, {"roundrobin", 2}, {"roundrobin", 3}}
	for _, v := range variants {
		policy := v.policy
		callee := map[string][]string{"callee": {"shared_registration"}}
		setup := []map[string]any{
			mkJoin(1, callee), mkJoin(2, callee), mkJoin(3, callee),
			mkJoin(4, map[string][]string{"caller": {}}),
			msg(1, 64, 1, map[string]any{"invoke": policy}, "p"),
			msg(2, 64, 1, map[string]any{"invoke": policy}, "p"),
			msg(3, 64, 1, map[string]any{"invoke": policy}, "p"),
		}
		for i := 0; i < v.precalls; i++ {
			setup = append(setup, msg(4, 48, 200+i, map[string]any{}, "p", []any{i}, map[string]any{}))
		}
		// registration id of "p": 22 meta procedures (metaKill) come first
		const regID = 23
		type ev struct {
			name string
			op   func(n int) map[string]any
		}
		alphabet := []ev{
			{"call", func(n int) map[string]any {
				return msg(4, 48, 100+n, map[string]any{}, "p", []any{n}, map[string]any{})
			}},
			{"unreg1", func(n int) map[string]any { return msg(1, 66, 50+n, regID) }},
			{"drop2", func(n int) map[string]any { return map[string]any{"op": "drop", "s": 2} }},
			{"unreg3", func(n int) map[string]any { return msg(3, 66, 50+n, regID) }},
			{"rereg1", func(n int) map[string]any { return msg(1, 64, 70+n, map[string]any{"invoke": policy}, "p") }},
		}
		var rec func(prefix []map[string]any, d int)
		rec = func(prefix []map[string]any, d int) {
			if len(prefix) > 0 {
				ops := append(append([]map[string]any{}, setup...), prefix...)
				res = append(res, Scenario{ID: 2000000 + len(res), Cfg: cfg, Ops: ops})
			}
			if d == 0 {
				return
			}
			for _, a := range alphabet {
				rec(append(append([]map[string]any{}, prefix...), a.op(len(prefix))), d-1)
			}
		}
		rec(nil, depth)
	}
	for i := range res {
		res[i].Cfg = roundTrip(res[i].Cfg)
		for j := range res[i].Ops {
			res[i].Ops[j] = roundTrip(res[i].Ops[j])
		}
	}
	return res
}
