package l2

import (
	"fmt"
	"strings"

	"verif/harness/hcommon"
)

// genState is what the online generator has observed so far; ids come from the
// implementation's own answers so that histories stay mostly valid.
type genState struct {
	rng          *hcommon.RNG
	prop         string
	nextKey      int
	live         []int         // attached session keys
	nextReq      map[int]int   // per session request counter
	subs         map[int][]int // session -> subscription ids it holds
	regs         map[int][]int // session -> registration ids it holds
	invs         map[int][]int // callee -> pending invocation ids
	calls        map[int][]int // caller -> pending call request ids
	allSubs      []int
	allRegs      []int
	features     map[int]map[string][]string
	metaReq      map[string]bool
	cfg          map[string]any
	realms       []string       // realm names (multi-realm histories)
	realmOf      map[int]string // session -> realm
	stalled      map[int]bool
	usedMeta     map[int]bool   // sessions that called a wamp.* procedure (never stalled: known finding F19)
	regPolicy    map[string]any // policy first used for a procedure
	viaTransport map[int]bool   // sessions attached through rawsocket/websocket (never stalled)
	pubsSeen     []int          // one entry per PUBLISHED observed ({"$pub": j} refers to the j-th)
	regProcs     []string       // procedures somebody tried to register (calls aim at them)
	subTopics    []string       // topics somebody tried to subscribe to exactly (publications aim at them)
	smallCap     map[int]bool   // sessions with a tiny queue: they never subscribe (which of several events of one
	// action overflows depends on Go map iteration order)
	closed   bool
	tstOps   map[int]int // C18: testament calls made by a session (episodes: both scopes, flush one, leave)
	forceSel int         // when > 0: the meta procedure the next metaCall picks
}

var topics = []string{"a", "a.b", "a.b.c", "a.c", "b", "x.y", "a.b.c.d", "a.bb", "aa.b", "a.b.cc", "ab"}
var badURIs = []string{"", "a..b", "a.", ".a", "a b", "A.b", "a#b", "a.b."}
var pfxPatterns = []string{"a", "a.", "a.b", "", "x", "a.b.c"}
var wcPatterns = []string{"a..c", ".b", "a.", "..", "", "a.b.", "..c"}
var procs = []string{"p", "p.q", "p.q.r", "q", "p.x", "p.q.rr", "pp.q", "pq"}
var metaTopics = []string{"wamp.session.on_join", "wamp.session.on_leave", "wamp.subscription.on_create",
	"wamp.subscription.on_subscribe", "wamp.subscription.on_unsubscribe", "wamp.subscription.on_delete",
	"wamp.registration.on_create", "wamp.registration.on_register", "wamp.registration.on_unregister",
	"wamp.registration.on_delete"}

var roleFeatures = map[string][]string{
	"publisher":  {"payload_passthru_mode", "publisher_exclusion"},
	"subscriber": {"publisher_identification", "pattern_based_subscription", "payload_passthru_mode"},
	"caller":     {"call_canceling", "progressive_call_results", "progressive_call_invocations", "payload_passthru_mode", "caller_identification"},
	"callee":     {"call_canceling", "call_timeout", "progressive_call_results", "progressive_call_invocations", "caller_identification", "payload_passthru_mode", "shared_registration"},
}

func newGen(rng *hcommon.RNG, prop string) *genState {
	return &genState{rng: rng, prop: prop, nextKey: 1, nextReq: map[int]int{}, subs: map[int][]int{}, regs: map[int][]int{},
		invs: map[int][]int{}, calls: map[int][]int{}, features: map[int]map[string][]string{}, metaReq: map[string]bool{},
		realmOf: map[int]string{}, stalled: map[int]bool{}, usedMeta: map[int]bool{}, smallCap: map[int]bool{}, regPolicy: map[string]any{}, viaTransport: map[int]bool{}}
}

func (g *genState) config() map[string]any {
	r := g.rng
	cfg := map[string]any{"uri": "r1", "strict": r.Chance(1, 8), "disclose": r.Chance(1, 2) || (g.prop == "C12" && r.Chance(1, 2)), "metaKill": r.Chance(3, 4),
		"metaModify": r.Chance(1, 2) || g.prop == "C18", "metaStrict": r.Chance(1, 5)}
	if boolOf(cfg, "metaStrict") && r.Chance(1, 2) {
		cfg["metaInc"] = []any{"team"}
	}
	if r.Chance(1, 3) || g.prop == "C20" || g.prop == "C11" {
		var hs []any
		lim := func() int {
			if g.prop == "C20" {
				return 1 + r.Intn(6)
			}
			return 1 + r.Intn(3)
		}
		for i := 0; i < 1+r.Intn(2); i++ {
			switch r.Intn(3) {
			case 0:
				hs = append(hs, map[string]any{"topic": hcommon.Pick(r, topics), "match": "exact", "limit": lim()})
			case 1:
				hs = append(hs, map[string]any{"topic": hcommon.Pick(r, []string{"a", "a.b", "x"}), "match": "prefix", "limit": lim()})
			default:
				hs = append(hs, map[string]any{"topic": hcommon.Pick(r, []string{"a..c", "a."}), "match": "wildcard", "limit": lim()})
			}
		}
		cfg["history"] = hs
	}
	if g.prop == "C10" || r.Chance(1, 6) {
		var rules []any
		for i := 0; i < 1+r.Intn(4); i++ {
			rule := map[string]any{"type": hcommon.Pick(r, []int{0, 16, 32, 34, 48, 49, 64, 66, 70}),
				"uri": hcommon.Pick(r, []string{"", "", "a.b", "p", "a"}), "decision": hcommon.Pick(r, []string{"deny", "deny", "fail", "allow", "allowerr"})}
			if r.Chance(1, 3) {
				rule["sess"] = 1 + r.Intn(3)
			}
			rules = append(rules, rule)
		}
		cfg["authz"] = rules
		cfg["localAuthz"] = r.Chance(1, 2)
	}
	g.realms = []string{"r1"}
	first := cfg
	if g.prop == "C11" || g.prop == "C06" || r.Chance(1, 10) || (g.prop == "C10" && r.Chance(1, 3)) {
		// a second realm with the same URIs in use; its own settings
		cfg2 := map[string]any{"uri": "r2", "strict": false, "disclose": r.Chance(1, 2), "metaKill": r.Chance(3, 4),
			"metaModify": r.Chance(1, 2), "metaStrict": false}
		if hs, ok := cfg["history"]; ok && r.Chance(3, 4) {
			cfg2["history"] = hs
		}
		g.realms = append(g.realms, "r2")
		cfg = map[string]any{"realms": []any{cfg, cfg2}}
		if r.Chance(1, 2) {
			// realms created on demand from a template (with the same history configuration)
			tmpl := map[string]any{"uri": "tmpl", "strict": false, "disclose": true, "metaKill": true, "metaModify": false, "metaStrict": false}
			if hs, ok := cfg2["history"]; ok {
				tmpl["history"] = hs
			} else if r.Chance(1, 2) {
				tmpl["history"] = []any{map[string]any{"topic": "a", "match": "prefix", "limit": 2}}
			}
			if rules, ok := first["authz"]; ok && r.Chance(2, 3) {
				// realms created from the template get the template's Authorizer and local-session policy
				tmpl["authz"] = rules
				tmpl["localAuthz"] = first["localAuthz"]
			}
			cfg["template"] = tmpl
			g.realms = append(g.realms, "t1", "t2", "bad realm")
		}
	}
	g.cfg = cfg
	return cfg
}

func (g *genState) req(k int) int { g.nextReq[k]++; return g.nextReq[k] }

func (g *genState) anySession() int {
	if len(g.live) == 0 {
		return 0
	}
	return hcommon.Pick(g.rng, g.live)
}

// joinOp builds a join for a new session: the HELLO the client sends, and the
// session details and role table the model is given (what AttachClient computes).
func (g *genState) joinOp() map[string]any {
	r := g.rng
	k := g.nextKey
	g.nextKey++
	local := r.Chance(3, 5)
	if g.prop == "C15" {
		local = r.Chance(1, 4)
	}
	if g.prop == "C12" {
		// recipients that are not in-process: the broker may not share one message among them
		local = r.Chance(1, 3)
	}
	roles := map[string]any{}
	feats := map[string][]string{}
	helloRoles := map[string]any{}
	for _, role := range []string{"publisher", "subscriber", "caller", "callee"} {
		if r.Chance(1, 12) {
			continue
		}
		fs := []string{}
		fd := map[string]any{}
		for _, f := range roleFeatures[role] {
			if r.Chance(2, 3) {
				fs = append(fs, f)
				fd[f] = true
			} else if r.Chance(1, 6) {
				fd[f] = false
			}
		}
		feats[role] = fs
		l := make([]any, len(fs))
		for i := range fs {
			l[i] = fs[i]
		}
		roles[role] = l
		helloRoles[role] = map[string]any{"features": fd}
	}
	if len(roles) == 0 {
		roles["caller"] = []any{}
		helloRoles["caller"] = map[string]any{}
		feats["caller"] = nil
	}
	authid := hcommon.Pick(r, []string{"alice", "bob", fmt.Sprintf("u%d", k)})
	hello := map[string]any{"roles": helloRoles, "authid": authid}
	details := map[string]any{"authid": authid, "session": map[string]any{"$sid": k}}
	if r.Chance(1, 2) {
		team := hcommon.Pick(r, []string{"red", "blue"})
		hello["team"] = team
		details["team"] = team
	}
	if local {
		details["authrole"] = "trusted"
		details["authmethod"] = "local"
		details["authprovider"] = "static"
	} else {
		role := hcommon.Pick(r, []string{"user", "admin", "anonymous", "trusted"})
		hello["x_authid"] = authid
		hello["x_authrole"] = role
		details["x_authid"] = authid
		details["x_authrole"] = role
		details["authrole"] = role
		details["authmethod"] = "anonymous"
		details["authprovider"] = "static"
	}
	g.features[k] = feats
	g.live = append(g.live, k)
	var transport map[string]any
	if !local && r.Chance(1, 2) {
		// what a websocket/rawsocket server would pass to AttachClient
		transport = hcommon.Pick(r, []map[string]any{
			{"peer": "10.0.0.1:999", "auth": map[string]any{"cookie": "secret", "request": "GET /"}},
			{"auth": map[string]any{"x": 1}},
			{"peer": "10.0.0.2:1"},
		})
		details["transport"] = transport
	}
	realm := "r1"
	if len(g.realms) > 0 {
		realm = hcommon.Pick(r, g.realms)
	}
	g.realmOf[k] = realm
	capacity := 64
	if (g.prop == "C07" || g.prop == "C10") && r.Chance(1, 2) {
		capacity = 1 + r.Intn(3)
		g.smallCap[k] = true
	}
	op := map[string]any{"op": "join", "s": k, "realm": realm, "local": local, "hello": hello, "details": details, "roles": roles, "cap": capacity}
	if !local && capacity == 64 && (g.prop == "C15" || r.Chance(1, 8)) {
		// attach through a real transport and serializer (transport transparency, C15)
		op["via"] = hcommon.Pick(r, []string{"rawsocket", "websocket"}) + ":" + hcommon.Pick(r, []string{"json", "msgpack", "cbor"})
		g.viaTransport[k] = true
	}
	if transport != nil {
		op["transport"] = transport
	}
	return op
}

func (g *genState) payload() ([]any, map[string]any) {
	r := g.rng
	var args []any
	var kw map[string]any
	switch r.Intn(5) {
	case 0:
	case 1:
		args = []any{r.Intn(100)}
	case 2:
		args = []any{"s", r.Intn(5), true, nil, []any{1, 2}, map[string]any{"n": 1}}
	case 3:
		kw = map[string]any{"k": r.Intn(9)}
	default:
		args = []any{r.Intn(100), "x"}
		kw = map[string]any{"a": []any{}, "b": "y"}
	}
	return args, kw
}

func (g *genState) sidRef() any {
	r := g.rng
	if r.Chance(1, 8) || len(g.live) == 0 {
		return map[string]any{"$sid": 90 + r.Intn(3)} // no such session
	}
	return map[string]any{"$sid": hcommon.Pick(r, g.live)}
}

func (g *genState) pubOptions() map[string]any {
	r := g.rng
	o := map[string]any{}
	if r.Chance(1, 2) || g.prop == "C20" {
		o["acknowledge"] = hcommon.Pick(r, []any{true, true, false, "yes"})
	}
	if r.Chance(1, 3) {
		o["exclude_me"] = hcommon.Pick(r, []any{false, false, true, 0})
	}
	if r.Chance(1, 4) || (g.prop == "C12" && r.Chance(1, 2)) {
		o["disclose_me"] = hcommon.Pick(r, []any{true, true, false, 1})
	}
	if r.Chance(1, 6) {
		o["exclude"] = []any{g.sidRef(), g.sidRef()}
	}
	if r.Chance(1, 6) {
		o["eligible"] = hcommon.Pick(r, []any{[]any{g.sidRef()}, []any{g.sidRef(), g.sidRef()}, []any{}, "x"})
	}
	if r.Chance(1, 8) {
		o["exclude_authid"] = []any{hcommon.Pick(r, []string{"alice", "bob"})}
	}
	if r.Chance(1, 8) {
		o["eligible_authrole"] = hcommon.Pick(r, []any{[]any{"trusted"}, []any{"user", "admin"}, []any{""}, []any{1}})
	}
	if r.Chance(1, 10) {
		o["eligible_team"] = []any{hcommon.Pick(r, []string{"red", "blue"})}
	}
	if r.Chance(1, 10) {
		o["exclude_team"] = []any{"red"}
	}
	if r.Chance(1, 12) {
		o["ppt_scheme"] = hcommon.Pick(r, []any{"mqtt", "", 5})
		if r.Chance(1, 2) {
			o["ppt_serializer"] = hcommon.Pick(r, []any{"cbor", 7, nil})
		}
		if r.Chance(1, 3) {
			o["ppt_cipher"] = hcommon.Pick(r, []any{"x", false})
		}
	}
	return o
}

func (g *genState) matchOpt(o map[string]any) (string, string) {
	r := g.rng
	switch r.Intn(10) {
	case 0, 1, 2:
		o["match"] = "prefix"
		return "prefix", hcommon.Pick(r, pfxPatterns)
	case 3, 4:
		o["match"] = "wildcard"
		return "wildcard", hcommon.Pick(r, wcPatterns)
	case 5:
		o["match"] = hcommon.Pick(r, []any{"exact", "bogus", 3})
		return "exact", hcommon.Pick(r, topics)
	}
	return "exact", hcommon.Pick(r, topics)
}

var optionKeys = []string{"acknowledge", "disclose_caller", "disclose_me", "exclude_me", "invoke", "match", "mode",
	"progress", "receive_progress", "timeout", "ppt_scheme", "ppt_serializer", "ppt_cipher", "ppt_keyid", "forward_timeout",
	"exclude", "eligible", "exclude_authid", "eligible_authid", "exclude_authrole", "eligible_authrole", "eligible_team", "exclude_", "eligible_"}

// hostile overrides option keys with values of every WAMP kind (C04: any value type in any option position).
func (g *genState) hostile(o map[string]any) map[string]any {
	r := g.rng
	if !(g.prop == "C04" && r.Chance(1, 2)) && !r.Chance(1, 25) {
		return o
	}
	vals := []any{nil, true, false, 0, 1, -1, 9007199254740992, "x", "", "prefix", "kill", []any{}, map[string]any{},
		[]any{1, "a", nil}, map[string]any{"a": 1}, []any{[]any{}}, "mqtt", []any{""}, []any{map[string]any{"$sid": 1}}}
	for i := 0; i < 1+r.Intn(3); i++ {
		o[hcommon.Pick(r, optionKeys)] = hcommon.Pick(r, vals)
	}
	return o
}

func pickInt(r *hcommon.RNG, xs []int, fallback int) int {
	if len(xs) == 0 || r.Chance(1, 10) {
		return fallback
	}
	return hcommon.Pick(r, xs)
}

// next produces the next operation.
func (g *genState) next() map[string]any {
	r := g.rng
	if len(g.live) < 2 || (len(g.live) < 5 && r.Chance(1, 14)) {
		return g.joinOp()
	}
	k := g.anySession()
	msg := func(m ...any) map[string]any { return map[string]any{"op": "msg", "s": k, "m": m} }
	if g.prop == "C18" && r.Chance(1, 3) {
		// a testament episode: one session adds testaments (both scopes come up), flushes (all or one
		// scope), and leaves: exactly what it has not flushed is published, as it asked
		if g.tstOps == nil {
			g.tstOps = map[int]int{}
		}
		for _, c := range g.live {
			if g.tstOps[c] > 0 && r.Chance(2, 3) {
				k = c
				break
			}
		}
		if !g.stalled[k] && !g.smallCap[k] {
			if g.tstOps[k] >= 3 && r.Chance(1, 2) {
				g.remove(k)
				delete(g.tstOps, k)
				if r.Chance(1, 2) {
					return map[string]any{"op": "drop", "s": k}
				}
				return msg(6, map[string]any{}, "wamp.close.close_realm")
			}
			g.tstOps[k]++
			g.usedMeta[k] = true
			g.forceSel = 22
			if g.tstOps[k] >= 3 && r.Chance(1, 2) {
				g.forceSel = 23
			}
			return g.metaCall(k)
		}
	}
	if (g.prop == "C06" || g.prop == "C11") && r.Chance(1, 25) {
		switch r.Intn(4) {
		case 0:
			if g.prop == "C06" {
				g.live = nil
				g.closed = true
				return map[string]any{"op": "close"}
			}
		case 1:
			name := hcommon.Pick(r, []string{"r2", "r2", "r3", "r1"})
			var keep []int
			for _, x := range g.live {
				if g.realmOf[x] != name {
					keep = append(keep, x)
				}
			}
			g.live = keep
			for i, n := range g.realms {
				if n == name {
					g.realms = append(g.realms[:i:i], g.realms[i+1:]...)
					break
				}
			}
			return map[string]any{"op": "removeRealm", "realm": name}
		case 2:
			name := hcommon.Pick(r, []string{"r2", "r3", "bad realm"})
			ok := name != "bad realm"
			for _, n := range g.realms {
				if n == name {
					ok = false
				}
			}
			if ok && !g.closed {
				g.realms = append(g.realms, name)
			}
			return map[string]any{"op": "addRealm", "cfg": map[string]any{"uri": name, "disclose": true, "metaKill": true}}
		}
	}
	if (g.prop == "C05" && r.Chance(1, 6)) || r.Chance(1, 40) {
		return map[string]any{"op": "snapshot"}
	}
	if len(g.realms) == 0 || g.closed {
		if r.Chance(1, 2) {
			return map[string]any{"op": "tick", "ms": 1000}
		}
		op := g.joinOp() // refused: no realm / router closed
		g.remove(int(num(op["s"])))
		if len(g.realms) == 0 {
			op["realm"] = "r1"
		}
		return op
	}
	if (g.prop == "C07" || g.prop == "C10") && r.Chance(1, 8) {
		// stall or resume a session (never one that used the meta API: F19)
		if g.stalled[k] {
			g.stalled[k] = false
			return map[string]any{"op": "resume", "s": k}
		}
		if !g.usedMeta[k] && !g.viaTransport[k] {
			g.stalled[k] = true
			return map[string]any{"op": "stall", "s": k}
		}
	}
	w := r.Intn(100)
	if g.histBias() && r.Chance(1, 2) {
		w = hcommon.Pick(r, []int{20, 20, 85, 85, 85, 10}) // publish / meta call / subscribe
	}
	switch {
	case w < 14: // SUBSCRIBE
		if g.smallCap[k] {
			return map[string]any{"op": "tick", "ms": 1}
		}
		o := map[string]any{}
		_, t := g.matchOpt(o)
		if r.Chance(1, 10) {
			t = hcommon.Pick(r, badURIs)
		}
		if r.Chance(1, 6) || (g.prop == "C18" && r.Chance(1, 2)) {
			// observers of meta events; several subscriptions (exact and prefix) matching one meta topic
			t = hcommon.Pick(r, metaTopics)
			if r.Chance(1, 3) {
				o["match"] = "prefix"
				t = hcommon.Pick(r, []string{"wamp.", "wamp.session.", "wamp.subscription.", "wamp.registration."})
			}
		}
		if g.prop == "C12" && len(g.subTopics) > 0 && r.Chance(1, 2) {
			// several sessions on one subscription: recipients of one publication that differ in what they may see
			t = hcommon.Pick(r, g.subTopics)
			delete(o, "match")
		}
		if _, pattern := o["match"]; !pattern {
			g.subTopics = append(g.subTopics, t)
		}
		return msg(32, g.req(k), g.hostile(o), t)
	case w < 19: // UNSUBSCRIBE
		return msg(34, g.req(k), pickInt(r, append(append([]int{}, g.subs[k]...), g.allSubs...), 1+r.Intn(8)))
	case w < 38: // PUBLISH
		t := hcommon.Pick(r, topics)
		if g.histBias() && r.Chance(3, 4) {
			t = hcommon.Pick(r, g.histTopics())
		} else if len(g.subTopics) > 0 && r.Chance(1, 2) {
			t = hcommon.Pick(r, g.subTopics)
		}
		if r.Chance(1, 12) {
			t = hcommon.Pick(r, badURIs)
		}
		args, kw := g.payload()
		return msg(16, g.req(k), g.hostile(g.pubOptions()), t, args, kw)
	case w < 48: // REGISTER
		o := map[string]any{}
		p := hcommon.Pick(r, procs)
		switch r.Intn(8) {
		case 0:
			o["match"] = "prefix"
			p = hcommon.Pick(r, []string{"p", "p.", "p.q", ""})
		case 1:
			o["match"] = "wildcard"
			// no two patterns of equal length match one procedure: the dealer
			// prefers the longest matching pattern and leaves a tie to Go's
			// map iteration order, which the property does not constrain
			p = hcommon.Pick(r, []string{"p..r", "..r", "p.", ""})
		}
		if r.Chance(1, 2) {
			o["invoke"] = hcommon.Pick(r, []any{"single", "first", "last", "roundrobin", "roundrobin", "first", "bogus"})
		}
		if pol, ok := g.regPolicy[p]; ok && r.Chance(4, 5) {
			// share the registration: same procedure, same policy
			if pol == nil {
				delete(o, "invoke")
			} else {
				o["invoke"] = pol
			}
			delete(o, "match")
		}
		if r.Chance(1, 5) || (g.prop == "C12" && r.Chance(1, 2)) {
			o["disclose_caller"] = true
		}
		if r.Chance(1, 5) {
			o["forward_timeout"] = true
		}
		if r.Chance(1, 12) {
			p = hcommon.Pick(r, append(badURIs, "wamp.x", "wamp.session.count"))
		}
		if _, pattern := o["match"]; !pattern && !strings.HasPrefix(p, "wamp.") {
			g.regProcs = append(g.regProcs, p)
			if _, seen := g.regPolicy[p]; !seen {
				g.regPolicy[p] = o["invoke"]
			}
		}
		return msg(64, g.req(k), g.hostile(o), p)
	case w < 52: // UNREGISTER
		return msg(66, g.req(k), pickInt(r, append(append([]int{}, g.regs[k]...), g.allRegs...), 20+r.Intn(8)))
	case w < 66: // CALL
		o := map[string]any{}
		if r.Chance(1, 4) {
			o["receive_progress"] = hcommon.Pick(r, []any{true, true, false})
		}
		if r.Chance(1, 6) || (g.prop == "C12" && r.Chance(1, 2)) {
			o["disclose_me"] = true
		}
		if r.Chance(1, 5) {
			o["timeout"] = hcommon.Pick(r, []any{50, 100, 1000, 0, -5, "x"})
		}
		if g.prop == "C13" && r.Chance(1, 3) {
			// timeouts of centuries: in milliseconds they do not fit a time.Duration; the call
			// must simply never time out within the run (F21; seeded change C13-9: a product
			// that wraps around to a small positive duration)
			o["timeout"] = hcommon.Pick(r, []any{18446744073710, 9223372036855, 9223372036854, 27670116110565})
		}
		if r.Chance(1, 10) {
			o["progress"] = true
		}
		if r.Chance(1, 14) {
			o["ppt_scheme"] = hcommon.Pick(r, []any{"mqtt", 9})
			if r.Chance(1, 2) {
				o["ppt_keyid"] = hcommon.Pick(r, []any{"k", 1})
			}
		}
		p := hcommon.Pick(r, append([]string{"p.q.r.s", "zz"}, procs...))
		if len(g.regProcs) > 0 && r.Chance(2, 3) {
			p = hcommon.Pick(r, g.regProcs)
		}
		args, kw := g.payload()
		rq := g.req(k)
		if r.Chance(1, 12) && len(g.calls[k]) > 0 {
			rq = hcommon.Pick(r, g.calls[k]) // reuse the id of a pending call (a progressive chunk)
			o["progress"] = r.Chance(1, 2)
		}
		if g.smallCap[k] && len(g.calls[k]) > 0 {
			// a session with a tiny queue has one call pending at most: when its
			// callee leaves, the dealer cancels that session's calls in Go map
			// order, and which of several ERRORs still fits is not defined
			rq = g.calls[k][0]
		}
		return msg(48, rq, g.hostile(o), p, args, kw)
	case w < 74: // YIELD
		o := map[string]any{}
		if r.Chance(1, 4) {
			o["progress"] = true
		}
		if r.Chance(1, 14) || (o["progress"] == true && r.Chance(1, 4)) {
			o["ppt_scheme"] = "mqtt"
		}
		args, kw := g.payload()
		// a callee with something pending is more interesting
		for _, c := range g.live {
			if len(g.invs[c]) > 0 && r.Chance(2, 3) {
				k = c
				break
			}
		}
		return map[string]any{"op": "msg", "s": k, "m": []any{70, pickInt(r, g.invs[k], 1+r.Intn(4)), g.hostile(o), args, kw}}
	case w < 78: // ERROR
		args, kw := g.payload()
		typ := 68
		if r.Chance(1, 12) {
			typ = hcommon.Pick(r, []int{48, 16, 0})
		}
		for _, c := range g.live {
			if len(g.invs[c]) > 0 && r.Chance(1, 2) {
				k = c
				break
			}
		}
		return map[string]any{"op": "msg", "s": k, "m": []any{8, typ, pickInt(r, g.invs[k], 1+r.Intn(4)), map[string]any{"d": 1}, hcommon.Pick(r, []string{"app.err", "wamp.error.canceled"}), args, kw}}
	case w < 84: // CANCEL
		o := map[string]any{}
		if r.Chance(3, 4) {
			o["mode"] = hcommon.Pick(r, []any{"skip", "kill", "killnowait", "kill", "bogus", 4})
		}
		for _, c := range g.live {
			if len(g.calls[c]) > 0 && r.Chance(2, 3) {
				k = c
				break
			}
		}
		return map[string]any{"op": "msg", "s": k, "m": []any{49, pickInt(r, g.calls[k], 1+r.Intn(6)), g.hostile(o)}}
	case w < 92: // meta procedure call
		if g.stalled[k] || g.smallCap[k] {
			return map[string]any{"op": "tick", "ms": hcommon.Pick(r, []int{1, 2, 4, 1000})}
		}
		g.usedMeta[k] = true
		return g.metaCall(k)
	case w < 94:
		return map[string]any{"op": "tick", "ms": hcommon.Pick(r, []int{1, 49, 50, 51, 100, 1000, 5000, 70000})}
	case w < 96:
		g.remove(k)
		if r.Chance(1, 2) {
			return map[string]any{"op": "drop", "s": k}
		}
		return msg(6, map[string]any{}, "wamp.close.close_realm")
	case w < 97: // protocol violation
		g.remove(k)
		return msg(hcommon.Pick(r, []int{1, 2, 5, 17, 33, 36, 50, 65, 68, 69}))
	}
	return g.joinOp()
}

// histTopics returns topics that match the configured event-history subscriptions.
func (g *genState) histTopics() []string {
	res := []string{}
	cfgs := []map[string]any{g.cfg}
	if l, ok := g.cfg["realms"].([]any); ok {
		cfgs = nil
		for _, x := range l {
			if m, ok := x.(map[string]any); ok {
				cfgs = append(cfgs, m)
			}
		}
	}
	for _, c := range cfgs {
		hs, _ := c["history"].([]any)
		for _, h := range hs {
			m, _ := h.(map[string]any)
			t, _ := m["topic"].(string)
			switch m["match"] {
			case "prefix":
				res = append(res, t+".z", t+"b", t)
			case "wildcard":
				res = append(res, "a.b.c", "a.x.c", "a.b")
			default:
				res = append(res, t)
			}
		}
	}
	if len(res) == 0 {
		return topics
	}
	return res
}

// histBias: the history-oriented choices (publications to history topics, get_events) are
// made for C20 and, half of the time, for the multi-realm property.
func (g *genState) histBias() bool {
	return g.prop == "C20" || (g.prop == "C11" && g.rng.Chance(1, 2))
}

func (g *genState) anySmallCap() bool {
	for _, k := range g.live {
		if g.smallCap[k] {
			return true
		}
	}
	return false
}

func (g *genState) remove(k int) {
	for i, x := range g.live {
		if x == k {
			g.live = append(g.live[:i:i], g.live[i+1:]...)
			break
		}
	}
}

func (g *genState) metaCall(k int) map[string]any {
	r := g.rng
	rq := g.req(k)
	g.metaReq[fmt.Sprintf("%d/%d", k, rq)] = true
	call := func(proc string, args []any, kw map[string]any) map[string]any {
		return map[string]any{"op": "msg", "s": k, "m": []any{48, rq, map[string]any{}, proc, args, kw}}
	}
	subID := pickInt(r, g.allSubs, 1+r.Intn(6))
	if g.histBias() && r.Chance(3, 4) {
		subID = 1 + r.Intn(2) // the pre-created history subscriptions
	}
	regID := pickInt(r, g.allRegs, 20+r.Intn(6))
	sel := r.Intn(24)
	if g.forceSel > 0 {
		defer func() { g.forceSel = 0 }()
	}
	if g.histBias() && r.Chance(2, 3) {
		sel = 21
	}
	if g.prop == "C12" && r.Chance(1, 2) {
		sel = 3 // wamp.session.get
	}
	if g.prop == "C18" && r.Chance(1, 3) {
		// identities change under modify_details: counts and lists with a filter must keep agreeing
		sel = hcommon.Pick(r, []int{1, 2, 8, 8})
	}
	if g.forceSel > 0 {
		sel = g.forceSel
	}
	if g.prop == "C11" && r.Chance(1, 4) {
		sel = 4 + r.Intn(4) // kills in one realm, then in another: what the victims are told is each call's own
	}
	switch sel {
	case 0:
		return call("wamp.session.count", nil, nil)
	case 1:
		return call("wamp.session.count", []any{hcommon.Pick(r, []any{[]any{"trusted"}, []any{"user", "admin"}, []any{}, "x", []any{1}})}, nil)
	case 2:
		return call("wamp.session.list", hcommon.Pick(r, [][]any{nil, {[]any{"trusted"}}, {[]any{"anonymous", "user"}}}), nil)
	case 3:
		return call("wamp.session.get", hcommon.Pick(r, [][]any{{g.sidRef()}, {g.sidRef()}, nil, {"x"}}), nil)
	case 4:
		kw := map[string]any{}
		if r.Chance(1, 2) {
			// (the router's own shutdown reason must not make a killed session leave as in a realm shutdown)
			kw["reason"] = hcommon.Pick(r, []any{"app.kick", "bad uri", "", "wamp.close.system_shutdown", "wamp.close.system_shutdown"})
		}
		if r.Chance(1, 2) {
			kw["message"] = "bye"
		}
		if g.prop == "C11" && r.Chance(1, 2) {
			kw = map[string]any{} // the default kind of GOODBYE
		}
		return call("wamp.session.kill", []any{g.sidRef()}, kw)
	case 5:
		if g.anySmallCap() {
			// several sessions killed at once leave concurrently: what still fits
			// into a tiny queue (GOODBYE or the ERROR for a call whose callee was
			// killed too) depends on the order of their handlers
			return call("wamp.session.count", nil, nil)
		}
		return call("wamp.session.kill_by_authid", []any{hcommon.Pick(r, []any{"alice", "bob", "nobody", 3})}, map[string]any{"reason": hcommon.Pick(r, []any{"app.kick", "wamp.close.system_shutdown"})})
	case 6:
		if g.anySmallCap() {
			return call("wamp.session.count", nil, nil)
		}
		return call("wamp.session.kill_by_authrole", []any{hcommon.Pick(r, []any{"user", "trusted", "admin"})}, nil)
	case 7:
		if (r.Chance(1, 3) || g.prop == "C11") && !g.anySmallCap() {
			if r.Chance(1, 2) {
				// no reason, no message: the GOODBYE of the default kind (and its "all" mark) is this call's alone
				return call("wamp.session.kill_all", nil, nil)
			}
			return call("wamp.session.kill_all", nil, map[string]any{"message": "all out"})
		}
		return call("wamp.session.count", nil, nil)
	case 8:
		if g.prop == "C18" && r.Chance(1, 2) {
			return call("wamp.session.modify_details", []any{g.sidRef(), map[string]any{"authrole": hcommon.Pick(r, []any{"admin", "user", "trusted", "auditor"})}}, nil)
		}
		return call("wamp.session.modify_details", []any{g.sidRef(), hcommon.Pick(r, []any{
			map[string]any{"team": "green"}, map[string]any{"team": nil}, map[string]any{"authrole": "admin"},
			map[string]any{"session": 5}, "x", map[string]any{"authid": "carol", "extra": 1}})}, nil)
	case 9:
		return call("wamp.registration.list", nil, nil)
	case 10:
		o := map[string]any{}
		if r.Chance(1, 2) {
			o["match"] = hcommon.Pick(r, []string{"prefix", "wildcard", "exact"})
		}
		return call("wamp.registration.lookup", []any{hcommon.Pick(r, append([]string{"p.", ""}, procs...)), o}, nil)
	case 11:
		return call("wamp.registration.match", []any{hcommon.Pick(r, append([]string{"p.q.r.s"}, procs...))}, nil)
	case 12:
		return call("wamp.registration.get", []any{regID}, nil)
	case 13:
		return call("wamp.registration.list_callees", []any{regID}, nil)
	case 14:
		return call("wamp.registration.count_callees", hcommon.Pick(r, [][]any{{regID}, nil, {"x"}}), nil)
	case 15:
		return call("wamp.subscription.list", nil, nil)
	case 16:
		o := map[string]any{}
		if r.Chance(1, 2) {
			o["match"] = hcommon.Pick(r, []string{"prefix", "wildcard", "exact"})
		}
		return call("wamp.subscription.lookup", []any{hcommon.Pick(r, append(append([]string{}, topics...), pfxPatterns...)), o}, nil)
	case 17:
		return call("wamp.subscription.match", []any{hcommon.Pick(r, topics)}, nil)
	case 18:
		return call("wamp.subscription.get", []any{subID}, nil)
	case 19:
		return call("wamp.subscription.list_subscribers", []any{subID}, nil)
	case 20:
		return call("wamp.subscription.count_suscribers", hcommon.Pick(r, [][]any{{subID}, nil, {0}}), nil)
	case 21:
		kw := map[string]any{}
		if g.prop == "C20" && r.Chance(1, 4) {
			// directed: a small limit together with a filter that rejects some of the newest
			// entries and no publication-id bound -- the limit counts the entries that PASS
			// the filters, not the newest entries of the store (seeded change C20-9)
			kw["limit"] = hcommon.Pick(r, []any{1, 2, 3})
			if r.Chance(4, 5) {
				kw["topic"] = hcommon.Pick(r, g.histTopics())
			} else {
				kw[hcommon.Pick(r, []string{"before_time", "until_time"})] = map[string]any{"$ms": hcommon.Pick(r, []int{1, 50, 100})}
			}
			if r.Chance(1, 3) {
				kw["reverse"] = true
			}
			return call("wamp.subscription.get_events", []any{subID}, kw)
		}
		if g.prop == "C20" {
			// combinations of filters: topic x publication bounds x limit x reverse
			if r.Chance(1, 2) {
				kw["topic"] = hcommon.Pick(r, g.histTopics())
			}
			for _, b := range []string{"from_publication", "after_publication", "before_publication", "until_publication"} {
				if r.Chance(1, 4) {
					kw[b] = map[string]any{"$pub": r.Intn(1 + len(g.pubsSeen))}
				}
			}
		}
		if r.Chance(1, 3) {
			kw["limit"] = hcommon.Pick(r, []any{1, 2, 5, 0, "x"})
		}
		if r.Chance(1, 3) {
			kw["reverse"] = hcommon.Pick(r, []any{true, false, 1})
		}
		if r.Chance(1, 4) {
			kw["topic"] = hcommon.Pick(r, topics)
		}
		if r.Chance(1, 5) {
			kw[hcommon.Pick(r, []string{"from_time", "after_time", "before_time", "until_time"})] = map[string]any{"$ms": hcommon.Pick(r, []int{0, 1, 50, 100, 1000})}
		}
		if r.Chance(1, 3) {
			kw[hcommon.Pick(r, []string{"from_publication", "after_publication", "before_publication", "until_publication"})] =
				hcommon.Pick(r, []any{map[string]any{"$pub": r.Intn(6)}, map[string]any{"$pub": r.Intn(3)}, 0, "x"})
		}
		return call("wamp.subscription.get_events", hcommon.Pick(r, [][]any{{subID}, {subID}, {1}, nil, {"x"}}), kw)
	case 22:
		args, kw := g.payload()
		akw := map[string]any{}
		if r.Chance(1, 2) {
			akw["scope"] = hcommon.Pick(r, []any{"destroyed", "detached", "bogus", ""})
		}
		if g.prop == "C18" && r.Chance(2, 3) {
			akw["scope"] = hcommon.Pick(r, []any{"destroyed", "detached"})
		}
		switch r.Intn(6) {
		case 0, 1:
			akw["publish_options"] = map[string]any{"exclude_authid": []any{"alice"}}
		case 2, 3:
			// anything a PUBLISH may carry: the meta session publishes the testament with these options
			akw["publish_options"] = g.pubOptions()
		case 4:
			akw["publish_options"] = hcommon.Pick(r, []any{
				map[string]any{"ppt_scheme": "mqtt"}, map[string]any{"ppt_scheme": "x", "ppt_serializer": "cbor", "acknowledge": true},
				map[string]any{"disclose_me": true, "exclude_me": false}, "x", []any{1}, map[string]any{"acknowledge": true}})
		}
		if args == nil {
			args = []any{}
		}
		if kw == nil {
			kw = map[string]any{}
		}
		return call("wamp.session.add_testament", []any{hcommon.Pick(r, append([]string{"a b"}, topics...)), args, kw}, akw)
	default:
		akw := map[string]any{}
		if r.Chance(1, 2) {
			akw["scope"] = hcommon.Pick(r, []any{"destroyed", "detached", "bogus"})
		}
		return call("wamp.session.flush_testaments", nil, akw)
	}
}

// observe updates the generator's knowledge from what the implementation sent.
func (g *genState) observe(l Line) {
	for ks, ms := range l.Out {
		var k int
		fmt.Sscan(ks, &k)
		for _, m := range ms {
			if len(m) < 2 {
				continue
			}
			switch int(num(m[0])) {
			case 33:
				id := int(num(m[2]))
				g.subs[k] = append(g.subs[k], id)
				g.allSubs = append(g.allSubs, id)
			case 65:
				id := int(num(m[2]))
				g.regs[k] = append(g.regs[k], id)
				g.allRegs = append(g.allRegs, id)
			case 68:
				g.invs[k] = append(g.invs[k], int(num(m[1])))
			case 17:
				g.pubsSeen = append(g.pubsSeen, 1)
			}
		}
	}
	for _, k := range l.Closed {
		g.remove(k)
	}
}

// noteOp records request ids of calls so that CANCEL can aim at them.
func (g *genState) noteOp(op map[string]any) {
	if op["op"] != "msg" {
		return
	}
	m, _ := op["m"].([]any)
	if len(m) > 1 && int(num(m[0])) == 48 {
		k := int(num(op["s"]))
		g.calls[k] = append(g.calls[k], int(num(m[1])))
	}
}
