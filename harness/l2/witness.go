package l2

// Witnesses: directed histories of genuine defects that were recorded as findings. They run on
// every check of the properties they concern. While the defect is there the family reports the
// finding id (bin/check prints KNOWN-FINDING for an open finding and a violation for one that
// is listed as fixed); the history also goes through the model comparison like any other.

type witness struct {
	ID        string
	Props     []string
	Text      string
	Scenario  func() Scenario
	Manifests func(lines []Line) bool
}

func msgOp(k int, m ...any) map[string]any { return map[string]any{"op": "msg", "s": k, "m": m} }

// finalsFor counts the final replies (RESULT without progress, ERROR of type CALL) that session k
// was sent for request req.
func finalsFor(lines []Line, k string, req int) int {
	n := 0
	for _, l := range lines {
		for _, m := range l.Out[k] {
			if len(m) < 3 {
				continue
			}
			switch int(num(m[0])) {
			case 50:
				if int(num(m[1])) != req {
					continue
				}
				d, _ := m[2].(map[string]any)
				if p, _ := d["progress"].(bool); !p {
					n++
				}
			case 8:
				if int(num(m[1])) == 48 && int(num(m[2])) == req {
					n++
				}
			}
		}
	}
	return n
}

var witnesses = []witness{
	{
		ID:    "F47",
		Props: []string{"C02", "C10"},
		Text: "a later chunk of a pending progressive call invocation that the Authorizer refuses is answered ERROR(CALL, not_authorized) by the session handler while the call stays pending in the dealer: " +
			"the caller then also gets the callee's RESULT, two final replies for one request id",
		Scenario: func() Scenario {
			cfg := map[string]any{"uri": "r1", "strict": false, "disclose": false, "metaKill": true, "metaModify": false, "metaStrict": false,
				"localAuthz": true,
				"authz":      []any{map[string]any{"type": 48, "uri": "q", "decision": "deny"}}}
			ops := []map[string]any{
				mkJoin(1, map[string][]string{"caller": {"progressive_call_invocations", "call_canceling"}}),
				mkJoin(2, map[string][]string{"callee": {"progressive_call_invocations", "call_canceling"}}),
				msgOp(2, 64, 1, map[string]any{}, "p"),
				msgOp(1, 48, 7, map[string]any{"progress": true}, "p", []any{1}, map[string]any{}),
				msgOp(1, 48, 7, map[string]any{}, "q", []any{2}, map[string]any{}), // last chunk, refused by the Authorizer
				msgOp(2, 70, 1, map[string]any{}, []any{"done"}, map[string]any{}),
				{"op": "snapshot"},
			}
			s := Scenario{ID: 2000001, Cfg: roundTrip(cfg), Ops: ops}
			for j := range s.Ops {
				s.Ops[j] = roundTrip(s.Ops[j])
			}
			return s
		},
		Manifests: func(lines []Line) bool { return finalsFor(lines, "1", 7) >= 2 },
	},
}

func witnessesFor(prop string) []witness {
	var ws []witness
	for _, w := range witnesses {
		for _, p := range w.Props {
			if p == prop {
				ws = append(ws, w)
			}
		}
	}
	return ws
}
