package l2

import (
	"encoding/json"
	"fmt"
	"reflect"
	"sort"
	"strings"

	"github.com/gammazero/nexus/v3/wamp"
)

// canonValue renders a Go value sent by the router as a JSON-able value:
// session ids become "$s<k>", other ids above 2^32 "$P<raw>" (renumbered later),
// timestamps "T", nil containers empty containers.
func (w *world) canonValue(v any) any {
	switch x := v.(type) {
	case nil:
		return nil
	case bool:
		return x
	case string:
		return x
	case wamp.URI:
		return string(x)
	case wamp.ID:
		return w.canonInt(uint64(x))
	case int:
		return w.canonSigned(int64(x))
	case int64:
		return w.canonSigned(x)
	case uint64:
		return w.canonInt(x)
	case float64:
		return x
	case wamp.Dict:
		return w.canonDict(x)
	case map[string]any:
		return w.canonDict(x)
	case wamp.List:
		return w.canonList(x)
	case []any:
		return w.canonList(x)
	}
	rv := reflect.ValueOf(v)
	switch rv.Kind() {
	case reflect.Slice, reflect.Array:
		l := make([]any, rv.Len())
		for i := range l {
			l[i] = w.canonValue(rv.Index(i).Interface())
		}
		return l
	case reflect.Map:
		d := map[string]any{}
		for _, k := range rv.MapKeys() {
			d[fmt.Sprint(k.Interface())] = w.canonValue(rv.MapIndex(k).Interface())
		}
		return d
	case reflect.Struct: // storedEvent of the event history
		d := map[string]any{}
		for i := 0; i < rv.NumField(); i++ {
			if !rv.Type().Field(i).IsExported() {
				continue
			}
			d[rv.Type().Field(i).Name] = w.canonValue(rv.Field(i).Interface())
		}
		return d
	case reflect.Int, reflect.Int32, reflect.Int64:
		return w.canonSigned(rv.Int())
	case reflect.Uint, reflect.Uint32, reflect.Uint64:
		return w.canonInt(rv.Uint())
	case reflect.String:
		return rv.String()
	case reflect.Pointer:
		if rv.IsNil() {
			return nil
		}
		return w.canonValue(rv.Elem().Interface())
	}
	return fmt.Sprintf("<%T>", v)
}

func (w *world) canonSigned(i int64) any {
	if i < 0 {
		return i
	}
	return w.canonInt(uint64(i))
}

func (w *world) canonInt(u uint64) any {
	if k, ok := w.sidKey[wamp.ID(u)]; ok {
		return fmt.Sprintf("$s%d", k)
	}
	if u >= 4000000000 && u < 4000000000+1000000 {
		return fmt.Sprintf("$s%d", u-4000000000) // the harness' "no such session" ids, as the model sees them
	}
	if u > 1<<32 && u != 1<<53 {
		return fmt.Sprintf("$P%d", u)
	}
	return u
}

func (w *world) canonDict(d map[string]any) any {
	r := map[string]any{}
	for k, v := range d {
		if k == "created" {
			r[k] = "T"
			continue
		}
		if k == "transport" && v == nil {
			r[k] = map[string]any{} // an empty Go map arrives as null through a serializer
			continue
		}
		r[k] = w.canonValue(v)
	}
	return r
}

func (w *world) canonList(l []any) any {
	r := make([]any, len(l))
	for i := range l {
		r[i] = w.canonValue(l[i])
	}
	return r
}

// routerTextErrors are the error URIs whose single string argument is free text
// written by the router (not part of any property).
var routerTextErrors = map[wamp.URI]bool{
	wamp.ErrInvalidURI: true, wamp.ErrInvalidArgument: true, wamp.ErrNetworkFailure: true,
	wamp.ErrCanceled: true, wamp.ErrTimeout: true, wamp.ErrAuthorizationFailed: true,
}

func maskText(d any, keys ...string) any {
	m, ok := d.(map[string]any)
	if !ok {
		return d
	}
	for _, k := range keys {
		if _, ok := m[k].(string); ok {
			m[k] = "<text>"
		}
	}
	return m
}

// canonMsg renders a message with all its fields (no trailing omission).
func (w *world) canonMsg(m wamp.Message) []any {
	c := w.canonValue
	switch x := m.(type) {
	case *wamp.Welcome:
		return []any{2, c(x.ID), c(x.Details)}
	case *wamp.Abort:
		return []any{3, maskText(c(x.Details), "message", "error"), c(x.Reason)}
	case *wamp.Goodbye:
		return []any{6, c(x.Details), c(x.Reason)}
	case *wamp.Error:
		args := c(x.Arguments)
		if l, ok := args.([]any); ok && len(l) == 1 && routerTextErrors[x.Error] {
			if _, ok := l[0].(string); ok {
				args = []any{"<text>"}
			}
		}
		return []any{8, int(x.Type), c(x.Request), maskText(c(x.Details), "error"), c(x.Error), args, c(x.ArgumentsKw)}
	case *wamp.Published:
		return []any{17, c(x.Request), c(x.Publication)}
	case *wamp.Subscribed:
		return []any{33, c(x.Request), c(x.Subscription)}
	case *wamp.Unsubscribed:
		return []any{35, c(x.Request)}
	case *wamp.Event:
		return []any{36, c(x.Subscription), c(x.Publication), c(x.Details), c(x.Arguments), c(x.ArgumentsKw)}
	case *wamp.Result:
		return []any{50, c(x.Request), c(x.Details), c(x.Arguments), c(x.ArgumentsKw)}
	case *wamp.Registered:
		return []any{65, c(x.Request), c(x.Registration)}
	case *wamp.Unregistered:
		return []any{67, c(x.Request)}
	case *wamp.Invocation:
		return []any{68, c(x.Request), c(x.Registration), c(x.Details), c(x.Arguments), c(x.ArgumentsKw)}
	case *wamp.Interrupt:
		return []any{69, c(x.Request), c(x.Options)}
	}
	if m == nil {
		return []any{-1}
	}
	return []any{int(m.MessageType())}
}

func nilToEmpty(v any, want string) any {
	if v == nil {
		if want == "list" {
			return []any{}
		}
		return map[string]any{}
	}
	return v
}

// normalizeLine brings one output line (of either side) to the compared form:
// containers in message fields never nil.
func normalizeMsg(m []any) []any {
	if len(m) == 0 {
		return m
	}
	code := int(num(m[0]))
	fix := func(i int, want string) {
		if i < len(m) {
			m[i] = nilToEmpty(m[i], want)
		}
	}
	switch code {
	case 2:
		fix(2, "dict")
	case 3, 6:
		fix(1, "dict")
	case 8:
		fix(3, "dict")
		fix(5, "list")
		fix(6, "dict")
	case 36:
		fix(3, "dict")
		fix(4, "list")
		fix(5, "dict")
	case 50:
		fix(2, "dict")
		fix(3, "list")
		fix(4, "dict")
	case 68:
		fix(3, "dict")
		fix(4, "list")
		fix(5, "dict")
	case 69:
		fix(2, "dict")
	}
	return m
}

// Line is one step's observation in compared form.
type Line struct {
	Out    map[string][][]any        `json:"out"`
	Closed []int                     `json:"closed"`
	Panic  any                       `json:"panic"`
	Note   string                    `json:"note,omitempty"`
	Sizes  map[string]map[string]int `json:"sizes,omitempty"`
	// Welcome is the canonical JSON of the roles announced in the WELCOME of a join (implementation
	// side only; the realm model has no WELCOME): see welcomeCheck in family_test.go.
	Welcome string `json:"welcome,omitempty"`
}

func (w *world) line(out map[int][]wamp.Message, closed []int, note string) Line {
	l := Line{Out: map[string][][]any{}, Closed: closed, Note: note}
	sort.Ints(l.Closed)
	for k, ms := range out {
		for _, m := range ms {
			l.Out[fmt.Sprint(k)] = append(l.Out[fmt.Sprint(k)], normalizeMsg(w.canonMsg(m)))
		}
	}
	return l
}

// maskIDs replaces publication placeholders by "$p" for order-insensitive sorting.
func maskIDs(v any) any {
	switch x := v.(type) {
	case string:
		if strings.HasPrefix(x, "$P") || strings.HasPrefix(x, "$p") {
			return "$p"
		}
		return x
	case []any:
		r := make([]any, len(x))
		for i := range x {
			r[i] = maskIDs(x[i])
		}
		return r
	case map[string]any:
		r := map[string]any{}
		for k, e := range x {
			r[k] = maskIDs(e)
		}
		return r
	}
	return v
}

func jsonKey(v any) string { b, _ := json.Marshal(v); return string(b) }

// renumber rewrites publication placeholders in order of first appearance.
type renumber struct {
	m map[string]string
}

func (r *renumber) value(v any) any {
	switch x := v.(type) {
	case string:
		if strings.HasPrefix(x, "$P") || strings.HasPrefix(x, "$p") {
			if r.m == nil {
				r.m = map[string]string{}
			}
			n, ok := r.m[x]
			if !ok {
				n = fmt.Sprintf("$p%d", len(r.m))
				r.m[x] = n
			}
			return n
		}
		return x
	case []any:
		for i := range x {
			x[i] = r.value(x[i])
		}
		return x
	case map[string]any:
		for _, k := range sortedKeys(x) {
			x[k] = r.value(x[k])
		}
		return x
	}
	return v
}

func sortedKeys(m map[string]any) []string {
	ks := make([]string, 0, len(m))
	for k := range m {
		ks = append(ks, k)
	}
	sort.Strings(ks)
	return ks
}

// sortIntLists sorts every list consisting only of numbers or only of "$s" ids,
// at any depth (answers of meta procedures list ids in map order).
func sortIntLists(v any) any {
	switch x := v.(type) {
	case nil:
		// an empty Go slice or map arrives as null through a serializer and as [] / {} in-process:
		// inside answers of meta procedures all three are rendered as null
		return nil
	case []any:
		all := len(x) > 0
		for i := range x {
			x[i] = sortIntLists(x[i])
			switch e := x[i].(type) {
			case float64, int, int64, uint64:
			case string:
				if !strings.HasPrefix(e, "$s") {
					all = false
				}
			default:
				all = false
			}
		}
		if len(x) == 0 {
			return nil
		}
		if all {
			sort.SliceStable(x, func(i, j int) bool { return jsonKey(x[i]) < jsonKey(x[j]) })
		}
		return x
	case map[string]any:
		if len(x) == 0 {
			return nil
		}
		for k, e := range x {
			x[k] = sortIntLists(e)
		}
		return x
	}
	return v
}

// canonLines post-processes the whole history of one side: per step and
// recipient the messages are sorted by their id-masked rendering (the order in
// which different router goroutines reach one client is not defined), then
// publication ids are renumbered by first appearance.  metaReq says which
// (session, request) pairs are calls of wamp.* procedures: integer lists in their
// results are sorted.  leaving[i] lists sessions whose departure starts in step i:
// only GOODBYE/ABORT to them are compared from then on.
// relevant says whether a message takes part in the comparison for a property:
// each routing property is compared on the messages its statement is about, so
// that a change to the dealer does not alarm the pub/sub property and vice versa.
func relevant(prop string, m []any) bool {
	code := int(num(m[0]))
	errType := -1
	if code == 8 && len(m) > 1 {
		errType = int(num(m[1]))
	}
	in := func(x int, set ...int) bool {
		for _, y := range set {
			if x == y {
				return true
			}
		}
		return false
	}
	switch prop {
	case "C01":
		return in(code, 17, 33, 35, 36) || in(errType, 16, 32, 34)
	case "C19": // routing by URI: events and invocations, registrations and subscriptions
		return in(code, 17, 33, 35, 36, 65, 67, 68) || in(errType, 16, 32, 34, 64, 66, 48)
	case "C02":
		return code == 50 || errType == 48
	case "C03":
		return in(code, 65, 67, 68, 50) || in(errType, 64, 66, 48)
	case "C13":
		return in(code, 69, 50) || in(errType, 48, 49)
	}
	return true
}

func canonLines(lines []Line, metaReq map[string]bool) []Line {
	return canonLinesFor("", lines, metaReq, nil, nil)
}

// lazy: sessions attached through a real transport. When exactly such a client sees its
// connection closed is a matter of transport timing (the peers wait up to a second to hand
// over a last message), so their closure is not compared step by step; they count as gone
// from the step in which they are sent ABORT/GOODBYE or drop their connection (dropAt).
func canonLinesFor(prop string, lines []Line, metaReq map[string]bool, lazy map[string]bool, dropAt map[int][]string) []Line {
	rn := &renumber{}
	gone := map[string]bool{}
	res := make([]Line, len(lines))
	for i, l := range lines {
		nl := Line{Out: map[string][][]any{}, Panic: l.Panic, Note: l.Note, Sizes: l.Sizes}
		for _, k := range l.Closed {
			gone[fmt.Sprint(k)] = true
			if !lazy[fmt.Sprint(k)] {
				nl.Closed = append(nl.Closed, k)
			}
		}
		for _, k := range dropAt[i] {
			gone[k] = true
		}
		goneAfter := []string{}
		keys := make([]string, 0, len(l.Out))
		for k := range l.Out {
			keys = append(keys, k)
		}
		sort.Strings(keys)
		// Sessions ended in this step (they are sent GOODBYE or ABORT). When several end at once
		// (kill_by_*, kill_all) their handlers leave concurrently: which of them is named as the
		// cause of a subscription's or registration's on_delete depends on the order in which the
		// goroutines run. In such a step the leaver's id in the first argument of an EVENT is masked.
		var leavers []string
		for _, k := range keys {
			for _, m := range l.Out[k] {
				if c := int(num(m[0])); c == 3 || c == 6 {
					leavers = append(leavers, "$s"+k)
				}
			}
		}
		maskLeaver := func(m []any) {
			if len(leavers) < 2 || int(num(m[0])) != 36 || len(m) < 5 {
				return
			}
			if args, ok := m[4].([]any); ok && len(args) > 0 {
				if id, ok := args[0].(string); ok {
					for _, lv := range leavers {
						if lv == id {
							na := append([]any{"$s*"}, args[1:]...)
							m[4] = na
						}
					}
				}
			}
		}
		for _, k := range keys {
			var ms [][]any
			for _, m := range l.Out[k] {
				m = normalizeMsg(m)
				code := int(num(m[0]))
				if gone[k] && code != 3 && code != 6 {
					continue
				}
				if lazy[k] && (code == 3 || code == 6) {
					goneAfter = append(goneAfter, k)
				}
				if code != 3 && code != 6 && !relevant(prop, m) {
					continue
				}
				maskLeaver(m)
				if code == 50 && len(m) > 1 && metaReq[k+"/"+jsonKey(m[1])] {
					for j := 2; j < len(m); j++ {
						m[j] = sortIntLists(m[j])
					}
				}
				ms = append(ms, m)
			}
			sort.SliceStable(ms, func(a, b int) bool { return jsonKey(maskIDs(any(ms[a]))) < jsonKey(maskIDs(any(ms[b]))) })
			if len(ms) > 0 {
				nl.Out[k] = ms
			}
		}
		for _, k := range keys {
			for j := range nl.Out[k] {
				nl.Out[k][j] = rn.value(any(nl.Out[k][j])).([]any)
			}
		}
		for _, k := range goneAfter {
			gone[k] = true
		}
		res[i] = nl
	}
	return res
}
