// Package l2 is the correspondence family for the realm model (Lean
// Nexus.L2): it drives the real router in-process under testing/synctest
// (virtual clock, quiescence detection) with the same operation sequences that
// are fed to the Lean model driver, and compares the canonicalised outputs.
package l2

import (
	"encoding/json"
	"errors"
	"fmt"
	"io"
	"log"
	"reflect"
	"sort"
	"strings"
	"sync"
	"testing/synctest"
	"time"

	"github.com/gammazero/nexus/v3/router"
	"github.com/gammazero/nexus/v3/router/auth"
	"github.com/gammazero/nexus/v3/transport"
	"github.com/gammazero/nexus/v3/transport/serialize"
	"github.com/gammazero/nexus/v3/wamp"

	"verif/harness/tpeers"
)

// Scenario is one configuration plus an operation sequence.
type Scenario struct {
	ID  int              `json:"id"`
	Cfg map[string]any   `json:"cfg"`
	Ops []map[string]any `json:"ops"`
}

// remotePeer makes an in-process peer look remote to the router (IsLocal false):
// authentication, authorization and copy-on-delivery then take the remote path.
type remotePeer struct{ wamp.Peer }

func (remotePeer) IsLocal() bool { return false }

// harnessAuth is the realm's authenticator for non-local sessions: it accepts
// everybody and takes authid/authrole from HELLO details x_authid/x_authrole.
type harnessAuth struct{}

func (harnessAuth) AuthMethod() string { return "anonymous" }

func (harnessAuth) Authenticate(sid wamp.ID, details wamp.Dict, client wamp.Peer) (*wamp.Welcome, error) {
	authid, _ := wamp.AsString(details["x_authid"])
	authrole, _ := wamp.AsString(details["x_authrole"])
	return &wamp.Welcome{Details: wamp.Dict{
		"authid":       authid,
		"authrole":     authrole,
		"authprovider": "static",
		"authmethod":   "anonymous",
	}}, nil
}

var _ auth.Authenticator = harnessAuth{}

// tableAuthz is the table-driven Authorizer shared with the model.
type tableAuthz struct {
	rules []map[string]any
	sids  func() map[wamp.ID]int
}

func (a *tableAuthz) Authorize(sess *wamp.Session, msg wamp.Message) (bool, error) {
	key, known := a.sids()[sess.ID]
	uri := ""
	switch m := msg.(type) {
	case *wamp.Publish:
		uri = string(m.Topic)
	case *wamp.Subscribe:
		uri = string(m.Topic)
	case *wamp.Call:
		uri = string(m.Procedure)
	case *wamp.Register:
		uri = string(m.Procedure)
	}
	for _, r := range a.rules {
		if t := num(r["type"]); t != 0 && t != int64(msg.MessageType()) {
			continue
		}
		if u, _ := r["uri"].(string); u != "" && u != uri {
			continue
		}
		if s, ok := r["sess"]; ok && s != nil {
			if !known || num(s) != int64(key) {
				continue
			}
		}
		switch r["decision"] {
		case "deny":
			return false, nil
		case "fail":
			return false, errors.New("authorizer failed")
		case "allowerr":
			// allowed, with an error the router is to ignore (e.g. a decision taken from a cache)
			return true, errors.New("authorizer backend unavailable")
		default:
			return true, nil
		}
	}
	return true, nil
}

func num(v any) int64 {
	switch x := v.(type) {
	case uint64:
		return int64(x)
	case int32:
		return int64(x)
	case uint32:
		return int64(x)
	}
	switch x := v.(type) {
	case float64:
		return int64(x)
	case int:
		return int64(x)
	case int64:
		return x
	}
	return 0
}

func boolOf(m map[string]any, k string) bool { b, _ := m[k].(bool); return b }
func strOf(m map[string]any, k, d string) string {
	if s, ok := m[k].(string); ok {
		return s
	}
	return d
}

type client struct {
	key     int
	peer    wamp.Peer // client side
	sid     wamp.ID
	stalled bool
	via     bool // attached through a real transport
	inproc  bool // in-process for the router too (Peer.IsLocal): must get private copies of what it is sent
	closed  bool // receive channel seen closed
	dropped bool // the client closed its side
}

// world is one running router with its attached clients.
type world struct {
	r         router.Router
	realm     string
	clients   map[int]*client
	sidKey    map[wamp.ID]int
	start     time.Time
	histCfgs  map[string][]*router.TopicEventHistoryConfig
	lastSizes map[string]map[string]int
	lastRoles string // roles of the WELCOME of the join just performed (canonical JSON)
	// EVENTs handed to in-process clients: their details and payload containers must be private
	// copies (C12). The events are kept so that an address cannot be reused within a history.
	seenPtr   map[uintptr]string
	keepAlive []*wamp.Event
	pubs      []wamp.ID      // publication ids of the PUBLISHED messages seen so far ({"$pub": j})
	quit      chan struct{}  // closed at shutdown: releases helper goroutines
	helpers   sync.WaitGroup // helper goroutines started by the harness inside the bubble
}

func realmConfig(w *world, cfg map[string]any) *router.RealmConfig {
	rc := &router.RealmConfig{
		URI:               wamp.URI(strOf(cfg, "uri", "r1")),
		StrictURI:         boolOf(cfg, "strict"),
		AllowDisclose:     boolOf(cfg, "disclose"),
		Authenticators:    []auth.Authenticator{harnessAuth{}},
		EnableMetaKill:    boolOf(cfg, "metaKill"),
		EnableMetaModify:  boolOf(cfg, "metaModify"),
		MetaStrict:        boolOf(cfg, "metaStrict"),
		RequireLocalAuthz: boolOf(cfg, "localAuthz"),
	}
	if inc, ok := cfg["metaInc"].([]any); ok {
		for _, x := range inc {
			if s, ok := x.(string); ok {
				rc.MetaIncludeSessionDetails = append(rc.MetaIncludeSessionDetails, s)
			}
		}
	}
	if rules, ok := cfg["authz"].([]any); ok {
		ta := &tableAuthz{sids: func() map[wamp.ID]int { return w.sidKey }}
		for _, x := range rules {
			if m, ok := x.(map[string]any); ok {
				ta.rules = append(ta.rules, m)
			}
		}
		rc.Authorizer = ta
	}
	if hs, ok := cfg["history"].([]any); ok {
		// An embedder that configures several realms alike reuses one slice of history
		// configurations: equal configurations share the same objects here too.
		key := jsonKey(hs)
		if shared, ok := w.histCfgs[key]; ok {
			rc.TopicEventHistoryConfigs = shared
		} else {
			for _, x := range hs {
				m, _ := x.(map[string]any)
				rc.TopicEventHistoryConfigs = append(rc.TopicEventHistoryConfigs, &router.TopicEventHistoryConfig{
					Topic: wamp.URI(strOf(m, "topic", "")), MatchPolicy: strOf(m, "match", ""), Limit: int(num(m["limit"])),
				})
			}
			w.histCfgs[key] = rc.TopicEventHistoryConfigs
		}
	}
	return rc
}

// newWorld starts a router with one realm (cfg is an object) or several (cfg
// is {"realms":[...]}).
func newWorld(cfg map[string]any) (*world, error) {
	w := &world{clients: map[int]*client{}, sidKey: map[wamp.ID]int{}, start: time.Now(), quit: make(chan struct{}), histCfgs: map[string][]*router.TopicEventHistoryConfig{}}
	var rcs []*router.RealmConfig
	if list, ok := cfg["realms"].([]any); ok {
		for _, x := range list {
			if m, ok := x.(map[string]any); ok {
				rcs = append(rcs, realmConfig(w, m))
			}
		}
	} else {
		rcs = append(rcs, realmConfig(w, cfg))
	}
	w.realm = string(rcs[0].URI)
	rcfg := &router.Config{RealmConfigs: rcs}
	if t, ok := cfg["template"].(map[string]any); ok {
		rcfg.RealmTemplate = realmConfig(w, t)
	}
	r, err := router.NewRouter(rcfg, log.New(io.Discard, "", 0))
	if err != nil {
		return nil, err
	}
	w.r = r
	for _, rc := range rcs {
		scribbleConfig(rc)
	}
	return w, nil
}

// scribbleConfig: a realm is configured by the RealmConfig it was created from as it was at
// that moment. An embedder may reuse the variable for the next realm (other URI, other
// Authorizer, other switches), so the harness overwrites every configuration it has handed to
// NewRouter or AddRealm once the call has returned; a realm that reads its settings through
// the caller's struct later on then behaves like the scribbled configuration, not like its own.
// (Not the template: the router is documented to create realms from it later.)
func scribbleConfig(rc *router.RealmConfig) {
	*rc = router.RealmConfig{URI: "verif.scribbled", StrictURI: !rc.StrictURI, AllowDisclose: !rc.AllowDisclose,
		EnableMetaKill: !rc.EnableMetaKill, EnableMetaModify: !rc.EnableMetaModify, MetaStrict: !rc.MetaStrict,
		RequireLocalAuth: !rc.RequireLocalAuth, RequireLocalAuthz: !rc.RequireLocalAuthz}
}

// toGo converts a decoded JSON value of an op into the Go value a client would
// hand to the router: integers become int64, {"$sid":k} the real session id,
// {"$ms":n} an RFC 3339 time n ms after the router started.
func (w *world) toGo(v any) any {
	switch x := v.(type) {
	case float64:
		return int64(x)
	case []any:
		l := make(wamp.List, len(x))
		for i := range x {
			l[i] = w.toGo(x[i])
		}
		return l
	case map[string]any:
		if len(x) == 1 {
			if k, ok := x["$sid"]; ok {
				if c, ok := w.clients[int(num(k))]; ok {
					return c.sid
				}
				return wamp.ID(4000000000 + num(k)) // an id that names no session
			}
			if j, ok := x["$pub"]; ok {
				if i := int(num(j)); i < len(w.pubs) {
					return w.pubs[i]
				}
				return wamp.ID(4100000000 + num(j)) // names no publication
			}
			if ms, ok := x["$ms"]; ok {
				return w.start.Add(time.Duration(num(ms)) * time.Millisecond).Format(time.RFC3339Nano)
			}
		}
		d := make(wamp.Dict, len(x))
		for k, e := range x {
			d[k] = w.toGo(e)
		}
		return d
	}
	return v
}

func (w *world) dict(v any) wamp.Dict {
	if v == nil {
		return nil
	}
	d, _ := w.toGo(v).(wamp.Dict)
	return d
}
func (w *world) list(v any) wamp.List {
	if v == nil {
		return nil
	}
	l, _ := w.toGo(v).(wamp.List)
	return l
}

func at(l []any, i int) any {
	if i < len(l) {
		return l[i]
	}
	return nil
}
func idAt(l []any, i int) wamp.ID { return wamp.ID(num(at(l, i))) }
func strAt(l []any, i int) string { s, _ := at(l, i).(string); return s }

// toMsg builds the message a client sends from its WAMP list form.
func (w *world) toMsg(l []any) wamp.Message {
	code := int(num(at(l, 0)))
	f := l[1:]
	switch wamp.MessageType(code) {
	case wamp.GOODBYE:
		return &wamp.Goodbye{Details: w.dict(at(f, 0)), Reason: wamp.URI(strAt(f, 1))}
	case wamp.ERROR:
		return &wamp.Error{Type: wamp.MessageType(num(at(f, 0))), Request: idAt(f, 1), Details: w.dict(at(f, 2)),
			Error: wamp.URI(strAt(f, 3)), Arguments: w.list(at(f, 4)), ArgumentsKw: w.dict(at(f, 5))}
	case wamp.PUBLISH:
		return &wamp.Publish{Request: idAt(f, 0), Options: w.dict(at(f, 1)), Topic: wamp.URI(strAt(f, 2)),
			Arguments: w.list(at(f, 3)), ArgumentsKw: w.dict(at(f, 4))}
	case wamp.SUBSCRIBE:
		return &wamp.Subscribe{Request: idAt(f, 0), Options: w.dict(at(f, 1)), Topic: wamp.URI(strAt(f, 2))}
	case wamp.UNSUBSCRIBE:
		return &wamp.Unsubscribe{Request: idAt(f, 0), Subscription: idAt(f, 1)}
	case wamp.CALL:
		return &wamp.Call{Request: idAt(f, 0), Options: w.dict(at(f, 1)), Procedure: wamp.URI(strAt(f, 2)),
			Arguments: w.list(at(f, 3)), ArgumentsKw: w.dict(at(f, 4))}
	case wamp.CANCEL:
		return &wamp.Cancel{Request: idAt(f, 0), Options: w.dict(at(f, 1))}
	case wamp.REGISTER:
		return &wamp.Register{Request: idAt(f, 0), Options: w.dict(at(f, 1)), Procedure: wamp.URI(strAt(f, 2))}
	case wamp.UNREGISTER:
		return &wamp.Unregister{Request: idAt(f, 0), Registration: idAt(f, 1)}
	case wamp.YIELD:
		return &wamp.Yield{Request: idAt(f, 0), Options: w.dict(at(f, 1)), Arguments: w.list(at(f, 2)), ArgumentsKw: w.dict(at(f, 3))}
	case wamp.HELLO:
		return &wamp.Hello{Realm: wamp.URI(w.realm), Details: wamp.Dict{}}
	case wamp.WELCOME:
		return &wamp.Welcome{}
	case wamp.AUTHENTICATE:
		return &wamp.Authenticate{}
	case wamp.EVENT:
		return &wamp.Event{}
	case wamp.RESULT:
		return &wamp.Result{}
	case wamp.INVOCATION:
		return &wamp.Invocation{}
	case wamp.PUBLISHED:
		return &wamp.Published{}
	case wamp.SUBSCRIBED:
		return &wamp.Subscribed{}
	case wamp.REGISTERED:
		return &wamp.Registered{}
	case wamp.INTERRUPT:
		return &wamp.Interrupt{}
	}
	return &wamp.Unsubscribed{}
}

// join attaches a new client; returns an error text if the router refused it.
func (w *world) join(op map[string]any) string {
	key := int(num(op["s"]))
	capacity := int(num(op["cap"]))
	local := true
	if b, ok := op["local"].(bool); ok {
		local = b
	}
	var c, rs wamp.Peer
	if via, _ := op["via"].(string); via != "" && !local {
		// a real transport between client and router: "rawsocket:msgpack", "websocket:json", ...
		parts := strings.SplitN(via, ":", 2)
		cfg := tpeers.Config{Transport: tpeers.Transport(parts[0]), OutQueueSize: capacity}
		switch parts[1] {
		case "msgpack":
			cfg.Serialization = serialize.MSGPACK
		case "cbor":
			cfg.Serialization = serialize.CBOR
		default:
			cfg.Serialization = serialize.JSON
		}
		pair, err := tpeers.New(cfg)
		if err != nil {
			return "transport: " + err.Error()
		}
		c, rs = pair.Client, pair.Router
	} else {
		lc, ls := transport.LinkedPeersQSize(capacity)
		c, rs = lc, ls
		if !local {
			rs = remotePeer{ls}
		}
	}
	realm := strOf(op, "realm", w.realm)
	hello, _ := op["hello"].(map[string]any)
	hd := w.dict(hello)
	if hd == nil {
		hd = wamp.Dict{}
	}
	helloMsg := &wamp.Hello{Realm: wamp.URI(realm), Details: hd}
	w.helpers.Add(2)
	go func() {
		defer w.helpers.Done()
		select {
		case c.Send() <- helloMsg:
		case <-w.quit:
		}
	}()
	errc := make(chan error, 1)
	transportDetails := w.dict(op["transport"])
	go func() { defer w.helpers.Done(); errc <- w.r.AttachClient(rs, transportDetails) }()
	synctest.Wait()
	giveUp := func() {
		// The router refused: close the client end too, so that the transport's goroutines exit.
		// Not on this goroutine: a transport's Close waits on timers, and if the root goroutine of
		// the bubble blocked on it the virtual clock would jump.
		w.helpers.Add(1)
		go func() {
			defer w.helpers.Done()
			defer func() { recover() }()
			c.Close()
		}()
	}
	select {
	case err := <-errc:
		if err != nil {
			giveUp()
			return "refused"
		}
	default:
		giveUp()
		return "attach did not return"
	}
	select {
	case m, ok := <-c.Recv():
		if !ok {
			giveUp()
			return "closed before WELCOME"
		}
		wel, ok := m.(*wamp.Welcome)
		if !ok {
			giveUp()
			return "expected WELCOME, got " + m.MessageType().String()
		}
		via, _ := op["via"].(string)
		cl := &client{key: key, peer: c, sid: wel.ID, via: via != "" && !local, inproc: local}
		w.clients[key] = cl
		w.sidKey[wel.ID] = key
		if b, err := json.Marshal(wamp.NormalizeDict(wel.Details)["roles"]); err == nil {
			w.lastRoles = string(b)
		}
		// The identity of a session is what the router established at the handshake. An in-process
		// client still holds the HELLO it sent (the router even stores a normalised dict back into
		// it): the harness overwrites both dicts now, as a client reusing the message would. A
		// session whose details alias the message then shows the scribbled identity in the meta API.
		for _, d := range []wamp.Dict{hd, helloMsg.Details} {
			for k := range d {
				d[k] = "verif-scribbled"
			}
			for _, k := range []string{"authid", "authrole", "authmethod", "authprovider", "x_authid", "x_authrole"} {
				d[k] = "verif-scribbled"
			}
		}
	default:
		giveUp()
		return "no WELCOME"
	}
	return ""
}

// apply performs one op against the real router and returns what the clients
// could read afterwards.
func (w *world) apply(op map[string]any) (out map[int][]wamp.Message, closed []int, note string) {
	out = map[int][]wamp.Message{}
	switch op["op"] {
	case "join":
		note = w.join(op)
	case "msg":
		c := w.clients[int(num(op["s"]))]
		if c == nil || c.dropped {
			break
		}
		l, _ := op["m"].([]any)
		msg := w.toMsg(l)
		sent := make(chan bool, 1)
		withdraw := make(chan struct{})
		w.helpers.Add(1)
		go func() {
			defer w.helpers.Done()
			defer func() { recover() }() // send on a channel the client already closed
			select {
			case c.peer.Send() <- msg:
				sent <- true
			case <-withdraw: // handler gone or busy: the client gives up sending
			case <-w.quit:
			}
		}()
		synctest.Wait()
		select {
		case <-sent:
		default:
			note = "undelivered"
			close(withdraw)
		}
	case "drop":
		c := w.clients[int(num(op["s"]))]
		if c != nil && !c.dropped {
			c.dropped = true
			w.helpers.Add(1)
			go func() { // see giveUp in join: never block the root goroutine on a transport's Close
				defer w.helpers.Done()
				defer func() { recover() }()
				c.peer.Close()
			}()
		}
	case "stall":
		if c := w.clients[int(num(op["s"]))]; c != nil {
			c.stalled = true
		}
	case "resume":
		if c := w.clients[int(num(op["s"]))]; c != nil {
			c.stalled = false
		}
	case "tick":
		time.Sleep(time.Duration(num(op["ms"])) * time.Millisecond)
	case "close":
		w.helpers.Add(1)
		go func() { defer w.helpers.Done(); w.r.Close() }()
	case "removeRealm":
		name := strOf(op, "realm", "")
		w.helpers.Add(1)
		go func() { defer w.helpers.Done(); w.r.RemoveRealm(wamp.URI(name)) }()
	case "addRealm":
		if m, ok := op["cfg"].(map[string]any); ok {
			rc := realmConfig(w, m)
			if err := w.r.AddRealm(rc); err != nil {
				note = "refused"
			}
			scribbleConfig(rc)
		}
	case "rnd":
	case "snapshot":
		synctest.Wait()
		w.lastSizes = w.snapshot()
	}
	synctest.Wait()
	for key, c := range w.clients {
		if c.stalled || c.closed {
			continue
		}
		// A transport hands messages over one at a time (its reader goroutine blocks on the
		// client's channel), so after an empty poll let the goroutines run and poll once more.
		retried := false
	drain:
		for {
			select {
			case m, ok := <-c.peer.Recv():
				if !ok {
					c.closed = true
					closed = append(closed, key)
					break drain
				}
				out[key] = append(out[key], m)
				retried = false
			default:
				if !c.via || retried {
					break drain
				}
				retried = true
				synctest.Wait()
			}
		}
	}
	keys := make([]int, 0, len(out))
	for k := range out {
		keys = append(keys, k)
	}
	sort.Ints(keys)
	for _, k := range keys {
		if c := w.clients[k]; c != nil && c.inproc && note == "" {
			for _, m := range out[k] {
				if ev, ok := m.(*wamp.Event); ok {
					if a := w.aliased(k, ev); a != "" {
						note = a
					}
				}
			}
		}
	}
	for _, k := range keys {
		for _, m := range out[k] {
			if p, ok := m.(*wamp.Published); ok {
				w.pubs = append(w.pubs, p.Publication)
			}
		}
	}
	return out, closed, note
}

// shutdown ends every client and closes the router so that the bubble can end.
func (w *world) shutdown() (err error) {
	defer func() {
		if p := recover(); p != nil {
			err = fmt.Errorf("panic during shutdown: %v", p)
		}
	}()
	done := make(chan struct{})
	stopped := make(chan struct{})
	go func() {
		defer close(stopped)
		// keep draining so that no handler blocks on a full queue
		for {
			select {
			case <-done:
				return
			default:
			}
			for _, c := range w.clients {
				select {
				case <-c.peer.Recv():
				default:
				}
			}
			time.Sleep(time.Millisecond)
		}
	}()
	w.r.Close()
	// close every client end so that the transports' goroutines exit
	for _, c := range w.clients {
		if !c.dropped {
			c.dropped = true
			func() {
				defer func() { recover() }()
				c.peer.Close()
			}()
		}
	}
	time.Sleep(3 * time.Second) // let readers notice (the peers wait up to 1 s to hand over a last message)
	close(done)
	<-stopped
	close(w.quit)
	w.helpers.Wait()
	return nil
}

// aliased records the containers of an EVENT delivered to an in-process client and reports a
// container that an earlier EVENT (of another recipient, or an earlier one of this recipient)
// already used: in-process recipients may modify what they get, so each gets its own copies.
func (w *world) aliased(k int, ev *wamp.Event) string {
	if w.seenPtr == nil {
		w.seenPtr = map[uintptr]string{}
	}
	w.keepAlive = append(w.keepAlive, ev)
	check := func(what string, p uintptr) string {
		if p == 0 {
			return ""
		}
		me := fmt.Sprintf("%s of an EVENT for in-process session %d", what, k)
		if other, ok := w.seenPtr[p]; ok {
			return "aliased: the " + me + " is the same object as the " + other
		}
		w.seenPtr[p] = me
		return ""
	}
	if ev.Details != nil {
		if a := check("details", reflect.ValueOf(ev.Details).Pointer()); a != "" {
			return a
		}
	}
	if len(ev.Arguments) > 0 {
		if a := check("arguments", reflect.ValueOf(ev.Arguments).Pointer()); a != "" {
			return a
		}
	}
	if len(ev.ArgumentsKw) > 0 {
		if a := check("keyword arguments", reflect.ValueOf(ev.ArgumentsKw).Pointer()); a != "" {
			return a
		}
	}
	return ""
}

// scribble overwrites the top-level containers of the EVENTs delivered to in-process clients.
func (w *world) scribble(out map[int][]wamp.Message) {
	for k, ms := range out {
		c := w.clients[k]
		if c == nil || !c.inproc {
			continue
		}
		for _, m := range ms {
			ev, ok := m.(*wamp.Event)
			if !ok {
				continue
			}
			if ev.Details != nil {
				ev.Details["topic"] = wamp.URI("scribbled.by.recipient")
				ev.Details["scribbled"] = true
			}
			for i := range ev.Arguments {
				ev.Arguments[i] = "scribbled by recipient"
			}
			if ev.ArgumentsKw != nil {
				for key := range ev.ArgumentsKw {
					ev.ArgumentsKw[key] = "scribbled by recipient"
				}
				ev.ArgumentsKw["scribbled"] = true
			}
		}
	}
}
