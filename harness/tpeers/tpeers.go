// Package tpeers attaches a client to a nexus router through each transport
// without any network: the same scenario can then be replayed with the session
// attached in-process, via rawsocket and via websocket, with each serializer
// (property C15, last sentence; DESIGN.md §5.2 "transport replay").
//
//	p, err := tpeers.New(tpeers.Config{Transport: tpeers.RawSocket, Serialization: serialize.CBOR})
//	go r.Attach(p.Router)                 // router side: a real transport peer
//	p.Client.Send() <- &wamp.Hello{...}   // client side: a wamp.Peer too
//	welcome := <-p.Client.Recv()
//	p.Close()                             // the client drops the connection
//
// What is real and what is not:
//
//   - Local: transport.LinkedPeers() (the repo's in-process pair).
//   - RawSocket: a net.Pipe(). The router end is the repo's real
//     transport.AcceptRawSocket (handshake, sendHandler, recvHandler). The
//     client end is RawClient below: a minimal client that performs the
//     rawsocket handshake and frames/unframes with the repo's serializers
//     (transport.ConnectRawSocketPeer can only dial, so it cannot be put on a
//     pipe; the family harness/frames tests it over a unix socket instead).
//   - WebSocket: a pair of in-memory transport.WebsocketConnection (WSConn
//     below, message-oriented, control frames handled as gorilla does); BOTH
//     ends are the repo's real transport.NewWebsocketPeer, created exactly as
//     router/websocketserver.go and ConnectWebsocketPeer create them.
//
// Everything is channel based (no sockets, no real time), so it works inside a
// testing/synctest bubble: synctest.Wait() sees all transport goroutines
// durably blocked when the router is quiescent.
package tpeers

import (
	"errors"
	"fmt"
	"io"
	"log"
	"net"
	"sync"
	"time"

	"github.com/gorilla/websocket"

	"github.com/gammazero/nexus/v3/stdlog"
	"github.com/gammazero/nexus/v3/transport"
	"github.com/gammazero/nexus/v3/transport/serialize"
	"github.com/gammazero/nexus/v3/wamp"
)

type Transport string

const (
	Local     Transport = "local"
	RawSocket Transport = "rawsocket"
	WebSocket Transport = "websocket"
)

// Transports and Serializations list every combination worth replaying.
var (
	Transports     = []Transport{Local, RawSocket, WebSocket}
	Serializations = []serialize.Serialization{serialize.JSON, serialize.MSGPACK, serialize.CBOR}
)

// Config selects the transport. The zero value of every other field is usable.
type Config struct {
	Transport     Transport
	Serialization serialize.Serialization // JSON when AUTO/zero; ignored for Local
	// RouterRecvLimit / ClientRecvLimit are the rawsocket receive limits each
	// side announces (<= 0: the 16M default).
	RouterRecvLimit, ClientRecvLimit int
	// OutQueueSize is the router-side peer's outbound queue (0: 16, the
	// router's defaultOutQueueSize is not exported).
	OutQueueSize int
	// WSBuffer is the number of websocket messages in flight per direction
	// before WriteMessage blocks (0: 64).
	WSBuffer int
	Logger   stdlog.StdLog // nil: discard
}

// Pair is one attached connection.
type Pair struct {
	Router wamp.Peer // hand this to router.Attach / AttachClient
	Client wamp.Peer // the client's end
	once   sync.Once
}

// Close closes the client end, like a client dropping the connection. The
// router-side peer then sees its Recv channel close and the router that owns it
// closes it, exactly as with a real transport server. (Do not close the
// router-side peer yourself once it is attached: rawSocketPeer.Close is not
// idempotent, a second Close panics with "close of closed channel".)
func (p *Pair) Close() { p.once.Do(p.Client.Close) }

// CloseAll is Close for a pair that was never attached to a router: it also
// closes the router-side peer, which nobody else owns.
func (p *Pair) CloseAll() {
	p.once.Do(func() {
		p.Client.Close()
		p.Router.Close()
	})
}

// Name is a short label for reports, e.g. "rawsocket/cbor".
func (c Config) Name() string {
	if c.Transport == Local {
		return "local"
	}
	return fmt.Sprintf("%s/%s", c.Transport, SerName(c.Serialization))
}

func SerName(s serialize.Serialization) string {
	switch s {
	case serialize.MSGPACK:
		return "msgpack"
	case serialize.CBOR:
		return "cbor"
	}
	return "json"
}

// Serializer returns a fresh serializer for s, and the websocket payload type
// and subprotocol that go with it.
func Serializer(s serialize.Serialization) (ser serialize.Serializer, payloadType int, subprotocol string, rawByte byte) {
	switch s {
	case serialize.MSGPACK:
		return &serialize.MessagePackSerializer{}, websocket.BinaryMessage, "wamp.2.msgpack", 2
	case serialize.CBOR:
		return &serialize.CBORSerializer{}, websocket.BinaryMessage, "wamp.2.cbor", 3
	}
	return &serialize.JSONSerializer{}, websocket.TextMessage, "wamp.2.json", 1
}

// New builds a connected pair for cfg.
func New(cfg Config) (*Pair, error) {
	if cfg.Logger == nil {
		cfg.Logger = log.New(io.Discard, "", 0)
	}
	if cfg.OutQueueSize == 0 {
		cfg.OutQueueSize = 16
	}
	switch cfg.Transport {
	case Local, "":
		c, r := transport.LinkedPeers()
		return &Pair{Router: r, Client: c}, nil
	case RawSocket:
		return newRawSocket(cfg)
	case WebSocket:
		return newWebsocket(cfg), nil
	}
	return nil, fmt.Errorf("tpeers: unknown transport %q", cfg.Transport)
}

// ---- rawsocket -------------------------------------------------------------------

func newRawSocket(cfg Config) (*Pair, error) {
	cliConn, srvConn := net.Pipe()
	type res struct {
		p   wamp.Peer
		err error
	}
	done := make(chan res, 1)
	go func() {
		p, err := transport.AcceptRawSocket(srvConn, cfg.Logger, cfg.RouterRecvLimit, cfg.OutQueueSize)
		done <- res{p, err}
	}()
	ser, _, _, proto := Serializer(cfg.Serialization)
	cli, err := DialRawClient(cliConn, ser, proto, cfg.ClientRecvLimit)
	r := <-done
	if err != nil || r.err != nil {
		cliConn.Close()
		if r.p != nil {
			r.p.Close()
		}
		return nil, fmt.Errorf("tpeers: rawsocket handshake failed: client=%v server=%v", err, r.err)
	}
	return &Pair{Router: r.p, Client: cli}, nil
}

// RawClient is a minimal rawsocket client peer: Send() frames with
// [0, len24] + serialised message, Recv() delivers every type-0 frame that
// deserialises, PING is answered by PONG, PONG is ignored. It does not enforce
// any limit when sending (SendLimit is informational), so that oversized
// frames can be provoked on purpose.
type RawClient struct {
	conn      net.Conn
	ser       serialize.Serializer
	SendLimit int // 2^(9+n) announced by the router
	RecvLimit int // 2^(9+n) this client announced
	rd        chan wamp.Message
	wr        chan wamp.Message
	closed    chan struct{}
	once      sync.Once
	wmu       sync.Mutex // frames of the writer and PONGs never interleave
	wdone     chan struct{}
}

// LimitNibble is the rawsocket length code for a receive limit: the least n
// with 2^(9+n) >= limit, 15 for limit <= 0 or above 2^24.
func LimitNibble(limit int) byte {
	if limit > 0 {
		for n := 0; n < 15; n++ {
			if 1<<(9+n) >= limit {
				return byte(n)
			}
		}
	}
	return 15
}

// DialRawClient performs the client side of the handshake on conn.
func DialRawClient(conn net.Conn, ser serialize.Serializer, proto byte, recvLimit int) (*RawClient, error) {
	n := LimitNibble(recvLimit)
	if _, err := conn.Write([]byte{0x7f, n<<4 | proto, 0, 0}); err != nil {
		return nil, err
	}
	var rep [4]byte
	if _, err := io.ReadFull(conn, rep[:]); err != nil {
		return nil, err
	}
	if rep[0] != 0x7f || rep[1]&0xf != proto {
		return nil, fmt.Errorf("rawsocket handshake refused: % x", rep)
	}
	c := &RawClient{conn: conn, ser: ser, SendLimit: 1 << (9 + int(rep[1]>>4)), RecvLimit: 1 << (9 + int(n)),
		rd: make(chan wamp.Message), wr: make(chan wamp.Message, 16), closed: make(chan struct{}), wdone: make(chan struct{})}
	go c.reader()
	go c.writer()
	return c, nil
}

func (c *RawClient) Recv() <-chan wamp.Message { return c.rd }
func (c *RawClient) Send() chan<- wamp.Message { return c.wr }
func (c *RawClient) IsLocal() bool             { return false }

// Close drops the connection. Do not Send after Close.
func (c *RawClient) Close() {
	c.once.Do(func() {
		close(c.closed)
		c.conn.Close()
		<-c.wdone
	})
}

// WriteRaw writes arbitrary bytes to the connection (hostile frames).
func (c *RawClient) WriteRaw(b []byte) error {
	c.wmu.Lock()
	defer c.wmu.Unlock()
	_, err := c.conn.Write(b)
	return err
}

func (c *RawClient) writer() {
	defer close(c.wdone)
	for {
		select {
		case m := <-c.wr:
			b, err := c.ser.Serialize(m)
			if err != nil || len(b) >= 1<<24 {
				continue
			}
			f := append([]byte{0, byte(len(b) >> 16), byte(len(b) >> 8), byte(len(b))}, b...)
			if c.WriteRaw(f) != nil {
				// The connection is gone; keep draining so senders never block.
				continue
			}
		case <-c.closed:
			return
		}
	}
}

func (c *RawClient) reader() {
	defer close(c.rd)
	for {
		var h [4]byte
		if _, err := io.ReadFull(c.conn, h[:]); err != nil {
			return
		}
		body := make([]byte, int(h[1])<<16|int(h[2])<<8|int(h[3]))
		if _, err := io.ReadFull(c.conn, body); err != nil {
			return
		}
		switch h[0] & 7 {
		case 0:
			m, err := c.ser.Deserialize(body)
			if err != nil {
				continue
			}
			select {
			case c.rd <- m:
			case <-c.closed:
				return
			}
		case 1:
			h[0] = 2
			if c.WriteRaw(append(h[:], body...)) != nil {
				return
			}
		}
	}
}

// ---- websocket -------------------------------------------------------------------

type wsMsg struct {
	typ  int
	data []byte
}

// WSConn is one end of an in-memory websocket: it implements
// transport.WebsocketConnection with gorilla's observable behaviour as far as
// the nexus peers use it: ReadMessage returns data messages only, runs the
// ping/pong handlers for control messages (the default ping handler answers
// with a pong), and returns a *websocket.CloseError for a close message or an
// error once either end is closed.
type WSConn struct {
	in       chan wsMsg
	peer     *WSConn
	closed   chan struct{}
	once     sync.Once
	sub      string
	mu       sync.Mutex
	pingH    func(string) error
	pongH    func(string) error
	readErr  error
	Messages int // data messages written by this end
}

// WSPipe returns two connected ends speaking subprotocol sub.
func WSPipe(sub string, buffer int) (*WSConn, *WSConn) {
	if buffer <= 0 {
		buffer = 64
	}
	a := &WSConn{in: make(chan wsMsg, buffer), closed: make(chan struct{}), sub: sub}
	b := &WSConn{in: make(chan wsMsg, buffer), closed: make(chan struct{}), sub: sub}
	a.peer, b.peer = b, a
	return a, b
}

var errWSClosed = errors.New("websocket: use of closed connection")

func (c *WSConn) Subprotocol() string { return c.sub }

func (c *WSConn) Close() error {
	c.once.Do(func() { close(c.closed) })
	return nil
}

func (c *WSConn) write(t int, data []byte, deadline <-chan time.Time) error {
	m := wsMsg{t, append([]byte(nil), data...)}
	select {
	case <-c.closed:
		return errWSClosed
	case <-c.peer.closed:
		return errWSClosed
	default:
	}
	select {
	case c.peer.in <- m:
		return nil
	case <-c.closed:
		return errWSClosed
	case <-c.peer.closed:
		return errWSClosed
	case <-deadline:
		return errors.New("websocket: write timeout")
	}
}

func (c *WSConn) WriteMessage(t int, data []byte) error {
	if t == websocket.TextMessage || t == websocket.BinaryMessage {
		c.mu.Lock()
		c.Messages++
		c.mu.Unlock()
	}
	return c.write(t, data, nil)
}

func (c *WSConn) WriteControl(t int, data []byte, deadline time.Time) error {
	var dl <-chan time.Time
	if !deadline.IsZero() {
		tm := time.NewTimer(time.Until(deadline))
		defer tm.Stop()
		dl = tm.C
	}
	return c.write(t, data, dl)
}

func (c *WSConn) SetPingHandler(h func(string) error) { c.mu.Lock(); c.pingH = h; c.mu.Unlock() }
func (c *WSConn) SetPongHandler(h func(string) error) { c.mu.Lock(); c.pongH = h; c.mu.Unlock() }

func (c *WSConn) ReadMessage() (int, []byte, error) {
	if c.readErr != nil {
		return 0, nil, c.readErr
	}
	for {
		var m wsMsg
		// Messages already in flight are delivered before a close of the other
		// end is noticed (as with a socket: data before FIN). A select with
		// several ready cases picks at random, so `in` is polled again after a
		// close has been seen.
		select {
		case m = <-c.in:
		default:
			select {
			case m = <-c.in:
			case <-c.closed:
				c.readErr = errWSClosed
				return 0, nil, c.readErr
			case <-c.peer.closed:
				select {
				case m = <-c.in:
				default:
					c.readErr = io.ErrUnexpectedEOF
					return 0, nil, c.readErr
				}
			}
		}
		switch m.typ {
		case websocket.TextMessage, websocket.BinaryMessage:
			return m.typ, m.data, nil
		case websocket.PingMessage:
			c.mu.Lock()
			h := c.pingH
			c.mu.Unlock()
			if h == nil {
				h = func(s string) error { return c.write(websocket.PongMessage, []byte(s), nil) }
			}
			if err := h(string(m.data)); err != nil {
				c.readErr = err
				return 0, nil, err
			}
		case websocket.PongMessage:
			c.mu.Lock()
			h := c.pongH
			c.mu.Unlock()
			if h != nil {
				if err := h(string(m.data)); err != nil {
					c.readErr = err
					return 0, nil, err
				}
			}
		case websocket.CloseMessage:
			code, text := websocket.CloseNoStatusReceived, ""
			if len(m.data) >= 2 {
				code, text = int(m.data[0])<<8|int(m.data[1]), string(m.data[2:])
			}
			c.readErr = &websocket.CloseError{Code: code, Text: text}
			return 0, nil, c.readErr
		}
	}
}

// WSPair is a websocket Pair that also exposes the raw client-side
// connection, for injecting arbitrary websocket messages.
func newWebsocket(cfg Config) *Pair {
	p, _, _ := NewWebsocketRaw(cfg)
	return p
}

// NewWebsocketRaw is New for the websocket transport, returning also the two
// in-memory connections (client end, router end).
func NewWebsocketRaw(cfg Config) (*Pair, *WSConn, *WSConn) {
	if cfg.Logger == nil {
		cfg.Logger = log.New(io.Discard, "", 0)
	}
	if cfg.OutQueueSize == 0 {
		cfg.OutQueueSize = 16
	}
	ser, pt, sub, _ := Serializer(cfg.Serialization)
	cser, _, _, _ := Serializer(cfg.Serialization)
	cc, rc := WSPipe(sub, cfg.WSBuffer)
	// as router/websocketserver.go handleWebsocket does (keepAlive 0):
	rp := transport.NewWebsocketPeer(rc, ser, pt, cfg.Logger, 0, cfg.OutQueueSize)
	// as transport.ConnectWebsocketPeer does:
	cp := transport.NewWebsocketPeer(cc, cser, pt, cfg.Logger, 0, 0)
	return &Pair{Router: rp, Client: cp}, cc, rc
}
