package tpeers_test

import (
	"io"
	"log"
	"testing"
	"testing/synctest"
	"time"

	"github.com/gammazero/nexus/v3/router"
	"github.com/gammazero/nexus/v3/wamp"

	"verif/harness/tpeers"
)

// TestBubble shows the intended use: a router scenario replayed through every
// transport x serializer inside a synctest bubble, with synctest.Wait() as the
// quiescence point after each input.
func TestBubble(t *testing.T) {
	quiet := log.New(io.Discard, "", 0)
	for _, tr := range tpeers.Transports {
		for _, s := range tpeers.Serializations {
			cfg := tpeers.Config{Transport: tr, Serialization: s}
			t.Run(cfg.Name(), func(t *testing.T) {
				synctest.Test(t, func(t *testing.T) {
					r, err := router.NewRouter(&router.Config{RealmConfigs: []*router.RealmConfig{{URI: "r", AnonymousAuth: true}}}, quiet)
					if err != nil {
						t.Fatal(err)
					}
					p, err := tpeers.New(cfg)
					if err != nil {
						t.Fatal(err)
					}
					go func() { _ = r.Attach(p.Router) }()
					var got []wamp.Message
					drain := func() {
						synctest.Wait()
						for {
							select {
							case m, ok := <-p.Client.Recv():
								if !ok {
									return
								}
								got = append(got, m)
								synctest.Wait()
							default:
								return
							}
						}
					}
					p.Client.Send() <- &wamp.Hello{Realm: "r", Details: wamp.Dict{"roles": wamp.Dict{"subscriber": wamp.Dict{}, "publisher": wamp.Dict{}}}}
					drain()
					p.Client.Send() <- &wamp.Subscribe{Request: 1, Options: wamp.Dict{}, Topic: "t"}
					drain()
					p.Client.Send() <- &wamp.Publish{Request: 2, Options: wamp.Dict{"acknowledge": true, "exclude_me": false}, Topic: "t", Arguments: wamp.List{"x"}}
					drain()
					time.Sleep(time.Second) // virtual
					drain()
					var types []wamp.MessageType
					for _, m := range got {
						types = append(types, m.MessageType())
					}
					want := []wamp.MessageType{wamp.WELCOME, wamp.SUBSCRIBED, wamp.PUBLISHED, wamp.EVENT}
					if len(types) != 4 || types[0] != want[0] || types[1] != want[1] {
						t.Fatalf("%s: got %v", cfg.Name(), types)
					}
					p.Close()
					synctest.Wait()
					r.Close()
				})
			})
		}
	}
}
