// Command clientrace is the real-concurrency part of the C16 check: many goroutines use ONE
// client at the same time (real scheduler, all cores - the clientfam family runs under the
// deterministic synctest scheduler, which never interleaves two goroutines inside a
// non-blocking section such as the id generator). Every operation must get the reply to its
// own request: a Call echoes a payload unique to (goroutine, iteration).
package main

import (
	"context"
	"flag"
	"fmt"
	"io"
	"log"
	"os"
	"runtime"
	"sync"
	"sync/atomic"
	"time"

	"github.com/gammazero/nexus/v3/client"
	"github.com/gammazero/nexus/v3/router"
	"github.com/gammazero/nexus/v3/wamp"

	"verif/harness/hcommon"
)

func main() {
	seed := flag.Int64("seed", 1, "")
	tier := flag.String("tier", "quick", "")
	out := flag.String("out", ".", "")
	prop := flag.String("property", "C16", "")
	workers := flag.Int("workers", 32, "goroutines sharing one client")
	iters := flag.Int("iters", 400, "operations per goroutine")
	patience := flag.Int("patience", 60, "seconds without any completed operation after which pending operations count as hung")
	flag.String("replay", "", "")
	flag.Parse()
	sum := &hcommon.Summary{Family: "clientrace", Property: *prop, Seed: *seed, Tier: *tier,
		Rule: "operations issued concurrently through one client (each Call carries a payload unique to goroutine and iteration)"}
	defer func() {
		if err := sum.Write(*out); err != nil {
			fmt.Fprintln(os.Stderr, err)
			os.Exit(2)
		}
	}()
	runtime.GOMAXPROCS(runtime.NumCPU())
	lg := log.New(io.Discard, "", 0)
	r, err := router.NewRouter(&router.Config{RealmConfigs: []*router.RealmConfig{{URI: "r", AnonymousAuth: true}}}, lg)
	if err != nil {
		sum.Disagreements = append(sum.Disagreements, hcommon.Disagreement{Detail: "router: " + err.Error()})
		return
	}
	defer r.Close()
	cfg := client.Config{Realm: "r", ResponseTimeout: 30 * time.Second, Logger: lg}
	callee, err := client.ConnectLocal(r, cfg)
	if err != nil {
		sum.Disagreements = append(sum.Disagreements, hcommon.Disagreement{Detail: "callee: " + err.Error()})
		return
	}
	defer callee.Close()
	echo := func(_ context.Context, inv *wamp.Invocation) client.InvokeResult {
		return client.InvokeResult{Args: inv.Arguments}
	}
	if err := callee.Register("echo", echo, nil); err != nil {
		sum.Disagreements = append(sum.Disagreements, hcommon.Disagreement{Detail: "register: " + err.Error()})
		return
	}
	shared, err := client.ConnectLocal(r, cfg)
	if err != nil {
		sum.Disagreements = append(sum.Disagreements, hcommon.Disagreement{Detail: "caller: " + err.Error()})
		return
	}
	defer shared.Close()

	var mu sync.Mutex
	bad := func(in any, got, want, detail string) {
		mu.Lock()
		defer mu.Unlock()
		if len(sum.Disagreements) < 6 {
			sum.Disagreements = append(sum.Disagreements, hcommon.Disagreement{Input: in, Impl: got, Model: want, SpecViolation: true, Detail: detail})
		}
	}
	// Directed: Call's progress handler is busy with a progressive result when the caller's context
	// is cancelled. Call returns the context's error, but not before the handler has returned
	// ("never after Call has returned"). No timing assumption: the handler says when it has started,
	// and whether it had finished is read after Call came back.
	for _, useCallProgressive := range []bool{false, true} {
		in := map[string]any{"directed": "cancel-while-progress-handler-busy", "CallProgressive": useCallProgressive}
		proc := fmt.Sprintf("prog.%v", useCallProgressive)
		err := callee.Register(proc, func(ctx context.Context, _ *wamp.Invocation) client.InvokeResult {
			if callee.SendProgress(ctx, wamp.List{"p1"}, nil) != nil {
				return client.InvokeResult{Err: "verif.failed"}
			}
			<-ctx.Done()
			return client.InvocationCanceled
		}, nil)
		if err != nil {
			bad(in, err.Error(), "REGISTERED", "register failed")
			continue
		}
		started := make(chan struct{}, 1)
		var finished atomic.Bool
		progcb := func(*wamp.Result) {
			select {
			case started <- struct{}{}:
			default:
			}
			time.Sleep(300 * time.Millisecond)
			finished.Store(true)
		}
		ctx, cancel := context.WithCancel(context.Background())
		ret := make(chan error, 1)
		go func() {
			var err error
			if useCallProgressive {
				sent := false
				_, err = shared.CallProgressive(ctx, proc, func(context.Context) (wamp.Dict, wamp.List, wamp.Dict, error) {
					if sent {
						<-ctx.Done()
						return nil, nil, nil, ctx.Err()
					}
					sent = true
					return wamp.Dict{wamp.OptProgress: true}, wamp.List{1}, nil, nil
				}, progcb)
			} else {
				_, err = shared.Call(ctx, proc, nil, nil, nil, progcb)
			}
			if !finished.Load() {
				select {
				case <-started:
					bad(in, fmt.Sprint("returned ", err, " while the progress handler was still running"), "returns after the progress handler",
						"Call returned while its progress handler was still busy with a progressive result: the handler runs after Call has returned")
				default: // the handler was never invoked: nothing to wait for
				}
			}
			ret <- err
		}()
		select {
		case <-started:
			started <- struct{}{}
		case <-time.After(30 * time.Second):
			bad(in, "no progressive result delivered", "progress handler invoked", "the progress handler was never invoked")
		}
		cancel()
		select {
		case err := <-ret:
			if err != context.Canceled {
				bad(in, fmt.Sprint(err), "context.Canceled", "a cancelled Call did not return the context's error")
			}
		case <-time.After(60 * time.Second):
			bad(in, "still waiting", "returns", "a cancelled Call did not return")
		}
		mu.Lock()
		sum.Evaluations++
		sum.TracesValidated++
		mu.Unlock()
	}

	var wg sync.WaitGroup
	for w := 0; w < *workers; w++ {
		wg.Add(1)
		go func(w int) {
			defer wg.Done()
			defer func() {
				if p := recover(); p != nil {
					bad(map[string]any{"worker": w}, fmt.Sprint("panic: ", p), "no panic", "a client API call panicked under concurrent use")
				}
			}()
			for i := 0; i < *iters; i++ {
				tag := fmt.Sprintf("w%d-i%d", w, i)
				in := map[string]any{"worker": w, "iteration": i, "workers": *workers}
				switch i % 3 {
				case 0:
					res, err := shared.Call(context.Background(), "echo", nil, wamp.List{tag}, nil, nil)
					if err != nil {
						bad(in, "error "+err.Error(), "RESULT ["+tag+"]", "Call did not return its own RESULT")
						return
					}
					if len(res.Arguments) != 1 || res.Arguments[0] != tag {
						bad(in, fmt.Sprint("RESULT ", res.Arguments), "RESULT ["+tag+"]", "Call returned the reply to another request")
						return
					}
				case 1:
					if err := shared.Publish("t."+tag, wamp.Dict{"acknowledge": true}, wamp.List{tag}, nil); err != nil {
						bad(in, "error "+err.Error(), "PUBLISHED", "acknowledged Publish did not return its own PUBLISHED")
						return
					}
				default:
					topic := fmt.Sprintf("s.w%d", w)
					if err := shared.Subscribe(topic, func(*wamp.Event) {}, nil); err != nil {
						bad(in, "error "+err.Error(), "SUBSCRIBED", "Subscribe did not return its own SUBSCRIBED")
						return
					}
					if err := shared.Unsubscribe(topic); err != nil {
						bad(in, "error "+err.Error(), "UNSUBSCRIBED", "Unsubscribe did not return its own UNSUBSCRIBED")
						return
					}
				}
				mu.Lock()
				sum.Evaluations++
				sum.TracesValidated++
				mu.Unlock()
			}
		}(w)
	}
	done := make(chan struct{})
	go func() { wg.Wait(); close(done) }()
	// hung = no operation completed for `patience` seconds (a slow machine is not a hang)
	last, idle := -1, 0
wait:
	for {
		select {
		case <-done:
			break wait
		case <-time.After(time.Second):
			mu.Lock()
			cur := sum.Evaluations
			mu.Unlock()
			if cur != last {
				last, idle = cur, 0
				continue
			}
			if idle++; idle < *patience {
				continue
			}
			bad(map[string]any{"workers": *workers, "iters": *iters}, "operations still pending", "every operation returns",
				fmt.Sprintf("client API calls issued concurrently through one client: none returned for %d s", *patience))
			mu.Lock()
			sum.DistinctNontrivial = sum.Evaluations
			sum.Write(*out)
			mu.Unlock()
			os.Exit(0)
		}
	}
	sum.DistinctNontrivial = sum.Evaluations
	sum.Count(fmt.Sprintf("workers.%d", *workers))
}
