package hcommon

// RNG is a small deterministic PRNG (splitmix64). Every random choice of a
// family derives from one RNG seeded from VERIF_SEED so that a disagreement
// replays exactly.
type RNG struct{ s uint64 }

func NewRNG(seed int64) *RNG {
	// Mix the seed first: with a plain affine start the streams of nearby seeds
	// are shifted copies of one another.
	r := &RNG{s: uint64(seed) ^ 0x5DEECE66D}
	a := r.Uint64()
	b := r.Uint64()
	return &RNG{s: a ^ (b << 1) ^ uint64(seed)*0xD6E8FEB86659FD93}
}

func (r *RNG) Uint64() uint64 {
	r.s += 0x9E3779B97F4A7C15
	z := r.s
	z = (z ^ (z >> 30)) * 0xBF58476D1CE4E5B9
	z = (z ^ (z >> 27)) * 0x94D049BB133111EB
	return z ^ (z >> 31)
}

// Intn returns a value in [0, n).
func (r *RNG) Intn(n int) int {
	if n <= 0 {
		return 0
	}
	return int(r.Uint64() % uint64(n))
}

// Chance returns true with probability num/den.
func (r *RNG) Chance(num, den int) bool { return r.Intn(den) < num }

// Split derives an independent generator.
func (r *RNG) Split() *RNG { return &RNG{s: r.Uint64()} }

// Pick returns one element of xs.
func Pick[T any](r *RNG, xs []T) T { return xs[r.Intn(len(xs))] }
