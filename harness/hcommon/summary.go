// Package hcommon holds what every correspondence family shares: the summary
// file read by bin/check, a splittable PRNG derived from VERIF_SEED, and the
// runner for the Lean model driver.
package hcommon

import (
	"encoding/json"
	"os"
	"path/filepath"
	"sort"
)

// Disagreement is one input on which model and implementation differ, or on
// which the implementation's observed behaviour violates the property's
// executable specification.
type Disagreement struct {
	// Input is the minimised input / operation sequence (replayable).
	Input any `json:"input"`
	// Impl and Model are the canonicalised outputs of each side.
	Impl  any `json:"impl"`
	Model any `json:"model"`
	// SpecViolation is true when the implementation's behaviour on Input
	// breaks the property's executable specification (a concrete failing
	// input), false when model and implementation merely differ.
	SpecViolation bool   `json:"spec_violation"`
	Detail        string `json:"detail"`
	// Finding is the id of the known_findings.json entry whose signature this
	// disagreement matches, if any (set by the family).
	Finding string `json:"finding,omitempty"`
}

// Summary is written as <out>/summary.json by each family run.
type Summary struct {
	Family             string         `json:"family"`
	Property           string         `json:"property"`
	Seed               int64          `json:"seed"`
	Tier               string         `json:"tier"`
	Evaluations        int            `json:"evaluations"`
	DistinctNontrivial int            `json:"distinct_nontrivial"`
	Rule               string         `json:"rule"`
	Samples            []any          `json:"samples"`
	Histogram          map[string]int `json:"histogram"`
	TracesValidated    int            `json:"traces_validated_against_impl"`
	Disagreements      []Disagreement `json:"disagreements"`
	KnownFindings      []string       `json:"known_findings,omitempty"`
	Notes              []string       `json:"notes,omitempty"`
}

func (s *Summary) Count(key string) {
	if s.Histogram == nil {
		s.Histogram = map[string]int{}
	}
	s.Histogram[key]++
}

func (s *Summary) AddSample(v any, max int) {
	if len(s.Samples) < max {
		s.Samples = append(s.Samples, v)
	}
}

func (s *Summary) Write(outDir string) error {
	if err := os.MkdirAll(outDir, 0o755); err != nil {
		return err
	}
	if s.Samples == nil {
		s.Samples = []any{}
	}
	if s.Disagreements == nil {
		s.Disagreements = []Disagreement{}
	}
	b, err := json.MarshalIndent(s, "", " ")
	if err != nil {
		return err
	}
	return os.WriteFile(filepath.Join(outDir, "summary.json"), b, 0o644)
}

// SortedKeys returns the keys of a string-keyed map in order.
func SortedKeys[V any](m map[string]V) []string {
	ks := make([]string, 0, len(m))
	for k := range m {
		ks = append(ks, k)
	}
	sort.Strings(ks)
	return ks
}
