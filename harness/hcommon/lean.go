package hcommon

import (
	"bufio"
	"bytes"
	"fmt"
	"os"
	"os/exec"
	"strings"
)

// DriverPath returns the path of the compiled Lean model driver.
func DriverPath() string {
	if p := os.Getenv("VERIF_LEAN_DRIVER"); p != "" {
		return p
	}
	return "/verif/lean/.lake/build/bin/nexus-driver"
}

// RunDriver pipes lines to `nexus-driver <mode>` and returns its output lines.
func RunDriver(mode string, lines []string) ([]string, error) {
	cmd := exec.Command(DriverPath(), mode)
	cmd.Stdin = strings.NewReader(strings.Join(lines, "\n") + "\n")
	var out, errb bytes.Buffer
	cmd.Stdout = &out
	cmd.Stderr = &errb
	if err := cmd.Run(); err != nil {
		return nil, fmt.Errorf("lean driver %s: %v: %s", mode, err, errb.String())
	}
	var res []string
	sc := bufio.NewScanner(&out)
	sc.Buffer(make([]byte, 1<<20), 1<<28)
	for sc.Scan() {
		res = append(res, sc.Text())
	}
	return res, sc.Err()
}
