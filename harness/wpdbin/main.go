// Family "wpdbin" (property C14, audit item c3): the bytes the real codec writes for SIGNED Go
// integers and for float32, against the Lean functions of Nexus/Codec/WpDMsgPackSigned.lean, and
// the widening of binary32 / binary16 on decode against the model's f32to64 / f16to32.
//
// Sections (each counted in the histogram):
//
//	intsigned   MessagePackSerializer.SerializeDataItem(x) for x an int64 / int / int32 / int16 /
//	            int8 holding i  ==  Lean MsgPack.encIntSigned i   (boundaries of every family and
//	            random values over the whole int64 range); CBORSerializer likewise == CBOR.encIntSigned.
//	valsigned   nested values all of whose integers are int64 (in range) or uint64 (above), dicts
//	            with at most one key (map order): codec bytes == Lean MsgPack.encSigned; the Lean
//	            decoder (`codec` mode, `dec`) reads them back to the value.
//	f32enc      SerializeDataItem(float32 with bit pattern w) == Lean encFloat32 w, msgpack and cbor.
//	f32dec      codec-decode of ca<w> / fa<w> into `any` gives a float64 with the bits Lean `dec`
//	            gives (f32to64 w): random w, all exponent classes, NaN payloads.
//	f16dec      codec-decode of CBOR f9<h> for all 65536 h == Lean `dec` (f32to64 (f16to32 h)).
package main

import (
	"encoding/hex"
	"flag"
	"fmt"
	"hash/fnv"
	"math"
	"os"
	"strings"

	"github.com/gammazero/nexus/v3/transport/serialize"

	"verif/harness/hcommon"
)

type runner struct {
	sum      *hcommon.Summary
	rng      *hcommon.RNG
	distinct map[uint64]struct{}
}

func (r *runner) seen(kind, key string) {
	h := fnv.New64a()
	h.Write([]byte(kind))
	h.Write([]byte{0})
	h.Write([]byte(key))
	r.distinct[h.Sum64()] = struct{}{}
}

func (r *runner) disagree(input, impl, model any, detail string) {
	r.sum.Count("disagreement")
	for _, d := range r.sum.Disagreements {
		if d.Detail == detail {
			return
		}
	}
	if len(r.sum.Disagreements) < 12 {
		r.sum.Disagreements = append(r.sum.Disagreements, hcommon.Disagreement{Input: input, Impl: impl, Model: model, Detail: detail})
	}
}

func fatal(err error) {
	fmt.Fprintln(os.Stderr, "wpdbin:", err)
	os.Exit(2)
}

var mp = &serialize.MessagePackSerializer{}
var cb = &serialize.CBORSerializer{}

func enc(s interface {
	SerializeDataItem(any) ([]byte, error)
}, v any) string {
	b, err := s.SerializeDataItem(v)
	if err != nil {
		return "error " + err.Error()
	}
	return "ok " + hex.EncodeToString(b)
}

func (r *runner) genInt() int64 {
	switch r.rng.Intn(4) {
	case 0: // boundaries of the families
		k := uint(r.rng.Intn(64))
		b := int64(1) << k
		if k == 63 {
			b = math.MaxInt64
		}
		d := int64(r.rng.Intn(5)) - 2
		v := b + d
		if r.rng.Chance(1, 2) {
			v = -b + d
		}
		return v
	case 1:
		return int64(r.rng.Intn(700)) - 350
	case 2:
		return int64(r.rng.Uint64() >> uint(r.rng.Intn(64)))
	default:
		return -int64(r.rng.Uint64()>>uint(1+r.rng.Intn(63))) - 1
	}
}

func (r *runner) sectionInts(n int) {
	fixed := []int64{0, 1, 127, 128, 255, 256, 32767, 32768, 65535, 65536, math.MaxInt32, math.MaxInt32 + 1, math.MaxUint32, math.MaxUint32 + 1,
		math.MaxInt64, -1, -32, -33, -128, -129, -32768, -32769, math.MinInt32, math.MinInt32 - 1, math.MinInt64, math.MinInt64 + 1}
	type job struct {
		i    int64
		typ  string
		gmp  string
		gcb  string
	}
	var jobs []job
	var lines []string
	add := func(i int64) {
		var v any = i
		typ := "int64"
		switch c := r.rng.Intn(5); {
		case c == 1:
			v, typ = int(i), "int"
		case c == 2 && i >= math.MinInt32 && i <= math.MaxInt32:
			v, typ = int32(i), "int32"
		case c == 3 && i >= math.MinInt16 && i <= math.MaxInt16:
			v, typ = int16(i), "int16"
		case c == 4 && i >= math.MinInt8 && i <= math.MaxInt8:
			v, typ = int8(i), "int8"
		}
		jobs = append(jobs, job{i, typ, enc(mp, v), enc(cb, v)})
		lines = append(lines, fmt.Sprintf("encint %d", i), fmt.Sprintf("cborint %d", i))
	}
	for _, i := range fixed {
		add(i)
	}
	for k := 0; k < n; k++ {
		add(r.genInt())
	}
	out, err := hcommon.RunDriver("wpdbin", lines)
	if err != nil || len(out) != len(lines) {
		fatal(fmt.Errorf("driver: %v (%d/%d lines)", err, len(out), len(lines)))
	}
	for k, j := range jobs {
		r.sum.Evaluations += 2
		r.sum.Count("intsigned." + j.typ)
		r.seen("intsigned", fmt.Sprint(j.i))
		r.sum.AddSample(map[string]any{"section": "intsigned", "go": fmt.Sprintf("%s(%d)", j.typ, j.i), "msgpack": j.gmp, "cbor": j.gcb}, 6)
		if out[2*k] != j.gmp {
			r.disagree(fmt.Sprintf("%s(%d)", j.typ, j.i), j.gmp, out[2*k], "intsigned: msgpack bytes of a signed Go integer differ from MsgPack.encIntSigned")
		}
		if out[2*k+1] != j.gcb {
			r.disagree(fmt.Sprintf("%s(%d)", j.typ, j.i), j.gcb, out[2*k+1], "intsigned: cbor bytes of a signed Go integer differ from CBOR.encIntSigned")
		}
		if len(j.gmp) > 5 {
			r.sum.Count("intsigned.head." + j.gmp[3:5])
		}
	}
}

// genVal: values with int64 (in range) / uint64 (above) integers, dicts with ≤ 1 key.
func (r *runner) genVal(depth int) (any, string) {
	c := r.rng.Intn(9)
	if depth <= 0 && c >= 7 {
		c = r.rng.Intn(7)
	}
	switch c {
	case 0:
		return nil, "n"
	case 1:
		if r.rng.Chance(1, 2) {
			return true, "t"
		}
		return false, "f"
	case 2, 3:
		i := r.genInt()
		return i, fmt.Sprintf("i%d", i)
	case 4:
		u := uint64(1)<<63 + r.rng.Uint64()>>1
		return u, fmt.Sprintf("i%d", u)
	case 5:
		f := math.Float64frombits(r.rng.Uint64())
		if f != f {
			f = 1.5
		}
		return f, fmt.Sprintf("d%016x", math.Float64bits(f))
	case 6:
		b := make([]byte, r.rng.Intn(40))
		for i := range b {
			b[i] = byte('a' + r.rng.Intn(26))
		}
		return string(b), "s" + hex.EncodeToString(b)
	case 7:
		n := r.rng.Intn(5)
		if r.rng.Chance(1, 8) {
			n = 14 + r.rng.Intn(5) // across the fixarray boundary
		}
		l := make([]any, n)
		parts := make([]string, n)
		for i := range l {
			l[i], parts[i] = r.genVal(depth - 1)
		}
		return l, "[" + strings.Join(parts, ",") + "]"
	default:
		if r.rng.Chance(1, 4) {
			return map[string]any{}, "{}"
		}
		k := make([]byte, 1+r.rng.Intn(6))
		for i := range k {
			k[i] = byte('a' + r.rng.Intn(26))
		}
		v, s := r.genVal(depth - 1)
		return map[string]any{string(k): v}, "{" + hex.EncodeToString(k) + ":" + s + "}"
	}
}

func (r *runner) sectionVals(n int) {
	type job struct{ text, gmp string }
	var jobs []job
	var lines, dlines []string
	for k := 0; k < n; k++ {
		v, s := r.genVal(3)
		g := enc(mp, v)
		jobs = append(jobs, job{s, g})
		lines = append(lines, "encs "+s)
		dlines = append(dlines, "dec msgpack "+strings.TrimPrefix(g, "ok "))
	}
	out, err := hcommon.RunDriver("wpdbin", lines)
	if err != nil || len(out) != len(lines) {
		fatal(fmt.Errorf("driver: %v", err))
	}
	dout, err := hcommon.RunDriver("codec", dlines)
	if err != nil || len(dout) != len(dlines) {
		fatal(fmt.Errorf("driver: %v", err))
	}
	for k, j := range jobs {
		r.sum.Evaluations += 2
		r.sum.Count("valsigned")
		r.seen("valsigned", j.text)
		r.sum.AddSample(map[string]any{"section": "valsigned", "value": j.text, "msgpack": j.gmp}, 10)
		if out[k] != j.gmp {
			r.disagree(j.text, j.gmp, out[k], "valsigned: msgpack bytes of a value with signed integers differ from MsgPack.encSigned")
		}
		if want := "ok " + j.text + " -"; dout[k] != want {
			r.disagree(j.gmp, want, dout[k], "valsigned: Lean MsgPack.dec of the codec's bytes is not the value")
		}
	}
}

func (r *runner) genF32() uint32 {
	w := uint32(r.rng.Uint64())
	switch r.rng.Intn(6) {
	case 0: // subnormal
		w &= 0x807fffff
		if r.rng.Chance(1, 2) {
			w &= 0x80000000 | (1<<uint(r.rng.Intn(23)+1) - 1)
		}
	case 1: // inf / nan
		w |= 0x7f800000
		if r.rng.Chance(1, 4) {
			w &= 0xff800000
		}
	case 2: // small exponents
		w = w&0x807fffff | uint32(1+r.rng.Intn(3))<<23
	case 3: // few mantissa bits
		w &= 0xfff00000
	}
	return w
}

func (r *runner) sectionF32(n int) {
	fixed := []uint32{0, 0x80000000, 1, 0x007fffff, 0x00800000, 0x3f800000, 0xc0200000, 0x7f7fffff, 0x7f800000, 0xff800000, 0x7f800001, 0x7fc00000, 0xffffffff, 0x00400000}
	var ws []uint32
	ws = append(ws, fixed...)
	for k := 0; k < n; k++ {
		ws = append(ws, r.genF32())
	}
	var lines, dlines []string
	for _, w := range ws {
		lines = append(lines, fmt.Sprintf("encf32 msgpack %08x", w), fmt.Sprintf("encf32 cbor %08x", w))
		dlines = append(dlines, fmt.Sprintf("dec msgpack ca%08x", w), fmt.Sprintf("dec cbor fa%08x", w))
	}
	out, err := hcommon.RunDriver("wpdbin", lines)
	if err != nil || len(out) != len(lines) {
		fatal(fmt.Errorf("driver: %v", err))
	}
	dout, err := hcommon.RunDriver("codec", dlines)
	if err != nil || len(dout) != len(dlines) {
		fatal(fmt.Errorf("driver: %v", err))
	}
	for k, w := range ws {
		f := math.Float32frombits(w)
		r.sum.Evaluations += 4
		cls := "normal"
		switch e := w >> 23 & 0xff; {
		case e == 0 && w&0x7fffff == 0:
			cls = "zero"
		case e == 0:
			cls = "subnormal"
		case e == 255 && w&0x7fffff == 0:
			cls = "inf"
		case e == 255:
			cls = "nan"
		}
		r.sum.Count("f32." + cls)
		r.seen("f32", fmt.Sprint(w))
		// encode: only when the bit pattern survives being held in a Go float32 (NaNs do on amd64/arm64)
		if math.Float32bits(f) == w {
			if g := enc(mp, f); g != out[2*k] {
				r.disagree(fmt.Sprintf("float32 bits %08x", w), g, out[2*k], "f32enc: msgpack bytes of a float32 differ from MsgPack.encFloat32")
			}
			if g := enc(cb, f); g != out[2*k+1] {
				r.disagree(fmt.Sprintf("float32 bits %08x", w), g, out[2*k+1], "f32enc: cbor bytes of a float32 differ from CBOR.encFloat32")
			}
		}
		for fi, s := range []interface {
			DeserializeDataItem([]byte, any) error
		}{mp, cb} {
			b, _ := hex.DecodeString(strings.Fields(dlines[2*k+fi])[2])
			var v any
			impl := ""
			if err := s.DeserializeDataItem(b, &v); err != nil {
				impl = "error"
			} else if x, ok := v.(float64); ok {
				impl = fmt.Sprintf("ok d%016x -", math.Float64bits(x))
			} else {
				impl = fmt.Sprintf("ok %T", v)
			}
			if impl != dout[2*k+fi] {
				r.disagree(hex.EncodeToString(b), impl, dout[2*k+fi], "f32dec: the codec widens a binary32 differently from f32to64")
			}
		}
		r.sum.AddSample(map[string]any{"section": "f32", "bits": fmt.Sprintf("%08x", w), "model": dout[2*k]}, 14)
	}
}

func (r *runner) sectionF16() {
	var dlines []string
	for h := 0; h < 65536; h++ {
		dlines = append(dlines, fmt.Sprintf("dec cbor f9%04x", h))
	}
	dout, err := hcommon.RunDriver("codec", dlines)
	if err != nil || len(dout) != len(dlines) {
		fatal(fmt.Errorf("driver: %v", err))
	}
	for h := 0; h < 65536; h++ {
		r.sum.Evaluations++
		b := []byte{0xf9, byte(h >> 8), byte(h)}
		var v any
		impl := ""
		if err := cb.DeserializeDataItem(b, &v); err != nil {
			impl = "error"
		} else if x, ok := v.(float64); ok {
			impl = fmt.Sprintf("ok d%016x -", math.Float64bits(x))
		} else {
			impl = fmt.Sprintf("ok %T", v)
		}
		if impl != dout[h] {
			r.disagree(hex.EncodeToString(b), impl, dout[h], "f16dec: the codec widens a binary16 differently from f32to64 ∘ f16to32")
		}
	}
	r.sum.Count("f16.all65536")
	r.seen("f16", "all")
}

func main() {
	seed := flag.Int64("seed", 1, "")
	tier := flag.String("tier", "quick", "")
	out := flag.String("out", ".", "")
	prop := flag.String("property", "C14", "")
	replay := flag.String("replay", "", "")
	n := flag.Int("n", 3000, "number of generated integers / values / floats per section")
	flag.Parse()
	_ = replay

	sum := &hcommon.Summary{Family: "wpdbin", Property: *prop, Seed: *seed, Tier: *tier,
		Rule: "distinct (section, input) pairs, counted by 64-bit FNV hash"}
	r := &runner{sum: sum, rng: hcommon.NewRNG(*seed).Split(), distinct: map[uint64]struct{}{}}
	r.sectionInts(*n)
	r.sectionVals(*n)
	r.sectionF32(*n)
	r.sectionF16()
	sum.DistinctNontrivial = len(r.distinct)
	if err := sum.Write(*out); err != nil {
		fatal(err)
	}
	fmt.Fprintf(os.Stderr, "wpdbin: %d evaluations, %d distinct, %d disagreements\n", sum.Evaluations, sum.DistinctNontrivial, len(sum.Disagreements))
}
