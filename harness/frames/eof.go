package main

// Section `eof`: END OF STREAM as an input of the reader.
//
// A prefix of a frame stream (well formed, or with junk / oversize / reserved
// frames) is fed to the REAL rawsocket peer and then the connection ENDS:
// between frames, inside a header, inside a MSG body, inside a PING or a PONG
// payload, or at a random position. Two connections are used:
//
//	script  the scripted in-memory conn of stream.go (Read reports io.EOF once
//	        the prefix has been consumed); deterministic;
//	pipe    net.Pipe: the harness writes the prefix, waits for the answers the
//	        property demands, and CLOSES its end of the pipe.
//
// Observed and compared with `streameof` of the Lean driver
// (Nexus.Frame.decodeStreamEOF / readErrAction): the messages handed over,
// the bytes the reader wrote back, that the reader goroutine TERMINATED
// (Recv() is closed), that the connection was closed by the peer, the
// "Error reading ...:" log line (captured logger), and whether the reader
// cancelled the sender goroutine on its way out (rs.writerDone closed before
// anybody called Close; read through the field by reflection).  With
// messages queued on Send() the case also checks the sender-side consequence
// (eof_in_header_sender_drains): when the stream ends between frames or
// inside a header, every queued message is written before the peer closes the
// connection.

import (
	"bytes"
	"encoding/hex"
	"fmt"
	"io"
	"log"
	"net"
	"reflect"
	"strings"
	"sync"
	"time"
	"unsafe"

	"github.com/gammazero/nexus/v3/transport"
	"github.com/gammazero/nexus/v3/transport/serialize"
	"github.com/gammazero/nexus/v3/wamp"

	"verif/harness/hcommon"
	"verif/harness/tpeers"
)

type eofCase struct {
	Ser       string
	RecvLimit int
	Items     []item
	Keep      int    // the stream ends after this many bytes (0..len)
	Chunks    []int  // read / write chunk sizes, cycled
	Mode      string // script | pipe
	Queue     int    // messages put on Send() right after the handshake (script mode, <= 4)
	Where     string // what the generator aimed at (clean|hdr|msg|ping|pong|random)
}

func (c eofCase) whole() []byte {
	var b []byte
	for _, it := range c.Items {
		b = append(b, it.bytes()...)
	}
	return b
}

func (c eofCase) stream() []byte {
	b := c.whole()
	if c.Keep < len(b) {
		b = b[:max(c.Keep, 0)]
	}
	return b
}

// asStreamCase expresses the kept prefix in the vocabulary of specStream.
func (c eofCase) asStreamCase() streamCase {
	sc := streamCase{Ser: c.Ser, RecvLimit: c.RecvLimit, Items: c.Items, Chunks: c.Chunks}
	total := len(c.whole())
	switch {
	case c.Keep <= 0:
		sc.Items = nil
	case c.Keep < total:
		sc.Cut = c.Keep
	}
	return sc
}

type eofObs struct {
	Delivered  []string `json:"delivered"`
	Written    string   `json:"written"`     // PONG frames the reader wrote (after the handshake reply)
	Terminated bool     `json:"terminated"`  // Recv() was closed: the reader goroutine returned
	ClosedOwn  bool     `json:"closed_own"`  // the peer closed the connection BEFORE the stream ended
	ConnClosed bool     `json:"conn_closed"` // the peer closed the connection (before Close() was called on it)
	Log        string   `json:"log"`         // "Error ..." lines of the peer's log, up to the colon
	Cancelled  bool     `json:"cancelled"`   // rs.writerDone was closed when the reader returned
	SentFrames int      `json:"sent_frames"` // MSG frames of the sender goroutine that reached the connection
	Note       string   `json:"note,omitempty"`
}

type lockedBuf struct {
	mu sync.Mutex
	b  bytes.Buffer
}

func (l *lockedBuf) Write(p []byte) (int, error) {
	l.mu.Lock()
	defer l.mu.Unlock()
	return l.b.Write(p)
}

func (l *lockedBuf) String() string {
	l.mu.Lock()
	defer l.mu.Unlock()
	return l.b.String()
}

func (l *lockedBuf) Len() int {
	l.mu.Lock()
	defer l.mu.Unlock()
	return l.b.Len()
}

func (l *lockedBuf) Bytes() []byte {
	l.mu.Lock()
	defer l.mu.Unlock()
	return append([]byte(nil), l.b.Bytes()...)
}

// errorLines keeps the "Error ...:" lines of the peer's log (the read / write
// error lines of recvHandler and sendHandler), each cut after its colon.
func errorLines(logText string) string {
	var ls []string
	for _, l := range strings.Split(logText, "\n") {
		if strings.HasPrefix(l, "Error ") {
			if i := strings.IndexByte(l, ':'); i >= 0 {
				l = l[:i+1]
			}
			ls = append(ls, l)
		}
	}
	if len(ls) == 0 {
		return "-"
	}
	return strings.Join(ls, "|")
}

// writerDoneClosed looks at rs.writerDone without receiving from it.
func writerDoneClosed(p wamp.Peer) (closed bool, err error) {
	defer func() {
		if r := recover(); r != nil {
			err = fmt.Errorf("%v", r)
		}
	}()
	f := reflect.ValueOf(p).Elem().FieldByName("writerDone")
	if !f.IsValid() || f.Kind() != reflect.Chan || f.Type().Elem().Size() != 0 {
		return false, fmt.Errorf("rawSocketPeer.writerDone is not a chan struct{} any more")
	}
	ch := *(*chan struct{})(unsafe.Pointer(f.UnsafeAddr()))
	select {
	case <-ch:
		return true, nil
	default:
		return false, nil
	}
}

// splitWritten separates what the peer wrote after the handshake reply into the
// reader goroutine's PONG frames (concatenated) and the number of MSG frames of
// the sender goroutine. Every Write call of either goroutine is a whole frame.
func splitWritten(w []byte) (pongs []byte, sent int, ok bool) {
	for len(w) > 0 {
		if len(w) < 4 {
			return pongs, sent, false
		}
		n := int(w[1])<<16 | int(w[2])<<8 | int(w[3])
		if len(w) < 4+n {
			return pongs, sent, false
		}
		switch w[0] & 7 {
		case 0:
			sent++
		case 2:
			pongs = append(pongs, w[:4+n]...)
		default:
			return pongs, sent, false
		}
		w = w[4+n:]
	}
	return pongs, sent, true
}

func queuedMessage(i int) wamp.Message {
	return &wamp.Publish{Request: wamp.ID(900 + i), Options: wamp.Dict{}, Topic: "c15.eof", Arguments: wamp.List{i}}
}

func chunked(data []byte, chunks []int) [][]byte {
	var res [][]byte
	k := 0
	for len(data) > 0 {
		sz := len(data)
		if len(chunks) > 0 {
			sz = chunks[k%len(chunks)]
			k++
		}
		if sz <= 0 || sz > len(data) {
			sz = len(data)
		}
		res = append(res, data[:sz])
		data = data[sz:]
	}
	return res
}

// finishEOF collects what is common to both connections once the peer exists.
func finishEOF(p wamp.Peer, o *eofObs, delivered <-chan []string, logs *lockedBuf) {
	select {
	case d := <-delivered:
		o.Delivered = d
		o.Terminated = true
	case <-time.After(wedge):
		o.Note += " wedged: the reader goroutine did not return after the end of the stream"
	}
	if o.Terminated {
		c, err := writerDoneClosed(p)
		if err != nil {
			o.Note += " harness: " + err.Error()
		}
		o.Cancelled = c
	}
	o.Log = errorLines(logs.String())
}

func collectDelivered(p wamp.Peer) <-chan []string {
	ch := make(chan []string, 1)
	go func() {
		var d []string
		for m := range p.Recv() {
			d = append(d, describe(m))
		}
		ch <- d
	}()
	return ch
}

func closePeer(p wamp.Peer, o *eofObs) {
	done := make(chan struct{})
	go func() { p.Close(); close(done) }()
	select {
	case <-done:
	case <-time.After(wedge):
		o.Note += " wedged: peer.Close() did not return"
	}
}

// implEOFScript: the scripted connection; EOF is reported once the prefix is consumed.
func implEOFScript(c eofCase, proto byte) (o eofObs) {
	sc := &scriptConn{chunks: append([][]byte{{0x7f, 0xf0 | proto, 0, 0}}, chunked(c.stream(), c.Chunks)...)}
	var logs lockedBuf
	var p wamp.Peer
	var err error
	if c.Queue > 0 {
		// Nothing of the stream may be read before the messages are queued: hold the reader
		// back by serving the stream only once they are on the channel.
		data := sc.chunks[1:]
		sc.chunks = sc.chunks[:1]
		hold := &holdConn{scriptConn: sc, release: make(chan struct{})}
		p, err = transport.AcceptRawSocket(hold, log.New(&logs, "", 0), c.RecvLimit, 4)
		if err == nil {
			for i := 0; i < c.Queue; i++ {
				p.Send() <- queuedMessage(i)
			}
			sc.mu.Lock()
			sc.chunks = append(sc.chunks, data...)
			sc.mu.Unlock()
			close(hold.release)
		}
	} else {
		p, err = transport.AcceptRawSocket(sc, log.New(&logs, "", 0), c.RecvLimit, 4)
	}
	if err != nil {
		o.Note = "harness: handshake failed: " + err.Error()
		return
	}
	finishEOF(p, &o, collectDelivered(p), &logs)
	sc.mu.Lock()
	w := append([]byte(nil), sc.written.Bytes()...)
	o.ClosedOwn = sc.closedOwn
	o.ConnClosed = sc.closed
	sc.mu.Unlock()
	if len(w) >= 4 {
		w = w[4:]
	}
	pongs, sent, ok := splitWritten(w)
	if !ok {
		o.Note += " the peer's writes are not a sequence of whole MSG/PONG frames: " + hx(w)
	}
	o.Written, o.SentFrames = hx(pongs), sent
	closePeer(p, &o)
	return
}

// holdConn delays the reads after the handshake until released.
type holdConn struct {
	*scriptConn
	release chan struct{}
	shaken  bool
}

func (h *holdConn) Read(p []byte) (int, error) {
	if h.shaken {
		<-h.release
	}
	n, err := h.scriptConn.Read(p)
	h.scriptConn.mu.Lock()
	if h.scriptConn.consumed >= 4 {
		h.shaken = true
	}
	h.scriptConn.mu.Unlock()
	return n, err
}

// closeSpy records that Close was called on the peer's end of the pipe.
type closeSpy struct {
	net.Conn
	mu     sync.Mutex
	closed bool
}

func (c *closeSpy) Close() error {
	c.mu.Lock()
	c.closed = true
	c.mu.Unlock()
	return c.Conn.Close()
}

func (c *closeSpy) wasClosed() bool {
	c.mu.Lock()
	defer c.mu.Unlock()
	return c.closed
}

// implEOFPipe: net.Pipe; the harness closes its end after the prefix. wantWritten / wantClosed
// (from the specification, not from the model) say what to wait for before the stream is ended:
// the answers to the PINGs of the prefix, or the peer closing on a bad header of the prefix.
func implEOFPipe(c eofCase, proto byte, wantWritten int, wantClosed bool) (o eofObs) {
	cli, rawSrv := net.Pipe()
	srv := &closeSpy{Conn: rawSrv}
	defer cli.Close()
	var logs lockedBuf
	type res struct {
		p   wamp.Peer
		err error
	}
	acc := make(chan res, 1)
	go func() {
		p, err := transport.AcceptRawSocket(srv, log.New(&logs, "", 0), c.RecvLimit, 4)
		acc <- res{p, err}
	}()
	_ = cli.SetWriteDeadline(time.Now().Add(wedge))
	if _, err := cli.Write([]byte{0x7f, 0xf0 | proto, 0, 0}); err != nil {
		o.Note = "harness: request not consumed: " + err.Error()
		return
	}
	var rep [4]byte
	_ = cli.SetReadDeadline(time.Now().Add(wedge))
	if _, err := io.ReadFull(cli, rep[:]); err != nil {
		o.Note = "harness: no handshake reply: " + err.Error()
		return
	}
	_ = cli.SetReadDeadline(time.Time{})
	r := <-acc
	if r.err != nil {
		o.Note = "harness: handshake failed: " + r.err.Error()
		return
	}
	p := r.p
	delivered := collectDelivered(p)
	// everything the peer writes, until our end is closed or the peer closes its end
	var got lockedBuf
	peerClosed := make(chan struct{})
	collected := make(chan struct{})
	go func() {
		defer close(collected)
		buf := make([]byte, 4096)
		for {
			n, err := cli.Read(buf)
			got.Write(buf[:n])
			if err != nil {
				if err == io.EOF { // the PEER closed its end (our own Close gives io.ErrClosedPipe)
					close(peerClosed)
				}
				return
			}
		}
	}()
	for _, ch := range chunked(c.stream(), c.Chunks) {
		_ = cli.SetWriteDeadline(time.Now().Add(wedge))
		if _, err := cli.Write(ch); err != nil {
			if err != io.ErrClosedPipe { // ErrClosedPipe: the peer closed while we were writing (oversize / reserved)
				o.Note += " wedged: the peer does not read: " + err.Error()
			}
			break
		}
	}
	// the answers the property demands must be there before the stream ends
	deadline := time.Now().Add(wedge)
	for got.Len() < wantWritten && time.Now().Before(deadline) {
		select {
		case <-peerClosed:
			deadline = time.Now()
		default:
			time.Sleep(50 * time.Microsecond)
		}
	}
	if wantClosed {
		// the peer closes on a header of the prefix, possibly just after our last Write returned
		select {
		case <-peerClosed:
		case <-time.After(wedge):
		}
	}
	select {
	case <-peerClosed:
		o.ClosedOwn = true
	default:
	}
	_ = cli.Close() // END OF STREAM
	<-collected
	finishEOF(p, &o, delivered, &logs)
	o.ConnClosed = srv.wasClosed()
	pongs, sent, ok := splitWritten(got.Bytes())
	if !ok {
		o.Note += " the peer's writes are not a sequence of whole MSG/PONG frames: " + hx(got.Bytes())
	}
	o.Written, o.SentFrames = hx(pongs), sent
	closePeer(p, &o)
	return
}

// eofModel is the Lean model's answer to `streameof`.
type eofModel struct {
	Obs    streamObs
	State  string // closed:<why>
	At     string // hdr0 | hdr | msg | ping | echo | pong | closed
	Log    string
	Cancel bool
	Conn   bool
}

func parseModelEOF(line string, ser serialize.Serializer) eofModel {
	m := kv(line)
	e := eofModel{Obs: parseModelStream(line, ser), State: m["state"], At: m["at"], Cancel: m["cancel"] == "1", Conn: m["conn"] == "1"}
	e.Log = strings.ReplaceAll(m["log"], "_", " ")
	return e
}

func (e eofModel) class() string {
	switch e.At {
	case "hdr0":
		return "eof.clean"
	case "closed":
		return "eof.after-close." + strings.TrimPrefix(e.State, "closed:")
	}
	return "eof.partial." + e.At
}

func checkEOF(cases []eofCase) {
	type prepared struct {
		c     eofCase
		ser   serialize.Serializer
		proto byte
		limit int
	}
	var ps []prepared
	var lines []string
	for _, c := range cases {
		_, ser, proto := serByName(c.Ser)
		limit := 1 << (9 + tpeers.LimitNibble(c.RecvLimit))
		ps = append(ps, prepared{c, ser, proto, limit})
		lines = append(lines, fmt.Sprintf("streameof %d %s", limit, hx(c.stream())))
	}
	model := driver(lines)
	for i, p := range ps {
		in := replayCase{Section: "eof", Ser: p.c.Ser, RecvLimit: p.c.RecvLimit, Items: p.c.Items, Keep: p.c.Keep, Chunks: p.c.Chunks,
			Mode: p.c.Mode, Queue: p.c.Queue, Bytes: hx(p.c.stream())}
		guard("eof", in, func() {
			m := parseModelEOF(model[i], p.ser)
			if !strings.HasPrefix(m.State, "closed:") {
				disagree("eof-model", in, nil, model[i], false, "the model's reader is not closed after the end of the stream")
				return
			}
			s := specStream(p.c.asStreamCase(), p.limit, p.ser)
			wantWritten, _ := hex.DecodeString(strings.TrimPrefix(s.Written, "-"))
			var o eofObs
			if p.c.Mode == "pipe" {
				o = implEOFPipe(p.c, p.proto, len(wantWritten), s.Closed)
			} else {
				o = implEOFScript(p.c, p.proto)
			}
			cls := m.class()
			sum.Count(cls)
			sum.Count("eof.mode." + p.c.Mode)
			if p.c.Queue > 0 {
				sum.Count(fmt.Sprintf("eof.queued.%s.sent%d-of-%d", strings.TrimPrefix(cls, "eof."), o.SentFrames, p.c.Queue))
			}
			note("eof", fmt.Sprintf("%s/%s/q%d/%s", signature(p.c.asStreamCase(), p.limit), p.c.Mode, p.c.Queue, cls))
			sum.AddSample(map[string]any{"op": lines[i], "impl": o, "model": model[i]}, 12)

			// the property, evaluated on the implementation: what came before the end has had its
			// effect (whole messages in order, PINGs answered), nothing else was handed over or
			// written, and the reader ended
			got := streamObs{Delivered: o.Delivered, Written: o.Written, Closed: o.ClosedOwn}
			switch {
			case strings.Contains(o.Note, "wedged") || strings.Contains(o.Note, "harness") || strings.Contains(o.Note, "whole MSG/PONG"):
				disagree("eof-spec", in, o, s, true, strings.TrimSpace(o.Note))
				return
			case !sameObs(got, s):
				disagree("eof-spec", in, o, s, true, "end of stream: delivered / PONG bytes / closing differ from the specification")
				return
			case !o.ConnClosed:
				disagree("eof-spec", in, o, s, true, "the reader returned but the connection was not closed")
				return
			}
			// model vs implementation
			var diffs []string
			if strings.Join(got.Delivered, "\x00") != strings.Join(m.Obs.Delivered, "\x00") || got.Written != m.Obs.Written {
				diffs = append(diffs, "events")
			}
			if (m.At == "closed") != o.ClosedOwn {
				diffs = append(diffs, "who closed first")
			}
			wantLog := m.Log
			if wantLog == "" {
				wantLog = "-"
			}
			if p.c.Queue == 0 || m.Cancel { // with a running sender a failed Write of a queued message logs as well
				if o.Log != wantLog {
					diffs = append(diffs, fmt.Sprintf("log %q, model %q", o.Log, wantLog))
				}
			} else if wantLog != "-" && !strings.Contains(o.Log, wantLog) {
				diffs = append(diffs, fmt.Sprintf("log %q lacks %q", o.Log, wantLog))
			}
			if o.Cancelled != m.Cancel {
				diffs = append(diffs, fmt.Sprintf("sender cancelled by the reader: %v, model %v", o.Cancelled, m.Cancel))
			}
			if m.At != "closed" && !m.Conn {
				diffs = append(diffs, "model: connection not closed")
			}
			if p.c.Queue > 0 && m.Cancel && o.SentFrames != p.c.Queue {
				diffs = append(diffs, fmt.Sprintf("%d of %d queued messages written before the connection was closed (eof_in_header_sender_drains)", o.SentFrames, p.c.Queue))
			}
			if len(diffs) > 0 {
				disagree("eof-model", in, o, model[i], false, "end of stream: implementation and model differ: "+strings.Join(diffs, "; "))
			}
		})
	}
}

// cutsFor returns the positions of a stream at which the generator aims: where -> offsets.
func cutsFor(items []item, limit int) map[string][]int {
	res := map[string][]int{}
	off := 0
	res["clean"] = append(res["clean"], 0)
	for _, it := range items {
		if it.Len > limit || it.Type&7 > 2 {
			break // the reader closes on this header: what follows is not looked at
		}
		pl := len(it.payload())
		for k := 1; k <= 3; k++ {
			res["hdr"] = append(res["hdr"], off+k)
		}
		kind := []string{"msg", "ping", "pong"}[it.Type&7]
		if it.Len > 0 && pl >= it.Len {
			res[kind] = append(res[kind], off+4, off+4+it.Len-1) // nothing / all but one byte of the body
			if it.Len > 2 {
				res[kind] = append(res[kind], off+4+1+(off*7+it.Len/2)%(it.Len-2))
			}
		}
		off += 4 + pl
		if pl == it.Len {
			res["clean"] = append(res["clean"], off)
		}
	}
	return res
}

func runEOF(rng *hcommon.RNG) {
	n := *flagStreams / 4
	if thorough && n < 1000 {
		n = 1000
	}
	var cases []eofCase
	chunkings := [][]int{nil, {1}, {3, 5}}
	for si, serName := range []string{"json", "msgpack", "cbor"} {
		_, ser, _ := serByName(serName)
		cfg := []int{512, 513, 1500}[si]
		limit := 1 << (9 + tpeers.LimitNibble(cfg))
		// directed: a well-formed mix, the stream ending at every class of position, on both
		// connections, with every chunking; and with messages queued on the sender
		_, b1, _ := sized(ser, 1, 60)
		_, b2, _ := sized(ser, 2, limit)
		mix := []item{
			{Kind: "msg", Type: 0, Len: len(b1), Payload: hex.EncodeToString(b1)},
			{Kind: "ping", Type: 0x09, Len: 5, Payload: "aabbccddee"},
			{Kind: "pong", Type: 2, Len: 7, Payload: "50505050505050"},
			{Kind: "junk", Type: 0, Len: 0, Payload: ""},
			{Kind: "ping", Type: 1, Len: 0, Payload: ""},
			{Kind: "msg", Type: 0x80, Len: len(b2), Payload: hex.EncodeToString(b2)},
			{Kind: "ping", Type: 1, Len: limit, Payload: hex.EncodeToString(bytes.Repeat([]byte{0x70}, limit))},
			{Kind: "pong", Type: 2, Len: limit, Payload: hex.EncodeToString(bytes.Repeat([]byte{0x71}, limit))},
			{Kind: "junk", Type: 0, Len: 4, Payload: "ffffffff"},
		}
		total := len(eofCase{Items: mix}.whole())
		for where, offs := range cutsFor(mix, limit) {
			for k, off := range offs {
				for _, mode := range []string{"script", "pipe"} {
					cases = append(cases, eofCase{Ser: serName, RecvLimit: cfg, Items: mix, Keep: off, Mode: mode,
						Chunks: chunkings[k%len(chunkings)], Where: where})
				}
				cases = append(cases, eofCase{Ser: serName, RecvLimit: cfg, Items: mix, Keep: off, Mode: "script",
					Queue: 1 + k%4, Where: where})
			}
		}
		cases = append(cases, eofCase{Ser: serName, RecvLimit: cfg, Items: mix, Keep: total, Mode: "pipe", Chunks: []int{1}, Where: "clean"})
		// directed: the stream ends right after / inside a frame on which the reader closes itself
		for _, bad := range []item{
			{Kind: "oversize", Type: 0, Len: limit + 1, Payload: "00"},
			{Kind: "reserved", Type: 5, Len: 3, Payload: "010203"},
		} {
			its := []item{mix[0], bad, mix[0]}
			whole := len(eofCase{Items: its}.whole())
			first := len(mix[0].bytes())
			for _, keep := range []int{first + 3, first + 4, first + 5, whole} {
				for _, mode := range []string{"script", "pipe"} {
					cases = append(cases, eofCase{Ser: serName, RecvLimit: cfg, Items: its, Keep: keep, Mode: mode, Where: "after-close"})
				}
			}
		}
		// random streams (junk, oversize and reserved frames included), aimed and random ends
		limits := []int{512, 513, 1500}
		for i := 0; i < n; i++ {
			sc := genStream(rng, serName, limits[i%len(limits)])
			lim := 1 << (9 + tpeers.LimitNibble(sc.RecvLimit))
			c := eofCase{Ser: serName, RecvLimit: sc.RecvLimit, Items: sc.Items, Chunks: sc.Chunks, Mode: "script"}
			whole := len(c.whole())
			cuts := cutsFor(c.Items, lim)
			c.Where = []string{"clean", "hdr", "msg", "ping", "pong", "random"}[rng.Intn(6)]
			if offs := cuts[c.Where]; len(offs) > 0 {
				c.Keep = offs[rng.Intn(len(offs))]
			} else {
				c.Where = "random"
				c.Keep = rng.Intn(whole + 1)
			}
			if rng.Chance(1, 3) {
				c.Mode = "pipe"
			} else if rng.Chance(1, 4) {
				c.Queue = 1 + rng.Intn(4)
			}
			cases = append(cases, c)
		}
	}
	checkEOF(cases)
}
