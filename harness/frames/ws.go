package main

import (
	"fmt"
	"reflect"
	"strings"
	"time"

	"github.com/gorilla/websocket"

	"github.com/gammazero/nexus/v3/wamp"

	"verif/harness/hcommon"
	"verif/harness/tpeers"
)

// runWebsocket checks the framing sentence for the websocket peers: both ends
// are real transport.NewWebsocketPeer over an in-memory connection pair. A
// script mixes serialisable messages, unserialisable ones (dropped whole by the
// sending peer) and raw websocket messages that do not deserialise (skipped by
// the receiving peer); exactly the good messages must arrive, intact and in
// order, in both directions. The websocket peer has no size limit of its own.
//
// The "model" of this section is the specification itself (message boundaries
// are gorilla's; there is no framing logic in websocketpeer.go to model).
func runWebsocket(rng *hcommon.RNG) {
	rounds := 6
	if thorough {
		rounds = 60
	}
	for _, s := range tpeers.Serializations {
		for _, dir := range []string{"client->router", "router->client"} {
			for r := 0; r < rounds; r++ {
				wsRound(rng, tpeers.Config{Transport: tpeers.WebSocket, Serialization: s}, dir)
			}
		}
	}
}

func wsRound(rng *hcommon.RNG, cfg tpeers.Config, dir string) {
	in := map[string]any{"section": "ws", "ser": tpeers.SerName(cfg.Serialization), "direction": dir}
	guard("ws", in, func() {
		pair, cc, rc := tpeers.NewWebsocketRaw(cfg)
		defer pair.CloseAll()
		from, to, raw := pair.Client, pair.Router, cc
		if dir == "router->client" {
			from, to, raw = pair.Router, pair.Client, rc
		}
		ser, pt, _, _ := tpeers.Serializer(cfg.Serialization)
		var kinds []string
		var expect []string
		recv := func(d time.Duration) (wamp.Message, bool) {
			select {
			case m, ok := <-to.Recv():
				return m, ok
			case <-time.After(d):
				return nil, false
			}
		}
		var got []string
		n := 4 + rng.Intn(10)
		for i := 0; i < n; i++ {
			switch rng.Intn(6) {
			case 0: // unserialisable: the sending peer logs and drops it
				kinds = append(kinds, "unser")
				from.Send() <- &wamp.Publish{Request: wamp.ID(i + 1), Options: wamp.Dict{}, Topic: "c15.bad", Arguments: wamp.List{complex(1, 2)}}
			case 1: // a websocket message that does not deserialise, injected below the peer
				kinds = append(kinds, "junk")
				j := []byte(junkPayloads[rng.Intn(len(junkPayloads))])
				if _, ok, pan := tryDeserialize(ser, j); ok || pan != nil {
					j = []byte{0xc1}
					if _, ok, pan := tryDeserialize(ser, j); ok || pan != nil {
						continue
					}
				}
				_ = raw.WriteMessage(pt, j)
			case 2: // ping below the peer: answered inside the connection, invisible to the router
				kinds = append(kinds, "wsping")
				_ = raw.WriteMessage(websocket.PingMessage, []byte("p"))
			default:
				kinds = append(kinds, "msg")
				size := 40 + rng.Intn(3000)
				if rng.Chance(1, 8) {
					size = 70000 + rng.Intn(200000)
				}
				m, b, ok := sized(ser, i+1, size)
				if !ok {
					continue
				}
				rt, _, _ := tryDeserialize(ser, b)
				expect = append(expect, describe(rt))
				from.Send() <- m
				// lock step: wait for it, so that injected raw messages keep their place
				if x, ok := recv(wedge); ok {
					got = append(got, describe(x))
				}
			}
		}
		sentinel := &wamp.Goodbye{Reason: "c15.sentinel", Details: wamp.Dict{}}
		sb, _ := ser.Serialize(sentinel)
		rt, _, _ := tryDeserialize(ser, sb)
		expect = append(expect, describe(rt))
		from.Send() <- sentinel
		for len(got) < len(expect) {
			x, ok := recv(wedge)
			if !ok {
				break
			}
			got = append(got, describe(x))
		}
		if x, ok := recv(20 * time.Millisecond); ok {
			got = append(got, "extra:"+describe(x))
		}
		note("ws", fmt.Sprintf("%s/%s/%s", tpeers.SerName(cfg.Serialization), dir, strings.Join(kinds, ",")))
		if !reflect.DeepEqual(got, expect) {
			disagree("ws-spec", in, clip(got), clip(expect), true,
				"websocket: the messages that arrived are not exactly the serialisable ones, intact and in order")
		}
	})
}

func clip(xs []string) []string {
	out := make([]string, len(xs))
	for i, x := range xs {
		if len(x) > 120 {
			x = fmt.Sprintf("%s…(%d chars)", x[:100], len(x))
		}
		out[i] = x
	}
	return out
}
