package main

import (
	"bytes"
	"encoding/hex"
	"fmt"
	"io"
	"net"
	"reflect"
	"strings"
	"sync"
	"time"

	"github.com/gammazero/nexus/v3/transport"
	"github.com/gammazero/nexus/v3/transport/serialize"
	"github.com/gammazero/nexus/v3/wamp"

	"verif/harness/hcommon"
	"verif/harness/tpeers"
)

// ---- a scripted connection ---------------------------------------------------------

// scriptConn is a net.Conn whose read side serves a fixed byte stream cut into
// chunks (a Read never returns more than the rest of the current chunk) and
// then reports EOF, and whose write side records. It makes the reader
// goroutine's behaviour a deterministic function of the stream: EOF is only
// seen after everything before it has been processed and answered.
type scriptConn struct {
	mu        sync.Mutex
	chunks    [][]byte
	written   bytes.Buffer
	closed    bool
	eofGiven  bool
	closedOwn bool // Close was called before the input was exhausted: the peer ended the connection itself
	consumed  int
}

func (c *scriptConn) Read(p []byte) (int, error) {
	c.mu.Lock()
	defer c.mu.Unlock()
	if c.closed {
		return 0, net.ErrClosed
	}
	for len(c.chunks) > 0 && len(c.chunks[0]) == 0 {
		c.chunks = c.chunks[1:]
	}
	if len(c.chunks) == 0 {
		c.eofGiven = true
		return 0, io.EOF
	}
	n := copy(p, c.chunks[0])
	c.chunks[0] = c.chunks[0][n:]
	c.consumed += n
	return n, nil
}

func (c *scriptConn) Write(p []byte) (int, error) {
	c.mu.Lock()
	defer c.mu.Unlock()
	if c.closed {
		return 0, net.ErrClosed
	}
	return c.written.Write(p)
}

func (c *scriptConn) Close() error {
	c.mu.Lock()
	defer c.mu.Unlock()
	if !c.closed {
		c.closed = true
		c.closedOwn = !c.eofGiven
	}
	return nil
}

type addr struct{}

func (addr) Network() string { return "script" }
func (addr) String() string  { return "script" }

func (c *scriptConn) LocalAddr() net.Addr              { return addr{} }
func (c *scriptConn) RemoteAddr() net.Addr             { return addr{} }
func (c *scriptConn) SetDeadline(time.Time) error      { return nil }
func (c *scriptConn) SetReadDeadline(time.Time) error  { return nil }
func (c *scriptConn) SetWriteDeadline(time.Time) error { return nil }

// ---- frame scripts -------------------------------------------------------------------

// item is one frame of a script.
type item struct {
	Kind    string `json:"kind"` // msg | junk | ping | pong | reserved (what the generator intended)
	Type    byte   `json:"type"` // header byte 0 (type in the low 3 bits, reserved bits above)
	Len     int    `json:"len"`  // length announced in the header
	Payload string `json:"payload"`
}

func (it item) payload() []byte { b, _ := hex.DecodeString(it.Payload); return b }

func (it item) bytes() []byte {
	return append([]byte{it.Type, byte(it.Len >> 16), byte(it.Len >> 8), byte(it.Len)}, it.payload()...)
}

type streamCase struct {
	Ser       string
	RecvLimit int // configured (the peer negotiates 2^(9+n) >= it)
	Items     []item
	Cut       int   // the stream ends after this many bytes (<=0: not cut)
	Chunks    []int // read chunk sizes, cycled
}

func (c streamCase) stream() []byte {
	var b []byte
	for _, it := range c.Items {
		b = append(b, it.bytes()...)
	}
	if c.Cut > 0 && c.Cut < len(b) {
		b = b[:c.Cut]
	}
	return b
}

func serByName(n string) (serialize.Serialization, serialize.Serializer, byte) {
	s := map[string]serialize.Serialization{"json": serialize.JSON, "msgpack": serialize.MSGPACK, "cbor": serialize.CBOR}[n]
	ser, _, _, proto := tpeers.Serializer(s)
	return s, ser, proto
}

// tryDeserialize runs the real deserializer outside the peer: (msg, ok, panicked).
func tryDeserialize(ser serialize.Serializer, p []byte) (m wamp.Message, ok bool, pan any) {
	defer func() {
		if r := recover(); r != nil {
			pan, ok = r, false
		}
	}()
	m, err := ser.Deserialize(p)
	return m, err == nil, nil
}

// sized builds a PUBLISH whose serialisation has exactly n bytes (ok=false if
// that size cannot be hit).
func sized(ser serialize.Serializer, seq, n int) (wamp.Message, []byte, bool) {
	fill := 0
	for try := 0; try < 12; try++ {
		m := &wamp.Publish{Request: wamp.ID(seq), Options: wamp.Dict{}, Topic: "c15.t", Arguments: wamp.List{strings.Repeat("x", fill)}}
		b, err := ser.Serialize(m)
		if err != nil {
			return nil, nil, false
		}
		if len(b) == n {
			return m, b, true
		}
		fill += n - len(b)
		if fill < 0 {
			return nil, nil, false
		}
	}
	return nil, nil, false
}

type streamObs struct {
	Delivered []string `json:"delivered"` // the messages handed over, each re-described ("nil" for a nil message)
	Written   string   `json:"written"`   // bytes the reader wrote back (after the handshake reply)
	Closed    bool     `json:"closed"`    // the peer ended the connection itself
	Note      string   `json:"note,omitempty"`
}

func describe(m wamp.Message) string {
	if m == nil || (reflect.ValueOf(m).Kind() == reflect.Pointer && reflect.ValueOf(m).IsNil()) {
		return "nil"
	}
	return fmt.Sprintf("%s%+v", m.MessageType(), m)
}

// implStream runs the real reader goroutine over the case's stream.
func implStream(c streamCase, proto byte) (o streamObs, limit int) {
	n := tpeers.LimitNibble(c.RecvLimit)
	limit = 1 << (9 + n)
	data := c.stream()
	sc := &scriptConn{chunks: [][]byte{{0x7f, 0xf0 | proto, 0, 0}}}
	k := 0
	for len(data) > 0 {
		sz := len(data)
		if len(c.Chunks) > 0 {
			sz = c.Chunks[k%len(c.Chunks)]
			k++
		}
		if sz <= 0 || sz > len(data) {
			sz = len(data)
		}
		sc.chunks = append(sc.chunks, data[:sz])
		data = data[sz:]
	}
	p, err := transport.AcceptRawSocket(sc, quiet, c.RecvLimit, 4)
	if err != nil {
		o.Note = "harness: handshake failed: " + err.Error()
		return
	}
	timeout := time.After(wedge)
collect:
	for {
		select {
		case m, ok := <-p.Recv():
			if !ok {
				break collect
			}
			o.Delivered = append(o.Delivered, describe(m))
		case <-timeout:
			o.Note = "wedged: the reader neither delivered nor finished"
			break collect
		}
	}
	sc.mu.Lock()
	w := append([]byte(nil), sc.written.Bytes()...)
	o.Closed = sc.closedOwn
	sc.mu.Unlock()
	if len(w) >= 4 {
		if got := w[1] >> 4; got != n {
			o.Note = fmt.Sprintf("handshake announced limit code %d, expected %d", got, n)
		}
		w = w[4:]
	}
	o.Written = hx(w)
	done := make(chan struct{})
	go func() { p.Close(); close(done) }()
	select {
	case <-done:
	case <-time.After(wedge):
		o.Note += " wedged: peer.Close() did not return"
	}
	return
}

// specStream evaluates the framing sentences of C15 directly on the script:
// messages in order and intact or dropped whole, later ones unaffected; a frame
// above the announced limit or of reserved type ends the connection and
// nothing after it is delivered; PING is answered by PONG with the same
// payload; never a nil message.
func specStream(c streamCase, limit int, ser serialize.Serializer) streamObs {
	var o streamObs
	var w []byte
	total := len(c.stream())
	off := 0
	for _, it := range c.Items {
		if off+4 > total {
			break // header incomplete: the reader waits
		}
		avail := total - off - 4
		pl := it.payload()
		if avail > len(pl) {
			avail = len(pl)
		}
		if it.Len > limit {
			o.Closed = true
			break
		}
		switch it.Type & 7 {
		case 0:
			if avail < it.Len {
				off = total
				continue
			}
			if m, ok, _ := tryDeserialize(ser, pl[:it.Len]); ok {
				o.Delivered = append(o.Delivered, describe(m))
			}
		case 1:
			if avail < it.Len {
				off = total // nothing is answered before the whole PING payload is there
				continue
			}
			w = append(w, 2, byte(it.Len>>16), byte(it.Len>>8), byte(it.Len))
			w = append(w, pl[:it.Len]...)
		case 2:
		default:
			o.Closed = true
		}
		if o.Closed {
			break
		}
		off += 4 + len(pl)
	}
	o.Written = hx(w)
	return o
}

func parseModelStream(line string, ser serialize.Serializer) streamObs {
	m := kv(line)
	var o streamObs
	if d := m["delivered"]; d != "-" {
		for _, h := range strings.Split(d, ";") {
			p, _ := hex.DecodeString(strings.TrimPrefix(h, "."))
			if msg, ok, _ := tryDeserialize(ser, p); ok { // the model's parameter `de` is the real deserializer
				o.Delivered = append(o.Delivered, describe(msg))
			}
		}
	}
	if m["nil"] != "0" {
		o.Delivered = append(o.Delivered, "nil x"+m["nil"])
	}
	o.Written = m["written"]
	o.Closed = strings.HasPrefix(m["state"], "closed")
	o.Note = m["state"]
	return o
}

func sameObs(a, b streamObs) bool {
	return strings.Join(a.Delivered, "\x00") == strings.Join(b.Delivered, "\x00") && a.Written == b.Written && a.Closed == b.Closed
}

func signature(c streamCase, limit int) string {
	var s []string
	for _, it := range c.Items {
		cls := "mid"
		switch {
		case it.Len == 0:
			cls = "0"
		case it.Len == limit:
			cls = "="
		case it.Len == limit-1:
			cls = "-1"
		case it.Len == limit+1:
			cls = "+1"
		case it.Len > limit:
			cls = "big"
		}
		s = append(s, fmt.Sprintf("%s%d%s", it.Kind[:2], it.Type&7, cls))
	}
	cut := "whole"
	if c.Cut > 0 {
		cut = "cut"
	}
	return fmt.Sprintf("%s/%d/%s/%s", c.Ser, limit, strings.Join(s, ","), cut)
}

// checkStreams runs model, implementation and spec on every case.
func checkStreams(cases []streamCase, shrink bool) {
	type prepared struct {
		c     streamCase
		ser   serialize.Serializer
		proto byte
		limit int
	}
	var ps []prepared
	var lines []string
	for _, c := range cases {
		_, ser, proto := serByName(c.Ser)
		limit := 1 << (9 + tpeers.LimitNibble(c.RecvLimit))
		ps = append(ps, prepared{c, ser, proto, limit})
		lines = append(lines, fmt.Sprintf("stream %d %s", limit, hx(c.stream())))
	}
	model := driver(lines)
	for i, p := range ps {
		in := replayCase{Section: "stream", Ser: p.c.Ser, RecvLimit: p.c.RecvLimit, Items: p.c.Items, Cut: p.c.Cut, Chunks: p.c.Chunks,
			Bytes: hx(p.c.stream())}
		if perKind["stream-spec"] >= 25 {
			sum.Count("stream:skipped-after-25-violations")
			continue
		}
		guard("stream", in, func() {
			o, limit := implStream(p.c, p.proto)
			m := parseModelStream(model[i], p.ser)
			s := specStream(p.c, limit, p.ser)
			note("stream", signature(p.c, limit))
			sum.AddSample(map[string]any{"op": lines[i], "impl": o, "model": model[i]}, 8)
			if o.Closed {
				sum.Count("stream:closed-by-peer")
			}
			bad := ""
			switch {
			case strings.Contains(o.Note, "wedged") || strings.Contains(o.Note, "harness") || strings.Contains(o.Note, "announced"):
				bad = o.Note
			case !sameObs(o, s):
				bad = "the reader's behaviour contradicts the property (delivered / PONG bytes / closing differ from the specification)"
			}
			if bad != "" {
				if shrink {
					in.Items, in.Cut = shrinkStream(p.c, p.proto, p.ser)
					in.Bytes = hx(streamCase{Items: in.Items, Cut: in.Cut}.stream())
				}
				disagree("stream-spec", in, o, s, true, bad)
			} else if !sameObs(o, m) {
				disagree("stream-model", in, o, m, false, "reader: implementation and model differ")
			}
		})
	}
}

// shrinkStream greedily removes frames while the spec violation persists.
func shrinkStream(c streamCase, proto byte, ser serialize.Serializer) ([]item, int) {
	fails := func(c streamCase) bool {
		o, limit := implStream(c, proto)
		return !sameObs(o, specStream(c, limit, ser))
	}
	c.Chunks = nil
	if !fails(c) {
		return c.Items, c.Cut
	}
	if c.Cut > 0 {
		if d := (streamCase{Ser: c.Ser, RecvLimit: c.RecvLimit, Items: c.Items}); fails(d) {
			c = d
		}
	}
	for i := 0; i < len(c.Items); {
		d := c
		d.Items = append(append([]item(nil), c.Items[:i]...), c.Items[i+1:]...)
		if len(d.Items) > 0 && d.Cut == 0 && fails(d) {
			c = d
		} else {
			i++
		}
	}
	return c.Items, c.Cut
}

// ---- generator -------------------------------------------------------------------------

var junkPayloads = []string{"", "[]", "{}", "[999]", "[16", "null", "[\"a\"]", "\xff\xff", "[16,\"x\",{},\"t\"]", "[16,1,2,3]",
	"\x00", "\x90", "\x80", "\xc0", "\x81\x01\x02", "\x9f", "[16,1,{},5,6,7]", "[1e400]", "[-1]", "[16,1,{},\"t\",[],{},7]"}

func genStream(rng *hcommon.RNG, serName string, cfgLimit int) streamCase {
	_, ser, _ := serByName(serName)
	limit := 1 << (9 + tpeers.LimitNibble(cfgLimit))
	c := streamCase{Ser: serName, RecvLimit: cfgLimit}
	seq := 1
	lenNear := func() int {
		switch rng.Intn(8) {
		case 0:
			return limit
		case 1:
			return limit - 1
		case 2:
			return 0
		case 3:
			return rng.Intn(limit + 1)
		}
		return rng.Intn(60)
	}
	hi := func(t byte) byte { // reserved bits above the type are ignored by the reader
		if rng.Chance(1, 5) {
			return t | byte(rng.Intn(32))<<3
		}
		return t
	}
	randBytes := func(n int) []byte {
		b := make([]byte, n)
		for i := range b {
			b[i] = byte(rng.Intn(256))
		}
		return b
	}
	n := 1 + rng.Intn(7)
	closing := -1
	if rng.Chance(2, 5) {
		closing = rng.Intn(n)
	}
	for i := 0; i < n; i++ {
		var it item
		switch {
		case i == closing && rng.Chance(1, 2):
			t := byte(3 + rng.Intn(5))
			l := lenNear()
			it = item{Kind: "reserved", Type: hi(t), Len: l, Payload: hex.EncodeToString(randBytes(l))}
		case i == closing:
			t := byte(rng.Intn(3))
			l := limit + 1
			if rng.Chance(1, 3) {
				l = limit + 1 + rng.Intn(1<<24-limit-1)
			}
			it = item{Kind: "oversize", Type: hi(t), Len: l, Payload: hex.EncodeToString(randBytes(rng.Intn(40)))}
		default:
			switch rng.Intn(10) {
			case 0, 1, 2, 3:
				want := 40 + rng.Intn(80)
				if rng.Chance(1, 3) {
					want = []int{limit, limit - 1, limit - 2}[rng.Intn(3)]
				}
				if _, b, ok := sized(ser, seq, want); ok {
					it = item{Kind: "msg", Type: hi(0), Len: len(b), Payload: hex.EncodeToString(b)}
					seq++
					break
				}
				fallthrough
			case 4, 5:
				j := []byte(junkPayloads[rng.Intn(len(junkPayloads))])
				if rng.Chance(1, 3) {
					j = randBytes(rng.Intn(30))
				}
				if _, _, pan := tryDeserialize(ser, j); pan != nil {
					sum.Count("stream:junk-skipped-deserializer-panics")
					j = nil
				}
				it = item{Kind: "junk", Type: hi(0), Len: len(j), Payload: hex.EncodeToString(j)}
			case 6, 7, 8:
				l := lenNear()
				it = item{Kind: "ping", Type: hi(1), Len: l, Payload: hex.EncodeToString(randBytes(l))}
			default:
				l := lenNear()
				it = item{Kind: "pong", Type: hi(2), Len: l, Payload: hex.EncodeToString(randBytes(l))}
			}
		}
		c.Items = append(c.Items, it)
	}
	total := len(c.stream())
	if rng.Chance(1, 3) && total > 1 {
		c.Cut = 1 + rng.Intn(total-1)
	}
	switch rng.Intn(4) {
	case 0: // whole
	case 1:
		c.Chunks = []int{1}
	case 2:
		c.Chunks = []int{1 + rng.Intn(7), 1 + rng.Intn(300)}
	default:
		c.Chunks = []int{1 + rng.Intn(5), 4, 1 + rng.Intn(40), 3}
	}
	return c
}

func runStreams(rng *hcommon.RNG) {
	n := *flagStreams
	if thorough && n < 3000 {
		n = 3000
	}
	var cases []streamCase
	// directed: every frame type x length class, alone and followed by a valid message
	for _, serName := range []string{"json", "msgpack", "cbor"} {
		_, ser, _ := serByName(serName)
		for _, cfg := range []int{512, 513} {
			limit := 1 << (9 + tpeers.LimitNibble(cfg))
			_, tail, _ := sized(ser, 99, 50)
			tailItem := item{Kind: "msg", Type: 0, Len: len(tail), Payload: hex.EncodeToString(tail)}
			for t := 0; t < 8; t++ {
				for _, l := range []int{0, 1, limit - 1, limit, limit + 1, 1<<24 - 1} {
					pl := bytes.Repeat([]byte{byte('a' + t)}, min(l, limit+8))
					kind := []string{"junk", "ping", "pong", "reserved", "reserved", "reserved", "reserved", "reserved"}[t]
					if t == 0 && l >= 30 && l <= limit {
						if _, b, ok := sized(ser, 7, l); ok {
							pl, kind = b, "msg"
						}
					}
					it := item{Kind: kind, Type: byte(t), Len: l, Payload: hex.EncodeToString(pl)}
					cases = append(cases, streamCase{Ser: serName, RecvLimit: cfg, Items: []item{it, tailItem}})
					cases = append(cases, streamCase{Ser: serName, RecvLimit: cfg, Items: []item{tailItem, it, tailItem}, Chunks: []int{1}})
				}
			}
		}
		limits := []int{512, 513, 1500}
		for i := 0; i < n; i++ {
			cases = append(cases, genStream(rng, serName, limits[i%len(limits)]))
		}
	}
	checkStreams(cases, true)
}
