package main

// Part of section `shake`: END OF STREAM DURING THE HANDSHAKE (server side; the client side
// is the short-reply class of section `chs`). The client writes 0..3 bytes (or a whole request,
// for the tie with the 4-byte model) and the stream ends; compared with `shakebytes` of the Lean
// driver (Nexus.Frame.acceptRawSocket, Nexus.C15.handshake_truncated): nothing is written, no
// peer is returned, the error is io.ReadFull's, and AcceptRawSocket closed the connection.

import (
	"fmt"
	"io"
	"net"
	"reflect"
	"time"

	"github.com/gammazero/nexus/v3/transport"
	"github.com/gammazero/nexus/v3/wamp"
)

type shortShakeCase struct {
	Bytes     []byte
	RecvLimit int
	Mode      string // script | script1 (one byte per Read) | pipe
}

func implShortShake(c shortShakeCase) (o shakeObs) {
	type res struct {
		p   wamp.Peer
		err error
	}
	finish := func(r res) {
		switch {
		case r.err != nil:
			o.Err = r.err.Error()
			if r.p != nil && !reflect.ValueOf(r.p).IsNil() {
				o.Err += " (but a peer was returned)"
			}
		default:
			o.OK = true
			o.Ser, o.Send, o.Recv = peerInternals(r.p)
		}
	}
	if c.Mode != "pipe" {
		sc := &scriptConn{}
		if c.Mode == "script1" {
			sc.chunks = chunked(c.Bytes, []int{1})
		} else if len(c.Bytes) > 0 {
			sc.chunks = [][]byte{append([]byte(nil), c.Bytes...)}
		}
		p, err := transport.AcceptRawSocket(sc, quiet, c.RecvLimit, 4)
		finish(res{p, err})
		sc.mu.Lock()
		o.Reply = hx(sc.written.Bytes())
		if len(sc.written.Bytes()) > 4 {
			o.Reply = hx(sc.written.Bytes()[:4])
		}
		o.Closed = sc.closed
		sc.mu.Unlock()
		if o.OK {
			p.Close()
		}
		return
	}
	cli, rawSrv := net.Pipe()
	srv := &closeSpy{Conn: rawSrv}
	defer cli.Close()
	done := make(chan res, 1)
	go func() {
		p, err := transport.AcceptRawSocket(srv, quiet, c.RecvLimit, 4)
		done <- res{p, err}
	}()
	var got lockedBuf
	collected := make(chan struct{})
	go func() {
		defer close(collected)
		buf := make([]byte, 16)
		for {
			n, err := cli.Read(buf)
			got.Write(buf[:n])
			if err != nil {
				return
			}
		}
	}()
	if len(c.Bytes) > 0 {
		_ = cli.SetWriteDeadline(time.Now().Add(wedge))
		if _, err := cli.Write(c.Bytes); err != nil && err != io.ErrClosedPipe {
			o.Err = "harness: request not consumed: " + err.Error()
			return
		}
	}
	if len(c.Bytes) >= 4 {
		// a whole request: the reply (if any) is written before AcceptRawSocket returns
		select {
		case r := <-done:
			done <- r
		case <-time.After(wedge):
		}
	}
	_ = cli.Close() // END OF STREAM
	<-collected
	select {
	case r := <-done:
		finish(r)
		o.Closed = srv.wasClosed()
		if o.OK {
			r.p.Close()
		}
	case <-time.After(wedge):
		o.Err = "wedged: AcceptRawSocket did not return after the end of the stream"
	}
	o.Reply = hx(got.Bytes())
	return
}

func checkShortShakes(cases []shortShakeCase) {
	lines := make([]string, len(cases))
	for i, c := range cases {
		lines[i] = fmt.Sprintf("shakebytes %d %s", c.RecvLimit, hx(c.Bytes))
	}
	model := driver(lines)
	for i, c := range cases {
		in := replayCase{Section: "shortshake", RecvLimit: c.RecvLimit, Request: hx(c.Bytes), Mode: c.Mode}
		guard("shake", in, func() {
			o := implShortShake(c)
			m := parseModelShake(model[i])
			mClosed := kv(model[i])["closed"] == "1"
			note("shake", fmt.Sprintf("short/%d/%s/%s", len(c.Bytes), c.Mode, limitClass(c.RecvLimit)))
			sum.Count(fmt.Sprintf("shake.eof.%dbytes", min(len(c.Bytes), 4)))
			sum.AddSample(map[string]any{"op": lines[i], "impl": o, "model": model[i]}, 5)
			if len(c.Bytes) < 4 {
				// the property ("or fails cleanly") on the implementation
				v := ""
				switch {
				case o.OK:
					v = "a peer was created from fewer than four handshake bytes"
				case o.Reply != "-":
					v = "bytes were written in reply to a handshake cut short: " + o.Reply
				case !o.Closed:
					v = "the handshake failed but the connection was not closed"
				case o.Err != "EOF" && o.Err != "unexpected EOF":
					v = "unexpected error: " + o.Err
				}
				if v != "" {
					disagree("shake-spec", in, o, m, true, v)
					return
				}
			}
			if o.OK != m.OK || o.Reply != m.Reply || o.Err != m.Err || o.Ser != m.Ser || o.Send != m.Send || o.Recv != m.Recv ||
				(!o.OK && o.Closed != mClosed) {
				disagree("shake-model", in, o, model[i], false, "server handshake on a stream that ends: implementation and model differ")
			}
		})
	}
}

func shortShakeCases() []shortShakeCase {
	var cases []shortShakeCase
	reqs := [][]byte{
		{0x7f, 0xf1, 0, 0}, {0x7f, 0x02, 0, 0}, {0x7f, 0x53, 0, 0, 0, 0, 0, 1, 0x41}, // accepted (the last with a frame behind)
		{0x7f, 0xf0, 0, 0}, {0x7f, 0xf4, 0, 0}, {0x7f, 0xf1, 1, 0}, {0x00, 0xf1, 0, 0}, {'G', 'E', 'T', ' '}, {0xff, 0xff, 0xff, 0xff},
	}
	limits := []int{0, 512, 513, 1 << 24}
	k := 0
	for _, r := range reqs {
		for n := 0; n <= len(r); n++ {
			if n > 4 && n < len(r) {
				continue
			}
			for _, mode := range []string{"script", "script1", "pipe"} {
				cases = append(cases, shortShakeCase{Bytes: r[:n], RecvLimit: limits[k%len(limits)], Mode: mode})
				k++
			}
		}
	}
	return cases
}
