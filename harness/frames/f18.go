package main

import (
	"bytes"
	"fmt"
	"io"
	"net"
	"sync"
	"time"

	"github.com/gammazero/nexus/v3/transport"
	"github.com/gammazero/nexus/v3/wamp"

	"verif/harness/hcommon"
)

// gateConn is a net.Conn that records every Write call and can hold back one
// particular call (the one whose bytes equal `hold`) until released: a
// scheduler for the two goroutines that write to a rawsocket connection.
type gateConn struct {
	net.Conn
	mu      sync.Mutex
	hold    []byte
	calls   [][]byte
	reached chan struct{}
	release chan struct{}
}

func (g *gateConn) Write(p []byte) (int, error) {
	g.mu.Lock()
	g.calls = append(g.calls, append([]byte(nil), p...))
	held := g.hold != nil && bytes.Equal(p, g.hold)
	if held {
		g.hold = nil
	}
	g.mu.Unlock()
	if held {
		close(g.reached)
		<-g.release
	}
	return g.Conn.Write(p)
}

type f18Conn struct {
	cli  net.Conn
	g    *gateConn
	peer wamp.Peer
}

func f18Setup(hold []byte) (*f18Conn, error) {
	cli, srv := net.Pipe()
	g := &gateConn{Conn: srv, hold: hold, reached: make(chan struct{}), release: make(chan struct{})}
	type res struct {
		p   wamp.Peer
		err error
	}
	done := make(chan res, 1)
	go func() {
		p, err := transport.AcceptRawSocket(g, quiet, 0, 64)
		done <- res{p, err}
	}()
	_ = cli.SetDeadline(time.Now().Add(4 * wedge))
	if _, err := cli.Write([]byte{0x7f, 0xf1, 0, 0}); err != nil {
		return nil, err
	}
	var rep [4]byte
	if _, err := io.ReadFull(cli, rep[:]); err != nil {
		return nil, err
	}
	r := <-done
	if r.err != nil {
		return nil, r.err
	}
	return &f18Conn{cli, g, r.p}, nil
}

func (c *f18Conn) close() {
	c.cli.Close()
	done := make(chan struct{})
	go func() { c.peer.Close(); close(done) }()
	select {
	case <-done:
	case <-time.After(wedge):
	}
}

// readSome reads up to n bytes within d.
func readSome(c net.Conn, n int, d time.Duration) []byte {
	_ = c.SetReadDeadline(time.Now().Add(d))
	b := make([]byte, n)
	m, _ := io.ReadFull(c, b)
	return b[:m]
}

// runF18: regression for finding F18. Before the fix sendHandler wrote a frame
// with two conn.Write calls (header, payload) and recvHandler answered a PING
// from its own goroutine with two more (PONG header, payload copy), with no
// lock between them: net.Conn makes each call atomic, not the pair.
//
//	A  park the sender goroutine between header and payload (if it makes two
//	   calls at all), let a PING arrive: the PONG must not come out inside the frame;
//	B  park the reader goroutine between PONG header and PONG payload (if it
//	   makes two calls), hand a message to Send(): it must not come out inside the PONG;
//	C  free-running: messages and PINGs concurrently; every Write call on the
//	   connection must be one whole frame and the other side must decode all of it.
//
// A recurrence is a spec violation: the concrete byte stream the other side
// received is in the report, together with what the Lean reader makes of it.
func runF18(rng *hcommon.RNG) {
	_, ser, _ := serByName("json")
	msg, payload, _ := sized(ser, 1, 64)
	frame := append([]byte{0, 0, 0, byte(len(payload))}, payload...)
	pingPayload := []byte("PING-PAYLOAD-16b")
	ping := append([]byte{1, 0, 0, byte(len(pingPayload))}, pingPayload...)
	pong := append([]byte{2, 0, 0, byte(len(pingPayload))}, pingPayload...)

	report := func(scenario string, wire []byte, what string) {
		model := driver([]string{fmt.Sprintf("stream %d %s", 1<<24, hx(wire))})[0]
		in := map[string]any{"section": "f18", "scenario": scenario}
		disagree("f18-spec", in, map[string]any{"wire_received_by_the_other_side": hx(wire), "other_side_decodes": model},
			"frames of the sender and PONGs of the reader never interleave", true, what)
	}

	// A: sender parked between header and payload
	guard("f18", map[string]any{"section": "f18", "scenario": "A"}, func() {
		c, err := f18Setup(payload)
		if err != nil {
			sum.Notes = append(sum.Notes, "f18/A: handshake failed: "+err.Error())
			return
		}
		defer c.close()
		c.peer.Send() <- msg
		wire := readSome(c.cli, 4, wedge)
		rest := readSome(c.cli, len(payload), 400*time.Millisecond)
		wire = append(wire, rest...)
		note("f18", "A")
		select {
		case <-c.g.reached:
			// two calls: the sender sits between them. Let a PING arrive.
			sum.Count("f18:A-sender-makes-two-calls")
			go func() { _, _ = c.cli.Write(ping) }()
			got := readSome(c.cli, len(pong), time.Second)
			wire = append(wire, got...)
			close(c.g.release)
			wire = append(wire, readSome(c.cli, len(payload)+len(pong)-len(got), wedge)...)
			if bytes.Equal(got, pong) {
				report("A", wire, "with the sender goroutine between conn.Write(header) and conn.Write(payload), a PING was answered inside the frame: the message is corrupted for the other side")
			}
		default:
			if !bytes.Equal(wire, frame) {
				report("A", wire, "a single message did not arrive as one intact frame")
			}
			sum.Count("f18:A-frame-is-one-call")
		}
	})

	// B: reader parked between PONG header and PONG payload
	guard("f18", map[string]any{"section": "f18", "scenario": "B"}, func() {
		c, err := f18Setup(pingPayload)
		if err != nil {
			sum.Notes = append(sum.Notes, "f18/B: handshake failed: "+err.Error())
			return
		}
		defer c.close()
		go func() { _, _ = c.cli.Write(ping) }()
		wire := readSome(c.cli, 4, wedge)
		rest := readSome(c.cli, len(pingPayload), 400*time.Millisecond)
		wire = append(wire, rest...)
		note("f18", "B")
		select {
		case <-c.g.reached:
			sum.Count("f18:B-reader-makes-two-calls")
			c.peer.Send() <- msg
			got := readSome(c.cli, len(frame), time.Second)
			wire = append(wire, got...)
			close(c.g.release)
			wire = append(wire, readSome(c.cli, len(frame)+len(pingPayload)-len(got), wedge)...)
			if len(got) > 0 {
				report("B", wire, "with the reader goroutine between the PONG header and the PONG payload, a message was written inside the PONG: the stream is corrupted for the other side")
			}
		default:
			if !bytes.Equal(wire, pong) {
				report("B", wire, "a PING was not answered by one intact PONG frame")
			}
			sum.Count("f18:B-pong-is-one-call")
		}
	})

	// C: free-running traffic, every call a whole frame
	guard("f18", map[string]any{"section": "f18", "scenario": "C"}, func() {
		c, err := f18Setup(nil)
		if err != nil {
			sum.Notes = append(sum.Notes, "f18/C: handshake failed: "+err.Error())
			return
		}
		defer c.close()
		n := 40
		if thorough {
			n = 400
		}
		var want [][]byte
		go func() {
			for i := 0; i < n; i++ {
				m, b, _ := sized(ser, i+1, 50+rng.Intn(400))
				want = append(want, b)
				c.peer.Send() <- m
			}
			c.peer.Send() <- &wamp.Goodbye{Reason: "c15.sentinel", Details: wamp.Dict{}}
		}()
		go func() {
			for i := 0; i < n; i++ {
				if _, err := c.cli.Write(ping); err != nil {
					return
				}
			}
		}()
		sentinel, _ := ser.Serialize(&wamp.Goodbye{Reason: "c15.sentinel", Details: wamp.Dict{}})
		var wire []byte
		pongs := 0
		buf := make([]byte, 1<<16)
		_ = c.cli.SetReadDeadline(time.Now().Add(2 * wedge))
		for !(bytes.Contains(wire, sentinel) && pongs >= n) {
			k, err := c.cli.Read(buf)
			wire = append(wire, buf[:k]...)
			pongs = bytes.Count(wire, pong)
			if err != nil {
				break
			}
		}
		note("f18", "C")
		c.g.mu.Lock()
		calls := c.g.calls[1:] // [0] is the handshake reply
		c.g.mu.Unlock()
		for _, call := range calls {
			if len(call) < 4 || len(call) != 4+(int(call[1])<<16|int(call[2])<<8|int(call[3])) {
				disagree("f18-calls", map[string]any{"section": "f18", "scenario": "C", "call": hx(call)}, hx(call), "one whole frame per Write call", false,
					"a Write call on the connection is not one whole frame: another writer's frame can be scheduled inside it")
				break
			}
		}
		model := kv(driver([]string{fmt.Sprintf("stream %d %s", 1<<24, hx(wire))})[0])
		var exp []string
		for _, b := range append(want, sentinel) {
			exp = append(exp, hx(b))
		}
		if model["delivered"] != joinSemi(exp) || model["state"] != "waiting:hdr0" {
			report("C", wire, fmt.Sprintf("with %d messages and %d PINGs in flight the other side does not decode exactly the messages sent (state %s)", n, n, model["state"]))
		}
		sum.Count("f18:C-calls-checked")
		sum.AddSample(map[string]any{"op": "f18 C", "write_calls": len(calls), "wire_bytes": len(wire)}, 30)
	})
}

func joinSemi(xs []string) string {
	if len(xs) == 0 {
		return "-"
	}
	s := xs[0]
	for _, x := range xs[1:] {
		s += ";" + x
	}
	return s
}

var _ = hcommon.NewRNG
