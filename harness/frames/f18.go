package main

import (
	"bytes"
	"fmt"
	"io"
	"net"
	"sync"
	"time"

	"github.com/gammazero/nexus/v3/transport"
	"github.com/gammazero/nexus/v3/wamp"

	"verif/harness/hcommon"
)

// gateConn is a net.Conn that can hold back one particular Write (the
// payload of a message) until released: a scheduler for the two goroutines that
// write to a rawsocket connection.
type gateConn struct {
	net.Conn
	mu      sync.Mutex
	hold    []byte
	reached chan struct{}
	release chan struct{}
}

func (g *gateConn) Write(p []byte) (int, error) {
	g.mu.Lock()
	held := g.hold != nil && bytes.Equal(p, g.hold)
	if held {
		g.hold = nil
	}
	g.mu.Unlock()
	if held {
		close(g.reached)
		<-g.release
	}
	return g.Conn.Write(p)
}

// runF18 probes finding F18: sendHandler writes a frame with two conn.Write
// calls (header, payload) and recvHandler answers a PING from its own
// goroutine with two more (PONG header, payload copy), with no lock between
// them. The probe parks the sender goroutine between its two writes (net.Conn
// permits concurrent Write calls; each call is atomic), lets a PING arrive and
// looks at the byte stream the remote side receives.
func runF18(_ *hcommon.RNG) {
	in := map[string]any{"section": "f18"}
	guard("f18", in, func() {
		cli, srv := net.Pipe()
		defer cli.Close()
		g := &gateConn{Conn: srv, reached: make(chan struct{}), release: make(chan struct{})}
		type res struct {
			p   wamp.Peer
			err error
		}
		done := make(chan res, 1)
		go func() {
			p, err := transport.AcceptRawSocket(g, quiet, 0, 4)
			done <- res{p, err}
		}()
		_ = cli.SetDeadline(time.Now().Add(4 * wedge))
		_, _ = cli.Write([]byte{0x7f, 0xf1, 0, 0})
		var rep [4]byte
		if _, err := io.ReadFull(cli, rep[:]); err != nil {
			sum.Notes = append(sum.Notes, "f18: handshake failed: "+err.Error())
			return
		}
		r := <-done
		if r.err != nil {
			sum.Notes = append(sum.Notes, "f18: handshake failed: "+r.err.Error())
			return
		}
		defer r.p.Close()
		_, ser, _ := serByName("json")
		msg, payload, _ := sized(ser, 1, 64)
		g.mu.Lock()
		g.hold = payload
		g.mu.Unlock()
		r.p.Send() <- msg

		var wire []byte
		var hdr [4]byte
		_, _ = io.ReadFull(cli, hdr[:]) // the message header
		wire = append(wire, hdr[:]...)
		<-g.reached // the sender goroutine is now between header and payload
		ping := []byte{1, 0, 0, 4, 'P', 'I', 'N', 'G'}
		werr := make(chan error, 1)
		go func() { _, err := cli.Write(ping); werr <- err }()
		// does the PONG come out while the message payload is still owed?
		_ = cli.SetReadDeadline(time.Now().Add(time.Second))
		pong := make([]byte, 8)
		n, _ := io.ReadFull(cli, pong)
		wire = append(wire, pong[:n]...)
		close(g.release)
		_ = cli.SetReadDeadline(time.Now().Add(wedge))
		rest := make([]byte, len(payload)+8-n)
		m, _ := io.ReadFull(cli, rest)
		wire = append(wire, rest[:m]...)
		<-werr
		note("f18", "gate")
		interleaved := n == 8 && bytes.Equal(pong, []byte{2, 0, 0, 4, 'P', 'I', 'N', 'G'})
		model := driver([]string{fmt.Sprintf("stream %d %s", 1<<24, hx(wire))})[0]
		intact := kv(model)["delivered"] == hx(payload)
		sum.AddSample(map[string]any{"op": "f18 probe", "wire": hx(wire), "remote_reader_model": model,
			"pong_between_header_and_payload": interleaved}, 20)
		if interleaved {
			sum.Count("f18:interleaving-reproduced")
			d := fmt.Sprintf("F18: with the sender goroutine parked between conn.Write(header) and conn.Write(payload), a PING was answered "+
				"inside the frame; the remote reader decodes the wire as: %s (message intact: %v)", model, intact)
			sum.Notes = append(sum.Notes, d)
			if *flagF18 {
				sum.Disagreements = append(sum.Disagreements, hcommon.Disagreement{Input: in, Impl: hx(wire),
					Model: "frames of the sender and PONGs of the reader never interleave", SpecViolation: true, Detail: d, Finding: "F18"})
			}
		} else {
			sum.Count("f18:not-reproduced")
			sum.Notes = append(sum.Notes, "f18: the PONG did not overtake the pending payload (writers are serialised)")
		}
	})
}
