package main

import (
	"fmt"
	"reflect"
	"time"

	"github.com/gammazero/nexus/v3/wamp"

	"verif/harness/hcommon"
	"verif/harness/tpeers"
)

// runDrain: "every message handed to a peer either arrives ... or is dropped as
// a whole (too large, unserialisable)" also holds for the messages handed over
// just before the peer is closed: a queue of messages is put on the router-side
// peer's Send() and Close() is called at once; the client must receive exactly
// the serialisable messages that fit, in order, and then see the connection
// end. The model side is `frame <limit> <len>` per message (what the sender
// writes) with theorem drain_writes_all saying that all of them are written.
func runDrain(rng *hcommon.RNG) {
	rounds := *flagRounds
	if thorough {
		rounds *= 8
	}
	for _, tr := range tpeers.Transports {
		sers := tpeers.Serializations
		if tr == tpeers.Local {
			sers = sers[:1]
		}
		for _, s := range sers {
			for round := 0; round < rounds; round++ {
				k := []int{1, 2, 5, 12}[round%4]
				if !drainOnce(rng, tpeers.Config{Transport: tr, Serialization: s, ClientRecvLimit: 512, OutQueueSize: k + 2}, k, round) {
					break
				}
			}
		}
	}
}

func drainOnce(rng *hcommon.RNG, cfg tpeers.Config, k, round int) (ok bool) {
	ok = true
	in := map[string]any{"section": "drain", "transport": cfg.Name(), "queued": k, "round": round}
	guard("drain", in, func() {
		p, err := tpeers.New(cfg)
		if err != nil {
			disagree("drain-infra", in, err.Error(), nil, false, "cannot build the pair")
			return
		}
		defer p.Close()
		ser, _, _, _ := tpeers.Serializer(cfg.Serialization)
		limit := 512 // what the client announced (rawsocket only)
		var expect []string
		var lines []string
		var sizes []int
		shape := ""
		for i := 0; i < k; i++ {
			switch {
			case k > 2 && i == 1 && cfg.Transport != tpeers.Local: // unserialisable: dropped whole (in-process nothing is serialised)
				p.Router.Send() <- &wamp.Publish{Request: wamp.ID(i + 1), Options: wamp.Dict{}, Topic: "c15.bad", Arguments: wamp.List{complex(1, 2)}}
				shape += "u"
				continue
			case k > 2 && i == 2 && cfg.Transport == tpeers.RawSocket: // too large for the client's limit
				m, b, _ := sized(ser, i+1, limit+1)
				p.Router.Send() <- m
				lines = append(lines, fmt.Sprintf("frame %d %d", limit, len(b)))
				sizes = append(sizes, len(b))
				shape += "L"
				continue
			}
			n := 40 + rng.Intn(300)
			m, b, okS := sized(ser, i+1, n)
			if !okS {
				continue
			}
			p.Router.Send() <- m
			if cfg.Transport == tpeers.RawSocket {
				lines = append(lines, fmt.Sprintf("frame %d %d", limit, len(b)))
				sizes = append(sizes, len(b))
			}
			rt, _, _ := tryDeserialize(ser, b)
			expect = append(expect, describe(rt))
			shape += "m"
		}
		// The other side keeps reading (a client that stopped reading would hold
		// up Close() itself: the sender goroutine sits in conn.Write).
		var got []string
		closed := false
		collected := make(chan struct{})
		go func() {
			defer close(collected)
			timeout := time.After(wedge)
			for {
				select {
				case m, okR := <-p.Client.Recv():
					if !okR {
						closed = true
						return
					}
					got = append(got, describe(m))
				case <-timeout:
					return
				}
			}
		}()
		closeDone := make(chan struct{})
		go func() { p.Router.Close(); close(closeDone) }() // the router does this right after queueing a GOODBYE or ABORT
		select {
		case <-closeDone:
		case <-time.After(wedge):
			ok = false
			disagree("drain-spec", in, "Close() did not return", "returns", true, "peer.Close() hung although the other side was reading")
		}
		<-collected
		if round < 4 {
			note("drain", cfg.Name()+"/"+shape)
		} else {
			sum.Evaluations++
			sum.Count("drain")
		}
		// the model: which of the framed messages the sender writes
		if len(lines) > 0 && round < 4 {
			for i, l := range driver(lines) {
				dropped := kv(l)["hdr"] == ""
				if dropped != (sizes[i] > limit) {
					disagree("drain-model", in, l, sizes[i], false, "model and size rule differ")
				}
			}
		}
		switch {
		case !reflect.DeepEqual(got, expect):
			ok = false
			disagree("drain-spec", in, clip(got), clip(expect), true,
				fmt.Sprintf("%d messages were queued on the peer before Close(); the other side did not receive exactly the ones that serialise and fit, in order", k))
		case !closed:
			ok = false
			disagree("drain-spec", in, "connection still open", "closed", true, "Close() did not end the connection for the other side")
		}
	})
	return ok
}
