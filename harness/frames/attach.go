package main

import (
	"fmt"
	"sort"
	"strings"
	"time"

	"github.com/gammazero/nexus/v3/router"
	"github.com/gammazero/nexus/v3/wamp"

	"verif/harness/hcommon"
	"verif/harness/tpeers"
)

// runAttach attaches a client to a real router through every transport x
// serializer of harness/tpeers and runs one subscribe/publish/event/goodbye
// round trip: the observable outcome must be the same for all of them, the
// GOODBYE reply included. The router queues that reply and closes the peer at
// once; before the drain fix the socket peers discarded it whenever Close won
// the race, so the scenario is repeated (-rounds).
func runAttach(_ *hcommon.RNG) {
	rounds := *flagRounds
	if thorough {
		rounds *= 8
	}
	var first string
	for _, tr := range tpeers.Transports {
		sers := tpeers.Serializations
		if tr == tpeers.Local {
			sers = sers[:1]
		}
		for _, s := range sers {
			cfg := tpeers.Config{Transport: tr, Serialization: s}
			for round := 0; round < rounds; round++ {
				in := map[string]any{"section": "attach", "transport": cfg.Name(), "round": round}
				ok := true
				guard("attach", in, func() {
					out := attachOnce(cfg)
					if round == 0 {
						note("attach", cfg.Name())
					} else {
						sum.Evaluations++
						sum.Count("attach")
					}
					if first == "" {
						first = out
						sum.AddSample(map[string]any{"op": "attach " + cfg.Name(), "trace": out}, 12)
					}
					if out != first {
						ok = false
						disagree("attach", in, out, first, true, "the same scenario looks different through "+cfg.Name()+" than in-process")
					}
				})
				if !ok {
					break
				}
			}
		}
	}
}

func attachOnce(cfg tpeers.Config) string {
	r, err := router.NewRouter(&router.Config{RealmConfigs: []*router.RealmConfig{{URI: "c15.realm", AnonymousAuth: true}}}, quiet)
	if err != nil {
		return "router: " + err.Error()
	}
	defer r.Close()
	p, err := tpeers.New(cfg)
	if err != nil {
		return "tpeers: " + err.Error()
	}
	defer p.Close()
	go func() { _ = r.Attach(p.Router) }()
	trace := ""
	recv := func() wamp.Message {
		select {
		case m, ok := <-p.Client.Recv():
			if !ok {
				return nil
			}
			return m
		case <-time.After(wedge):
			return nil
		}
	}
	step := func(m wamp.Message) {
		p.Client.Send() <- m
	}
	// PUBLISHED (sent by the session handler) and the EVENT to the same session
	// (sent by the broker) come from different goroutines: their order is not
	// defined, so the messages of one step are sorted.
	expect := func(n int) {
		var step []string
		for i := 0; i < n; i++ {
			m := recv()
			if m == nil {
				step = append(step, "<nothing>")
				break
			}
			switch m := m.(type) {
			case *wamp.Event:
				a, _ := wamp.AsString(m.Arguments[0])
				n, _ := wamp.AsInt64(m.Arguments[1])
				step = append(step, fmt.Sprintf("EVENT(%s,%d)", a, n))
			case *wamp.Goodbye:
				step = append(step, fmt.Sprintf("GOODBYE(%s)", m.Reason))
			default:
				step = append(step, m.MessageType().String())
			}
		}
		sort.Strings(step)
		trace += strings.Join(step, " ") + " | "
	}
	step(&wamp.Hello{Realm: "c15.realm", Details: wamp.Dict{"roles": wamp.Dict{"subscriber": wamp.Dict{}, "publisher": wamp.Dict{}}}})
	expect(1)
	step(&wamp.Subscribe{Request: 1, Options: wamp.Dict{}, Topic: "c15.topic"})
	expect(1)
	step(&wamp.Publish{Request: 2, Options: wamp.Dict{"acknowledge": true, "exclude_me": false}, Topic: "c15.topic", Arguments: wamp.List{"hello", 42}})
	expect(2)
	step(&wamp.Goodbye{Reason: wamp.CloseRealm, Details: wamp.Dict{}})
	expect(1)
	return trace
}
