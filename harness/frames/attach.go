package main

import (
	"fmt"
	"time"

	"github.com/gammazero/nexus/v3/router"
	"github.com/gammazero/nexus/v3/wamp"

	"verif/harness/hcommon"
	"verif/harness/tpeers"
)

// runAttach attaches a client to a real router through every transport x
// serializer of harness/tpeers and runs one subscribe/publish/event round trip:
// the observable outcome must be the same for all of them.
func runAttach(_ *hcommon.RNG) {
	var first string
	for _, tr := range tpeers.Transports {
		sers := tpeers.Serializations
		if tr == tpeers.Local {
			sers = sers[:1]
		}
		for _, s := range sers {
			cfg := tpeers.Config{Transport: tr, Serialization: s}
			in := map[string]any{"section": "attach", "transport": cfg.Name()}
			guard("attach", in, func() {
				out := attachOnce(cfg)
				note("attach", cfg.Name())
				if first == "" {
					first = out
					sum.AddSample(map[string]any{"op": "attach " + cfg.Name(), "trace": out}, 12)
				}
				if out != first {
					disagree("attach", in, out, first, true, "the same scenario looks different through "+cfg.Name()+" than in-process")
				}
			})
		}
	}
}

func attachOnce(cfg tpeers.Config) string {
	r, err := router.NewRouter(&router.Config{RealmConfigs: []*router.RealmConfig{{URI: "c15.realm", AnonymousAuth: true}}}, quiet)
	if err != nil {
		return "router: " + err.Error()
	}
	defer r.Close()
	p, err := tpeers.New(cfg)
	if err != nil {
		return "tpeers: " + err.Error()
	}
	defer p.Close()
	go func() { _ = r.Attach(p.Router) }()
	trace := ""
	recv := func() wamp.Message {
		select {
		case m, ok := <-p.Client.Recv():
			if !ok {
				return nil
			}
			return m
		case <-time.After(wedge):
			return nil
		}
	}
	step := func(m wamp.Message) {
		p.Client.Send() <- m
	}
	expect := func(n int) {
		for i := 0; i < n; i++ {
			m := recv()
			if m == nil {
				trace += "<nothing> "
				return
			}
			switch m := m.(type) {
			case *wamp.Event:
				a, _ := wamp.AsString(m.Arguments[0])
				n, _ := wamp.AsInt64(m.Arguments[1])
				trace += fmt.Sprintf("EVENT(%s,%d) ", a, n)
			case *wamp.Goodbye:
				trace += fmt.Sprintf("GOODBYE(%s) ", m.Reason)
			default:
				trace += m.MessageType().String() + " "
			}
		}
	}
	step(&wamp.Hello{Realm: "c15.realm", Details: wamp.Dict{"roles": wamp.Dict{"subscriber": wamp.Dict{}, "publisher": wamp.Dict{}}}})
	expect(1)
	step(&wamp.Subscribe{Request: 1, Options: wamp.Dict{}, Topic: "c15.topic"})
	expect(1)
	step(&wamp.Publish{Request: 2, Options: wamp.Dict{"acknowledge": true, "exclude_me": false}, Topic: "c15.topic", Arguments: wamp.List{"hello", 42}})
	expect(2)
	step(&wamp.Goodbye{Reason: wamp.CloseRealm, Details: wamp.Dict{}})
	// The GOODBYE reply is queued and the router then closes the peer at once;
	// rawSocketPeer.Close / websocketPeer.Close cancel the sender goroutine and
	// discard what is still queued, so over the socket transports the reply is
	// lost whenever Close wins the race (reported to the lead as a candidate
	// finding). The smoke test counts it and does not compare it.
	before := trace
	expect(1)
	if trace != before+"GOODBYE(wamp.close.goodbye_and_out) " {
		sum.Count("attach:goodbye-reply-lost/" + cfg.Name())
	}
	return before
}
