package main

import (
	"context"
	"encoding/hex"
	"fmt"
	"io"
	"math"
	"net"
	"os"
	"path/filepath"
	"reflect"
	"strconv"
	"strings"
	"time"

	"github.com/gammazero/nexus/v3/transport"
	"github.com/gammazero/nexus/v3/transport/serialize"
	"github.com/gammazero/nexus/v3/wamp"

	"verif/harness/hcommon"
	"verif/harness/tpeers"
)

// shakeObs is what one handshake did, on either side and in either world.
type shakeObs struct {
	Reply  string `json:"reply"`   // bytes written by the server (hex, "-" = none)
	OK     bool   `json:"ok"`      // a peer was returned
	Err    string `json:"err"`     // error text otherwise
	Ser    string `json:"ser"`     // serializer type of the peer
	Send   int64  `json:"send"`    // peer.sendLimit
	Recv   int64  `json:"recv"`    // peer.recvLimit
	Closed bool   `json:"closed"`  // impl only: the connection was closed after a failure
	Req    string `json:"request"` // client side: the request the client wrote
}

// peerInternals reads serializer type and limits of a *rawSocketPeer.
func peerInternals(p wamp.Peer) (ser string, send, recv int64) {
	v := reflect.ValueOf(p).Elem()
	send = v.FieldByName("sendLimit").Int()
	recv = v.FieldByName("recvLimit").Int()
	ser = "nil"
	if s := v.FieldByName("serializer"); !s.IsNil() {
		ser = strings.TrimPrefix(s.Elem().Type().String(), "*serialize.")
	}
	return
}

func parseModelShake(line string) shakeObs {
	m := kv(line)
	o := shakeObs{Reply: m["reply"], Req: m["req"]}
	if m["result"] == "ok" {
		o.OK = true
		o.Ser = m["ser"]
		o.Send, _ = strconv.ParseInt(m["send"], 10, 64)
		o.Recv, _ = strconv.ParseInt(m["recv"], 10, 64)
	} else {
		o.Err = m["msg"]
	}
	return o
}

// ---- server side -------------------------------------------------------------------

type shakeCase struct {
	Req       [4]byte
	RecvLimit int
}

func implShake(c shakeCase) (o shakeObs) {
	cli, srv := net.Pipe()
	defer cli.Close()
	type res struct {
		p   wamp.Peer
		err error
		pan any
	}
	done := make(chan res, 1)
	go func() {
		var r res
		defer func() {
			if x := recover(); x != nil {
				r.pan = x
			}
			done <- r
		}()
		r.p, r.err = transport.AcceptRawSocket(srv, quiet, c.RecvLimit, 4)
	}()
	_ = cli.SetDeadline(time.Now().Add(wedge))
	if _, err := cli.Write(c.Req[:]); err != nil {
		o.Err = "harness: request not consumed: " + err.Error()
		return
	}
	var rep [4]byte
	n, rerr := io.ReadFull(cli, rep[:])
	o.Reply = hx(rep[:n])
	select {
	case r := <-done:
		switch {
		case r.pan != nil:
			o.Err = fmt.Sprintf("panic: %v", r.pan)
		case r.err != nil:
			o.Err = r.err.Error()
			if r.p != nil && !reflect.ValueOf(r.p).IsNil() {
				o.Err += " (but a peer was returned)"
			}
			// failing cleanly: the connection is closed, nothing more arrives
			if rerr == nil {
				var one [1]byte
				_, rerr = cli.Read(one[:])
			}
			o.Closed = rerr == io.EOF
		default:
			o.OK = true
			o.Ser, o.Send, o.Recv = peerInternals(r.p)
			r.p.Close()
		}
	case <-time.After(wedge):
		o.Err = "wedged: AcceptRawSocket did not return"
	}
	return
}

// specShake evaluates the handshake sentence of C15 on what the server did.
func specShake(c shakeCase, o shakeObs) string {
	ser := c.Req[1] & 0xf
	accept := c.Req[0] == 0x7f && c.Req[2] == 0 && c.Req[3] == 0 && ser >= 1 && ser <= 3
	if strings.HasPrefix(o.Err, "panic") || strings.HasPrefix(o.Err, "wedged") {
		return o.Err
	}
	if accept != o.OK {
		return fmt.Sprintf("request % x: should be accepted=%v, was accepted=%v", c.Req, accept, o.OK)
	}
	rep, _ := hex.DecodeString(strings.TrimPrefix(o.Reply, "-"))
	if o.OK {
		n := tpeers.LimitNibble(c.RecvLimit)
		wantRep := []byte{0x7f, n<<4 | ser, 0, 0}
		if string(rep) != string(wantRep) {
			return fmt.Sprintf("accepting reply % x, want % x (least limit code covering %d, same serializer)", rep, wantRep, c.RecvLimit)
		}
		name := []string{"", "JSONSerializer", "MessagePackSerializer", "CBORSerializer"}[ser]
		if o.Ser != name || o.Send != 1<<(9+c.Req[1]>>4) || o.Recv != 1<<(9+n) {
			return fmt.Sprintf("peer has ser=%s send=%d recv=%d, want %s %d %d", o.Ser, o.Send, o.Recv, name, 1<<(9+c.Req[1]>>4), 1<<(9+n))
		}
		return ""
	}
	if !o.Closed {
		return "handshake failed but the connection was not closed"
	}
	if len(rep) != 0 {
		if len(rep) != 4 || rep[0] != 0x7f || rep[1]&0xf != 0 || rep[1]>>4 == 0 || rep[2] != 0 || rep[3] != 0 {
			return fmt.Sprintf("malformed error reply % x", rep)
		}
		code := rep[1] >> 4
		if c.Req[0] == 0x7f && (c.Req[2] != 0 || c.Req[3] != 0) && code != 3 {
			return fmt.Sprintf("reserved bytes set: error code %d, want 3", code)
		}
		if c.Req[0] == 0x7f && c.Req[2] == 0 && c.Req[3] == 0 && ser > 3 && code != 1 {
			return fmt.Sprintf("unsupported serializer %d: error code %d, want 1", ser, code)
		}
	}
	return ""
}

func limitConfigs() []int {
	ls := []int{math.MinInt64, -1, 0, 1, 2, 511, 512, 513, 1 << 24, 1<<24 + 1, 1<<24 - 1, 1 << 31, 1<<62 + 5, math.MaxInt64}
	for k := 9; k <= 24; k++ {
		ls = append(ls, 1<<k-1, 1<<k+1)
		if thorough {
			ls = append(ls, 1<<k)
		}
	}
	return ls
}

func limitClass(l int) string {
	switch {
	case l <= 0:
		return "nonpos"
	case l > 1<<24:
		return "huge"
	}
	n := tpeers.LimitNibble(l)
	switch l {
	case 1 << (9 + n):
		return fmt.Sprintf("n%d=", n)
	case 1<<(9+n) - 1:
		return fmt.Sprintf("n%d-1", n)
	}
	return fmt.Sprintf("n%d", n)
}

func checkShakes(cases []shakeCase) {
	lines := make([]string, len(cases))
	for i, c := range cases {
		lines[i] = fmt.Sprintf("shake %d %s", c.RecvLimit, hex.EncodeToString(c.Req[:]))
	}
	model := driver(lines)
	for i, c := range cases {
		in := replayCase{Section: "shake", RecvLimit: c.RecvLimit, Request: hex.EncodeToString(c.Req[:])}
		guard("shake", in, func() {
			o := implShake(c)
			m := parseModelShake(model[i])
			note("shake", fmt.Sprintf("%v/%v/%v/%02x/%s", c.Req[0] == 0x7f, c.Req[2] != 0, c.Req[3] != 0, c.Req[1], limitClass(c.RecvLimit)))
			sum.AddSample(map[string]any{"op": lines[i], "impl": o, "model": model[i]}, 3)
			if v := specShake(c, o); v != "" {
				disagree("shake-spec", in, o, m, true, v)
			} else if o.OK != m.OK || o.Reply != m.Reply || o.Err != m.Err || o.Ser != m.Ser || o.Send != m.Send || o.Recv != m.Recv {
				disagree("shake-model", in, o, m, false, "server handshake: implementation and model differ")
			}
			if o.OK {
				sum.Count("shake:accepted")
			} else {
				sum.Count("shake:" + o.Err)
			}
		})
	}
}

func runShake(rng *hcommon.RNG) {
	var cases []shakeCase
	limits := limitConfigs()
	reserved := [][2]byte{{0, 0}, {1, 0}, {0, 1}, {0xff, 0xff}, {0, 0x80}}
	// good magic: all 256 values of byte 1 x reserved classes x every limit configuration for
	// the clean requests (a rotating limit for the rejected ones, whose outcome ignores it)
	k := 0
	for b1 := 0; b1 < 256; b1++ {
		for _, rs := range reserved {
			if rs == [2]byte{0, 0} && b1&0xf >= 1 && b1&0xf <= 3 {
				for _, l := range limits {
					if !thorough && b1>>4 != 0 && b1>>4 != 15 && (k+b1)%5 != 0 {
						k++
						continue // quick: every limit for nibbles 0 and 15, a fifth of them for the rest
					}
					k++
					cases = append(cases, shakeCase{[4]byte{0x7f, byte(b1), 0, 0}, l})
				}
			} else {
				cases = append(cases, shakeCase{[4]byte{0x7f, byte(b1), rs[0], rs[1]}, limits[k%len(limits)]})
				k++
			}
		}
	}
	// bad magic
	for _, b0 := range []byte{0, 0x7e, 0x80, 0xff, 'G'} {
		for b1 := 0; b1 < 256; b1++ {
			rs := reserved[(b1+int(b0))%len(reserved)]
			cases = append(cases, shakeCase{[4]byte{b0, byte(b1), rs[0], rs[1]}, limits[k%len(limits)]})
			k++
		}
	}
	checkShakes(cases)
	checkShortShakes(shortShakeCases())
}

// ---- client side -------------------------------------------------------------------

type chsCase struct {
	Protocol  int // serialize.Serialization: 1 JSON, 2 MSGPACK, 3 CBOR (= the rawsocket protocol byte)
	RecvLimit int
	Reply     []byte // what the scripted server writes (closing at once when shorter than 4 bytes)
}

type scriptedServer struct {
	l    net.Listener
	path string
	next chan []byte  // reply for the next connection
	got  chan srvSeen // what the server saw on it
	hold chan struct{}
}

type srvSeen struct {
	req       []byte
	clientEOF bool // the client closed its end afterwards
}

func newScriptedServer() (*scriptedServer, error) {
	dir, err := os.MkdirTemp("", "c15")
	if err != nil {
		return nil, err
	}
	s := &scriptedServer{path: filepath.Join(dir, "s"), next: make(chan []byte, 1), got: make(chan srvSeen, 1), hold: make(chan struct{})}
	network, addr := "unix", s.path
	s.l, err = net.Listen(network, addr)
	if err != nil { // sandbox without unix sockets: loopback TCP
		if s.l, err = net.Listen("tcp", "127.0.0.1:0"); err != nil {
			return nil, err
		}
	}
	go func() {
		for {
			c, err := s.l.Accept()
			if err != nil {
				return
			}
			rep := <-s.next
			var seen srvSeen
			req := make([]byte, 4)
			_ = c.SetDeadline(time.Now().Add(wedge))
			n, _ := io.ReadFull(c, req)
			seen.req = req[:n]
			_, _ = c.Write(rep)
			if len(rep) < 4 {
				c.Close()
			} else {
				// stay open until the client is done: a successful client keeps the
				// connection, a failed one must close it (we then read EOF)
				var one [1]byte
				_, err := c.Read(one[:])
				seen.clientEOF = err == io.EOF
				c.Close()
			}
			s.got <- seen
		}
	}()
	return s, nil
}

func (s *scriptedServer) close() {
	s.l.Close()
	os.RemoveAll(filepath.Dir(s.path))
}

func implClientShake(s *scriptedServer, c chsCase) (o shakeObs) {
	s.next <- c.Reply
	ctx, cancel := context.WithTimeout(context.Background(), wedge)
	defer cancel()
	addr := s.l.Addr()
	p, err := transport.ConnectRawSocketPeer(ctx, addr.Network(), addr.String(), serialize.Serialization(c.Protocol), nil, quiet, c.RecvLimit)
	if err != nil {
		o.Err = err.Error()
		if p != nil && !reflect.ValueOf(p).IsNil() {
			o.Err += " (but a peer was returned)"
		}
	} else {
		o.OK = true
		o.Ser, o.Send, o.Recv = peerInternals(p)
		p.Close()
	}
	select {
	case seen := <-s.got:
		o.Req = hx(seen.req)
		o.Closed = seen.clientEOF || len(c.Reply) < 4
	case <-time.After(wedge):
		o.Err += " wedged: the client never let go of the connection"
	}
	return
}

func specClientShake(c chsCase, o shakeObs) string {
	proto := byte(c.Protocol)
	n := tpeers.LimitNibble(c.RecvLimit)
	if wantReq := hx([]byte{0x7f, n<<4 | proto, 0, 0}); o.Req != wantReq {
		return fmt.Sprintf("client request %s, want %s", o.Req, wantReq)
	}
	if strings.Contains(o.Err, "wedged") || strings.Contains(o.Err, "panic") {
		return o.Err
	}
	accept := len(c.Reply) >= 4 && c.Reply[0] == 0x7f && c.Reply[1]&0xf == proto
	if accept != o.OK {
		return fmt.Sprintf("reply % x to protocol %d: should succeed=%v, succeeded=%v (%s)", c.Reply, proto, accept, o.OK, o.Err)
	}
	if o.OK {
		name := []string{"", "JSONSerializer", "MessagePackSerializer", "CBORSerializer"}[proto]
		if o.Ser != name || o.Send != 1<<(9+c.Reply[1]>>4) || o.Recv != 1<<(9+n) {
			return fmt.Sprintf("client peer has ser=%s send=%d recv=%d, want %s %d %d", o.Ser, o.Send, o.Recv, name, 1<<(9+c.Reply[1]>>4), 1<<(9+n))
		}
	} else if !o.Closed {
		return "client handshake failed but the client kept the connection open"
	}
	return ""
}

func checkClientShakes(cases []chsCase) {
	s, err := newScriptedServer()
	if err != nil {
		sum.Notes = append(sum.Notes, "chs skipped: cannot listen on a unix socket or loopback: "+err.Error())
		return
	}
	defer s.close()
	lines := make([]string, len(cases))
	for i, c := range cases {
		lines[i] = fmt.Sprintf("chs %d %d %s", c.Protocol, c.RecvLimit, hx(c.Reply))
	}
	model := driver(lines)
	for i, c := range cases {
		in := replayCase{Section: "chs", Protocol: c.Protocol, RecvLimit: c.RecvLimit, Reply: hx(c.Reply)}
		guard("chs", in, func() {
			o := implClientShake(s, c)
			m := parseModelShake(model[i])
			cls := "short"
			if len(c.Reply) >= 4 {
				cls = fmt.Sprintf("%v/%02x", c.Reply[0] == 0x7f, c.Reply[1])
			}
			note("chs", fmt.Sprintf("%d/%s/%s", c.Protocol, limitClass(c.RecvLimit), cls))
			sum.AddSample(map[string]any{"op": lines[i], "impl": o, "model": model[i]}, 5)
			if v := specClientShake(c, o); v != "" {
				disagree("chs-spec", in, o, m, true, v)
			} else if o.OK != m.OK || o.Req != m.Req || o.Err != m.Err || o.Ser != m.Ser || o.Send != m.Send || o.Recv != m.Recv {
				disagree("chs-model", in, o, m, false, "client handshake: implementation and model differ")
			}
			if o.OK {
				sum.Count("chs:ok")
			} else {
				sum.Count("chs:" + o.Err)
			}
		})
	}
}

func runClientShake(rng *hcommon.RNG) {
	limits := []int{0, 512, 513, 1<<16 + 1, 1 << 24, 1<<24 + 1}
	if thorough {
		limits = limitConfigs()
	}
	var cases []chsCase
	k := 0
	for proto := 1; proto <= 3; proto++ {
		for r1 := 0; r1 < 256; r1++ {
			// every reply byte 1 with good magic; the limit rotates except for the
			// replies that can succeed, which get every limit
			ls := []int{limits[k%len(limits)]}
			if r1&0xf == proto {
				ls = limits
			}
			k++
			for _, l := range ls {
				tail := [2]byte{0, 0}
				if rng.Chance(1, 4) {
					tail = [2]byte{byte(rng.Intn(256)), byte(rng.Intn(256))} // the client ignores these
				}
				cases = append(cases, chsCase{proto, l, []byte{0x7f, byte(r1), tail[0], tail[1]}})
			}
			if r1%8 == 0 {
				cases = append(cases, chsCase{proto, limits[k%len(limits)], []byte{byte(rng.Intn(0x7f)), byte(r1), 0, 0}})
			}
		}
		for _, short := range [][]byte{{}, {0x7f}, {0x7f, 0x10 | byte(proto)}, {0x7f, byte(proto), 0}} {
			cases = append(cases, chsCase{proto, 0, short})
		}
	}
	checkClientShakes(cases)
}
