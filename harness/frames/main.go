// Command frames is the correspondence family of property C15 (framing and
// handshake part): it drives the REAL rawsocket and websocket transport peers
// of the nexus working tree and the Lean model (`nexus-driver frame`) on the
// same inputs, diffs the observations, and evaluates the property sentence
// directly on what the implementation did (`spec_violation`).
//
// Sections (each can be selected with -only):
//
//	shake   serverHandshake via transport.AcceptRawSocket over net.Pipe, every
//	        request class x receive-limit configuration; and the stream ENDING during the
//	        handshake (0..3 request bytes, then end of stream: scripted conn and net.Pipe)
//	chs     clientHandshake via transport.ConnectRawSocketPeer against a scripted
//	        server on a unix socket, every reply class
//	stream  the reader goroutine on arbitrary frame sequences (scripted conn)
//	eof     the reader goroutine when the stream ENDS: between frames, inside a header, a MSG
//	        body, a PING or a PONG payload (scripted conn reporting io.EOF, and net.Pipe closed by
//	        the harness): events, termination, connection closed, log line, sender cancelled or not
//	send    the sender goroutine at sendLimit-1 / sendLimit / sendLimit+1
//	ws      websocket peers over an in-memory connection pair, three serializers
//	attach  the same scenario through every transport of harness/tpeers against a real
//	        router, GOODBYE reply included (regression: the reply used to be lost
//	        when Close won the race against the sender goroutine)
//	drain   messages queued on a peer just before Close() all reach the other side
//	f18     regression: a PONG can no longer be written inside a frame of the sender, nor a
//	        frame of the sender inside a PONG (each frame is one Write call)
package main

import (
	"bufio"
	"encoding/hex"
	"encoding/json"
	"flag"
	"fmt"
	"io"
	"log"
	"os"
	"os/exec"
	"sort"
	"strings"
	"time"

	"verif/harness/hcommon"
)

var (
	flagSeed     = flag.Int64("seed", 1, "PRNG seed")
	flagTier     = flag.String("tier", "quick", "quick|thorough")
	flagOut      = flag.String("out", ".", "output directory")
	flagProperty = flag.String("property", "C15", "property id")
	flagReplay   = flag.String("replay", "", "replay file (a disagreement input, or a bin/check replay file)")
	flagOnly     = flag.String("only", "", "comma separated sections to run (default all)")
	flagStreams  = flag.Int("streams", 300, "number of random frame streams per serializer")
	flagRounds   = flag.Int("rounds", 25, "repetitions of the racy regression checks (attach, drain)")

	sum      hcommon.Summary
	distinct = map[string]bool{}
	quiet    = log.New(io.Discard, "", 0)
	thorough bool
	perKind  = map[string]int{} // reported disagreements per detail class
)

const wedge = 5 * time.Second // a peer that does not react within this is reported as wedged

func hx(b []byte) string {
	if len(b) == 0 {
		return "-"
	}
	return hex.EncodeToString(b)
}

var (
	totalDisagreements int
	runStart           time.Time
)

// note records one evaluated case.
func note(section, signature string) {
	sum.Evaluations++
	sum.Count(section)
	distinct[section+"|"+signature] = true
}

// disagree records a model/implementation difference or a spec violation;
// at most 5 per (section, class) are kept.
func disagree(class string, input, impl, model any, spec bool, detail string) {
	perKind[class]++
	totalDisagreements++
	sum.Count("disagreement:" + class)
	if perKind[class] <= 5 {
		sum.Disagreements = append(sum.Disagreements, hcommon.Disagreement{
			Input: input, Impl: impl, Model: model, SpecViolation: spec, Detail: class + ": " + detail})
	}
	if totalDisagreements >= 40 {
		// the verdict is settled; a wedged peer costs `wedge` per case, so the rest is not run
		sum.Notes = append(sum.Notes, "stopped after 40 disagreements")
		finish(runStart)
	}
}

// guard runs f, turning a panic of the implementation into a disagreement.
func guard(class string, input any, f func()) {
	defer func() {
		if r := recover(); r != nil {
			disagree(class, input, fmt.Sprintf("panic: %v", r), nil, true, "the implementation panicked")
		}
	}()
	f()
}

// The Lean model driver is started once and answers line by line.
var drv struct {
	cmd *exec.Cmd
	in  io.WriteCloser
	out *bufio.Reader
}

func driverFail(err error) {
	fmt.Fprintf(os.Stderr, "frames: lean driver failed: %v\n", err)
	os.Exit(2)
}

func driver(lines []string) []string {
	if len(lines) == 0 {
		return nil
	}
	if drv.cmd == nil {
		drv.cmd = exec.Command(hcommon.DriverPath(), "frame")
		drv.cmd.Stderr = os.Stderr
		var err error
		if drv.in, err = drv.cmd.StdinPipe(); err != nil {
			driverFail(err)
		}
		o, err := drv.cmd.StdoutPipe()
		if err != nil {
			driverFail(err)
		}
		drv.out = bufio.NewReaderSize(o, 1<<20)
		if err := drv.cmd.Start(); err != nil {
			driverFail(err)
		}
	}
	res := make([]string, 0, len(lines))
	// write in a goroutine: the driver answers while we are still writing
	werr := make(chan error, 1)
	go func() {
		_, err := io.WriteString(drv.in, strings.Join(lines, "\n")+"\n")
		werr <- err
	}()
	for range lines {
		l, err := drv.out.ReadString('\n')
		if err != nil {
			driverFail(fmt.Errorf("after %d of %d answers: %v", len(res), len(lines), err))
		}
		res = append(res, strings.TrimRight(l, "\n"))
	}
	if err := <-werr; err != nil {
		driverFail(err)
	}
	return res
}

// kv parses "a=b c=d msg=rest of line".
func kv(line string) map[string]string {
	m := map[string]string{}
	if i := strings.Index(line, " msg="); i >= 0 {
		m["msg"] = line[i+5:]
		line = line[:i]
	}
	for _, f := range strings.Fields(line) {
		if i := strings.IndexByte(f, '='); i > 0 {
			m[f[:i]] = f[i+1:]
		} else {
			m[f] = ""
		}
	}
	return m
}

func want(section string) bool {
	if *flagOnly == "" {
		return true
	}
	for _, s := range strings.Split(*flagOnly, ",") {
		if s == section {
			return true
		}
	}
	return false
}

// replayCase is what every disagreement's `input` looks like.
type replayCase struct {
	Section string `json:"section"`
	// shake / chs
	RecvLimit int    `json:"recv_limit,omitempty"`
	Request   string `json:"request,omitempty"`
	Protocol  int    `json:"protocol,omitempty"`
	Reply     string `json:"reply,omitempty"`
	// stream
	Ser    string `json:"ser,omitempty"`
	Bytes  string `json:"bytes,omitempty"`
	Chunks []int  `json:"chunks,omitempty"`
	Items  []item `json:"items,omitempty"`
	Cut    int    `json:"cut,omitempty"`
	// eof
	Keep  int    `json:"keep"`
	Mode  string `json:"mode,omitempty"`
	Queue int    `json:"queue,omitempty"`
	// send
	Nibble int   `json:"nibble,omitempty"`
	Sizes  []int `json:"sizes,omitempty"`
}

func loadReplay(path string) ([]replayCase, error) {
	b, err := os.ReadFile(path)
	if err != nil {
		return nil, err
	}
	var one replayCase
	if json.Unmarshal(b, &one) == nil && one.Section != "" {
		return []replayCase{one}, nil
	}
	// a bin/check replay file: {"broken":[{"detail":{"input":{...}}}]}
	var rf struct {
		Broken []struct {
			Detail struct {
				Input replayCase `json:"input"`
			} `json:"detail"`
		} `json:"broken"`
	}
	if err := json.Unmarshal(b, &rf); err != nil {
		return nil, err
	}
	var res []replayCase
	for _, br := range rf.Broken {
		if br.Detail.Input.Section != "" {
			res = append(res, br.Detail.Input)
		}
	}
	if len(res) == 0 {
		return nil, fmt.Errorf("no replayable input in %s", path)
	}
	return res, nil
}

func main() {
	flag.Parse()
	thorough = *flagTier == "thorough"
	sum = hcommon.Summary{Family: "frames", Property: *flagProperty, Seed: *flagSeed, Tier: *flagTier}
	rng := hcommon.NewRNG(*flagSeed)
	t0 := time.Now()
	runStart = t0

	// source drift since the model was last reconciled -> thorough width
	if d := kv(driver([]string{"hashes"})[0])["drift"]; d != "-" && d != "" {
		sum.Notes = append(sum.Notes, "source of "+d+" changed since the model was reconciled: running at thorough width")
		thorough = true
	}

	if *flagReplay != "" {
		cases, err := loadReplay(*flagReplay)
		if err != nil {
			fmt.Fprintln(os.Stderr, "frames:", err)
			os.Exit(2)
		}
		for _, c := range cases {
			runReplay(c)
		}
	} else {
		sections := []struct {
			name string
			run  func(*hcommon.RNG)
		}{
			{"shake", runShake}, {"chs", runClientShake}, {"stream", runStreams}, {"eof", runEOF}, {"send", runSend},
			{"ws", runWebsocket}, {"attach", runAttach}, {"drain", runDrain}, {"f18", runF18},
		}
		for _, s := range sections {
			if !want(s.name) {
				continue
			}
			ts := time.Now()
			r := rng.Split()
			guard(s.name, map[string]string{"section": s.name}, func() { s.run(r) })
			sum.Notes = append(sum.Notes, fmt.Sprintf("section %s: %.1fs", s.name, time.Since(ts).Seconds()))
		}
	}

	finish(t0)
}

// finish writes the summary and ends the run.
func finish(t0 time.Time) {
	sum.DistinctNontrivial = len(distinct)
	sum.Rule = "distinct case signatures: handshake = request class (magic, reserved bytes, both nibbles) x limit configuration; " +
		"client handshake = protocol x limit x reply class; stream = serializer x limit x sequence of (frame kind, length class) x cut class; " +
		"eof = the stream signature x connection (script|pipe) x queued messages x where the stream ended (model's reader state); " +
		"send = serializer x limit nibble x size class; ws = serializer x direction x item kinds; " +
		"attach/drain = transport x serializer (x queue shape); f18 = scenario"
	sort.Strings(sum.Notes)
	sum.Notes = append(sum.Notes, fmt.Sprintf("total %.1fs", time.Since(t0).Seconds()))
	if err := sum.Write(*flagOut); err != nil {
		fmt.Fprintln(os.Stderr, "frames:", err)
		os.Exit(2)
	}
	fmt.Printf("frames: %d evaluations, %d distinct, %d disagreements\n", sum.Evaluations, len(distinct), len(sum.Disagreements))
	os.Exit(0)
}

func runReplay(c replayCase) {
	switch c.Section {
	case "shake":
		req, _ := hex.DecodeString(c.Request)
		if len(req) == 4 {
			checkShakes([]shakeCase{{[4]byte(req), c.RecvLimit}})
		}
	case "chs":
		rep, _ := hex.DecodeString(strings.TrimPrefix(c.Reply, "-"))
		checkClientShakes([]chsCase{{c.Protocol, c.RecvLimit, rep}})
	case "stream":
		checkStreams([]streamCase{{Ser: c.Ser, RecvLimit: c.RecvLimit, Items: c.Items, Cut: c.Cut, Chunks: c.Chunks}}, false)
	case "shortshake":
		b, _ := hex.DecodeString(strings.TrimPrefix(c.Request, "-"))
		checkShortShakes([]shortShakeCase{{Bytes: b, RecvLimit: c.RecvLimit, Mode: c.Mode}})
	case "eof":
		checkEOF([]eofCase{{Ser: c.Ser, RecvLimit: c.RecvLimit, Items: c.Items, Keep: c.Keep, Chunks: c.Chunks, Mode: c.Mode, Queue: c.Queue}})
	case "send":
		checkSend(c.Ser, c.Nibble, c.Sizes)
	default:
		fmt.Fprintf(os.Stderr, "frames: cannot replay section %q; running it whole\n", c.Section)
	}
}
