package main

import (
	"bytes"
	"encoding/hex"
	"fmt"
	"io"
	"net"
	"time"

	"github.com/gammazero/nexus/v3/transport"
	"github.com/gammazero/nexus/v3/wamp"

	"verif/harness/hcommon"
)

// checkSend hands messages whose serialisation has the given sizes (0 = a
// message that cannot be serialised) to a real peer's Send() and reads the raw
// bytes off the other end of a net.Pipe.
func checkSend(serName string, nibble int, sizes []int) {
	_, ser, proto := serByName(serName)
	limit := 1 << (9 + nibble)
	in := replayCase{Section: "send", Ser: serName, Nibble: nibble, Sizes: sizes}
	if perKind["send-spec"] >= 5 && len(sizes) > 1 {
		sum.Count("send:skipped-after-5-violations")
		return // enough failing inputs; every further one may cost a timeout
	}
	guard("send", in, func() {
		cli, srv := net.Pipe()
		defer cli.Close()
		type res struct {
			p   wamp.Peer
			err error
		}
		done := make(chan res, 1)
		go func() {
			p, err := transport.AcceptRawSocket(srv, quiet, 0, len(sizes)+2)
			done <- res{p, err}
		}()
		_ = cli.SetDeadline(time.Now().Add(4 * wedge))
		if _, err := cli.Write([]byte{0x7f, byte(nibble)<<4 | proto, 0, 0}); err != nil {
			disagree("send-infra", in, err.Error(), nil, false, "handshake request not consumed")
			return
		}
		var rep [4]byte
		if _, err := io.ReadFull(cli, rep[:]); err != nil {
			disagree("send-infra", in, err.Error(), nil, false, "no handshake reply")
			return
		}
		r := <-done
		if r.err != nil {
			disagree("send-infra", in, r.err.Error(), nil, false, "handshake failed")
			return
		}
		defer r.p.Close()

		// the messages, their serialisations, and the model's verdict per message
		type sent struct {
			size    int
			payload []byte // nil: unserialisable
		}
		var msgs []sent
		var lines []string
		for i, n := range sizes {
			if n == 0 {
				r.p.Send() <- &wamp.Publish{Request: wamp.ID(i + 1), Options: wamp.Dict{}, Topic: "c15.bad", Arguments: wamp.List{complex(1, 2)}}
				msgs = append(msgs, sent{})
				sum.Count("send:unserialisable")
				continue
			}
			m, b, ok := sized(ser, i+1, n)
			if !ok {
				sum.Count("send:size-not-reachable")
				continue
			}
			r.p.Send() <- m
			msgs = append(msgs, sent{n, b})
			lines = append(lines, fmt.Sprintf("frame %d %d", limit, n))
		}
		sentinel := &wamp.Goodbye{Reason: "c15.sentinel", Details: wamp.Dict{}}
		sb, _ := ser.Serialize(sentinel)
		r.p.Send() <- sentinel
		lines = append(lines, fmt.Sprintf("frame %d %d", limit, len(sb)))
		model := driver(lines)

		// expected wire: by the model, and by the property sentence
		var wantModel, wantSpec []byte
		li := 0
		for _, s := range append(msgs, sent{len(sb), sb}) {
			if s.payload == nil {
				continue // dropped as a whole by both
			}
			if m := kv(model[li]); m["hdr"] != "" {
				h := unhex(m["hdr"])
				wantModel = append(append(wantModel, h...), s.payload...)
			}
			li++
			if s.size <= limit && s.size <= 1<<24-1 { // the limit the receiver announced; 2^24-1 is all a header can say
				wantSpec = append(append(wantSpec, 0, byte(s.size>>16), byte(s.size>>8), byte(s.size)), s.payload...)
			}
			cls := "mid"
			switch s.size {
			case limit:
				cls = "="
			case limit - 1:
				cls = "-1"
			case limit + 1:
				cls = "+1"
			}
			note("send", fmt.Sprintf("%s/%d/%s/%v", serName, nibble, cls, s.size > limit))
		}
		// read until the sentinel frame has arrived (or nothing more comes)
		var got []byte
		tail := append([]byte{0, byte(len(sb) >> 16), byte(len(sb) >> 8), byte(len(sb))}, sb...)
		buf := make([]byte, 1<<16)
		wedged := false
		for !bytes.HasSuffix(got, tail) { // the sender is sequential: nothing follows the sentinel
			_ = cli.SetReadDeadline(time.Now().Add(wedge))
			n, err := cli.Read(buf)
			got = append(got, buf[:n]...)
			if err != nil {
				wedged = true
				break
			}
		}
		short := func(b []byte) string {
			if len(b) > 96 {
				return fmt.Sprintf("%d bytes %x…%x", len(b), b[:48], b[len(b)-16:])
			}
			return hx(b)
		}
		sum.AddSample(map[string]any{"op": fmt.Sprintf("send %s limit=%d sizes=%v", serName, limit, sizes), "wire_bytes": len(got)}, 10)
		switch {
		case !bytes.Equal(got, wantSpec):
			d := "the bytes on the wire are not exactly the frames of the messages that fit the announced limit, in order"
			if wedged {
				d += " (and the sender stopped before the sentinel arrived)"
			}
			if len(sizes) > 1 && perKind["send-spec"] < 5 { // minimise: which single message is enough?
				before := perKind["send-spec"]
				for _, n := range sizes {
					if checkSend(serName, nibble, []int{n}); perKind["send-spec"] > before {
						return
					}
				}
			}
			disagree("send-spec", in, short(got), short(wantSpec), true, d)
		case !bytes.Equal(got, wantModel):
			disagree("send-model", in, short(got), short(wantModel), false, "sender: implementation and model differ")
		}
	})
}

func unhex(s string) []byte {
	b, _ := hex.DecodeString(s)
	return b
}

func runSend(rng *hcommon.RNG) {
	for _, serName := range []string{"json", "msgpack", "cbor"} {
		nibbles := []int{0, 1, 3}
		if thorough {
			nibbles = []int{0, 1, 2, 3, 5, 8}
		}
		for _, nb := range nibbles {
			l := 1 << (9 + nb)
			checkSend(serName, nb, []int{60, l - 1, 61, l, 62, l + 1, 63, 0, 64, 2 * l, l, l + 1, l - 1, 65})
			var rnd []int
			for i := 0; i < 12; i++ {
				switch rng.Intn(4) {
				case 0:
					rnd = append(rnd, l-2+rng.Intn(5))
				case 1:
					rnd = append(rnd, 0)
				default:
					rnd = append(rnd, 40+rng.Intn(l))
				}
			}
			checkSend(serName, nb, rnd)
		}
	}
	if thorough {
		// the 24-bit boundary: the peer announced 2^24, a header can say 2^24-1
		checkSend("json", 15, []int{100, 1<<24 - 1, 101, 1 << 24, 102, 1<<24 + 1, 103})
	}
}
