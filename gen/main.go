// Command gen re-reads the gammazero/nexus working tree and regenerates the
// Lean sources under lean/Nexus/Gen. It is run by bin/check on every run, so
// that every theorem stated over a generated definition is re-checked against
// what the code says now.
//
// Usage: gen -repo /repo -out /verif/lean/Nexus/Gen [target ...]
//
// Each target is a function registered in the targets map by an init() in its
// own file (uri.go, consts.go, schema.go, ...). A target writes one or more
// .lean files; files are only rewritten when their content changes so that
// Lake stays incremental. A target that cannot follow the source fails
// loudly (non-zero exit): the caller then reports that the regenerated tie was
// lost.
package main

import (
	"bytes"
	"flag"
	"fmt"
	"os"
	"path/filepath"
	"sort"
)

type target func(repo, out string) error

var targets = map[string]target{}

// writeIfChanged writes content to path unless the file already has it.
func writeIfChanged(path string, content []byte) error {
	old, err := os.ReadFile(path)
	if err == nil && bytes.Equal(old, content) {
		return nil
	}
	if err := os.MkdirAll(filepath.Dir(path), 0o755); err != nil {
		return err
	}
	return os.WriteFile(path, content, 0o644)
}

func main() {
	repo := flag.String("repo", "/repo", "path of the nexus working tree")
	out := flag.String("out", "/verif/lean/Nexus/Gen", "output directory")
	flag.Parse()
	names := flag.Args()
	if len(names) == 0 {
		for n := range targets {
			names = append(names, n)
		}
		sort.Strings(names)
	}
	failed := false
	for _, n := range names {
		t, ok := targets[n]
		if !ok {
			fmt.Fprintf(os.Stderr, "gen: unknown target %q\n", n)
			os.Exit(2)
		}
		if err := t(*repo, *out); err != nil {
			fmt.Fprintf(os.Stderr, "gen: target %s: %v\n", n, err)
			failed = true
		}
	}
	if failed {
		os.Exit(1)
	}
}
