package main

import (
	"bytes"
	"crypto/sha256"
	"fmt"
	"go/ast"
	"go/format"
	"go/token"
	"path/filepath"
	"strconv"
	"strings"
)

// Target "auth" (property C09): facts about the attach / authentication code
// that the theorems of Nexus.Props.C09 are stated over or re-checked against:
//
//   - helloTimeout, defaultCRAuthTimeout (milliseconds);
//   - the client roles checked in AttachClient;
//   - the keys skipped in the two sessDetails merge loops of AttachClient and
//     the key assigned afterwards;
//   - the order of the decisive statements of AttachClient;
//   - authClient: the local-bypass condition, the local WELCOME details, the
//     default method, the keys assigned after Authenticate;
//   - getAuthenticator: whether the search stops at the first match;
//   - every `wamp.Welcome{Details: wamp.Dict{...}}` literal of the built-in
//     authenticators (key -> source text of the value);
//   - the wampcra challenge format string and argument list;
//   - whether CryptoSignAuthenticator.verifySignature compares the opened
//     message with the issued challenge;
//   - sha256 of the gofmt-normalised text of each modelled function.
//
// Anything that no longer has the expected shape is an error (loud failure).
func init() { targets["auth"] = genAuth }

func c09FindFunc(f *ast.File, recv, name string) *ast.FuncDecl {
	for _, d := range f.Decls {
		fd, ok := d.(*ast.FuncDecl)
		if !ok || fd.Name.Name != name {
			continue
		}
		r := ""
		if fd.Recv != nil && len(fd.Recv.List) == 1 {
			t := fd.Recv.List[0].Type
			if st, ok := t.(*ast.StarExpr); ok {
				t = st.X
			}
			if id, ok := t.(*ast.Ident); ok {
				r = id.Name
			}
		}
		if r == recv {
			return fd
		}
	}
	return nil
}

func c09Src(fset *token.FileSet, n ast.Node) string {
	var b bytes.Buffer
	if err := format.Node(&b, fset, n); err != nil {
		return "?"
	}
	return b.String()
}

func c09Hash(fset *token.FileSet, fd *ast.FuncDecl) string {
	// Comments are not part of the hashed text: print the declaration alone.
	cp := *fd
	cp.Doc = nil
	s := c09Src(fset, &cp)
	return fmt.Sprintf("%x", sha256.Sum256([]byte(s)))
}

// c09DurationMs evaluates `N * time.Unit`, `time.Unit * N` or `time.Unit`.
func c09DurationMs(e ast.Expr) (int64, error) {
	unit := func(e ast.Expr) (int64, bool) {
		se, ok := e.(*ast.SelectorExpr)
		if !ok {
			return 0, false
		}
		if id, ok := se.X.(*ast.Ident); !ok || id.Name != "time" {
			return 0, false
		}
		switch se.Sel.Name {
		case "Millisecond":
			return 1, true
		case "Second":
			return 1000, true
		case "Minute":
			return 60000, true
		case "Hour":
			return 3600000, true
		}
		return 0, false
	}
	lit := func(e ast.Expr) (int64, bool) {
		bl, ok := e.(*ast.BasicLit)
		if !ok || bl.Kind != token.INT {
			return 0, false
		}
		n, err := strconv.ParseInt(bl.Value, 0, 64)
		return n, err == nil
	}
	if u, ok := unit(e); ok {
		return u, nil
	}
	if be, ok := e.(*ast.BinaryExpr); ok && be.Op == token.MUL {
		if n, ok := lit(be.X); ok {
			if u, ok := unit(be.Y); ok {
				return n * u, nil
			}
		}
		if n, ok := lit(be.Y); ok {
			if u, ok := unit(be.X); ok {
				return n * u, nil
			}
		}
	}
	return 0, fmt.Errorf("unsupported duration expression")
}

func c09Const(f *ast.File, name string) ast.Expr {
	for _, d := range f.Decls {
		gd, ok := d.(*ast.GenDecl)
		if !ok || gd.Tok != token.CONST {
			continue
		}
		for _, s := range gd.Specs {
			vs := s.(*ast.ValueSpec)
			for i, n := range vs.Names {
				if n.Name == name && i < len(vs.Values) {
					return vs.Values[i]
				}
			}
		}
	}
	return nil
}

// c09SkipKeys reads `if k == "a" || k == "b" { continue }`.
func c09SkipKeys(s ast.Stmt, keyVar string) ([]string, error) {
	is, ok := s.(*ast.IfStmt)
	if !ok || is.Init != nil || is.Else != nil || len(is.Body.List) != 1 {
		return nil, fmt.Errorf("not a plain if")
	}
	br, ok := is.Body.List[0].(*ast.BranchStmt)
	if !ok || br.Tok != token.CONTINUE {
		return nil, fmt.Errorf("if body is not `continue`")
	}
	var keys []string
	var walk func(e ast.Expr) error
	walk = func(e ast.Expr) error {
		be, ok := e.(*ast.BinaryExpr)
		if !ok {
			return fmt.Errorf("unsupported condition")
		}
		switch be.Op {
		case token.LOR:
			if err := walk(be.X); err != nil {
				return err
			}
			return walk(be.Y)
		case token.EQL:
			id, ok := be.X.(*ast.Ident)
			if !ok || id.Name != keyVar {
				return fmt.Errorf("comparison is not on the key variable")
			}
			v, ok := stringLit(be.Y)
			if !ok {
				return fmt.Errorf("comparison is not with a string literal")
			}
			keys = append(keys, v)
			return nil
		}
		return fmt.Errorf("unsupported operator %s", be.Op)
	}
	if err := walk(is.Cond); err != nil {
		return nil, err
	}
	return keys, nil
}

func c09LeanStrList(xs []string) string {
	q := make([]string, len(xs))
	for i, x := range xs {
		q[i] = leanStr(x)
	}
	return "[" + strings.Join(q, ", ") + "]"
}

func c09LeanPairs(ps [][2]string) string {
	q := make([]string, len(ps))
	for i, p := range ps {
		q[i] = "(" + leanStr(p[0]) + ", " + leanStr(p[1]) + ")"
	}
	return "[" + strings.Join(q, ", ") + "]"
}

// c09DictLit returns key -> value source text of a `wamp.Dict{...}` literal.
func c09DictLit(fset *token.FileSet, e ast.Expr) ([][2]string, bool) {
	cl, ok := e.(*ast.CompositeLit)
	if !ok {
		return nil, false
	}
	if c09Src(fset, cl.Type) != "wamp.Dict" {
		return nil, false
	}
	var out [][2]string
	for _, el := range cl.Elts {
		kv, ok := el.(*ast.KeyValueExpr)
		if !ok {
			return nil, false
		}
		k, ok := stringLit(kv.Key)
		if !ok {
			return nil, false
		}
		v := c09Src(fset, kv.Value)
		if inner, isLit := kv.Value.(*ast.CompositeLit); isLit {
			v = c09Src(fset, inner.Type) + "{...}"
		}
		out = append(out, [2]string{k, v})
	}
	return out, true
}

// c09Contains reports whether the node contains a call whose function text is fn.
func c09ContainsCall(fset *token.FileSet, n ast.Node, fn string) bool {
	found := false
	ast.Inspect(n, func(x ast.Node) bool {
		if ce, ok := x.(*ast.CallExpr); ok && c09Src(fset, ce.Fun) == fn {
			found = true
		}
		return !found
	})
	return found
}

func c09Mentions(n ast.Node, ident string) bool {
	found := false
	ast.Inspect(n, func(x ast.Node) bool {
		if id, ok := x.(*ast.Ident); ok && id.Name == ident {
			found = true
		}
		return !found
	})
	return found
}

func genAuth(repo, out string) error {
	var b strings.Builder
	b.WriteString("/-\n  GENERATED by `gen auth` from router/router.go, router/realm.go, router/auth/*.go — do not edit.\n")
	b.WriteString("  Regenerated by bin/check on every run; the theorems of Nexus.Props.C09 are stated over /\n  re-checked against these definitions.\n-/\n")
	b.WriteString("import Nexus.Gen.Names\n\nnamespace Nexus.Gen.Auth\n\n")

	// ---- router/router.go ------------------------------------------------------
	fsetR, fRouter, err := parseFile(filepath.Join(repo, "router/router.go"))
	if err != nil {
		return err
	}
	ht := c09Const(fRouter, "helloTimeout")
	if ht == nil {
		return fmt.Errorf("const helloTimeout not found in router/router.go")
	}
	ms, err := c09DurationMs(ht)
	if err != nil {
		return fmt.Errorf("helloTimeout: %v", err)
	}
	fmt.Fprintf(&b, "/-- `const helloTimeout = %s` in milliseconds -/\ndef helloTimeoutMs : Nat := %d\n\n", c09Src(fsetR, ht), ms)

	attach := c09FindFunc(fRouter, "router", "AttachClient")
	if attach == nil || attach.Body == nil {
		return fmt.Errorf("router.AttachClient not found")
	}
	// Order of the decisive top-level statements.
	type mark struct {
		name string
		test func(s ast.Stmt) bool
	}
	isRange := func(over string) func(ast.Stmt) bool {
		return func(s ast.Stmt) bool {
			rs, ok := s.(*ast.RangeStmt)
			return ok && c09Src(fsetR, rs.X) == over
		}
	}
	marks := []mark{
		{"recvHello", func(s ast.Stmt) bool {
			as, ok := s.(*ast.AssignStmt)
			return ok && c09ContainsCall(fsetR, as, "wamp.RecvTimeout")
		}},
		{"helloTypeCheck", func(s ast.Stmt) bool {
			is, ok := s.(*ast.IfStmt)
			return ok && c09Src(fsetR, is.Cond) == "!ok" && c09ContainsCall(fsetR, is.Body, "sendAbort")
		}},
		{"emptyRealmCheck", func(s ast.Stmt) bool {
			is, ok := s.(*ast.IfStmt)
			return ok && c09Src(fsetR, is.Cond) == `string(hello.Realm) == ""`
		}},
		{"realmLookup", func(s ast.Stmt) bool {
			// `r.actionChan <- func() {...}` or `if !r.post(func() {...}) { abort }`
			if ss, ok := s.(*ast.SendStmt); ok {
				return c09Src(fsetR, ss.Chan) == "r.actionChan"
			}
			is, ok := s.(*ast.IfStmt)
			return ok && strings.HasPrefix(c09Src(fsetR, is.Cond), "!r.post(func()")
		}},
		{"normalizeDetails", func(s ast.Stmt) bool {
			as, ok := s.(*ast.AssignStmt)
			return ok && c09ContainsCall(fsetR, as, "wamp.NormalizeDict")
		}},
		{"newSession", func(s ast.Stmt) bool {
			as, ok := s.(*ast.AssignStmt)
			return ok && c09ContainsCall(fsetR, as, "wamp.NewSession")
		}},
		{"rolesCheck", func(s ast.Stmt) bool {
			is, ok := s.(*ast.IfStmt)
			return ok && c09Src(fsetR, is.Cond) == "!rolesOK" && c09ContainsCall(fsetR, is.Body, "sendAbort")
		}},
		{"transportDetails", func(s ast.Stmt) bool {
			is, ok := s.(*ast.IfStmt)
			return ok && c09Src(fsetR, is.Cond) == "len(transportDetails) != 0"
		}},
		{"authClient", func(s ast.Stmt) bool {
			as, ok := s.(*ast.AssignStmt)
			return ok && c09ContainsCall(fsetR, as, "realm.authClient")
		}},
		{"authErrorCheck", func(s ast.Stmt) bool {
			is, ok := s.(*ast.IfStmt)
			return ok && c09Src(fsetR, is.Cond) == "err != nil" && c09Mentions(is.Body, "ErrAuthenticationFailed")
		}},
		{"mergeHello", isRange("hello.Details")},
		{"mergeWelcome", isRange("welcome.Details")},
		{"setSession", func(s ast.Stmt) bool {
			as, ok := s.(*ast.AssignStmt)
			if !ok || len(as.Lhs) != 1 {
				return false
			}
			ix, ok := as.Lhs[0].(*ast.IndexExpr)
			return ok && c09Src(fsetR, ix.X) == "sessDetails"
		}},
		{"assignSessDetails", func(s ast.Stmt) bool {
			return strings.TrimSpace(c09Src(fsetR, s)) == "sess.Details = sessDetails"
		}},
		{"handleSession", func(s ast.Stmt) bool {
			is, ok := s.(*ast.IfStmt)
			return ok && is.Init != nil && c09ContainsCall(fsetR, is.Init, "realm.handleSession")
		}},
		{"sendWelcome", func(s ast.Stmt) bool {
			ss, ok := s.(*ast.SendStmt)
			return ok && c09Src(fsetR, ss.Chan) == "client.Send()" && c09Src(fsetR, ss.Value) == "welcome"
		}},
	}
	var order []string
	var mergeHello, mergeWelcome *ast.RangeStmt
	var setSession *ast.AssignStmt
	for _, s := range attach.Body.List {
		for _, m := range marks {
			if m.test(s) {
				order = append(order, m.name)
				switch m.name {
				case "mergeHello":
					mergeHello = s.(*ast.RangeStmt)
				case "mergeWelcome":
					mergeWelcome = s.(*ast.RangeStmt)
				case "setSession":
					setSession = s.(*ast.AssignStmt)
				}
			}
		}
	}
	fmt.Fprintf(&b, "/-- the decisive top-level statements of `AttachClient`, in source order -/\ndef attachOrder : List String := %s\n\n", c09LeanStrList(order))

	// Abort reasons in source order.
	var reasons []string
	ast.Inspect(attach.Body, func(x ast.Node) bool {
		if ce, ok := x.(*ast.CallExpr); ok && c09Src(fsetR, ce.Fun) == "sendAbort" && len(ce.Args) == 2 {
			reasons = append(reasons, strings.TrimPrefix(c09Src(fsetR, ce.Args[0]), "wamp."))
		}
		return true
	})
	fmt.Fprintf(&b, "/-- first argument of every `sendAbort` call in `AttachClient`, in source order -/\ndef abortReasons : List String := %s\n\n", c09LeanStrList(reasons))

	// Client roles.
	var roles []string
	ast.Inspect(attach.Body, func(x ast.Node) bool {
		ce, ok := x.(*ast.CallExpr)
		if !ok || c09Src(fsetR, ce.Fun) != "slices.ContainsFunc" || len(ce.Args) != 2 {
			return true
		}
		if c09Src(fsetR, ce.Args[1]) != "sess.HasRole" {
			return true
		}
		if cl, ok := ce.Args[0].(*ast.CompositeLit); ok {
			for _, el := range cl.Elts {
				roles = append(roles, c09Src(fsetR, el))
			}
		}
		return true
	})
	if len(roles) == 0 {
		return fmt.Errorf("AttachClient: role check `slices.ContainsFunc([]string{...}, sess.HasRole)` not found")
	}
	var roleRefs []string
	for _, r := range roles {
		if !strings.HasPrefix(r, "wamp.Role") {
			return fmt.Errorf("AttachClient: unsupported role expression %s", r)
		}
		roleRefs = append(roleRefs, "Nexus.Gen.N."+strings.TrimPrefix(r, "wamp."))
	}
	fmt.Fprintf(&b, "/-- roles tested by `AttachClient` (at least one must be announced) -/\ndef clientRoles : List String := [%s]\n\n", strings.Join(roleRefs, ", "))

	// Merge loops.
	if mergeHello == nil || mergeWelcome == nil || setSession == nil {
		return fmt.Errorf("AttachClient: sessDetails merge loops / final assignment not found")
	}
	loop := func(rs *ast.RangeStmt, what string) ([]string, error) {
		k, ok := rs.Key.(*ast.Ident)
		v, ok2 := rs.Value.(*ast.Ident)
		if !ok || !ok2 || len(rs.Body.List) != 2 {
			return nil, fmt.Errorf("AttachClient: merge loop over %s no longer has the shape `for k, v := range X { if k == ... { continue }; sessDetails[k] = v }`", what)
		}
		keys, err := c09SkipKeys(rs.Body.List[0], k.Name)
		if err != nil {
			return nil, fmt.Errorf("AttachClient: merge loop over %s: %v", what, err)
		}
		want := fmt.Sprintf("sessDetails[%s] = %s", k.Name, v.Name)
		if strings.TrimSpace(c09Src(fsetR, rs.Body.List[1])) != want {
			return nil, fmt.Errorf("AttachClient: merge loop over %s: second statement is not `%s`", what, want)
		}
		return keys, nil
	}
	hs, err := loop(mergeHello, "hello.Details")
	if err != nil {
		return err
	}
	ws, err := loop(mergeWelcome, "welcome.Details")
	if err != nil {
		return err
	}
	fk, ok := stringLit(setSession.Lhs[0].(*ast.IndexExpr).Index)
	if !ok || len(setSession.Rhs) != 1 || c09Src(fsetR, setSession.Rhs[0]) != "sid" {
		return fmt.Errorf("AttachClient: final assignment is not `sessDetails[\"...\"] = sid`")
	}
	fmt.Fprintf(&b, "/-- keys of HELLO.Details not copied into the session details -/\ndef helloSkip : List String := %s\n\n", c09LeanStrList(hs))
	fmt.Fprintf(&b, "/-- keys of WELCOME.Details not copied into the session details -/\ndef welcomeSkip : List String := %s\n\n", c09LeanStrList(ws))
	fmt.Fprintf(&b, "/-- key assigned the session id after both merges -/\ndef sessionKey : String := %s\n\n", leanStr(fk))

	// ---- router/realm.go ----------------------------------------------------------
	fsetM, fRealm, err := parseFile(filepath.Join(repo, "router/realm.go"))
	if err != nil {
		return err
	}
	authClient := c09FindFunc(fRealm, "realm", "authClient")
	if authClient == nil || authClient.Body == nil || len(authClient.Body.List) == 0 {
		return fmt.Errorf("realm.authClient not found")
	}
	bypass, ok := authClient.Body.List[0].(*ast.IfStmt)
	if !ok {
		return fmt.Errorf("authClient: first statement is not the local-bypass if")
	}
	fmt.Fprintf(&b, "/-- condition of the local bypass in `authClient` (source text) -/\ndef localBypassCond : String := %s\n\n", leanStr(c09Src(fsetM, bypass.Cond)))
	var localLit [][2]string
	ast.Inspect(bypass.Body, func(x ast.Node) bool {
		as, ok := x.(*ast.AssignStmt)
		if !ok || len(as.Lhs) != 1 || len(as.Rhs) != 1 || c09Src(fsetM, as.Lhs[0]) != "details" {
			return true
		}
		if d, ok := c09DictLit(fsetM, as.Rhs[0]); ok {
			localLit = d
		}
		return true
	})
	if localLit == nil {
		return fmt.Errorf("authClient: local-bypass welcome details literal not found")
	}
	fmt.Fprintf(&b, "/-- WELCOME details built for a local client (key, source text of the value) -/\ndef localWelcome : List (String × String) := %s\n\n", c09LeanPairs(localLit))
	// authid of the local bypass: taken from HELLO?
	localAuthidFromHello := false
	ast.Inspect(bypass.Body, func(x ast.Node) bool {
		if as, ok := x.(*ast.AssignStmt); ok && len(as.Rhs) == 1 {
			if strings.Contains(c09Src(fsetM, as.Rhs[0]), `details["authid"]`) {
				localAuthidFromHello = true
			}
		}
		return true
	})
	fmt.Fprintf(&b, "/-- the local bypass reads `authid` from the HELLO details -/\ndef localAuthidFromHello : Bool := %v\n\n", localAuthidFromHello)

	defMethod := ""
	var sets []string
	for _, s := range authClient.Body.List[1:] {
		ast.Inspect(s, func(x ast.Node) bool {
			switch n := x.(type) {
			case *ast.CallExpr:
				if c09Src(fsetM, n.Fun) == "append" && len(n.Args) == 2 && c09Src(fsetM, n.Args[0]) == "_authmethods" {
					if v, ok := stringLit(n.Args[1]); ok {
						defMethod = v
					}
				}
			case *ast.AssignStmt:
				if len(n.Lhs) == 1 {
					if ix, ok := n.Lhs[0].(*ast.IndexExpr); ok && c09Src(fsetM, ix.X) == "welcome.Details" {
						if k, ok := stringLit(ix.Index); ok {
							sets = append(sets, k)
						}
					}
				}
			}
			return true
		})
	}
	if defMethod == "" {
		return fmt.Errorf("authClient: default method `append(_authmethods, \"...\")` not found")
	}
	fmt.Fprintf(&b, "/-- method assumed when the client offers none -/\ndef defaultMethod : String := %s\n\n", leanStr(defMethod))
	fmt.Fprintf(&b, "/-- keys `authClient` assigns in the authenticator's WELCOME details -/\ndef authClientSets : List String := %s\n\n", c09LeanStrList(sets))

	getAuth := c09FindFunc(fRealm, "realm", "getAuthenticator")
	if getAuth == nil {
		return fmt.Errorf("realm.getAuthenticator not found")
	}
	firstMatch := false
	overMethods := false
	ast.Inspect(getAuth.Body, func(x ast.Node) bool {
		rs, ok := x.(*ast.RangeStmt)
		if !ok {
			return true
		}
		if c09Src(fsetM, rs.X) == "methods" {
			overMethods = true
			for _, s := range rs.Body.List {
				if is, ok := s.(*ast.IfStmt); ok && is.Init != nil &&
					strings.Contains(c09Src(fsetM, is.Init), "r.authenticators[") {
					for _, bs := range is.Body.List {
						if br, ok := bs.(*ast.BranchStmt); ok && br.Tok == token.BREAK {
							firstMatch = true
						}
						if _, ok := bs.(*ast.ReturnStmt); ok {
							firstMatch = true
						}
					}
				}
			}
		}
		return true
	})
	if !overMethods {
		return fmt.Errorf("getAuthenticator: loop over `methods` not found")
	}
	fmt.Fprintf(&b, "/-- `getAuthenticator` iterates the client's methods in order and stops at the first configured one -/\ndef getAuthenticatorFirstMatch : Bool := %v\n\n", firstMatch)

	newRealm := c09FindFunc(fRealm, "", "newRealm")
	handleSession := c09FindFunc(fRealm, "realm", "handleSession")
	clean := c09FindFunc(fRealm, "realm", "cleanSessionDetails")
	if newRealm == nil || handleSession == nil || clean == nil {
		return fmt.Errorf("newRealm / handleSession / cleanSessionDetails not found")
	}
	// onJoin inside handleSession before the handler goroutine starts.
	joinIdx, goIdx := -1, -1
	for i, s := range handleSession.Body.List {
		if c09ContainsCall(fsetM, s, "r.onJoin") && joinIdx < 0 {
			joinIdx = i
		}
		if _, ok := s.(*ast.GoStmt); ok && goIdx < 0 {
			goIdx = i
		}
	}
	fmt.Fprintf(&b, "/-- `handleSession` calls `onJoin` before it starts the message handler -/\ndef joinBeforeHandler : Bool := %v\n\n", joinIdx >= 0 && goIdx > joinIdx)
	// Who sends WELCOME: AttachClient after handleSession (blocking), or the handler goroutine as
	// its first action (non-blocking select with default).
	welcomeBy := ""
	for _, o := range order {
		if o == "sendWelcome" {
			welcomeBy = "AttachClient"
		}
	}
	handlerFirst := false
	if goIdx >= 0 {
		if gs, ok := handleSession.Body.List[goIdx].(*ast.GoStmt); ok {
			if fl, ok := gs.Call.Fun.(*ast.FuncLit); ok && len(fl.Body.List) > 0 {
				if sel, ok := fl.Body.List[0].(*ast.SelectStmt); ok {
					hasDefault, sendsWelcome := false, false
					for _, c := range sel.Body.List {
						cc := c.(*ast.CommClause)
						if cc.Comm == nil {
							hasDefault = true
						} else if ss, ok := cc.Comm.(*ast.SendStmt); ok && c09Src(fsetM, ss.Value) == "welcome" {
							sendsWelcome = true
						}
					}
					handlerFirst = hasDefault && sendsWelcome
				}
			}
		}
	}
	if handlerFirst {
		if welcomeBy != "" {
			return fmt.Errorf("WELCOME is sent both by AttachClient and by the session handler")
		}
		welcomeBy = "handler"
	}
	if welcomeBy == "" {
		return fmt.Errorf("cannot find where WELCOME is sent (neither `client.Send() <- welcome` in AttachClient nor a non-blocking send as the handler's first action)")
	}
	fmt.Fprintf(&b, "/-- who sends WELCOME: \"AttachClient\" (blocking send after handleSession) or \"handler\" (the\n    session's message handler, as its first action, without blocking: dropped when the client's queue is full) -/\ndef welcomeSentBy : String := %s\n\n", leanStr(welcomeBy))
	fmt.Fprintf(&b, "def welcomeSendNonBlocking : Bool := %v\n\n", welcomeBy == "handler")
	var std []string
	ast.Inspect(clean.Body, func(x ast.Node) bool {
		as, ok := x.(*ast.AssignStmt)
		if !ok || len(as.Lhs) != 1 || c09Src(fsetM, as.Lhs[0]) != "stdItems" {
			return true
		}
		if cl, ok := as.Rhs[0].(*ast.CompositeLit); ok {
			for _, el := range cl.Elts {
				if v, ok := stringLit(el); ok {
					std = append(std, v)
				}
			}
		}
		return true
	})
	if len(std) == 0 {
		return fmt.Errorf("cleanSessionDetails: stdItems not found")
	}
	fmt.Fprintf(&b, "/-- details kept by `cleanSessionDetails` under MetaStrict -/\ndef metaStdItems : List String := %s\n\n", c09LeanStrList(std))

	// ---- router/auth ---------------------------------------------------------------
	fsetA, fAuth, err := parseFile(filepath.Join(repo, "router/auth/authenticator.go"))
	if err != nil {
		return err
	}
	ct := c09Const(fAuth, "defaultCRAuthTimeout")
	if ct == nil {
		return fmt.Errorf("const defaultCRAuthTimeout not found")
	}
	ms, err = c09DurationMs(ct)
	if err != nil {
		return fmt.Errorf("defaultCRAuthTimeout: %v", err)
	}
	fmt.Fprintf(&b, "/-- `const defaultCRAuthTimeout = %s` in milliseconds -/\ndef defaultCRAuthTimeoutMs : Nat := %d\n\n", c09Src(fsetA, ct), ms)

	type authFn struct {
		file, recv, name string
	}
	fns := []authFn{
		{"router/auth/anonymous.go", "AnonymousAuth", "Authenticate"},
		{"router/auth/ticket.go", "TicketAuthenticator", "Authenticate"},
		{"router/auth/crauth.go", "CRAuthenticator", "Authenticate"},
		{"router/auth/cryptosign.go", "CryptoSignAuthenticator", "Authenticate"},
	}
	hashes := [][2]string{
		{"router_AttachClient", c09Hash(fsetR, attach)},
		{"realm_authClient", c09Hash(fsetM, authClient)},
		{"realm_getAuthenticator", c09Hash(fsetM, getAuth)},
		{"newRealm", c09Hash(fsetM, newRealm)},
		{"realm_handleSession", c09Hash(fsetM, handleSession)},
		{"realm_cleanSessionDetails", c09Hash(fsetM, clean)},
	}
	b.WriteString("/-- every `wamp.Welcome{Details: wamp.Dict{...}}` literal of the built-in authenticators:\n    (function, [(key, source text of the value)]) in source order -/\n")
	b.WriteString("def welcomeLiterals : List (String × List (String × String)) := [\n")
	firstLit := true
	var fsetCS *token.FileSet
	var fCS, fCR *ast.File
	var fsetCR *token.FileSet
	for _, fn := range fns {
		fset, file, err := parseFile(filepath.Join(repo, fn.file))
		if err != nil {
			return err
		}
		if fn.recv == "CryptoSignAuthenticator" {
			fsetCS, fCS = fset, file
		}
		if fn.recv == "CRAuthenticator" {
			fsetCR, fCR = fset, file
		}
		fd := c09FindFunc(file, fn.recv, fn.name)
		if fd == nil || fd.Body == nil {
			return fmt.Errorf("%s.%s not found in %s", fn.recv, fn.name, fn.file)
		}
		hashes = append(hashes, [2]string{fn.recv + "_" + fn.name, c09Hash(fset, fd)})
		nlit := 0
		var litErr error
		ast.Inspect(fd.Body, func(x ast.Node) bool {
			cl, ok := x.(*ast.CompositeLit)
			if !ok || c09Src(fset, cl.Type) != "wamp.Welcome" {
				return true
			}
			for _, el := range cl.Elts {
				kv, ok := el.(*ast.KeyValueExpr)
				if !ok || c09Src(fset, kv.Key) != "Details" {
					continue
				}
				d, ok := c09DictLit(fset, kv.Value)
				if !ok {
					litErr = fmt.Errorf("%s.%s: WELCOME details are not a wamp.Dict literal with string-literal keys", fn.recv, fn.name)
					return false
				}
				if !firstLit {
					b.WriteString(",\n")
				}
				firstLit = false
				fmt.Fprintf(&b, "  (%s, %s)", leanStr(fn.recv+"."+fn.name), c09LeanPairs(d))
				nlit++
			}
			return true
		})
		if litErr != nil {
			return litErr
		}
		if nlit == 0 {
			return fmt.Errorf("%s.%s: no WELCOME details literal found", fn.recv, fn.name)
		}
	}
	b.WriteString("]\n\n")

	// wampcra: challenge format.
	mk := c09FindFunc(fCR, "CRAuthenticator", "makeChallengeStr")
	if mk == nil {
		return fmt.Errorf("CRAuthenticator.makeChallengeStr not found")
	}
	hashes = append(hashes, [2]string{"CRAuthenticator_makeChallengeStr", c09Hash(fsetCR, mk)})
	var fmtStr string
	var fmtArgs []string
	var fmtErr error
	ast.Inspect(mk.Body, func(x ast.Node) bool {
		ce, ok := x.(*ast.CallExpr)
		if !ok || c09Src(fsetCR, ce.Fun) != "fmt.Sprintf" || len(ce.Args) == 0 {
			return true
		}
		var cat func(e ast.Expr) (string, bool)
		cat = func(e ast.Expr) (string, bool) {
			if s, ok := stringLit(e); ok {
				return s, true
			}
			if be, ok := e.(*ast.BinaryExpr); ok && be.Op == token.ADD {
				l, ok1 := cat(be.X)
				r, ok2 := cat(be.Y)
				return l + r, ok1 && ok2
			}
			return "", false
		}
		s, ok := cat(ce.Args[0])
		if !ok {
			fmtErr = fmt.Errorf("makeChallengeStr: format is not a concatenation of string literals")
			return false
		}
		fmtStr = s
		for _, a := range ce.Args[1:] {
			fmtArgs = append(fmtArgs, c09Src(fsetCR, a))
		}
		return false
	})
	if fmtErr != nil {
		return fmtErr
	}
	if fmtStr == "" {
		return fmt.Errorf("makeChallengeStr: fmt.Sprintf call not found")
	}
	fmt.Fprintf(&b, "/-- format string of the wampcra challenge -/\ndef craChallengeFormat : String := %s\n\n", leanStr(fmtStr))
	fmt.Fprintf(&b, "/-- its arguments (source text) -/\ndef craChallengeArgs : List String := %s\n\n", c09LeanStrList(fmtArgs))
	crsignFset, crsignFile, err := parseFile(filepath.Join(repo, "wamp/crsign/crsign.go"))
	if err != nil {
		return err
	}
	vs := c09FindFunc(crsignFile, "", "VerifySignature")
	if vs == nil {
		return fmt.Errorf("crsign.VerifySignature not found")
	}
	hashes = append(hashes, [2]string{"crsign_VerifySignature", c09Hash(crsignFset, vs)})
	// VerifySignature compares the decoded signature with the HMAC over its chal parameter.
	craCompares := false
	ast.Inspect(vs.Body, func(x ast.Node) bool {
		if ce, ok := x.(*ast.CallExpr); ok && c09Src(crsignFset, ce.Fun) == "hmac.Equal" && len(ce.Args) == 2 {
			if c09Mentions(ce.Args[1], "chal") && c09Mentions(ce.Args[1], "key") && c09Mentions(ce.Args[0], "sigBytes") {
				craCompares = true
			}
		}
		return true
	})
	fmt.Fprintf(&b, "/-- `crsign.VerifySignature` returns `hmac.Equal(decoded signature, HMAC(key, chal))` -/\ndef craComparesHmacOfChallenge : Bool := %v\n\n", craCompares)

	// cryptosign: does verifySignature compare the opened message with the challenge?
	vfy := c09FindFunc(fCS, "CryptoSignAuthenticator", "verifySignature")
	if vfy == nil || vfy.Body == nil {
		return fmt.Errorf("CryptoSignAuthenticator.verifySignature not found")
	}
	hashes = append(hashes, [2]string{"CryptoSignAuthenticator_verifySignature", c09Hash(fsetCS, vfy)})
	var chalParams []string
	for _, p := range vfy.Type.Params.List {
		for _, n := range p.Names {
			if strings.Contains(strings.ToLower(n.Name), "chal") {
				chalParams = append(chalParams, n.Name)
			}
		}
	}
	checks := false
	if len(chalParams) > 0 {
		compared := false
		ast.Inspect(vfy.Body, func(x ast.Node) bool {
			switch n := x.(type) {
			case *ast.CallExpr:
				switch c09Src(fsetCS, n.Fun) {
				case "bytes.Equal", "subtle.ConstantTimeCompare", "hmac.Equal":
					for _, a := range n.Args {
						for _, cp := range chalParams {
							if c09Mentions(a, cp) {
								compared = true
							}
						}
					}
				}
			case *ast.BinaryExpr:
				if n.Op == token.EQL || n.Op == token.NEQ {
					for _, cp := range chalParams {
						if c09Mentions(n.X, cp) || c09Mentions(n.Y, cp) {
							compared = true
						}
					}
				}
			}
			return true
		})
		if !compared {
			return fmt.Errorf("cryptosign verifySignature has a challenge parameter %v but no comparison mentioning it: cannot decide whether the challenge is checked", chalParams)
		}
		// the call site must pass the challenge computed in this handshake
		csAuth := c09FindFunc(fCS, "CryptoSignAuthenticator", "Authenticate")
		passes := false
		ast.Inspect(csAuth.Body, func(x ast.Node) bool {
			if ce, ok := x.(*ast.CallExpr); ok && c09Src(fsetCS, ce.Fun) == "cr.verifySignature" {
				for _, a := range ce.Args {
					if c09Mentions(a, "challenge") {
						passes = true
					}
				}
			}
			return true
		})
		if !passes {
			return fmt.Errorf("cryptosign Authenticate does not pass `challenge` to verifySignature")
		}
		checks = true
	}
	fmt.Fprintf(&b, "/-- `CryptoSignAuthenticator.verifySignature` compares the opened message with the challenge issued\n    in this handshake (false: any validly signed 96-byte message is accepted) -/\ndef cryptosignChecksChallenge : Bool := %v\n\n", checks)
	// key guard: the condition tested right after `key, err := cr.keyStore.AuthKey(...)` in the two
	// challenge authenticators that compute with the key (a key store may answer (nil, nil)).
	keyGuard := func(fset *token.FileSet, f *ast.File, recv string) (string, bool, error) {
		fd := c09FindFunc(f, recv, "Authenticate")
		if fd == nil || fd.Body == nil {
			return "", false, fmt.Errorf("%s.Authenticate not found", recv)
		}
		var cond string
		found := false
		var walk func(list []ast.Stmt)
		walk = func(list []ast.Stmt) {
			for i, st := range list {
				if as, ok := st.(*ast.AssignStmt); ok && len(as.Lhs) == 2 && len(as.Rhs) == 1 &&
					c09Src(fset, as.Lhs[0]) == "key" && c09Src(fset, as.Lhs[1]) == "err" {
					if ce, ok := as.Rhs[0].(*ast.CallExpr); ok && c09Src(fset, ce.Fun) == "cr.keyStore.AuthKey" {
						if i+1 < len(list) {
							if is, ok := list[i+1].(*ast.IfStmt); ok && is.Init == nil {
								cond = c09Src(fset, is.Cond)
								found = true
							}
						}
					}
				}
				if found {
					return
				}
				switch n := st.(type) {
				case *ast.BlockStmt:
					walk(n.List)
				case *ast.IfStmt:
					walk(n.Body.List)
					if eb, ok := n.Else.(*ast.BlockStmt); ok {
						walk(eb.List)
					}
				}
			}
		}
		walk(fd.Body.List)
		if !found {
			return "", false, fmt.Errorf("%s.Authenticate: no `if` right after `key, err := cr.keyStore.AuthKey(...)`", recv)
		}
		switch strings.Join(strings.Fields(cond), " ") {
		case "err != nil || len(key) == 0", "len(key) == 0 || err != nil":
			return cond, true, nil
		case "err != nil":
			return cond, false, nil
		}
		return cond, false, fmt.Errorf("%s.Authenticate: key guard `%s` is neither `err != nil` nor `err != nil || len(key) == 0`: cannot decide whether an empty key is refused", recv, cond)
	}
	craGuard, craRefuses, err := keyGuard(fsetCR, fCR, "CRAuthenticator")
	if err != nil {
		return err
	}
	csGuard, csRefuses, err := keyGuard(fsetCS, fCS, "CryptoSignAuthenticator")
	if err != nil {
		return err
	}
	fmt.Fprintf(&b, "/-- the condition `CRAuthenticator.Authenticate` tests right after `cr.keyStore.AuthKey` (source text);\n    when it holds the response is checked against a throw-away random key -/\ndef craKeyGuard : String := %s\n\n", leanStr(craGuard))
	fmt.Fprintf(&b, "/-- that condition includes `len(key) == 0`: a key store answer without a key (nil or empty, no error)\n    is treated like an error (false: the HMAC is computed under the empty key) -/\ndef craRefusesEmptyKey : Bool := %v\n\n", craRefuses)
	fmt.Fprintf(&b, "/-- the condition `CryptoSignAuthenticator.Authenticate` tests right after `cr.keyStore.AuthKey`; when it\n    holds the authenticator returns an error before any CHALLENGE -/\ndef csKeyGuard : String := %s\n\n", leanStr(csGuard))
	fmt.Fprintf(&b, "/-- that condition includes `len(key) == 0` (false: the signature is verified against the all-zero key) -/\ndef csRefusesEmptyKey : Bool := %v\n\n", csRefuses)

	// length test
	sigLen := int64(-1)
	ast.Inspect(vfy.Body, func(x ast.Node) bool {
		if be, ok := x.(*ast.BinaryExpr); ok && be.Op == token.NEQ && c09Src(fsetCS, be.X) == "len(signatureBytes)" {
			if bl, ok := be.Y.(*ast.BasicLit); ok {
				sigLen, _ = strconv.ParseInt(bl.Value, 0, 64)
			}
		}
		return true
	})
	if sigLen < 0 {
		return fmt.Errorf("cryptosign verifySignature: length test `len(signatureBytes) != N` not found")
	}
	fmt.Fprintf(&b, "/-- required length of the hex-decoded cryptosign response -/\ndef cryptosignSignedLen : Nat := %d\n\n", sigLen)

	for _, h := range hashes {
		fmt.Fprintf(&b, "def hash_%s : String := %s\n", h[0], leanStr(h[1]))
	}
	b.WriteString("\n/-- all source hashes (name, sha256 of the gofmt-normalised declaration) -/\ndef hashes : List (String × String) := [\n")
	for i, h := range hashes {
		sep := ","
		if i == len(hashes)-1 {
			sep = ""
		}
		fmt.Fprintf(&b, "  (%s, hash_%s)%s\n", leanStr(h[0]), h[0], sep)
	}
	b.WriteString("]\n\nend Nexus.Gen.Auth\n")
	return writeIfChanged(filepath.Join(out, "Auth.lean"), []byte(b.String()))
}
