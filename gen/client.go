package main

import (
	"bytes"
	"crypto/sha256"
	"fmt"
	"go/ast"
	"go/format"
	"go/printer"
	"go/token"
	"os"
	"path/filepath"
	"sort"
	"strconv"
	"strings"
)

// Target "client": the facts about client/*.go that the client model
// (lean/Nexus/Client) and the theorems of C16/C17 depend on, regenerated on
// every run as lean/Nexus/Gen/Client.lean:
//
//   - the type switch of runReceiveFromRouter (message type -> reply signalled by
//     which field / handler called / loop exit);
//   - the site table: every bare (non comma-ok) type assertion and every index
//     expression on Arguments/args or with a literal index, in non-test files;
//   - the reply rendezvous: capacity of the channel made in expectReply, the
//     shape of the select around the send in runSignalReply, the selects of the
//     two wait functions, whether they delete the awaitingReply entry, the
//     expression the CANCEL mode is taken from;
//   - the invocation path: queue capacities, whether the IsNewRecvID gate guards
//     the creation of a worker;
//   - constants; sha256 of the gofmt-normalised source of each modelled function.
//
// Anything the extractor cannot follow is an error (loud failure).
func init() { targets["client"] = genClient }

type clientSite struct {
	fn, kind, expr string
	line           int
}

func exprText(fset *token.FileSet, n ast.Node) string {
	var b bytes.Buffer
	printer.Fprint(&b, fset, n)
	return strings.Join(strings.Fields(b.String()), " ")
}

func funcName(fd *ast.FuncDecl) string { return fd.Name.Name }

// commText renders one comm clause of a select as "send X" / "recv X" / "default".
func commText(fset *token.FileSet, cc *ast.CommClause) (string, error) {
	if cc.Comm == nil {
		return "default", nil
	}
	switch s := cc.Comm.(type) {
	case *ast.SendStmt:
		return "send " + exprText(fset, s.Chan), nil
	case *ast.ExprStmt:
		if u, ok := s.X.(*ast.UnaryExpr); ok && u.Op == token.ARROW {
			return "recv " + exprText(fset, u.X), nil
		}
	case *ast.AssignStmt:
		if len(s.Rhs) == 1 {
			if u, ok := s.Rhs[0].(*ast.UnaryExpr); ok && u.Op == token.ARROW {
				return "recv " + exprText(fset, u.X), nil
			}
		}
	}
	return "", fmt.Errorf("unsupported comm clause %q", exprText(fset, cc.Comm))
}

func selectCases(fset *token.FileSet, s *ast.SelectStmt) ([]string, error) {
	var out []string
	for _, c := range s.Body.List {
		t, err := commText(fset, c.(*ast.CommClause))
		if err != nil {
			return nil, err
		}
		out = append(out, t)
	}
	return out, nil
}

// topSelects returns the select statements of a function body in source order,
// not descending into function literals.
func allSelects(body ast.Node) []*ast.SelectStmt {
	var out []*ast.SelectStmt
	ast.Inspect(body, func(n ast.Node) bool {
		switch s := n.(type) {
		case *ast.FuncLit:
			return false
		case *ast.SelectStmt:
			out = append(out, s)
		}
		return true
	})
	return out
}

func leanStrList(xs []string) string {
	q := make([]string, len(xs))
	for i, x := range xs {
		q[i] = leanStr(x)
	}
	return "[" + strings.Join(q, ", ") + "]"
}

func leanBool(b bool) string {
	if b {
		return "true"
	}
	return "false"
}

// makeChanCap returns the capacity of a `make(chan T[, n])` call.
func makeChanCap(e ast.Expr) (int, bool) {
	ce, ok := e.(*ast.CallExpr)
	if !ok {
		return 0, false
	}
	id, ok := ce.Fun.(*ast.Ident)
	if !ok || id.Name != "make" || len(ce.Args) == 0 {
		return 0, false
	}
	if _, ok := ce.Args[0].(*ast.ChanType); !ok {
		return 0, false
	}
	if len(ce.Args) == 1 {
		return 0, true
	}
	bl, ok := ce.Args[1].(*ast.BasicLit)
	if !ok || bl.Kind != token.INT {
		return 0, false
	}
	n, err := strconv.Atoi(bl.Value)
	if err != nil {
		return 0, false
	}
	return n, true
}

func genClient(repo, out string) error {
	dir := filepath.Join(repo, "client")
	ents, err := os.ReadDir(dir)
	if err != nil {
		return err
	}
	var files []string
	for _, e := range ents {
		n := e.Name()
		if strings.HasSuffix(n, ".go") && !strings.HasSuffix(n, "_test.go") {
			files = append(files, n)
		}
	}
	sort.Strings(files)

	var sites []clientSite
	funcs := map[string]*ast.FuncDecl{}
	fsets := map[string]*token.FileSet{}
	consts := map[string]ast.Expr{}
	var mainFset *token.FileSet

	for _, fn := range files {
		fset, file, err := parseFile(filepath.Join(dir, fn))
		if err != nil {
			return err
		}
		if fn == "client.go" {
			mainFset = fset
		}
		for _, d := range file.Decls {
			switch d := d.(type) {
			case *ast.GenDecl:
				if d.Tok == token.CONST {
					for _, s := range d.Specs {
						vs := s.(*ast.ValueSpec)
						for i, n := range vs.Names {
							if i < len(vs.Values) {
								consts[n.Name] = vs.Values[i]
							}
						}
					}
				}
			case *ast.FuncDecl:
				if d.Body == nil {
					continue
				}
				name := funcName(d)
				if _, dup := funcs[name]; dup {
					return fmt.Errorf("two functions named %s in client/ (the site table keys on the name)", name)
				}
				funcs[name] = d
				fsets[name] = fset
				ss, err := collectSites(fset, fn, d)
				if err != nil {
					return err
				}
				sites = append(sites, ss...)
			}
		}
	}
	if mainFset == nil {
		return fmt.Errorf("client/client.go not found")
	}
	need := func(name string) (*ast.FuncDecl, *token.FileSet, error) {
		fd, ok := funcs[name]
		if !ok {
			return nil, nil, fmt.Errorf("function %s not found in client/", name)
		}
		return fd, fsets[name], nil
	}

	var b strings.Builder
	b.WriteString("/- GENERATED by /verif/gen (target client) from client/*.go (non-test files). Do not edit. -/\n")
	b.WriteString("namespace Nexus.Gen.Client\n\n")

	// ---- receive switch -----------------------------------------------------------
	fd, fset, err := need("runReceiveFromRouter")
	if err != nil {
		return err
	}
	var ts *ast.TypeSwitchStmt
	ast.Inspect(fd.Body, func(n ast.Node) bool {
		if s, ok := n.(*ast.TypeSwitchStmt); ok && ts == nil {
			ts = s
			return false
		}
		return true
	})
	if ts == nil {
		return fmt.Errorf("runReceiveFromRouter: no type switch")
	}
	b.WriteString("/-- One case of the type switch in `runReceiveFromRouter`. `kind`: \"signal\" (calls\n")
	b.WriteString("    `runSignalReply(msg, msg.<arg>)`), \"handler\" (calls `c.<arg>(msg)`), \"exit\" (returns true;\n")
	b.WriteString("    `arg = \"goodbye\"` when it stores `c.routerGoodbye`). -/\n")
	b.WriteString("structure RecvCase where\n  msgType : String\n  kind : String\n  arg : String\n  deriving Repr, DecidableEq, Inhabited\n\n")
	var cases []string
	defaultExits := false
	sawDefault := false
	for _, cl := range ts.Body.List {
		cc := cl.(*ast.CaseClause)
		kind, arg, err := classifyRecvCase(fset, cc)
		if err != nil {
			return fmt.Errorf("runReceiveFromRouter: %v", err)
		}
		if cc.List == nil {
			sawDefault = true
			if kind == "exit" {
				defaultExits = true
			} else if kind != "log" {
				return fmt.Errorf("runReceiveFromRouter: default case does more than log (%s)", kind)
			}
			continue
		}
		if kind == "log" {
			return fmt.Errorf("runReceiveFromRouter: a typed case does nothing the extractor recognises")
		}
		for _, t := range cc.List {
			tn := exprText(fset, t)
			tn = strings.TrimPrefix(tn, "*")
			tn = strings.TrimPrefix(tn, "wamp.")
			cases = append(cases, fmt.Sprintf("  { msgType := %s, kind := %s, arg := %s }", leanStr(tn), leanStr(kind), leanStr(arg)))
		}
	}
	if !sawDefault {
		// no default: unknown types fall through to `return false`
	}
	b.WriteString("def recvSwitch : List RecvCase := [\n" + strings.Join(cases, ",\n") + "]\n\n")
	fmt.Fprintf(&b, "/-- Whether the `default:` case of the switch ends the loop. -/\ndef recvDefaultExits : Bool := %s\n\n", leanBool(defaultExits))

	// ---- site table -----------------------------------------------------------------
	sort.Slice(sites, func(i, j int) bool {
		if sites[i].fn != sites[j].fn {
			return sites[i].fn < sites[j].fn
		}
		if sites[i].line != sites[j].line {
			return sites[i].line < sites[j].line
		}
		if sites[i].kind != sites[j].kind {
			return sites[i].kind < sites[j].kind
		}
		return sites[i].expr < sites[j].expr
	})
	b.WriteString("/-- A place where client code can panic on data it did not make itself: `kind = \"assert\"` is a\n")
	b.WriteString("    bare type assertion `x.(T)` (no comma-ok, not a type switch), `kind = \"index\"` an index\n")
	b.WriteString("    expression on `args`/`….Arguments` or with a literal index. `line` is informative only. -/\n")
	b.WriteString("structure Site where\n  fn : String\n  kind : String\n  expr : String\n  line : Nat\n  deriving Repr, DecidableEq, Inhabited\n\n")
	var ss []string
	for _, s := range sites {
		ss = append(ss, fmt.Sprintf("  { fn := %s, kind := %s, expr := %s, line := %d }", leanStr(s.fn), leanStr(s.kind), leanStr(s.expr), s.line))
	}
	b.WriteString("def sites : List Site := [\n" + strings.Join(ss, ",\n") + "]\n\n")

	// the nil check of the decoded / passed payload pointer in unpackPPTPayload: the statement
	// just before the final return is `if payloadTyped == nil { return … }`
	nilChecked := false
	if up, ok := funcs["unpackPPTPayload"]; ok {
		ufs := fsets["unpackPPTPayload"]
		l := up.Body.List
		if n := len(l); n >= 2 {
			if is, ok := l[n-2].(*ast.IfStmt); ok && exprText(ufs, is.Cond) == "payloadTyped == nil" && endsWithReturn(is.Body) {
				nilChecked = true
			}
		}
	}
	fmt.Fprintf(&b, "/-- `unpackPPTPayload` checks `payloadTyped == nil` before dereferencing it. -/\ndef pptNilChecked : Bool := %s\n\n", leanBool(nilChecked))

	// ---- reply rendezvous -----------------------------------------------------------
	fd, fset, err = need("expectReply")
	if err != nil {
		return err
	}
	// expectReply builds `&replyWaiter{ch: make(chan wamp.Message[, n]), gone: make(chan struct{})}`
	// (or, in the old shape, a bare `make(chan wamp.Message[, n])`).
	capN, found, hasGone := -1, 0, false
	ast.Inspect(fd.Body, func(n ast.Node) bool {
		switch e := n.(type) {
		case *ast.KeyValueExpr:
			k := exprText(fset, e.Key)
			if c, ok := makeChanCap(e.Value); ok {
				switch k {
				case "ch":
					capN = c
					found++
				case "gone":
					hasGone = c == 0
				}
			}
			return false
		case *ast.CallExpr:
			if c, ok := makeChanCap(e); ok {
				capN = c
				found++
			}
		}
		return true
	})
	if found != 1 {
		return fmt.Errorf("expectReply: expected exactly one reply channel make(chan …) with a literal capacity, found %d", found)
	}
	fmt.Fprintf(&b, "/-- Capacity of the reply channel made in `expectReply`. -/\ndef replyChanCap : Nat := %d\n", capN)
	fmt.Fprintf(&b, "/-- `expectReply` also makes the waiter's `gone` channel (unbuffered, only ever closed). -/\ndef replyWaiterHasGone : Bool := %s\n\n", leanBool(hasGone))

	// doneWaiting: delete(c.awaitingReply, id) under the lock, then close(w.gone)
	dwDeletes, dwCloses, dwOrder := 0, 0, false
	if dw, ok := funcs["doneWaiting"]; ok {
		dfs := fsets["doneWaiting"]
		delPos, closePos := token.NoPos, token.NoPos
		ast.Inspect(dw.Body, func(n ast.Node) bool {
			if ce, ok := n.(*ast.CallExpr); ok {
				if id, ok := ce.Fun.(*ast.Ident); ok {
					if id.Name == "delete" && len(ce.Args) == 2 && exprText(dfs, ce.Args[0]) == "c.awaitingReply" {
						dwDeletes++
						delPos = ce.Pos()
					}
					if id.Name == "close" && len(ce.Args) == 1 && exprText(dfs, ce.Args[0]) == "w.gone" {
						dwCloses++
						closePos = ce.Pos()
					}
				}
			}
			return true
		})
		dwOrder = delPos != token.NoPos && closePos != token.NoPos && delPos < closePos
	}
	fmt.Fprintf(&b, "/-- `doneWaiting`: number of `delete(c.awaitingReply, …)`, of `close(w.gone)`, and whether the\n    delete comes first. (All 0/false when the function does not exist.) -/\ndef doneWaitingDeletes : Nat := %d\ndef doneWaitingClosesGone : Nat := %d\ndef doneWaitingDeleteFirst : Bool := %s\n\n",
		dwDeletes, dwCloses, leanBool(dwOrder))

	fd, fset, err = need("runSignalReply")
	if err != nil {
		return err
	}
	sels := allSelects(fd.Body)
	var sendInSelect bool
	var sigCases []string
	nSends := 0
	ast.Inspect(fd.Body, func(n ast.Node) bool {
		if _, ok := n.(*ast.SendStmt); ok {
			nSends++
		}
		return true
	})
	if nSends != 1 {
		return fmt.Errorf("runSignalReply: expected exactly one channel send, found %d", nSends)
	}
	if len(sels) == 1 {
		sigCases, err = selectCases(fset, sels[0])
		if err != nil {
			return fmt.Errorf("runSignalReply: %v", err)
		}
		for _, c := range sigCases {
			if strings.HasPrefix(c, "send ") {
				sendInSelect = true
			}
		}
	} else if len(sels) > 1 {
		return fmt.Errorf("runSignalReply: more than one select")
	}
	// An escape is a way out of the select other than the send itself and other
	// than the client's own Done channel (which only closes when run() exits).
	escape := false
	for _, c := range sigCases {
		switch {
		case strings.HasPrefix(c, "send "):
		case c == "recv c.Done()" || c == "recv c.ctx.Done()":
		default:
			escape = true
		}
	}
	fmt.Fprintf(&b, "/-- The comm clauses of the select around the send in `runSignalReply` ([] = bare send). -/\ndef signalSelect : List String := %s\n", leanStrList(sigCases))
	fmt.Fprintf(&b, "def signalSendInSelect : Bool := %s\n", leanBool(sendInSelect))
	fmt.Fprintf(&b, "/-- The select has a `default`, a timer or any channel other than `c.Done()` next to the send:\n    the receive loop can abandon a reply nobody takes. -/\ndef signalHasEscape : Bool := %s\n\n", leanBool(escape))

	// waitForReply / waitForReplyWithCancel
	for _, wf := range []string{"waitForReply", "waitForReplyWithCancel"} {
		fd, fset, err = need(wf)
		if err != nil {
			return err
		}
		sels := allSelects(fd.Body)
		var all []string
		for _, s := range sels {
			cs, err := selectCases(fset, s)
			if err != nil {
				return fmt.Errorf("%s: %v", wf, err)
			}
			all = append(all, strings.Join(cs, " | "))
		}
		fmt.Fprintf(&b, "/-- The selects of `%s`, in source order, clauses joined by \" | \". -/\ndef %sSelects : List String := %s\n", wf, wf, leanStrList(all))
		dels := 0
		ast.Inspect(fd.Body, func(n ast.Node) bool {
			if ce, ok := n.(*ast.CallExpr); ok {
				if id, ok := ce.Fun.(*ast.Ident); ok && id.Name == "delete" && len(ce.Args) == 2 &&
					exprText(fset, ce.Args[0]) == "c.awaitingReply" {
					dels++
				}
			}
			return true
		})
		fmt.Fprintf(&b, "/-- Number of `delete(c.awaitingReply, …)` statements in `%s`. -/\ndef %sDeletes : Nat := %d\n", wf, wf, dels)
		// calls of c.doneWaiting(id, w) that are top-level statements of the function body (every
		// path through the select reaches them; the early returns above are on closed channels)
		dwCalls := 0
		for _, st := range fd.Body.List {
			if es, ok := st.(*ast.ExprStmt); ok && exprText(fset, es.X) == "c.doneWaiting(id, w)" {
				dwCalls++
			}
		}
		fmt.Fprintf(&b, "/-- Top-level `c.doneWaiting(id, w)` statements in `%s`. -/\ndef %sDoneWaitingCalls : Nat := %d\n\n", wf, wf, dwCalls)
	}
	// CANCEL mode expression
	fd, fset, _ = need("waitForReplyWithCancel")
	var cancelModes []string
	ast.Inspect(fd.Body, func(n ast.Node) bool {
		cl, ok := n.(*ast.CompositeLit)
		if !ok || exprText(fset, cl.Type) != "wamp.Cancel" {
			return true
		}
		for _, el := range cl.Elts {
			kv, ok := el.(*ast.KeyValueExpr)
			if !ok || exprText(fset, kv.Key) != "Options" {
				continue
			}
			ce, ok := kv.Value.(*ast.CallExpr)
			if ok && exprText(fset, ce.Fun) == "wamp.SetOption" && len(ce.Args) == 3 && exprText(fset, ce.Args[1]) == "wamp.OptMode" {
				cancelModes = append(cancelModes, exprText(fset, ce.Args[2]))
			} else {
				cancelModes = append(cancelModes, "?"+exprText(fset, kv.Value))
			}
		}
		return true
	})
	fmt.Fprintf(&b, "/-- The mode expression of every CANCEL built in `waitForReplyWithCancel`. -/\ndef cancelModeExprs : List String := %s\n\n", leanStrList(cancelModes))

	// ---- Call / CallProgressive: the API goroutine's skeleton, the sender goroutine -----
	// skeleton = the calls, sends, closes and go statements of the function body outside
	// function literals, in source order (only those the model speaks about)
	skeleton := func(name string) ([]string, *ast.FuncDecl, *token.FileSet, error) {
		fd, fset, err := need(name)
		if err != nil {
			return nil, nil, nil, err
		}
		var out []string
		var walk func(n ast.Node)
		walk = func(n ast.Node) {
			ast.Inspect(n, func(n ast.Node) bool {
				switch x := n.(type) {
				case *ast.FuncLit:
					return false
				case *ast.GoStmt:
					out = append(out, "go")
					return false
				case *ast.SelectStmt:
					// a receive that is one alternative of a select is not a wait for that channel:
					// its label says so ("select-recv"); the clause bodies are walked as usual
					for _, cl := range x.Body.List {
						cc := cl.(*ast.CommClause)
						switch comm := cc.Comm.(type) {
						case nil:
							out = append(out, "select-default")
						case *ast.SendStmt:
							out = append(out, "send "+exprText(fset, comm.Chan))
						case *ast.ExprStmt:
							if u, ok := comm.X.(*ast.UnaryExpr); ok && u.Op == token.ARROW {
								out = append(out, "select-recv "+exprText(fset, u.X))
							}
						case *ast.AssignStmt:
							if len(comm.Rhs) == 1 {
								if u, ok := comm.Rhs[0].(*ast.UnaryExpr); ok && u.Op == token.ARROW {
									out = append(out, "select-recv "+exprText(fset, u.X))
								}
							}
						}
						for _, st := range cc.Body {
							walk(st)
						}
					}
					return false
				case *ast.SendStmt:
					out = append(out, "send "+exprText(fset, x.Chan))
				case *ast.CallExpr:
					switch t := exprText(fset, x.Fun); t {
					case "c.Connected", "c.sess.IDGen.Next", "c.expectReply", "c.prepareCallPayloadMessage",
						"c.waitForReplyWithCancel", "c.prepareCallResultMessage", "c.abortSession", "sendProg":
						out = append(out, t)
					case "close":
						out = append(out, "close "+exprText(fset, x.Args[0]))
					}
				case *ast.UnaryExpr:
					if x.Op == token.ARROW {
						out = append(out, "recv "+exprText(fset, x.X))
					}
				}
				return true
			})
		}
		walk(fd.Body)
		return out, fd, fset, nil
	}
	callSk, _, _, err := skeleton("Call")
	if err != nil {
		return err
	}
	cpSk, cpFd, cpFset, err := skeleton("CallProgressive")
	if err != nil {
		return err
	}
	fmt.Fprintf(&b, "/-- `Call`: the calls, channel operations and go statements of the API goroutine, in source order. -/\ndef callSkeleton : List String := %s\n", leanStrList(callSk))
	fmt.Fprintf(&b, "/-- `CallProgressive`, likewise. -/\ndef callProgressiveSkeleton : List String := %s\n", leanStrList(cpSk))
	// the sender goroutine: the go statement whose function literal calls sendProg
	var sender *ast.FuncLit
	ast.Inspect(cpFd.Body, func(n ast.Node) bool {
		gs, ok := n.(*ast.GoStmt)
		if !ok {
			return true
		}
		fl, ok := gs.Call.Fun.(*ast.FuncLit)
		if !ok {
			return true
		}
		calls := false
		ast.Inspect(fl.Body, func(n ast.Node) bool {
			if ce, ok := n.(*ast.CallExpr); ok && exprText(cpFset, ce.Fun) == "sendProg" {
				calls = true
			}
			return true
		})
		if calls {
			sender = fl
		}
		return true
	})
	if sender == nil {
		return fmt.Errorf("CallProgressive: sender goroutine (go func calling sendProg) not found")
	}
	var sndModes, sndOps []string
	sndSelects := len(allSelects(sender.Body))
	ast.Inspect(sender.Body, func(n ast.Node) bool {
		switch x := n.(type) {
		case *ast.SendStmt:
			what := "?"
			if u, ok := x.Value.(*ast.UnaryExpr); ok {
				if cl, ok := u.X.(*ast.CompositeLit); ok {
					what = exprText(cpFset, cl.Type)
				}
			} else if id, ok := x.Value.(*ast.Ident); ok {
				what = id.Name
			}
			sndOps = append(sndOps, "send "+exprText(cpFset, x.Chan)+" "+what)
		case *ast.ReturnStmt:
			sndOps = append(sndOps, "return")
		case *ast.CallExpr:
			if t := exprText(cpFset, x.Fun); t == "sendProg" || t == "c.prepareCallPayloadMessage" {
				sndOps = append(sndOps, t)
			}
		case *ast.CompositeLit:
			if exprText(cpFset, x.Type) != "wamp.Cancel" {
				return true
			}
			for _, el := range x.Elts {
				kv, ok := el.(*ast.KeyValueExpr)
				if !ok || exprText(cpFset, kv.Key) != "Options" {
					continue
				}
				ce, ok := kv.Value.(*ast.CallExpr)
				if ok && exprText(cpFset, ce.Fun) == "wamp.SetOption" && len(ce.Args) == 3 && exprText(cpFset, ce.Args[1]) == "wamp.OptMode" {
					sndModes = append(sndModes, exprText(cpFset, ce.Args[2]))
				} else {
					sndModes = append(sndModes, "?"+exprText(cpFset, kv.Value))
				}
			}
		}
		return true
	})
	loopCond := "?"
	for _, st := range sender.Body.List {
		if fs, ok := st.(*ast.ForStmt); ok && fs.Cond != nil {
			loopCond = exprText(cpFset, fs.Cond)
		}
	}
	fmt.Fprintf(&b, "/-- The sender goroutine of `CallProgressive` (the go statement calling `sendProg`): its calls, sends\n    and returns in source order; its loop condition; the number of selects in it (0: its sends are bare,\n    it watches neither the call's return nor Done); the mode expression of every CANCEL it builds. -/\n")
	fmt.Fprintf(&b, "def progSenderOps : List String := %s\n", leanStrList(sndOps))
	fmt.Fprintf(&b, "def progSenderLoopCond : String := %s\n", leanStr(loopCond))
	fmt.Fprintf(&b, "def progSenderSelects : Nat := %d\n", sndSelects)
	fmt.Fprintf(&b, "def progSenderCancelModes : List String := %s\n", leanStrList(sndModes))
	// how the sender reads `progress` from the options sendProg returned
	okAsserts, allAsserts := 0, 0
	ast.Inspect(sender.Body, func(n ast.Node) bool {
		switch x := n.(type) {
		case *ast.AssignStmt:
			if len(x.Lhs) == 2 && len(x.Rhs) == 1 {
				if ta, ok := x.Rhs[0].(*ast.TypeAssertExpr); ok && exprText(cpFset, ta.X) == "cliOptions[wamp.OptProgress]" {
					okAsserts++
				}
			}
		case *ast.TypeAssertExpr:
			if exprText(cpFset, x.X) == "cliOptions[wamp.OptProgress]" {
				allAsserts++
			}
		}
		return true
	})
	progAssert := "none"
	switch {
	case allAsserts > 0 && okAsserts == allAsserts:
		progAssert = "comma-ok"
	case allAsserts > 0:
		progAssert = "bare"
	}
	fmt.Fprintf(&b, "/-- How the sender reads `cliOptions[wamp.OptProgress]`: comma-ok (unset = last chunk) or bare (unset panics). -/\ndef progSenderProgressAssert : String := %s\n", leanStr(progAssert))
	kmVal, err := wampStringConst(repo, "CancelModeKillNoWait")
	if err != nil {
		return err
	}
	fmt.Fprintf(&b, "/-- `wamp.CancelModeKillNoWait`. -/\ndef cancelModeKillNoWait : String := %s\n\n", leanStr(kmVal))

	// ---- SendProgress ------------------------------------------------------------------
	spFd, spFset, err := need("SendProgress")
	if err != nil {
		return err
	}
	var spSel []string
	if ss := allSelects(spFd.Body); len(ss) > 0 {
		// the outermost select holding the send
		for _, sel := range ss {
			cs, err := selectCases(spFset, sel)
			if err != nil {
				return fmt.Errorf("SendProgress: %v", err)
			}
			for _, c := range cs {
				if strings.HasPrefix(c, "send ") {
					spSel = cs
				}
			}
		}
	}
	spGate := false
	ast.Inspect(spFd.Body, func(n ast.Node) bool {
		if ix, ok := n.(*ast.IndexExpr); ok && exprText(spFset, ix.X) == "c.progGate" {
			spGate = true
		}
		return true
	})
	spProg := false
	ast.Inspect(spFd.Body, func(n ast.Node) bool {
		if kv, ok := n.(*ast.KeyValueExpr); ok && exprText(spFset, kv.Key) == "wamp.OptProgress" && exprText(spFset, kv.Value) == "true" {
			spProg = true
		}
		return true
	})
	fmt.Fprintf(&b, "/-- `SendProgress`: the select holding its send; whether it looks the request up in `c.progGate`;\n    whether the YIELD it builds carries `progress: true`. -/\n")
	fmt.Fprintf(&b, "def sendProgressSelect : List String := %s\n", leanStrList(spSel))
	fmt.Fprintf(&b, "def sendProgressGateChecked : Bool := %s\n", leanBool(spGate))
	fmt.Fprintf(&b, "def sendProgressMarksProgress : Bool := %s\n\n", leanBool(spProg))

	// ---- invocation path ---------------------------------------------------------------
	fd, fset, err = need("runHandleInvocation")
	if err != nil {
		return err
	}
	qcap, rcap := -1, -1
	gate := false
	ast.Inspect(fd.Body, func(n ast.Node) bool {
		switch s := n.(type) {
		case *ast.AssignStmt:
			if len(s.Lhs) == 1 && len(s.Rhs) == 1 {
				if c, ok := makeChanCap(s.Rhs[0]); ok {
					switch exprText(fset, s.Lhs[0]) {
					case "handlerQueue":
						qcap = c
					case "resChan":
						rcap = c
					}
				}
			}
		case *ast.IfStmt:
			// if !queueExists { if !c.sess.UpdateLastRecvIDLocked(reqID) { …; return } … }
			if exprText(fset, s.Cond) == "!queueExists" && len(s.Body.List) > 0 {
				if inner, ok := s.Body.List[0].(*ast.IfStmt); ok &&
					exprText(fset, inner.Cond) == "!c.sess.UpdateLastRecvIDLocked(reqID)" && endsWithReturn(inner.Body) {
					gate = true
				}
			}
		}
		return true
	})
	if qcap < 0 || rcap < 0 {
		return fmt.Errorf("runHandleInvocation: handlerQueue/resChan make(chan …) not found")
	}
	// the send into the worker's queue: bare, or inside a select (top level of the function)
	var enqueue []string
	enqSends := 0
	for _, st := range fd.Body.List {
		switch x := st.(type) {
		case *ast.SendStmt:
			if exprText(fset, x.Chan) == "handlerQueue" {
				enqSends++
				enqueue = nil
			}
		case *ast.SelectStmt:
			cs, err := selectCases(fset, x)
			if err != nil {
				return fmt.Errorf("runHandleInvocation: %v", err)
			}
			for _, c := range cs {
				if c == "send handlerQueue" {
					enqSends++
					enqueue = cs
				}
			}
		}
	}
	if enqSends != 1 {
		return fmt.Errorf("runHandleInvocation: expected exactly one top-level send into handlerQueue, found %d", enqSends)
	}
	fmt.Fprintf(&b, "/-- The comm clauses of the select around `handlerQueue <- msg` ([] = bare send). -/\ndef enqueueSelect : List String := %s\n", leanStrList(enqueue))
	// invHandlersFinal: gate in the else branch of `if !queueExists`, set for non-progressive messages,
	// cleared in cleanupInvHandlersQueue
	finalGate, finalSet, finalCleared := false, false, false
	ast.Inspect(fd.Body, func(n ast.Node) bool {
		is, ok := n.(*ast.IfStmt)
		if !ok {
			return true
		}
		if exprText(fset, is.Cond) == "!queueExists" {
			if eb, ok := is.Else.(*ast.BlockStmt); ok && len(eb.List) > 0 {
				if g, ok := eb.List[0].(*ast.IfStmt); ok && g.Init != nil &&
					exprText(fset, g.Init) == "_, final := c.invHandlersFinal[cliInvocation]" &&
					exprText(fset, g.Cond) == "final" && endsWithReturn(g.Body) {
					finalGate = true
				}
			}
		}
		if is.Init != nil && exprText(fset, is.Init) == "inProgress, _ := msg.Details[wamp.OptProgress].(bool)" &&
			exprText(fset, is.Cond) == "!inProgress" && len(is.Body.List) == 1 &&
			exprText(fset, is.Body.List[0]) == "c.invHandlersFinal[cliInvocation] = struct{}{}" {
			finalSet = true
		}
		return true
	})
	if cl, ok := funcs["cleanupInvHandlersQueue"]; ok {
		cfs := fsets["cleanupInvHandlersQueue"]
		ast.Inspect(cl.Body, func(n ast.Node) bool {
			if ce, ok := n.(*ast.CallExpr); ok && exprText(cfs, ce) == "delete(c.invHandlersFinal, cliInvocation)" {
				finalCleared = true
			}
			return true
		})
	}
	fmt.Fprintf(&b, "/-- `invHandlersFinal`: a further INVOCATION for a live queue whose final message was already\n    received is dropped; the mark is set for every non-progressive message and cleared by cleanup. -/\ndef invFinalGate : Bool := %s\ndef invFinalSet : Bool := %s\ndef invFinalCleared : Bool := %s\n",
		leanBool(finalGate), leanBool(finalSet), leanBool(finalCleared))
	fmt.Fprintf(&b, "/-- Capacity of the per-invocation `handlerQueue` and of `resChan`. -/\ndef invQueueCap : Nat := %d\ndef resChanCap : Nat := %d\n", qcap, rcap)
	fmt.Fprintf(&b, "/-- A worker is only created after `UpdateLastRecvIDLocked(reqID)` accepted the id\n    (first statement of the `!queueExists` branch returns otherwise). -/\ndef invGateChecked : Bool := %s\n\n", leanBool(gate))

	// ---- aborting the session; who closes the peer ---------------------------------------
	var abortSel []string
	abortEndsRecv := false
	if ab, ok := funcs["abortSession"]; ok {
		afs := fsets["abortSession"]
		if len(ab.Body.List) == 2 {
			if sel, ok := ab.Body.List[0].(*ast.SelectStmt); ok {
				cs, err := selectCases(afs, sel)
				if err != nil {
					return fmt.Errorf("abortSession: %v", err)
				}
				abortSel = cs
			}
			abortEndsRecv = exprText(afs, ab.Body.List[1]) == "c.sess.EndRecv(nil)"
		}
	}
	fmt.Fprintf(&b, "/-- `abortSession`: the select around the ABORT send, then `c.sess.EndRecv(nil)` ([] / false when the\n    function does not exist or has another shape). -/\ndef abortSessionSelect : List String := %s\ndef abortSessionEndsRecv : Bool := %s\n",
		leanStrList(abortSel), leanBool(abortEndsRecv))
	var closers, aborters []string
	for name, f := range funcs {
		ffs := fsets[name]
		nClose, nAbort := 0, 0
		ast.Inspect(f.Body, func(n ast.Node) bool {
			if ce, ok := n.(*ast.CallExpr); ok {
				switch exprText(ffs, ce.Fun) {
				case "c.sess.Close":
					nClose++
				case "c.abortSession":
					nAbort++
				}
			}
			return true
		})
		for i := 0; i < nClose; i++ {
			closers = append(closers, name)
		}
		for i := 0; i < nAbort; i++ {
			aborters = append(aborters, name)
		}
	}
	sort.Strings(closers)
	sort.Strings(aborters)
	fmt.Fprintf(&b, "/-- Functions calling `c.sess.Close()` / `c.abortSession(…)`, once per call site. -/\ndef sessCloseCallers : List String := %s\ndef abortSessionCallers : List String := %s\n\n",
		leanStrList(closers), leanStrList(aborters))

	// ---- constants ----------------------------------------------------------------------
	ms, err := durationMs(consts["defaultResponseTimeout"])
	if err != nil {
		return fmt.Errorf("defaultResponseTimeout: %v", err)
	}
	fmt.Fprintf(&b, "def defaultResponseTimeoutMs : Nat := %d\n", ms)
	for _, cn := range []string{"WampPPTScheme", "MqttPPTScheme"} {
		v, ok := stringLit(consts[cn])
		if !ok {
			return fmt.Errorf("const %s: not a string literal", cn)
		}
		fmt.Fprintf(&b, "def %s : String := %s\n", cn, leanStr(v))
	}
	// custom scheme prefix in isPPTSchemeValid
	fd, fset, err = need("isPPTSchemeValid")
	if err != nil {
		return err
	}
	want := "return pptScheme == WampPPTScheme || pptScheme == MqttPPTScheme || strings.HasPrefix(pptScheme, \"x_\")"
	if len(fd.Body.List) != 1 || exprText(fset, fd.Body.List[0]) != want {
		return fmt.Errorf("isPPTSchemeValid: body is not the expected single return (got %q)", exprText(fset, fd.Body))
	}
	b.WriteString("def customSchemePrefix : String := \"x_\"\n")
	// serializer tables
	for _, vn := range []string{"E2eeSerializers", "PPTSerializers"} {
		keys, err := mapKeys(filepath.Join(dir, "client.go"), vn)
		if err != nil {
			return err
		}
		fmt.Fprintf(&b, "def %s : List String := %s\n", vn, leanStrList(keys))
	}
	// default cancel mode in NewClient and the Close wait factor
	fd, fset, err = need("NewClient")
	if err != nil {
		return err
	}
	dcm := ""
	ast.Inspect(fd.Body, func(n ast.Node) bool {
		if kv, ok := n.(*ast.KeyValueExpr); ok && exprText(fset, kv.Key) == "cancelMode" {
			dcm = exprText(fset, kv.Value)
		}
		return true
	})
	if dcm == "" {
		return fmt.Errorf("NewClient: cancelMode initialiser not found")
	}
	dcmVal := dcm
	if strings.HasPrefix(dcm, "wamp.") {
		v, err := wampStringConst(repo, strings.TrimPrefix(dcm, "wamp."))
		if err != nil {
			return err
		}
		dcmVal = v
	}
	fmt.Fprintf(&b, "/-- `cancelMode: %s` in NewClient. -/\ndef defaultCancelMode : String := %s\n", dcm, leanStr(dcmVal))
	fd, fset, err = need("Close")
	if err != nil {
		return err
	}
	factor := -1
	ast.Inspect(fd.Body, func(n ast.Node) bool {
		if ce, ok := n.(*ast.CallExpr); ok && exprText(fset, ce.Fun) == "context.WithTimeout" && len(ce.Args) == 2 {
			if be, ok := ce.Args[1].(*ast.BinaryExpr); ok && be.Op == token.MUL && exprText(fset, be.Y) == "c.responseTimeout" {
				if bl, ok := be.X.(*ast.BasicLit); ok {
					factor, _ = strconv.Atoi(bl.Value)
				}
			}
		}
		return true
	})
	if factor < 0 {
		return fmt.Errorf("Close: context.WithTimeout(…, n*c.responseTimeout) not found")
	}
	fmt.Fprintf(&b, "/-- `Close` waits `closeWaitFactor * responseTimeout` for the router's GOODBYE. -/\ndef closeWaitFactor : Nat := %d\n\n", factor)

	// ---- hashes ---------------------------------------------------------------------------
	modelled := []string{"isPPTSchemeValid", "unpackPPTPayload", "unpackE2EEPayload", "NewClient", "Subscribe", "Unsubscribe",
		"Publish", "Register", "Unregister", "Call", "CallProgressive", "Close", "SendProgress", "expectReply", "waitForReply",
		"waitForReplyWithCancel", "run", "runReceiveFromRouter", "runHandleEvent", "cleanupInvHandlersQueue",
		"runHandleInvocation", "runHandleInterrupt", "runSignalReply", "prepareCallResultMessage"}
	for _, extra := range []string{"doneWaiting", "abortSession"} {
		if _, ok := funcs[extra]; ok {
			modelled = append(modelled, extra)
		}
	}
	var hs []string
	for _, name := range modelled {
		fd, fset, err := need(name)
		if err != nil {
			return err
		}
		var src bytes.Buffer
		if err := format.Node(&src, fset, fd); err != nil {
			return err
		}
		hs = append(hs, fmt.Sprintf("  (%s, %s)", leanStr(name), leanStr(fmt.Sprintf("%x", sha256.Sum256(src.Bytes())))))
	}
	b.WriteString("/-- sha256 of the gofmt-normalised source of each modelled function. -/\n")
	b.WriteString("def funcHashes : List (String × String) := [\n" + strings.Join(hs, ",\n") + "]\n\n")
	b.WriteString("end Nexus.Gen.Client\n")
	return writeIfChanged(filepath.Join(out, "Client.lean"), []byte(b.String()))
}

func endsWithReturn(b *ast.BlockStmt) bool {
	if len(b.List) == 0 {
		return false
	}
	_, ok := b.List[len(b.List)-1].(*ast.ReturnStmt)
	return ok
}

// classifyRecvCase recognises the three shapes of a case body.
func classifyRecvCase(fset *token.FileSet, cc *ast.CaseClause) (kind, arg string, err error) {
	kind = "log"
	for _, st := range cc.Body {
		switch s := st.(type) {
		case *ast.ExprStmt:
			ce, ok := s.X.(*ast.CallExpr)
			if !ok {
				return "", "", fmt.Errorf("unsupported statement %q", exprText(fset, st))
			}
			fun := exprText(fset, ce.Fun)
			switch {
			case fun == "c.runSignalReply":
				if len(ce.Args) != 2 || exprText(fset, ce.Args[0]) != "msg" {
					return "", "", fmt.Errorf("unsupported runSignalReply call %q", exprText(fset, st))
				}
				f, e := msgField(fset, ce.Args[1])
				if e != nil {
					return "", "", e
				}
				if kind != "log" {
					return "", "", fmt.Errorf("case does two things")
				}
				kind, arg = "signal", f
			case strings.HasPrefix(fun, "c.run") && len(ce.Args) == 1 && exprText(fset, ce.Args[0]) == "msg":
				if kind != "log" {
					return "", "", fmt.Errorf("case does two things")
				}
				kind, arg = "handler", strings.TrimPrefix(fun, "c.")
			case strings.HasPrefix(fun, "c.log."):
				// logging only
			default:
				return "", "", fmt.Errorf("unsupported call %q", exprText(fset, st))
			}
		case *ast.AssignStmt:
			if len(s.Lhs) == 1 && exprText(fset, s.Lhs[0]) == "c.routerGoodbye" {
				arg = "goodbye"
				continue
			}
			return "", "", fmt.Errorf("unsupported assignment %q", exprText(fset, st))
		case *ast.ReturnStmt:
			if len(s.Results) == 1 && exprText(fset, s.Results[0]) == "true" {
				if kind != "log" {
					return "", "", fmt.Errorf("case does two things")
				}
				kind = "exit"
				continue
			}
			if len(s.Results) == 1 && exprText(fset, s.Results[0]) == "false" {
				continue
			}
			return "", "", fmt.Errorf("unsupported return %q", exprText(fset, st))
		default:
			return "", "", fmt.Errorf("unsupported statement %q", exprText(fset, st))
		}
	}
	return kind, arg, nil
}

// msgField accepts `msg.F` and conversions `T(msg.F)`.
func msgField(fset *token.FileSet, e ast.Expr) (string, error) {
	if ce, ok := e.(*ast.CallExpr); ok && len(ce.Args) == 1 {
		e = ce.Args[0]
	}
	if se, ok := e.(*ast.SelectorExpr); ok && exprText(fset, se.X) == "msg" {
		return se.Sel.Name, nil
	}
	return "", fmt.Errorf("request id argument %q is not a field of msg", exprText(fset, e))
}

func durationMs(e ast.Expr) (int, error) {
	be, ok := e.(*ast.BinaryExpr)
	if !ok || be.Op != token.MUL {
		return 0, fmt.Errorf("unsupported duration expression")
	}
	bl, ok := be.X.(*ast.BasicLit)
	if !ok {
		return 0, fmt.Errorf("unsupported duration expression")
	}
	n, err := strconv.Atoi(bl.Value)
	if err != nil {
		return 0, err
	}
	unit := map[string]int{"time.Millisecond": 1, "time.Second": 1000, "time.Minute": 60000}
	var tb bytes.Buffer
	printer.Fprint(&tb, token.NewFileSet(), be.Y)
	u, ok := unit[tb.String()]
	if !ok {
		return 0, fmt.Errorf("unsupported unit %s", tb.String())
	}
	return n * u, nil
}

// mapKeys returns the string keys of the composite literal initialising a package-level map variable.
func mapKeys(path, varName string) ([]string, error) {
	_, file, err := parseFile(path)
	if err != nil {
		return nil, err
	}
	for _, d := range file.Decls {
		gd, ok := d.(*ast.GenDecl)
		if !ok || gd.Tok != token.VAR {
			continue
		}
		for _, s := range gd.Specs {
			vs := s.(*ast.ValueSpec)
			for i, n := range vs.Names {
				if n.Name != varName || i >= len(vs.Values) {
					continue
				}
				cl, ok := vs.Values[i].(*ast.CompositeLit)
				if !ok {
					return nil, fmt.Errorf("%s: not a composite literal", varName)
				}
				var keys []string
				for _, el := range cl.Elts {
					kv, ok := el.(*ast.KeyValueExpr)
					if !ok {
						return nil, fmt.Errorf("%s: element without key", varName)
					}
					k, ok := stringLit(kv.Key)
					if !ok {
						return nil, fmt.Errorf("%s: non-literal key", varName)
					}
					keys = append(keys, k)
				}
				sort.Strings(keys)
				return keys, nil
			}
		}
	}
	return nil, fmt.Errorf("var %s not found", varName)
}

// wampStringConst resolves a string constant of package wamp (options.go).
func wampStringConst(repo, name string) (string, error) {
	for _, f := range []string{"wamp/options.go", "wamp/uris.go", "wamp/roles_reatures.go"} {
		_, file, err := parseFile(filepath.Join(repo, f))
		if err != nil {
			return "", err
		}
		for _, d := range file.Decls {
			gd, ok := d.(*ast.GenDecl)
			if !ok || gd.Tok != token.CONST {
				continue
			}
			for _, s := range gd.Specs {
				vs := s.(*ast.ValueSpec)
				for i, n := range vs.Names {
					if n.Name == name && i < len(vs.Values) {
						if v, ok := stringLit(vs.Values[i]); ok {
							return v, nil
						}
						if ce, ok := vs.Values[i].(*ast.CallExpr); ok && len(ce.Args) == 1 {
							if v, ok := stringLit(ce.Args[0]); ok {
								return v, nil
							}
						}
					}
				}
			}
		}
	}
	return "", fmt.Errorf("wamp constant %s not found", name)
}

// collectSites lists the bare type assertions and the unchecked index
// expressions of one function (function literals included, attributed to the
// enclosing declaration).
func collectSites(fset *token.FileSet, file string, fd *ast.FuncDecl) ([]clientSite, error) {
	var out []clientSite
	name := funcName(fd)
	var stack []ast.Node
	ast.Inspect(fd.Body, func(n ast.Node) bool {
		if n == nil {
			stack = stack[:len(stack)-1]
			return true
		}
		var parent ast.Node
		if len(stack) > 0 {
			parent = stack[len(stack)-1]
		}
		stack = append(stack, n)
		switch e := n.(type) {
		case *ast.TypeAssertExpr:
			if e.Type == nil {
				return true // x.(type) of a type switch
			}
			commaOK := false
			switch p := parent.(type) {
			case *ast.AssignStmt:
				if len(p.Lhs) == 2 && len(p.Rhs) == 1 && p.Rhs[0] == ast.Expr(e) {
					commaOK = true
				}
			case *ast.ValueSpec:
				if len(p.Names) == 2 && len(p.Values) == 1 && p.Values[0] == ast.Expr(e) {
					commaOK = true
				}
			}
			if !commaOK {
				out = append(out, clientSite{fn: name, kind: "assert", expr: exprText(fset, e), line: fset.Position(e.Pos()).Line})
			}
		case *ast.IndexExpr:
			// assignment targets `x[i] = v` on slices made locally are still listed; maps are told
			// apart only by the operand's name: args / *.Arguments are wamp.List (slices).
			base := exprText(fset, e.X)
			_, litIdx := e.Index.(*ast.BasicLit)
			isArgs := base == "args" || strings.HasSuffix(base, ".Arguments") || base == "Arguments"
			if isArgs || (litIdx && e.Index.(*ast.BasicLit).Kind == token.INT) {
				kind := "index"
				// "index-guarded": a literal index 0 into a slice the function has checked to be
				// non-empty with a leading `if len(X) == 0 { …; return … }`
				if litIdx && e.Index.(*ast.BasicLit).Value == "0" && lenGuarded(fset, fd, base) {
					kind = "index-guarded"
				}
				// "index-ranged": the index is the key variable of an enclosing `for i := range X`
				// and the indexed slice is X itself or was made with make(T, len(X)).
				if id, ok := e.Index.(*ast.Ident); ok {
					for i := len(stack) - 1; i >= 0; i-- {
						rs, ok := stack[i].(*ast.RangeStmt)
						if !ok {
							continue
						}
						k, ok := rs.Key.(*ast.Ident)
						if !ok || k.Name != id.Name {
							continue
						}
						rx := exprText(fset, rs.X)
						if base == rx || madeWithLenOf(fset, fd, base, rx) {
							kind = "index-ranged"
						}
						break
					}
				}
				out = append(out, clientSite{fn: name, kind: kind, expr: exprText(fset, e), line: fset.Position(e.Pos()).Line})
			}
		}
		return true
	})
	_ = file
	return out, nil
}

// madeWithLenOf reports whether `name := make(T, len(of))` is the only assignment to name in fd.
func madeWithLenOf(fset *token.FileSet, fd *ast.FuncDecl, name, of string) bool {
	assigns, good := 0, 0
	ast.Inspect(fd.Body, func(n ast.Node) bool {
		as, ok := n.(*ast.AssignStmt)
		if !ok {
			return true
		}
		for i, l := range as.Lhs {
			if exprText(fset, l) != name {
				continue
			}
			assigns++
			if len(as.Rhs) == len(as.Lhs) {
				if ce, ok := as.Rhs[i].(*ast.CallExpr); ok && exprText(fset, ce.Fun) == "make" && len(ce.Args) == 2 &&
					exprText(fset, ce.Args[1]) == "len("+of+")" {
					good++
				}
			}
		}
		return true
	})
	return assigns == 1 && good == 1
}

// lenGuarded: one of the leading statements of fd is `if len(base) == 0 { … return … }`, and
// nothing before it or between it and the use assigns to base (checked: base is never assigned).
func lenGuarded(fset *token.FileSet, fd *ast.FuncDecl, base string) bool {
	assigned := false
	ast.Inspect(fd.Body, func(n ast.Node) bool {
		if as, ok := n.(*ast.AssignStmt); ok {
			for _, l := range as.Lhs {
				if exprText(fset, l) == base {
					assigned = true
				}
			}
		}
		return true
	})
	if assigned {
		return false
	}
	for _, st := range fd.Body.List {
		is, ok := st.(*ast.IfStmt)
		if !ok {
			break // only leading if-statements count
		}
		if exprText(fset, is.Cond) == "len("+base+") == 0" && is.Init == nil && endsWithReturn(is.Body) {
			return true
		}
	}
	return false
}
