package main

import (
	"fmt"
	"go/ast"
	"go/parser"
	"go/token"
	"strconv"
	"strings"
)

// parseFile parses one Go source file of the repo.
func parseFile(path string) (*token.FileSet, *ast.File, error) {
	fset := token.NewFileSet()
	f, err := parser.ParseFile(fset, path, nil, parser.ParseComments)
	return fset, f, err
}

// leanStr renders a Go string as a Lean string literal.
func leanStr(s string) string {
	var b strings.Builder
	b.WriteByte('"')
	for _, r := range s {
		switch {
		case r == '"':
			b.WriteString(`\"`)
		case r == '\\':
			b.WriteString(`\\`)
		case r == '\n':
			b.WriteString(`\n`)
		case r == '\t':
			b.WriteString(`\t`)
		case r < 0x20 || r == 0x7f:
			fmt.Fprintf(&b, `\x%02x`, r)
		default:
			b.WriteRune(r)
		}
	}
	b.WriteByte('"')
	return b.String()
}

// stringLit returns the value of a Go string literal expression.
func stringLit(e ast.Expr) (string, bool) {
	bl, ok := e.(*ast.BasicLit)
	if !ok || bl.Kind != token.STRING {
		return "", false
	}
	s, err := strconv.Unquote(bl.Value)
	if err != nil {
		return "", false
	}
	return s, true
}
