module verif/gen

go 1.23
