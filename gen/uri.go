package main

// Target "uri" (G3): regenerate lean/Nexus/Gen/UriRegex.lean from
// wamp/identifier.go and wamp/options.go:
//
//   - the six regexp.MustCompile raw-string literals, each parsed by the small
//     regex parser below into a term of Nexus.Uri.Regex (bytes);
//   - the string constants MatchPrefix / MatchWildcard;
//   - the if/return chain of URI.ValidURI as a Lean function choosing the regex;
//   - a structural check that PrefixMatch is `strings.HasPrefix(string(u), string(prefix))`;
//   - sha256 hashes of the gofmt-normalised text of ValidURI, PrefixMatch and
//     WildcardMatch (change detection for the hand-written models).
//
// Anything the parser / translator does not know is an error, never a guess.

import (
	"bytes"
	"crypto/sha256"
	"fmt"
	"go/ast"
	"go/format"
	"go/token"
	"path/filepath"
	"sort"
	"strings"
)

func init() { targets["uri"] = genURI }

var uriRegexVars = []string{
	"looseURINonEmpty", "looseURILastEmpty", "looseURIEmpty",
	"strictURINonEmpty", "strictURILastEmpty", "strictURIEmpty",
}

// ---------------------------------------------------------------------------
// regex AST and parser (RE2 subset)

type reNode struct {
	kind string // eps cls seq alt star plus opt
	neg  bool
	rs   [][2]byte
	a, b *reNode
}

type reParser struct {
	src string
	pos int
}

func (p *reParser) errf(format string, a ...any) error {
	return fmt.Errorf("regex %q at offset %d: %s", p.src, p.pos, fmt.Sprintf(format, a...))
}

func (p *reParser) eof() bool  { return p.pos >= len(p.src) }
func (p *reParser) peek() byte { return p.src[p.pos] }

// c19ParseRegex parses an anchored pattern `^…$` and returns the body.
func c19ParseRegex(src string) (*reNode, error) {
	p := &reParser{src: src}
	for i := 0; i < len(src); i++ {
		if src[i] >= 0x80 || src[i] < 0x20 {
			p.pos = i
			return nil, p.errf("non-printable or non-ASCII byte in pattern")
		}
	}
	if p.eof() || p.peek() != '^' {
		return nil, p.errf("pattern must start with ^ (only anchored patterns are modelled)")
	}
	p.pos++
	n, err := p.alt(0)
	if err != nil {
		return nil, err
	}
	if p.eof() || p.peek() != '$' {
		return nil, p.errf("expected $ closing the anchored pattern")
	}
	p.pos++
	if !p.eof() {
		return nil, p.errf("text after the closing $")
	}
	return n, nil
}

func (p *reParser) alt(depth int) (*reNode, error) {
	n, err := p.concat(depth)
	if err != nil {
		return nil, err
	}
	for !p.eof() && p.peek() == '|' {
		p.pos++
		m, err := p.concat(depth)
		if err != nil {
			return nil, err
		}
		n = &reNode{kind: "alt", a: n, b: m}
	}
	return n, nil
}

func (p *reParser) concat(depth int) (*reNode, error) {
	var n *reNode
	for !p.eof() {
		c := p.peek()
		if c == '|' || c == ')' || (c == '$' && depth == 0) {
			break
		}
		m, err := p.repeat(depth)
		if err != nil {
			return nil, err
		}
		if n == nil {
			n = m
		} else {
			n = &reNode{kind: "seq", a: n, b: m}
		}
	}
	if n == nil {
		n = &reNode{kind: "eps"}
	}
	return n, nil
}

func (p *reParser) repeat(depth int) (*reNode, error) {
	n, err := p.atom(depth)
	if err != nil {
		return nil, err
	}
	if p.eof() {
		return n, nil
	}
	var kind string
	switch p.peek() {
	case '*':
		kind = "star"
	case '+':
		kind = "plus"
	case '?':
		kind = "opt"
	case '{':
		return nil, p.errf("counted repetition {…} is not supported")
	default:
		return n, nil
	}
	p.pos++
	if !p.eof() {
		switch p.peek() {
		case '*', '+', '?', '{':
			return nil, p.errf("stacked or non-greedy quantifier is not supported")
		}
	}
	return &reNode{kind: kind, a: n}, nil
}

func (p *reParser) atom(depth int) (*reNode, error) {
	c := p.peek()
	switch c {
	case '(':
		p.pos++
		if !p.eof() && p.peek() == '?' {
			return nil, p.errf("(?…) groups and flags are not supported")
		}
		n, err := p.alt(depth + 1)
		if err != nil {
			return nil, err
		}
		if p.eof() || p.peek() != ')' {
			return nil, p.errf("missing )")
		}
		p.pos++
		return n, nil // capture groups do not change the language
	case '[':
		return p.class()
	case '\\':
		rs, err := p.escape()
		if err != nil {
			return nil, err
		}
		return &reNode{kind: "cls", rs: rs}, nil
	case '.':
		return nil, p.errf("unescaped '.' (any character) is not supported")
	case '^', '$':
		return nil, p.errf("anchor inside the pattern is not supported")
	case '*', '+', '?', '{', '}', ']', ')', '|':
		return nil, p.errf("unexpected %q", c)
	}
	p.pos++
	return &reNode{kind: "cls", rs: [][2]byte{{c, c}}}, nil
}

// escape parses `\x` and returns the byte ranges it denotes.
func (p *reParser) escape() ([][2]byte, error) {
	p.pos++ // backslash
	if p.eof() {
		return nil, p.errf("trailing backslash")
	}
	c := p.peek()
	switch {
	case c == 's':
		// RE2 / Go: \s is the ASCII class [\t\n\f\r ] (no \v).
		p.pos++
		return [][2]byte{{'\t', '\n'}, {'\f', '\r'}, {' ', ' '}}, nil
	case strings.IndexByte(`.\[]()^$-#|*+?{}`, c) >= 0:
		p.pos++
		return [][2]byte{{c, c}}, nil
	}
	return nil, p.errf("escape \\%c is not supported", c)
}

func (p *reParser) class() (*reNode, error) {
	p.pos++ // [
	n := &reNode{kind: "cls"}
	if !p.eof() && p.peek() == '^' {
		n.neg = true
		p.pos++
	}
	first := true
	for {
		if p.eof() {
			return nil, p.errf("missing ]")
		}
		c := p.peek()
		if c == ']' && !first {
			p.pos++
			break
		}
		first = false
		var lo byte
		switch c {
		case '[':
			return nil, p.errf("nested / named classes are not supported")
		case ']', '-', '^':
			return nil, p.errf("unescaped %q inside a class is not supported", c)
		case '\\':
			rs, err := p.escape()
			if err != nil {
				return nil, err
			}
			if len(rs) != 1 {
				n.rs = append(n.rs, rs...)
				continue
			}
			lo = rs[0][0]
		default:
			lo = c
			p.pos++
		}
		hi := lo
		if !p.eof() && p.peek() == '-' {
			p.pos++
			if p.eof() {
				return nil, p.errf("missing ]")
			}
			d := p.peek()
			switch d {
			case ']', '[', '\\', '-', '^':
				return nil, p.errf("range end %q is not supported", d)
			}
			hi = d
			p.pos++
			if hi < lo {
				return nil, p.errf("bad range %c-%c", lo, hi)
			}
		}
		n.rs = append(n.rs, [2]byte{lo, hi})
	}
	if len(n.rs) == 0 {
		return nil, p.errf("empty class")
	}
	return n, nil
}

func (n *reNode) lean() string {
	switch n.kind {
	case "eps":
		return ".eps"
	case "cls":
		var parts []string
		for _, r := range n.rs {
			parts = append(parts, fmt.Sprintf("(0x%02x, 0x%02x)", r[0], r[1]))
		}
		return fmt.Sprintf("(.cls ⟨%v, [%s]⟩)", n.neg, strings.Join(parts, ", "))
	case "seq", "alt":
		return fmt.Sprintf("(.%s %s %s)", n.kind, n.a.lean(), n.b.lean())
	default:
		return fmt.Sprintf("(.%s %s)", n.kind, n.a.lean())
	}
}

// ---------------------------------------------------------------------------
// helpers shared with ids.go

// c19FindFunc finds a function (recv == "") or method declaration.
func c19FindFunc(f *ast.File, recv, name string) *ast.FuncDecl {
	for _, d := range f.Decls {
		fd, ok := d.(*ast.FuncDecl)
		if !ok || fd.Name.Name != name {
			continue
		}
		r := ""
		if fd.Recv != nil && len(fd.Recv.List) == 1 {
			t := fd.Recv.List[0].Type
			if st, ok := t.(*ast.StarExpr); ok {
				t = st.X
			}
			if id, ok := t.(*ast.Ident); ok {
				r = id.Name
			}
		}
		if r == recv {
			return fd
		}
	}
	return nil
}

// c19FuncHash is the sha256 of the gofmt-normalised text of the declaration
// (doc and interior comments are not part of it).
func c19FuncHash(fset *token.FileSet, fd *ast.FuncDecl) (string, error) {
	cp := *fd
	cp.Doc = nil
	var buf bytes.Buffer
	if err := format.Node(&buf, fset, &cp); err != nil {
		return "", err
	}
	return fmt.Sprintf("%x", sha256.Sum256(buf.Bytes())), nil
}

func c19ExprString(fset *token.FileSet, e ast.Node) string {
	var buf bytes.Buffer
	if err := format.Node(&buf, fset, e); err != nil {
		return "<unprintable>"
	}
	return buf.String()
}

// c19StringConsts collects `name = "literal"` constants of a file.
func c19StringConsts(f *ast.File) map[string]string {
	m := map[string]string{}
	for _, d := range f.Decls {
		gd, ok := d.(*ast.GenDecl)
		if !ok || gd.Tok != token.CONST {
			continue
		}
		for _, sp := range gd.Specs {
			vs := sp.(*ast.ValueSpec)
			for i, n := range vs.Names {
				if i < len(vs.Values) {
					if s, ok := stringLit(vs.Values[i]); ok {
						m[n.Name] = s
					}
				}
			}
		}
	}
	return m
}

func c19LeanBytes(s string) string {
	var parts []string
	for i := 0; i < len(s); i++ {
		parts = append(parts, fmt.Sprintf("0x%02x", s[i]))
	}
	return "[" + strings.Join(parts, ", ") + "]"
}

// ---------------------------------------------------------------------------
// ValidURI dispatch

type uriDispatch struct {
	fset      *token.FileSet
	strict    string // name of the bool parameter
	match     string // name of the string parameter
	recv      string
	regexVars map[string]bool
	consts    map[string]string
	used      map[string]bool
}

// stmts translates a return-terminated statement list into a Lean expression.
func (d *uriDispatch) stmts(list []ast.Stmt, indent string) (string, error) {
	if len(list) == 0 {
		return "", fmt.Errorf("ValidURI: a path falls off the end without a return")
	}
	switch s := list[0].(type) {
	case *ast.ReturnStmt:
		if len(list) != 1 {
			return "", fmt.Errorf("ValidURI: statements after return")
		}
		if len(s.Results) != 1 {
			return "", fmt.Errorf("ValidURI: return with %d results", len(s.Results))
		}
		return d.ret(s.Results[0])
	case *ast.IfStmt:
		if s.Init != nil || s.Else != nil {
			return "", fmt.Errorf("ValidURI: if with init or else is not supported: %s", c19ExprString(d.fset, s))
		}
		c, err := d.cond(s.Cond)
		if err != nil {
			return "", err
		}
		th, err := d.stmts(s.Body.List, indent+"  ")
		if err != nil {
			return "", err
		}
		el, err := d.stmts(list[1:], indent)
		if err != nil {
			return "", err
		}
		return fmt.Sprintf("if %s then\n%s  %s\n%selse %s", c, indent, th, indent, el), nil
	}
	return "", fmt.Errorf("ValidURI: unsupported statement: %s", c19ExprString(d.fset, list[0]))
}

func (d *uriDispatch) cond(e ast.Expr) (string, error) {
	switch c := e.(type) {
	case *ast.Ident:
		if c.Name == d.strict {
			return "strict", nil
		}
	case *ast.BinaryExpr:
		l, lok := c.X.(*ast.Ident)
		r, rok := c.Y.(*ast.Ident)
		if c.Op == token.EQL && lok && rok && l.Name == d.match {
			if _, ok := d.consts[r.Name]; ok {
				d.used[r.Name] = true
				return "mtch = " + r.Name, nil
			}
		}
	}
	return "", fmt.Errorf("ValidURI: unsupported condition: %s", c19ExprString(d.fset, e))
}

// ret accepts exactly `<regexVar>.MatchString(string(<recv>))`.
func (d *uriDispatch) ret(e ast.Expr) (string, error) {
	bad := fmt.Errorf("ValidURI: unsupported return expression: %s", c19ExprString(d.fset, e))
	call, ok := e.(*ast.CallExpr)
	if !ok || len(call.Args) != 1 {
		return "", bad
	}
	sel, ok := call.Fun.(*ast.SelectorExpr)
	if !ok || sel.Sel.Name != "MatchString" {
		return "", bad
	}
	v, ok := sel.X.(*ast.Ident)
	if !ok || !d.regexVars[v.Name] {
		return "", bad
	}
	conv, ok := call.Args[0].(*ast.CallExpr)
	if !ok || len(conv.Args) != 1 {
		return "", bad
	}
	if f, ok := conv.Fun.(*ast.Ident); !ok || f.Name != "string" {
		return "", bad
	}
	if a, ok := conv.Args[0].(*ast.Ident); !ok || a.Name != d.recv {
		return "", bad
	}
	return v.Name, nil
}

// ---------------------------------------------------------------------------

func genURI(repo, out string) error {
	fset, f, err := parseFile(filepath.Join(repo, "wamp", "identifier.go"))
	if err != nil {
		return err
	}
	_, fo, err := parseFile(filepath.Join(repo, "wamp", "options.go"))
	if err != nil {
		return err
	}

	// 1. the regex literals
	lits := map[string]string{}
	for _, d := range f.Decls {
		gd, ok := d.(*ast.GenDecl)
		if !ok || gd.Tok != token.VAR {
			continue
		}
		for _, sp := range gd.Specs {
			vs := sp.(*ast.ValueSpec)
			for i, n := range vs.Names {
				if i >= len(vs.Values) {
					continue
				}
				call, ok := vs.Values[i].(*ast.CallExpr)
				if !ok || len(call.Args) != 1 {
					continue
				}
				sel, ok := call.Fun.(*ast.SelectorExpr)
				if !ok || sel.Sel.Name != "MustCompile" {
					continue
				}
				if pk, ok := sel.X.(*ast.Ident); !ok || pk.Name != "regexp" {
					continue
				}
				s, ok := stringLit(call.Args[0])
				if !ok {
					return fmt.Errorf("%s: regexp.MustCompile argument is not a string literal", n.Name)
				}
				lits[n.Name] = s
			}
		}
	}
	var b strings.Builder
	b.WriteString("/-\n  GENERATED by `gen uri` from wamp/identifier.go and wamp/options.go — do not edit.\n")
	b.WriteString("  Regenerated by bin/check on every run; the theorems of Nexus.Props.C19 are stated over\n  these definitions.\n-/\n")
	b.WriteString("import Nexus.Uri.Regex\n\nnamespace Nexus.Gen\nopen Nexus.Uri\n\n")
	regexVars := map[string]bool{}
	for _, name := range uriRegexVars {
		src, ok := lits[name]
		if !ok {
			return fmt.Errorf("regex variable %s not found in wamp/identifier.go", name)
		}
		n, err := c19ParseRegex(src)
		if err != nil {
			return fmt.Errorf("%s: %v", name, err)
		}
		regexVars[name] = true
		fmt.Fprintf(&b, "/-- `%s` -/\ndef %s : Regex :=\n  %s\n\n", src, name, n.lean())
		fmt.Fprintf(&b, "def %s_src : String := %s\n\n", name, leanStr(src))
	}
	if len(lits) != len(uriRegexVars) {
		var extra []string
		for n := range lits {
			if !regexVars[n] {
				extra = append(extra, n)
			}
		}
		return fmt.Errorf("unexpected regexp variables in wamp/identifier.go: %v", extra)
	}

	// 2. the match-mode constants
	consts := c19StringConsts(fo)
	for k, v := range c19StringConsts(f) {
		consts[k] = v
	}

	// 3. ValidURI dispatch
	fd := c19FindFunc(f, "URI", "ValidURI")
	if fd == nil || fd.Body == nil {
		return fmt.Errorf("method URI.ValidURI not found")
	}
	d := &uriDispatch{fset: fset, regexVars: regexVars, consts: consts, used: map[string]bool{}}
	if len(fd.Recv.List[0].Names) != 1 {
		return fmt.Errorf("ValidURI: unnamed receiver")
	}
	d.recv = fd.Recv.List[0].Names[0].Name
	var params [][2]string
	for _, fl := range fd.Type.Params.List {
		t, ok := fl.Type.(*ast.Ident)
		if !ok {
			return fmt.Errorf("ValidURI: unsupported parameter type")
		}
		for _, n := range fl.Names {
			params = append(params, [2]string{n.Name, t.Name})
		}
	}
	if len(params) != 2 || params[0][1] != "bool" || params[1][1] != "string" {
		return fmt.Errorf("ValidURI: expected parameters (bool, string), got %v", params)
	}
	d.strict, d.match = params[0][0], params[1][0]
	body, err := d.stmts(fd.Body.List, "  ")
	if err != nil {
		return err
	}
	for _, name := range []string{"MatchPrefix", "MatchWildcard"} {
		if _, ok := consts[name]; !ok {
			return fmt.Errorf("constant %s not found", name)
		}
	}
	var cnames []string
	for n := range d.used {
		cnames = append(cnames, n)
	}
	for _, n := range []string{"MatchPrefix", "MatchWildcard"} {
		if !d.used[n] {
			cnames = append(cnames, n)
		}
	}
	sort.Strings(cnames)
	for _, n := range cnames {
		fmt.Fprintf(&b, "/-- wamp.%s = %s -/\ndef %s : List UInt8 := %s\n\n", n, leanStr(consts[n]), n, c19LeanBytes(consts[n]))
	}
	b.WriteString("/-- The regex `URI.ValidURI(strict, match)` applies to the URI (translated from its\n    if/return chain; `mtch` is the Go parameter `" + d.match + "`). -/\n")
	fmt.Fprintf(&b, "def validURIRegex (strict : Bool) (mtch : List UInt8) : Regex :=\n  %s\n\n", body)

	// 4. PrefixMatch must be strings.HasPrefix(string(u), string(prefix))
	pm := c19FindFunc(f, "URI", "PrefixMatch")
	if pm == nil || pm.Body == nil {
		return fmt.Errorf("method URI.PrefixMatch not found")
	}
	if err := checkPrefixMatch(fset, pm); err != nil {
		return err
	}
	b.WriteString("/-- `URI.PrefixMatch(prefix)` is `strings.HasPrefix(string(u), string(prefix))` (checked by gen). -/\n")
	b.WriteString("def prefixMatchIsHasPrefix : Bool := true\n\n")

	// 5. hashes
	for _, name := range []string{"ValidURI", "PrefixMatch", "WildcardMatch"} {
		fn := c19FindFunc(f, "URI", name)
		if fn == nil {
			return fmt.Errorf("method URI.%s not found", name)
		}
		h, err := c19FuncHash(fset, fn)
		if err != nil {
			return err
		}
		fmt.Fprintf(&b, "def hash_URI_%s : String := %s\n\n", name, leanStr(h))
	}
	b.WriteString("end Nexus.Gen\n")
	return writeIfChanged(filepath.Join(out, "UriRegex.lean"), []byte(b.String()))
}

func checkPrefixMatch(fset *token.FileSet, fd *ast.FuncDecl) error {
	bad := fmt.Errorf("PrefixMatch is no longer `return strings.HasPrefix(string(u), string(prefix))`: %s",
		c19ExprString(fset, fd.Body))
	if len(fd.Body.List) != 1 || len(fd.Recv.List[0].Names) != 1 ||
		len(fd.Type.Params.List) != 1 || len(fd.Type.Params.List[0].Names) != 1 {
		return bad
	}
	recv := fd.Recv.List[0].Names[0].Name
	param := fd.Type.Params.List[0].Names[0].Name
	rs, ok := fd.Body.List[0].(*ast.ReturnStmt)
	if !ok || len(rs.Results) != 1 {
		return bad
	}
	want := fmt.Sprintf("strings.HasPrefix(string(%s), string(%s))", recv, param)
	if c19ExprString(fset, rs.Results[0]) != want {
		return bad
	}
	return nil
}
