package main

// Additions to target "sites" for the L3 work package (servers keep serving,
// closure call contexts, single closer, retry constants):
//
//	(i)  loopExits     every way out of a serving loop (return, break, end of a
//	                   range over a channel) of the functions in loopFns, and of
//	                   the closures these assign to local variables, with the
//	                   chain of guards (select case, switch case, if) around it;
//	(j)  durationConsts package-level constants of type time.Duration (ns);
//	(k)  fieldAssigns  assignments to struct fields of type bool;
//	(l)  endRecvSites  calls of (*wamp.Session).EndRecv with the origin of the
//	                   receiver (field, range/index of a map field, parameter);
//	(m)  msgReturns    return statements of the functions that produce a
//	                   wamp.Message (the meta procedures and their helpers).
//
// and: sites inside a closure that is assigned to a local variable are
// attributed to every goroutine context in which that variable is called
// (closureCtxs); a site that is reached in a second context is emitted a
// second time with the key suffix "@<context>".

import (
	"fmt"
	"go/ast"
	"go/constant"
	"go/token"
	"go/types"
	"sort"
	"strings"
)

type loopExit struct {
	fn, kind, result, chanText, cls, owner, key string
	inLoop, openTest                              bool
	guards                                        []string
}

type durConst struct {
	name string
	ns   int64
}

type fieldAssign struct {
	fn, field, rhs, gctx, garg, key string
}

type endRecvSite struct {
	fn, recv, origin, arg, gctx, garg, key string
}

type msgReturn struct {
	fn, msgType, errType, key string
	metaProc                  bool
}

// loopFns: the serving loops of the router's fixed goroutines.
var loopFns = map[string]bool{
	"router.dealer.run": true, "router.broker.run": true, "router.realm.run": true,
	"router.router.run": true, "router.realm.metaProcedureHandler": true,
	"router.realm.handleInboundMessages": true,
}

// ---------------------------------------------------------------------------
// closure call contexts

type ctxT struct {
	kind, arg string
	post      ast.Node
}

// findLocalClosures maps every function literal that is the value of a local
// variable (v := func…; var v = func…) to the goroutine contexts of the calls
// v(…), in source order without repetition. A variable that is also used as a
// value keeps the context of its definition as well.
func (c *fnCtx) findLocalClosures() {
	c.localLits = map[*ast.FuncLit][]ctxT{}
	byObj := map[types.Object]*ast.FuncLit{}
	ast.Inspect(c.body, func(n ast.Node) bool {
		switch x := n.(type) {
		case *ast.AssignStmt:
			for i, r := range x.Rhs {
				if fl, ok := r.(*ast.FuncLit); ok && i < len(x.Lhs) {
					if id, ok := x.Lhs[i].(*ast.Ident); ok {
						o := c.info.Defs[id]
						if o == nil {
							o = c.info.Uses[id]
						}
						if o != nil {
							byObj[o] = fl
						}
					}
				}
			}
		case *ast.ValueSpec:
			for i, r := range x.Values {
				if fl, ok := r.(*ast.FuncLit); ok && i < len(x.Names) {
					if o := c.info.Defs[x.Names[i]]; o != nil {
						byObj[o] = fl
					}
				}
			}
		}
		return true
	})
	if len(byObj) == 0 {
		return
	}
	// walk with a stack; at every use of such a variable record the context
	saved := c.stack
	c.stack = nil
	c.pass = 0
	add := func(fl *ast.FuncLit, ct ctxT) {
		for _, o := range c.localLits[fl] {
			if o.kind == ct.kind && o.arg == ct.arg {
				return
			}
		}
		c.localLits[fl] = append(c.localLits[fl], ct)
	}
	ast.Inspect(c.body, func(n ast.Node) bool {
		if n == nil {
			c.stack = c.stack[:len(c.stack)-1]
			return true
		}
		c.stack = append(c.stack, n)
		if id, ok := n.(*ast.Ident); ok {
			if fl, ok := byObj[c.info.Uses[id]]; ok {
				k, a, p := c.gctxNode()
				add(fl, ctxT{k, a, p})
			}
		}
		return true
	})
	c.stack = saved
	for _, fl := range byObj {
		if len(c.localLits[fl]) == 0 {
			// never used: the context of the definition
			c.localLits[fl] = []ctxT{{"body", "", nil}}
		}
	}
}

// altDepth: the number of passes the function needs (the largest number of
// contexts of one of its local closures).
func (c *fnCtx) passes() int {
	n := 1
	for _, cs := range c.localLits {
		if len(cs) > n {
			n = len(cs)
		}
	}
	return n
}

// insideAlt reports whether the node on top of the stack lies in a local
// closure that has a context number c.pass, and returns its text.
func (c *fnCtx) insideAlt() (bool, string) {
	for i := len(c.stack) - 1; i >= 0; i-- {
		if fl, ok := c.stack[i].(*ast.FuncLit); ok {
			if cs, ok := c.localLits[fl]; ok && c.pass < len(cs) {
				ct := cs[c.pass]
				if ct.kind == "body" {
					return true, "body"
				}
				return true, ct.kind + " " + ct.arg
			}
		}
	}
	return false, ""
}

type outLens struct{ panics, closes, ops, gos, sends, syncs, calls, closures int }

func (o *sitesOut) lens() outLens {
	return outLens{len(o.panics), len(o.closes), len(o.ops), len(o.gos), len(o.sends), len(o.syncs), len(o.calls), len(o.closures)}
}

// visitPass is the visitor of the passes after the first: it keeps only the
// records of sites inside a local closure that has a further context, and
// marks their keys with that context.
func (c *fnCtx) visitPass(n ast.Node) bool {
	if n == nil {
		return c.visit(nil)
	}
	before := c.out.lens()
	r := c.visit(n)
	keep, ctx := c.insideAlt()
	// context-free tables are never repeated
	c.out.panics = c.out.panics[:before.panics]
	c.out.gos = c.out.gos[:before.gos]
	c.out.closures = c.out.closures[:before.closures]
	if !keep {
		c.out.closes = c.out.closes[:before.closes]
		c.out.ops = c.out.ops[:before.ops]
		c.out.sends = c.out.sends[:before.sends]
		c.out.syncs = c.out.syncs[:before.syncs]
		c.out.calls = c.out.calls[:before.calls]
		return r
	}
	suf := "@" + ctx
	for i := before.closes; i < len(c.out.closes); i++ {
		c.out.closes[i].key += suf
	}
	for i := before.ops; i < len(c.out.ops); i++ {
		c.out.ops[i].key += suf
	}
	for i := before.sends; i < len(c.out.sends); i++ {
		c.out.sends[i].key += suf
	}
	for i := before.syncs; i < len(c.out.syncs); i++ {
		c.out.syncs[i].key += suf
	}
	return r
}

// ---------------------------------------------------------------------------
// (i) loop exits

type exitEnv struct {
	fn       string
	inLoop   bool
	loop     ast.Stmt // the serving loop
	breakTo  ast.Stmt // innermost statement an unlabelled break leaves
	comm     ast.Expr // channel of the enclosing comm clause of the loop's select
	openVar  types.Object
	openTest bool
	labels   map[string]ast.Stmt
}

func (c *fnCtx) exitRecord(env exitEnv, kind, result string, guards []string, ch ast.Expr) {
	e := loopExit{fn: env.fn, kind: kind, result: result, inLoop: env.inLoop, openTest: env.openTest,
		guards: append([]string(nil), guards...)}
	if ch == nil {
		ch = env.comm
	}
	if ch != nil {
		e.chanText = c.text(ch)
		e.cls, e.owner, _ = c.classify(ch)
	} else {
		e.cls = "other"
	}
	base := env.fn + "|exit|" + kind + "|" + strings.Join(guards, " > ")
	c.seen[base]++
	if n := c.seen[base]; n > 1 {
		base = fmt.Sprintf("%s#%d", base, n)
	}
	e.key = base
	c.out.exits = append(c.out.exits, e)
}

func (c *fnCtx) condText(x *ast.IfStmt) string {
	return "if " + c.text(x.Cond) + " {"
}

func (c *fnCtx) exitWalk(list []ast.Stmt, guards []string, env exitEnv) {
	for _, s := range list {
		c.exitStmt(s, guards, env)
	}
}

func (c *fnCtx) exitStmt(s ast.Stmt, guards []string, env exitEnv) {
	g := func(extra ...string) []string {
		return append(append([]string(nil), guards...), extra...)
	}
	switch x := s.(type) {
	case *ast.LabeledStmt:
		env.labels[x.Label.Name] = x.Stmt
		c.exitStmt(x.Stmt, guards, env)
	case *ast.BlockStmt:
		c.exitWalk(x.List, guards, env)
	case *ast.ReturnStmt:
		var rs []string
		for _, r := range x.Results {
			rs = append(rs, c.text(r))
		}
		c.exitRecord(env, "ret", strings.Join(rs, ", "), guards, nil)
	case *ast.BranchStmt:
		if x.Tok == token.BREAK && env.inLoop {
			target := env.breakTo
			if x.Label != nil {
				target = env.labels[x.Label.Name]
			}
			if target == env.loop {
				c.exitRecord(env, "brk", "", guards, nil)
			}
		}
		if x.Tok == token.GOTO {
			c.fail(x.Pos(), "goto in a serving loop")
		}
	case *ast.IfStmt:
		t := c.condText(x)
		e2 := env
		// `if !open {` on the comma-ok variable of the enclosing receive
		if u, ok := x.Cond.(*ast.UnaryExpr); ok && u.Op == token.NOT {
			if id, ok := u.X.(*ast.Ident); ok && env.openVar != nil && c.info.Uses[id] == env.openVar {
				e2.openTest = true
			}
		}
		c.exitWalk(x.Body.List, g(t), e2)
		if x.Else != nil {
			c.exitStmt(x.Else, g("else of "+t), env)
		}
	case *ast.ForStmt:
		e2 := env
		gs := guards
		if !env.inLoop && env.loop == nil {
			e2.inLoop, e2.loop = true, x
			if x.Cond != nil {
				c.exitRecord(e2, "condFalse", "", g("for "+c.text(x.Cond)+" {"), nil)
			}
		} else {
			gs = g(c.srcText(x.Pos(), x.Body.Lbrace+1))
		}
		e2.breakTo = x
		c.exitWalk(x.Body.List, gs, e2)
	case *ast.RangeStmt:
		e2 := env
		gs := guards
		if !env.inLoop && env.loop == nil {
			e2.inLoop, e2.loop = true, x
			if isChan(c.info.Types[x.X].Type) {
				c.exitRecord(e2, "rangeEnd", "", guards, x.X)
			} else {
				c.exitRecord(e2, "rangeEnd", "", guards, nil)
			}
		} else {
			gs = g(c.srcText(x.Pos(), x.Body.Lbrace+1))
		}
		e2.breakTo = x
		c.exitWalk(x.Body.List, gs, e2)
	case *ast.SelectStmt:
		for _, cl := range x.Body.List {
			cc := cl.(*ast.CommClause)
			e2 := env
			e2.breakTo = x
			t := "default:"
			if cc.Comm != nil {
				t = "case " + c.text(cc.Comm) + ":"
				if env.comm == nil {
					switch cs := cc.Comm.(type) {
					case *ast.SendStmt:
						e2.comm = cs.Chan
					case *ast.ExprStmt:
						if u, ok := cs.X.(*ast.UnaryExpr); ok && u.Op == token.ARROW {
							e2.comm = u.X
						}
					case *ast.AssignStmt:
						if len(cs.Rhs) == 1 {
							if u, ok := cs.Rhs[0].(*ast.UnaryExpr); ok && u.Op == token.ARROW {
								e2.comm = u.X
								if len(cs.Lhs) == 2 {
									if id, ok := cs.Lhs[1].(*ast.Ident); ok {
										o := c.info.Defs[id]
										if o == nil {
											o = c.info.Uses[id]
										}
										e2.openVar = o
									}
								}
							}
						}
					}
				}
			}
			c.exitWalk(cc.Body, g(t), e2)
		}
	case *ast.SwitchStmt:
		tag := "switch {"
		if x.Tag != nil {
			tag = "switch " + c.text(x.Tag) + " {"
		}
		c.exitCases(x.Body, tag, x, guards, env)
	case *ast.TypeSwitchStmt:
		c.exitCases(x.Body, "switch "+c.text(x.Assign)+" {", x, guards, env)
	case *ast.AssignStmt:
		// closures assigned to local variables are walked as functions of their own
		for i, r := range x.Rhs {
			if fl, ok := r.(*ast.FuncLit); ok && i < len(x.Lhs) {
				if id, ok := x.Lhs[i].(*ast.Ident); ok {
					sub := exitEnv{fn: env.fn + "$" + id.Name, labels: map[string]ast.Stmt{}}
					// a closure is not a loop: its returns are its results
					c.exitWalk(fl.Body.List, nil, sub)
				}
			}
		}
	}
}

func (c *fnCtx) exitCases(body *ast.BlockStmt, tag string, sw ast.Stmt, guards []string, env exitEnv) {
	for _, cl := range body.List {
		cc := cl.(*ast.CaseClause)
		t := "default:"
		if cc.List != nil {
			var ts []string
			for _, e := range cc.List {
				ts = append(ts, c.text(e))
			}
			t = "case " + strings.Join(ts, ", ") + ":"
		}
		e2 := env
		e2.breakTo = sw
		gs := append(append([]string(nil), guards...), tag, t)
		c.exitWalk(cc.Body, gs, e2)
	}
}

func (c *fnCtx) loopExits() {
	env := exitEnv{fn: c.name, labels: map[string]ast.Stmt{}}
	c.exitWalk(c.body.List, nil, env)
	// exactly one serving loop at the top level
	n := 0
	for _, s := range c.body.List {
		switch s.(type) {
		case *ast.ForStmt, *ast.RangeStmt:
			n++
		}
	}
	if n != 1 {
		c.fail(c.body.Pos(), "%s: expected one top-level loop, found %d", c.name, n)
	}
}

// ---------------------------------------------------------------------------
// (k) (l) (m): visited per node from visitL3 (first pass only)

func (c *fnCtx) originOf(e ast.Expr) string {
	switch x := e.(type) {
	case *ast.SelectorExpr:
		if sel, ok := c.info.Selections[x]; ok && sel.Kind() == types.FieldVal {
			return "field " + c.text(x)
		}
	case *ast.Ident:
		o := c.info.Uses[x]
		if o == nil {
			return "?"
		}
		// parameter of the function (or of an enclosing literal)
		if c.decl != nil && c.decl.Type.Params != nil {
			for _, f := range c.decl.Type.Params.List {
				for _, n := range f.Names {
					if c.info.Defs[n] == o {
						return "param"
					}
				}
			}
		}
		var origins []string
		ast.Inspect(c.body, func(n ast.Node) bool {
			switch s := n.(type) {
			case *ast.RangeStmt:
				for _, kv := range []ast.Expr{s.Key, s.Value} {
					if id, ok := kv.(*ast.Ident); ok && c.info.Defs[id] == o {
						origins = append(origins, "range "+c.text(s.X))
					}
				}
			case *ast.AssignStmt:
				for i, lh := range s.Lhs {
					id, ok := lh.(*ast.Ident)
					if !ok {
						continue
					}
					lo := c.info.Defs[id]
					if lo == nil {
						lo = c.info.Uses[id]
					}
					if lo != o {
						continue
					}
					var r ast.Expr
					if len(s.Rhs) == len(s.Lhs) {
						r = s.Rhs[i]
					} else if len(s.Rhs) == 1 && i == 0 {
						r = s.Rhs[0]
					}
					if ix, ok := r.(*ast.IndexExpr); ok {
						origins = append(origins, "index "+c.text(ix.X))
					} else if r != nil {
						origins = append(origins, "expr "+c.text(r))
					}
				}
			}
			return true
		})
		if len(origins) == 1 {
			return origins[0]
		}
		sort.Strings(origins)
		return strings.Join(origins, " | ")
	}
	return "expr " + c.text(e)
}

func (c *fnCtx) visitL3(n ast.Node) {
	switch x := n.(type) {
	case *ast.AssignStmt:
		for i, lh := range x.Lhs {
			se, ok := lh.(*ast.SelectorExpr)
			if !ok || i >= len(x.Rhs) && len(x.Rhs) != 1 {
				continue
			}
			sel, ok := c.info.Selections[se]
			if !ok || sel.Kind() != types.FieldVal {
				continue
			}
			if b, ok := sel.Obj().Type().Underlying().(*types.Basic); !ok || b.Kind() != types.Bool {
				continue
			}
			own := "?"
			if nm := namedOf(sel.Recv()); nm != nil {
				own = nm.Obj().Name()
			}
			rhs := ""
			if i < len(x.Rhs) {
				rhs = c.text(x.Rhs[i])
			}
			gk, ga := c.gctx()
			field := own + "." + se.Sel.Name
			c.out.assigns = append(c.out.assigns, fieldAssign{fn: c.name, field: field, rhs: rhs, gctx: gk, garg: ga,
				key: c.uniq("assign", field+" = "+rhs)})
		}
	case *ast.CallExpr:
		if c.calleeName(x) == "wamp.Session.EndRecv" {
			if s, ok := x.Fun.(*ast.SelectorExpr); ok {
				arg := ""
				if len(x.Args) == 1 {
					arg = c.text(x.Args[0])
				}
				gk, ga := c.gctx()
				rt := c.text(s.X)
				c.out.endRecvs = append(c.out.endRecvs, endRecvSite{fn: c.name, recv: rt, origin: c.originOf(s.X), arg: arg,
					gctx: gk, garg: ga, key: c.uniq("EndRecv", rt+" "+arg)})
			}
		}
	}
}

func isMsgResult(t types.Type) bool {
	if n := namedOf(t); n != nil && n.Obj().Pkg() != nil && n.Obj().Pkg().Name() == "wamp" {
		switch n.Obj().Name() {
		case "Message", "Error", "Yield":
			return true
		}
	}
	return false
}

// msgReturns records the return statements of a function whose single result
// is a wamp.Message, *wamp.Error or *wamp.Yield.
func (c *fnCtx) msgReturns() {
	if c.decl == nil || c.decl.Type.Results == nil || len(c.decl.Type.Results.List) != 1 ||
		len(c.decl.Type.Results.List[0].Names) > 1 || !strings.HasPrefix(c.name, "router.") {
		return
	}
	rt := c.info.Types[c.decl.Type.Results.List[0].Type].Type
	if rt == nil || !isMsgResult(rt) {
		return
	}
	meta := false
	if ps := c.decl.Type.Params; ps != nil && len(ps.List) == 1 && len(ps.List[0].Names) <= 1 {
		if n := namedOf(c.info.Types[ps.List[0].Type].Type); n != nil && n.Obj().Name() == "Invocation" {
			meta = true
		}
	}
	var walk func(n ast.Node) bool
	walk = func(n ast.Node) bool {
		switch x := n.(type) {
		case *ast.FuncLit:
			return false
		case *ast.ReturnStmt:
			if len(x.Results) != 1 {
				c.fail(x.Pos(), "return without a value in a message-producing function")
				return true
			}
			e := x.Results[0]
			mt, ok := c.msgTypeOf(e)
			if !ok {
				if id, isId := e.(*ast.Ident); isId && id.Name == "nil" {
					mt, ok = "nil", true
				}
			}
			if !ok {
				c.fail(x.Pos(), "cannot determine the type of returned message %s", c.text(e))
				return true
			}
			et := ""
			if call, isCall := e.(*ast.CallExpr); isCall {
				if cn := c.calleeName(call); cn != "" {
					et = "call:" + cn
				} else {
					et = "call:?"
				}
			} else if mt == "Error" {
				et = c.errTypeOf(e)
			}
			c.out.msgRets = append(c.out.msgRets, msgReturn{fn: c.name, msgType: mt, errType: et, metaProc: meta,
				key: c.uniq("return", mt+" "+et)})
		}
		return true
	}
	ast.Inspect(c.body, walk)
}

// ---------------------------------------------------------------------------
// (j) constants

func (o *sitesOut) addConsts(rel string, info *types.Info, d *ast.GenDecl) {
	if d.Tok != token.CONST {
		return
	}
	for _, sp := range d.Specs {
		vs := sp.(*ast.ValueSpec)
		for _, nm := range vs.Names {
			k, ok := info.Defs[nm].(*types.Const)
			if !ok {
				continue
			}
			n := namedOf(k.Type())
			if n == nil || n.Obj().Pkg() == nil || n.Obj().Pkg().Path() != "time" || n.Obj().Name() != "Duration" {
				continue
			}
			if v, ok := constant.Int64Val(k.Val()); ok {
				o.consts = append(o.consts, durConst{name: rel + "." + nm.Name, ns: v})
			}
		}
	}
}

// ---------------------------------------------------------------------------
// emission (called from emitSites before the dictionary)

func emitL3(res *sitesOut, k func(string) string, w func(string, ...any), cm func(string) string,
	gc func(kind, arg string) string, gcText func(kind, arg string) string) {
	w("-- BEGIN L3 additions\n")
	w("inductive ExitKind | ret | brk | rangeEnd | condFalse\n  deriving DecidableEq, Repr\n\n")
	w("structure LoopExit where\n  key : Nat\n  fn : Nat\n  kind : ExitKind\n  inLoop : Bool\n  result : Nat\n  chan : Nat\n  cls : ChanClass\n  owner : Nat\n  openTest : Bool\n  guards : List Nat\n  deriving Repr\n\n")
	w("structure FieldAssign where\n  key : Nat\n  fn : Nat\n  field : Nat\n  rhs : Nat\n  gctx : GCtx\n  garg : Nat\n  deriving Repr\n\n")
	w("structure EndRecvSite where\n  key : Nat\n  fn : Nat\n  recv : Nat\n  origin : Nat\n  arg : Nat\n  gctx : GCtx\n  garg : Nat\n  deriving Repr\n\n")
	w("structure MsgReturn where\n  key : Nat\n  fn : Nat\n  msgType : Nat\n  errType : Nat\n  metaProc : Bool\n  deriving Repr\n\n")

	sort.SliceStable(res.exits, func(i, j int) bool { return res.exits[i].key < res.exits[j].key })
	w("/-- (i) every way out of the serving loops (and of the closures their functions assign to local\n    variables, `fn$var`): kind, whether inside the loop, the returned expression, the channel of the\n    enclosing case of the loop's select (or the ranged channel) with its class and owner, whether the exit\n    is behind `if !open` on the comma-ok result of that receive, and the chain of guards, outermost first. -/\n")
	w("def loopExits : List LoopExit := [\n")
	for i, e := range res.exits {
		cls := e.cls
		switch cls {
		case "local":
			cls = "loc"
		case "global":
			cls = "glob"
		}
		var gs []string
		for _, g := range e.guards {
			gs = append(gs, k(g))
		}
		w("  -- %s  result=%q chan=%s %s owner=%s inLoop=%v openTest=%v\n", cm(e.key), e.result, cm(e.chanText), cls, cm(e.owner), e.inLoop, e.openTest)
		w("  ⟨%s, %s, .%s, %v, %s, %s, .%s, %s, %v, [%s]⟩%s\n", k(e.key), k(e.fn), e.kind, e.inLoop, k(e.result), k(e.chanText), cls, k(e.owner), e.openTest,
			strings.Join(gs, ", "), sComma(i, len(res.exits)))
	}
	w("]\n\n")

	sort.SliceStable(res.consts, func(i, j int) bool { return res.consts[i].name < res.consts[j].name })
	w("/-- (j) package-level constants of type time.Duration, in nanoseconds. -/\n")
	w("def durationConsts : List (Nat × Nat) := [\n")
	for i, d := range res.consts {
		w("  -- %s\n  (%s, %d)%s\n", d.name, k(d.name), d.ns, sComma(i, len(res.consts)))
	}
	w("]\n\n")

	sort.SliceStable(res.assigns, func(i, j int) bool { return res.assigns[i].key < res.assigns[j].key })
	w("/-- (k) assignments to struct fields of type bool. -/\n")
	w("def fieldAssigns : List FieldAssign := [\n")
	for i, a := range res.assigns {
		w("  -- %s  ctx=%s\n  ⟨%s, %s, %s, %s, %s⟩%s\n", cm(a.key), cm(gcText(a.gctx, a.garg)), k(a.key), k(a.fn), k(a.field), k(a.rhs), gc(a.gctx, a.garg), sComma(i, len(res.assigns)))
	}
	w("]\n\n")

	sort.SliceStable(res.endRecvs, func(i, j int) bool { return res.endRecvs[i].key < res.endRecvs[j].key })
	w("/-- (l) calls of (*wamp.Session).EndRecv: receiver, where the receiver comes from, argument. -/\n")
	w("def endRecvSites : List EndRecvSite := [\n")
	for i, a := range res.endRecvs {
		w("  -- %s  origin=%s ctx=%s\n  ⟨%s, %s, %s, %s, %s, %s⟩%s\n", cm(a.key), cm(a.origin), cm(gcText(a.gctx, a.garg)), k(a.key), k(a.fn), k(a.recv), k(a.origin), k(a.arg), gc(a.gctx, a.garg), sComma(i, len(res.endRecvs)))
	}
	w("]\n\n")

	sort.SliceStable(res.msgRets, func(i, j int) bool { return res.msgRets[i].key < res.msgRets[j].key })
	w("/-- (m) return statements of the router functions whose result is a wamp.Message, *wamp.Error or\n    *wamp.Yield. metaProc: the function has the signature of a meta procedure. errType: the Type field of\n    an ERROR literal, or `call:f` when the value is the result of f. -/\n")
	w("def msgReturns : List MsgReturn := [\n")
	for i, a := range res.msgRets {
		w("  -- %s\n  ⟨%s, %s, %s, %s, %v⟩%s\n", cm(a.key), k(a.key), k(a.fn), k(a.msgType), k(a.errType), a.metaProc, sComma(i, len(res.msgRets)))
	}
	w("]\n\n")
	w("-- END L3 additions\n\n")
}
