package main

// Target "schema" (G4): the WAMP message schema as the serializers see it
// through reflection.
//
// From wamp/message.go (+ the `type ID`/`type URI` declarations next to it) it
// extracts
//   - the underlying Go kind of the five named field types (ID, URI,
//     MessageType, Dict, List),
//   - the MessageType constants,
//   - every struct that has a `MessageType()` method: field order, field Go
//     type, and whether the `wamp` struct tag contains "omitempty" (computed
//     exactly like msgToList does: strings.Contains(tag.Get("wamp"), "omitempty")),
//     plus the constant its MessageType() method returns,
//   - the NewMessage switch: for every case the constant, the struct that is
//     allocated and the keyed fields of the composite literal (the initial,
//     non-zero field values listToMsg starts from).
//
// Everything else is a loud failure: an unknown field type, a constant that
// is not an integer literal, a MessageType() body that is not a single
// `return CONST`, a case body that is not a single `return &T{...}`, a literal
// initialiser other than `<switch tag>` or `Dict{}`.

import (
	"bytes"
	"fmt"
	"go/ast"
	"go/printer"
	"go/token"
	"path/filepath"
	"reflect"
	"sort"
	"strconv"
	"strings"
)

func init() { targets["schema"] = genSchema }

type schemaField struct {
	name      string
	goType    string
	kind      string
	omitempty bool
}

type schemaStruct struct {
	name     string
	fields   []schemaField
	constant string // returned by MessageType()
	hasMT    bool
	pos      token.Pos
}

type schemaInit struct {
	field string
	init  string // "code" | "emptyDict"
}

type schemaCase struct {
	constant string
	strct    string
	inits    []schemaInit
}

// typeKind classifies the underlying type of a named wamp type.
func typeKind(e ast.Expr) (string, error) {
	switch t := e.(type) {
	case *ast.Ident:
		switch t.Name {
		case "uint64":
			return "uint64", nil
		case "int":
			return "int", nil
		case "string":
			return "string", nil
		}
	case *ast.MapType:
		k, ok1 := t.Key.(*ast.Ident)
		if ok1 && k.Name == "string" && isAny(t.Value) {
			return "mapStringAny", nil
		}
	case *ast.ArrayType:
		if t.Len == nil && isAny(t.Elt) {
			return "sliceAny", nil
		}
	}
	return "", fmt.Errorf("underlying type not understood")
}

func isAny(e ast.Expr) bool {
	switch t := e.(type) {
	case *ast.Ident:
		return t.Name == "any"
	case *ast.InterfaceType:
		return t.Methods == nil || len(t.Methods.List) == 0
	}
	return false
}

func genSchema(repo, out string) error {
	// Named types live in message.go and identifier.go.
	named := map[string]string{} // type name -> kind
	want := map[string]bool{"ID": true, "URI": true, "MessageType": true, "Dict": true, "List": true}
	var msgFile *ast.File
	var fset *token.FileSet
	for _, fn := range []string{"message.go", "identifier.go"} {
		fs, f, err := parseFile(filepath.Join(repo, "wamp", fn))
		if err != nil {
			return err
		}
		if fn == "message.go" {
			msgFile, fset = f, fs
		}
		for _, d := range f.Decls {
			gd, ok := d.(*ast.GenDecl)
			if !ok || gd.Tok != token.TYPE {
				continue
			}
			for _, s := range gd.Specs {
				ts := s.(*ast.TypeSpec)
				if !want[ts.Name.Name] {
					continue
				}
				if ts.Assign.IsValid() {
					return fmt.Errorf("%s: type %s is an alias", fn, ts.Name.Name)
				}
				k, err := typeKind(ts.Type)
				if err != nil {
					return fmt.Errorf("%s: type %s: %v", fn, ts.Name.Name, err)
				}
				if _, dup := named[ts.Name.Name]; dup {
					return fmt.Errorf("type %s declared twice", ts.Name.Name)
				}
				named[ts.Name.Name] = k
			}
		}
	}
	for n := range want {
		if _, ok := named[n]; !ok {
			return fmt.Errorf("type %s not found in wamp/message.go or wamp/identifier.go", n)
		}
	}
	named["string"] = "string"
	pos := func(p token.Pos) string { return fset.Position(p).String() }

	consts := map[string]int{}
	var constOrder []string
	structs := map[string]*schemaStruct{}
	var structOrder []string
	var cases []schemaCase
	sawNewMessage := false

	for _, d := range msgFile.Decls {
		switch d := d.(type) {
		case *ast.GenDecl:
			switch d.Tok {
			case token.CONST:
				for _, s := range d.Specs {
					vs := s.(*ast.ValueSpec)
					id, ok := vs.Type.(*ast.Ident)
					if !ok || id.Name != "MessageType" {
						return fmt.Errorf("%s: constant %s is not declared as MessageType with an explicit value", pos(vs.Pos()), vs.Names[0].Name)
					}
					if len(vs.Names) != 1 || len(vs.Values) != 1 {
						return fmt.Errorf("%s: unexpected const spec shape", pos(vs.Pos()))
					}
					bl, ok := vs.Values[0].(*ast.BasicLit)
					if !ok || bl.Kind != token.INT {
						return fmt.Errorf("%s: constant %s is not an integer literal", pos(vs.Pos()), vs.Names[0].Name)
					}
					n, err := strconv.ParseInt(bl.Value, 0, 64)
					if err != nil || n < 0 {
						return fmt.Errorf("%s: constant %s: bad value %s", pos(vs.Pos()), vs.Names[0].Name, bl.Value)
					}
					consts[vs.Names[0].Name] = int(n)
					constOrder = append(constOrder, vs.Names[0].Name)
				}
			case token.TYPE:
				for _, s := range d.Specs {
					ts := s.(*ast.TypeSpec)
					st, ok := ts.Type.(*ast.StructType)
					if !ok {
						continue
					}
					ss := &schemaStruct{name: ts.Name.Name, pos: ts.Pos()}
					for _, fl := range st.Fields.List {
						if len(fl.Names) == 0 {
							return fmt.Errorf("%s: embedded field in %s", pos(fl.Pos()), ss.name)
						}
						tid, ok := fl.Type.(*ast.Ident)
						if !ok {
							return fmt.Errorf("%s: field type of %s.%s is not a plain identifier", pos(fl.Pos()), ss.name, fl.Names[0].Name)
						}
						tag := ""
						if fl.Tag != nil {
							t, err := strconv.Unquote(fl.Tag.Value)
							if err != nil {
								return fmt.Errorf("%s: bad tag", pos(fl.Pos()))
							}
							tag = t
						}
						// exactly what msgToList evaluates
						omit := strings.Contains(reflect.StructTag(tag).Get("wamp"), "omitempty")
						for _, nm := range fl.Names {
							if !nm.IsExported() {
								// reflect's Interface() would panic on it
								return fmt.Errorf("%s: unexported field %s.%s", pos(fl.Pos()), ss.name, nm.Name)
							}
							ss.fields = append(ss.fields, schemaField{name: nm.Name, goType: tid.Name, omitempty: omit})
						}
					}
					if old, ok := structs[ss.name]; ok {
						// MessageType() method declared before the struct
						ss.hasMT, ss.constant = old.hasMT, old.constant
					}
					structs[ss.name] = ss
					structOrder = append(structOrder, ss.name)
				}
			}
		case *ast.FuncDecl:
			if d.Recv != nil && d.Name.Name == "MessageType" {
				if len(d.Recv.List) != 1 {
					return fmt.Errorf("%s: odd receiver", pos(d.Pos()))
				}
				rt := d.Recv.List[0].Type
				if se, ok := rt.(*ast.StarExpr); ok {
					rt = se.X
				}
				rid, ok := rt.(*ast.Ident)
				if !ok {
					return fmt.Errorf("%s: odd receiver type", pos(d.Pos()))
				}
				if d.Body == nil || len(d.Body.List) != 1 {
					return fmt.Errorf("%s: %s.MessageType() is not a single return", pos(d.Pos()), rid.Name)
				}
				rs, ok := d.Body.List[0].(*ast.ReturnStmt)
				if !ok || len(rs.Results) != 1 {
					return fmt.Errorf("%s: %s.MessageType() is not a single return", pos(d.Pos()), rid.Name)
				}
				cid, ok := rs.Results[0].(*ast.Ident)
				if !ok {
					return fmt.Errorf("%s: %s.MessageType() does not return a constant", pos(d.Pos()), rid.Name)
				}
				ss, ok := structs[rid.Name]
				if !ok {
					// the struct may be declared later in the file: remember
					ss = &schemaStruct{name: rid.Name}
					structs[rid.Name] = ss
				}
				if ss.hasMT {
					return fmt.Errorf("%s: second MessageType() for %s", pos(d.Pos()), rid.Name)
				}
				ss.hasMT = true
				ss.constant = cid.Name
			}
			if d.Recv == nil && d.Name.Name == "NewMessage" {
				sawNewMessage = true
				cs, err := parseNewMessage(d, pos)
				if err != nil {
					return err
				}
				cases = cs
			}
		}
	}
	if !sawNewMessage {
		return fmt.Errorf("func NewMessage not found in wamp/message.go")
	}
	for name, ss := range structs {
		if ss.hasMT && ss.fields == nil && !containsStr(structOrder, name) {
			return fmt.Errorf("MessageType() method on %s, which is not a struct of message.go", name)
		}
	}

	var b strings.Builder
	b.WriteString("/-\n  GENERATED by /verif/gen (target schema) from wamp/message.go and wamp/identifier.go.\n  Do not edit: regenerated on every bin/check run.\n-/\nnamespace Nexus.Gen\n\n")
	b.WriteString("/-- reflect.Kind (with element types) of the field types the messages use. -/\n")
	b.WriteString("inductive GoKind where\n  | uint64 | int | string | mapStringAny | sliceAny\n  deriving DecidableEq, Repr, Inhabited\n\n")
	b.WriteString("structure FieldSchema where\n  name : String\n  goType : String\n  kind : GoKind\n  omitempty : Bool\n  deriving DecidableEq, Repr, Inhabited\n\n")
	b.WriteString("/-- A struct of wamp/message.go with a `MessageType()` method; `code` is the value of the\n    constant that method returns. -/\n")
	b.WriteString("structure MsgSchema where\n  name : String\n  code : Nat\n  fields : List FieldSchema\n  deriving DecidableEq, Repr, Inhabited\n\n")
	b.WriteString("/-- Non-zero initial field value in a `NewMessage` composite literal. -/\n")
	b.WriteString("inductive FieldInit where\n  | code       -- the switch tag `t`\n  | emptyDict  -- `Dict{}`\n  deriving DecidableEq, Repr, Inhabited\n\n")
	b.WriteString("/-- One `case` of the `NewMessage` switch. -/\n")
	b.WriteString("structure NewCase where\n  code : Nat\n  struct : String\n  inits : List (String × FieldInit)\n  deriving DecidableEq, Repr, Inhabited\n\n")

	b.WriteString("/-- Underlying kinds of the named field types. -/\ndef namedKinds : List (String × GoKind) := [\n")
	nk := make([]string, 0, len(named))
	for n := range named {
		nk = append(nk, n)
	}
	sort.Strings(nk)
	for i, n := range nk {
		fmt.Fprintf(&b, "  (%s, .%s)%s\n", leanStr(n), named[n], comma(i, len(nk)))
	}
	b.WriteString("]\n\n")

	b.WriteString("/-- The MessageType constants, in declaration order. -/\ndef msgTypeConsts : List (String × Nat) := [\n")
	for i, n := range constOrder {
		fmt.Fprintf(&b, "  (%s, %d)%s\n", leanStr(n), consts[n], comma(i, len(constOrder)))
	}
	b.WriteString("]\n\n")

	var msgs []*schemaStruct
	for _, n := range structOrder {
		ss := structs[n]
		if !ss.hasMT {
			continue // not a wamp.Message (e.g. PassthruPayload)
		}
		if _, ok := consts[ss.constant]; !ok {
			return fmt.Errorf("%s.MessageType() returns %s, which is not a MessageType constant", ss.name, ss.constant)
		}
		if len(ss.fields) == 0 {
			return fmt.Errorf("message struct %s has no fields", ss.name)
		}
		for i := range ss.fields {
			k, ok := named[ss.fields[i].goType]
			if !ok {
				return fmt.Errorf("%s: field %s.%s has type %s, which the schema extractor does not know", pos(ss.pos), ss.name, ss.fields[i].name, ss.fields[i].goType)
			}
			ss.fields[i].kind = k
		}
		msgs = append(msgs, ss)
	}
	b.WriteString("/-- Message structs in declaration order. -/\ndef structs : List MsgSchema := [\n")
	for i, ss := range msgs {
		fmt.Fprintf(&b, "  { name := %s, code := %d, fields := [\n", leanStr(ss.name), consts[ss.constant])
		for j, f := range ss.fields {
			fmt.Fprintf(&b, "      { name := %s, goType := %s, kind := .%s, omitempty := %v }%s\n",
				leanStr(f.name), leanStr(f.goType), f.kind, f.omitempty, comma(j, len(ss.fields)))
		}
		fmt.Fprintf(&b, "    ] }%s\n", comma(i, len(msgs)))
	}
	b.WriteString("]\n\n")

	b.WriteString("/-- The `NewMessage` switch, case by case (first match wins, as in Go the constants are\n    distinct or the file would not compile). -/\ndef newMessage : List NewCase := [\n")
	for i, c := range cases {
		v, ok := consts[c.constant]
		if !ok {
			return fmt.Errorf("NewMessage: case %s is not a MessageType constant", c.constant)
		}
		ss, ok := structs[c.strct]
		if !ok || !ss.hasMT {
			return fmt.Errorf("NewMessage: case %s allocates %s, which is not a message struct", c.constant, c.strct)
		}
		var ins []string
		for _, in := range c.inits {
			found := false
			for _, f := range ss.fields {
				if f.name == in.field {
					found = true
					if (in.init == "code" && f.kind != "int") || (in.init == "emptyDict" && f.kind != "mapStringAny") {
						return fmt.Errorf("NewMessage: case %s: initialiser of %s.%s does not fit its type %s", c.constant, c.strct, in.field, f.goType)
					}
				}
			}
			if !found {
				return fmt.Errorf("NewMessage: case %s initialises unknown field %s.%s", c.constant, c.strct, in.field)
			}
			ins = append(ins, fmt.Sprintf("(%s, .%s)", leanStr(in.field), in.init))
		}
		fmt.Fprintf(&b, "  { code := %d, struct := %s, inits := [%s] }%s\n", v, leanStr(c.strct), strings.Join(ins, ", "), comma(i, len(cases)))
	}
	b.WriteString("]\n\n")
	if err := genSerializeFacts(repo, &b); err != nil {
		return err
	}
	b.WriteString("end Nexus.Gen\n")
	return writeIfChanged(filepath.Join(out, "Schema.lean"), []byte(b.String()))
}

func containsStr(xs []string, s string) bool {
	for _, x := range xs {
		if x == s {
			return true
		}
	}
	return false
}

func comma(i, n int) string {
	if i+1 < n {
		return ","
	}
	return ""
}

func parseNewMessage(d *ast.FuncDecl, pos func(token.Pos) string) ([]schemaCase, error) {
	if d.Type.Params == nil || len(d.Type.Params.List) != 1 || len(d.Type.Params.List[0].Names) != 1 {
		return nil, fmt.Errorf("%s: NewMessage: unexpected parameters", pos(d.Pos()))
	}
	param := d.Type.Params.List[0].Names[0].Name
	if d.Body == nil || len(d.Body.List) != 2 {
		return nil, fmt.Errorf("%s: NewMessage body is not `switch t {...}; return nil`", pos(d.Pos()))
	}
	sw, ok := d.Body.List[0].(*ast.SwitchStmt)
	if !ok || sw.Init != nil {
		return nil, fmt.Errorf("%s: NewMessage: first statement is not a plain switch", pos(d.Pos()))
	}
	tag, ok := sw.Tag.(*ast.Ident)
	if !ok || tag.Name != param {
		return nil, fmt.Errorf("%s: NewMessage: switch tag is not the parameter", pos(sw.Pos()))
	}
	rs, ok := d.Body.List[1].(*ast.ReturnStmt)
	if !ok || len(rs.Results) != 1 {
		return nil, fmt.Errorf("%s: NewMessage does not end in `return nil`", pos(d.Pos()))
	}
	if id, ok := rs.Results[0].(*ast.Ident); !ok || id.Name != "nil" {
		return nil, fmt.Errorf("%s: NewMessage does not end in `return nil`", pos(d.Pos()))
	}
	var cases []schemaCase
	seen := map[string]bool{}
	for _, st := range sw.Body.List {
		cc := st.(*ast.CaseClause)
		if cc.List == nil {
			return nil, fmt.Errorf("%s: NewMessage: default clause not understood", pos(cc.Pos()))
		}
		if len(cc.Body) != 1 {
			return nil, fmt.Errorf("%s: NewMessage: case body is not a single return", pos(cc.Pos()))
		}
		ret, ok := cc.Body[0].(*ast.ReturnStmt)
		if !ok || len(ret.Results) != 1 {
			return nil, fmt.Errorf("%s: NewMessage: case body is not a single return", pos(cc.Pos()))
		}
		ue, ok := ret.Results[0].(*ast.UnaryExpr)
		if !ok || ue.Op != token.AND {
			return nil, fmt.Errorf("%s: NewMessage: case does not return &T{...}", pos(cc.Pos()))
		}
		cl, ok := ue.X.(*ast.CompositeLit)
		if !ok {
			return nil, fmt.Errorf("%s: NewMessage: case does not return &T{...}", pos(cc.Pos()))
		}
		tid, ok := cl.Type.(*ast.Ident)
		if !ok {
			return nil, fmt.Errorf("%s: NewMessage: composite literal type not understood", pos(cc.Pos()))
		}
		var inits []schemaInit
		for _, el := range cl.Elts {
			kv, ok := el.(*ast.KeyValueExpr)
			if !ok {
				return nil, fmt.Errorf("%s: NewMessage: positional composite literal", pos(el.Pos()))
			}
			k, ok := kv.Key.(*ast.Ident)
			if !ok {
				return nil, fmt.Errorf("%s: NewMessage: literal key not understood", pos(el.Pos()))
			}
			switch v := kv.Value.(type) {
			case *ast.Ident:
				if v.Name != param {
					return nil, fmt.Errorf("%s: NewMessage: initialiser %s not understood", pos(el.Pos()), v.Name)
				}
				inits = append(inits, schemaInit{k.Name, "code"})
			case *ast.CompositeLit:
				vt, ok := v.Type.(*ast.Ident)
				if !ok || vt.Name != "Dict" || len(v.Elts) != 0 {
					return nil, fmt.Errorf("%s: NewMessage: initialiser not understood (only `Dict{}`)", pos(el.Pos()))
				}
				inits = append(inits, schemaInit{k.Name, "emptyDict"})
			default:
				return nil, fmt.Errorf("%s: NewMessage: initialiser not understood", pos(el.Pos()))
			}
		}
		for _, ce := range cc.List {
			cid, ok := ce.(*ast.Ident)
			if !ok {
				return nil, fmt.Errorf("%s: NewMessage: case expression is not a constant name", pos(ce.Pos()))
			}
			if seen[cid.Name] {
				return nil, fmt.Errorf("%s: NewMessage: duplicate case %s", pos(ce.Pos()), cid.Name)
			}
			seen[cid.Name] = true
			cases = append(cases, schemaCase{constant: cid.Name, strct: tid.Name, inits: inits})
		}
	}
	return cases, nil
}

// ---- facts about transport/serialize ------------------------------------------

// schemaExprText prints an expression and removes all whitespace.
func schemaExprText(fset *token.FileSet, e ast.Node) string {
	var buf bytes.Buffer
	printer.Fprint(&buf, fset, e)
	return strings.Join(strings.Fields(buf.String()), "")
}

// genSerializeFacts extracts, from transport/serialize:
//   - how each Deserialize method obtains the list: `v, err := decodeList(data, h)` (and then
//     decodeList must decode into `any` and insist on `[]any`), or decoding straight into a
//     `[]any` (which makes the codec flatten a top-level map);
//   - the condition guarding the Convert branch of listToMsg: bare `ConvertibleTo`, or
//     additionally `(f.Kind() != reflect.String || arg.Kind() == reflect.String)`.
//
// Any other shape is a loud failure.
func genSerializeFacts(repo string, b *strings.Builder) error {
	dir := filepath.Join(repo, "transport", "serialize")
	type top struct{ recv, how string }
	var tops []top
	decodeListChecked := false
	sawDecodeList := false
	guard := ""
	for _, fn := range []string{"serializer.go", "jsonserializer.go", "msgpackserializer.go", "cborserializer.go"} {
		fset, f, err := parseFile(filepath.Join(dir, fn))
		if err != nil {
			return err
		}
		pos := func(p token.Pos) string { return fset.Position(p).String() }
		for _, d := range f.Decls {
			fd, ok := d.(*ast.FuncDecl)
			if !ok || fd.Body == nil {
				continue
			}
			switch {
			case fd.Recv != nil && fd.Name.Name == "Deserialize":
				rt := fd.Recv.List[0].Type
				if se, ok := rt.(*ast.StarExpr); ok {
					rt = se.X
				}
				rid, ok := rt.(*ast.Ident)
				if !ok || len(fd.Body.List) < 2 {
					return fmt.Errorf("%s: Deserialize: receiver/body not understood", pos(fd.Pos()))
				}
				s0 := schemaExprText(fset, fd.Body.List[0])
				s1 := schemaExprText(fset, fd.Body.List[1])
				switch {
				case strings.HasPrefix(s0, "v,err:=decodeList(data,") && strings.HasSuffix(s0, ")"):
					tops = append(tops, top{rid.Name, "listChecked"})
				case s0 == "varv[]any" && strings.HasPrefix(s1, "err:=codec.NewDecoderBytes(data,") && strings.HasSuffix(s1, ").Decode(&v)"):
					tops = append(tops, top{rid.Name, "intoSlice"})
				default:
					return fmt.Errorf("%s: %s.Deserialize: the way the payload is decoded is not understood (%s; %s)", pos(fd.Pos()), rid.Name, s0, s1)
				}
				// the rest must go through listToMsg on the same v
				body := schemaExprText(fset, fd.Body)
				if !strings.Contains(body, "iflen(v)==0{returnnil,errors.New(\"invalidmessage\")}") || !strings.HasSuffix(body, ",v)}") || !strings.Contains(body, "returnlistToMsg(wamp.MessageType(typ),v)") {
					return fmt.Errorf("%s: %s.Deserialize: body after decoding not understood", pos(fd.Pos()), rid.Name)
				}
			case fd.Recv == nil && fd.Name.Name == "decodeList":
				sawDecodeList = true
				want := "{varvanyiferr:=codec.NewDecoderBytes(data,h).Decode(&v);err!=nil{returnnil,err}list,ok:=v.([]any)if!ok{returnnil,errors.New(\"invalidmessage:notalist\")}returnlist,nil}"
				if got := schemaExprText(fset, fd.Body); got != want {
					return fmt.Errorf("%s: decodeList: body not understood: %s", pos(fd.Pos()), got)
				}
				decodeListChecked = true
			case fd.Recv == nil && fd.Name.Name == "listToMsg":
				var found []string
				ast.Inspect(fd.Body, func(n ast.Node) bool {
					is, ok := n.(*ast.IfStmt)
					if !ok {
						return true
					}
					c := schemaExprText(fset, is.Cond)
					if strings.Contains(c, "ConvertibleTo(") {
						found = append(found, c)
					}
					return true
				})
				if len(found) != 1 {
					return fmt.Errorf("%s: listToMsg: expected exactly one ConvertibleTo condition, found %d", pos(fd.Pos()), len(found))
				}
				switch found[0] {
				case "arg.Type().ConvertibleTo(f.Type())":
					guard = "unguarded"
				case "arg.Type().ConvertibleTo(f.Type())&&(f.Kind()!=reflect.String||arg.Kind()==reflect.String)":
					guard = "stringFromStringOnly"
				default:
					return fmt.Errorf("%s: listToMsg: conversion condition not understood: %s", pos(fd.Pos()), found[0])
				}
			}
		}
	}
	if len(tops) != 3 {
		return fmt.Errorf("transport/serialize: expected 3 Deserialize methods, found %d", len(tops))
	}
	for _, t := range tops {
		if t.how == "listChecked" && !(sawDecodeList && decodeListChecked) {
			return fmt.Errorf("transport/serialize: %s.Deserialize calls decodeList, which was not found", t.recv)
		}
	}
	if guard == "" {
		return fmt.Errorf("transport/serialize: listToMsg not found")
	}
	sort.Slice(tops, func(i, j int) bool { return tops[i].recv < tops[j].recv })
	b.WriteString("/-- How a `Deserialize` method turns the payload into the list handed to `listToMsg`. -/\n")
	b.WriteString("inductive TopDecode where\n  | intoSlice    -- `var v []any; Decode(&v)`: the codec also accepts (flattens) a top-level map\n  | listChecked  -- `decodeList`: decode into `any`, then insist on `[]any`\n  deriving DecidableEq, Repr, Inhabited\n\n")
	b.WriteString("def topLevelDecode : List (String × TopDecode) := [\n")
	for i, t := range tops {
		fmt.Fprintf(b, "  (%s, .%s)%s\n", leanStr(t.recv), t.how, comma(i, len(tops)))
	}
	b.WriteString("]\n\n")
	b.WriteString("/-- The condition on the `Convert` branch of `listToMsg`. -/\n")
	b.WriteString("inductive ConvertGuard where\n  | unguarded             -- `arg.Type().ConvertibleTo(f.Type())`\n  | stringFromStringOnly  -- `... && (f.Kind() != reflect.String || arg.Kind() == reflect.String)`\n  deriving DecidableEq, Repr, Inhabited\n\n")
	fmt.Fprintf(b, "def convertGuard : ConvertGuard := .%s\n\n", guard)
	return nil
}
