package main

// Target "ids" (G1 + G5 for C19): regenerate lean/Nexus/Gen/Ids.lean from
// wamp/idgen.go, wamp/session.go, wamp/convert.go and wamp/identifier.go:
//
//   - constants MaxID (1 << 53) and deltaID (ID(500));
//   - IDGen.Next, Session.IsNewRecvID, Session.UpdateLastRecvIDLocked translated
//     statement by statement into Lean over UInt64 (Go's uint64, wrapping);
//   - the range test of AsID over Int64, and the expression of GlobalID with the
//     random source as a parameter;
//   - sha256 hashes of the gofmt-normalised text of each function involved.
//
// The translator is deliberately tiny. It knows: integer literals, named integer
// constants, true/false, locals, receiver fields, parentheses, + -, comparisons,
// && ||, conversions between uint64 / ID / int64, a call of an already translated
// method on the same receiver; statements: x++, x = e, x := e, if without
// else/init, return. Everything else is an error.

import (
	"fmt"
	"go/ast"
	"go/parser"
	"go/token"
	"path/filepath"
	"strconv"
	"strings"
)

func init() { targets["ids"] = genIDs }

type idsConst struct {
	val   uint64
	typ   string // "untyped", "u64", "i64"
	src   string
	useAs map[string]bool
}

type idsFunc struct {
	lean   string   // Lean name
	fields []string // receiver fields read (Go field names), in parameter order
	params []string
}

type idsTr struct {
	fset   *token.FileSet
	consts map[string]*idsConst
	order  []string          // constant names in emission order
	types  map[string]string // named Go types -> "u64"/"i64"
	funcs  map[string]*idsFunc

	// per function
	recv    string
	recvT   string
	fields  map[string]string // field -> type of the receiver struct
	vars    map[string]string // lean var -> type
	used    []string          // receiver fields used, order of first use
	written map[string]bool   // receiver fields assigned
	mut     bool              // second pass: returns carry the written fields
	rparam  string            // GlobalID: name of the call replaced by the parameter r
	rbound  string
}

func (t *idsTr) errf(n ast.Node, format string, a ...any) error {
	return fmt.Errorf("%s: %s: %s", t.fset.Position(n.Pos()), fmt.Sprintf(format, a...), c19ExprString(t.fset, n))
}

func leanType(ty string) string {
	switch ty {
	case "u64":
		return "UInt64"
	case "i64":
		return "Int64"
	case "bool":
		return "Bool"
	}
	return "?" + ty
}

func (t *idsTr) goType(e ast.Expr) (string, bool) {
	id, ok := e.(*ast.Ident)
	if !ok {
		return "", false
	}
	switch id.Name {
	case "uint64":
		return "u64", true
	case "int64":
		return "i64", true
	case "bool":
		return "bool", true
	}
	ty, ok := t.types[id.Name]
	return ty, ok
}

// evalConst evaluates a constant integer expression.
func (t *idsTr) evalConst(e ast.Expr) (uint64, string, error) {
	switch x := e.(type) {
	case *ast.BasicLit:
		if x.Kind == token.INT {
			v, err := strconv.ParseUint(x.Value, 0, 64)
			if err != nil {
				return 0, "", t.errf(e, "integer literal out of range")
			}
			return v, "untyped", nil
		}
	case *ast.ParenExpr:
		return t.evalConst(x.X)
	case *ast.Ident:
		if c, ok := t.consts[x.Name]; ok {
			return c.val, c.typ, nil
		}
	case *ast.BinaryExpr:
		a, at, err := t.evalConst(x.X)
		if err != nil {
			return 0, "", err
		}
		b, bt, err := t.evalConst(x.Y)
		if err != nil {
			return 0, "", err
		}
		if x.Op == token.SHL && at == "untyped" && bt == "untyped" && b < 63 && a <= (1<<63-1)>>b {
			return a << b, "untyped", nil
		}
	case *ast.CallExpr:
		if ty, ok := t.goType(x.Fun); ok && len(x.Args) == 1 && ty != "bool" {
			v, _, err := t.evalConst(x.Args[0])
			if err != nil {
				return 0, "", err
			}
			if ty == "i64" && v > 1<<63-1 {
				return 0, "", t.errf(e, "constant overflows int64")
			}
			return v, ty, nil
		}
	}
	return 0, "", t.errf(e, "unsupported constant expression")
}

func (t *idsTr) addConst(f *ast.File, name string) error {
	for _, d := range f.Decls {
		gd, ok := d.(*ast.GenDecl)
		if !ok || gd.Tok != token.CONST {
			continue
		}
		for _, sp := range gd.Specs {
			vs := sp.(*ast.ValueSpec)
			for i, n := range vs.Names {
				if n.Name != name {
					continue
				}
				if i >= len(vs.Values) {
					return fmt.Errorf("constant %s has no value expression", name)
				}
				v, ty, err := t.evalConst(vs.Values[i])
				if err != nil {
					return err
				}
				if vs.Type != nil {
					gt, ok := t.goType(vs.Type)
					if !ok || gt == "bool" {
						return t.errf(vs.Type, "unsupported constant type")
					}
					ty = gt
				}
				t.consts[name] = &idsConst{val: v, typ: ty, src: c19ExprString(t.fset, vs.Values[i]), useAs: map[string]bool{}}
				t.order = append(t.order, name)
				return nil
			}
		}
	}
	return fmt.Errorf("constant %s not found", name)
}

// constAs renders constant `name` at type ty.
func (t *idsTr) constAs(n ast.Node, name, ty string) (string, error) {
	c := t.consts[name]
	if c.typ != "untyped" && c.typ != ty {
		return "", t.errf(n, "constant %s of type %s used at type %s", name, c.typ, ty)
	}
	if ty == "i64" && c.val > 1<<63-1 {
		return "", t.errf(n, "constant overflows int64")
	}
	c.useAs[ty] = true
	return name + "_" + ty, nil
}

type idsExpr struct {
	s     string
	ty    string // u64 i64 bool untyped
	cname string // set when the expression is a bare named constant
	lit   bool
}

// at coerces an untyped constant expression to ty.
func (t *idsTr) at(n ast.Node, e idsExpr, ty string) (string, error) {
	if e.ty == ty {
		return e.s, nil
	}
	if e.ty == "untyped" && (ty == "u64" || ty == "i64") {
		if e.cname != "" {
			return t.constAs(n, e.cname, ty)
		}
		if e.lit {
			return fmt.Sprintf("(%s : %s)", e.s, leanType(ty)), nil
		}
	}
	return "", t.errf(n, "type mismatch (%s used as %s)", e.ty, ty)
}

func (t *idsTr) fieldVar(field string) string { return t.recv + "_" + field }

func (t *idsTr) expr(e ast.Expr) (idsExpr, error) {
	switch x := e.(type) {
	case *ast.BasicLit:
		if x.Kind != token.INT {
			break
		}
		v, err := strconv.ParseUint(x.Value, 0, 64)
		if err != nil {
			return idsExpr{}, t.errf(e, "integer literal out of range")
		}
		return idsExpr{s: strconv.FormatUint(v, 10), ty: "untyped", lit: true}, nil
	case *ast.ParenExpr:
		in, err := t.expr(x.X)
		if err != nil {
			return idsExpr{}, err
		}
		return in, nil // every compound expression is emitted parenthesised already
	case *ast.Ident:
		switch x.Name {
		case "true", "false":
			return idsExpr{s: x.Name, ty: "bool"}, nil
		}
		if ty, ok := t.vars[x.Name]; ok {
			return idsExpr{s: x.Name, ty: ty}, nil
		}
		if c, ok := t.consts[x.Name]; ok {
			if c.typ == "untyped" {
				return idsExpr{s: x.Name, ty: "untyped", cname: x.Name}, nil
			}
			s, err := t.constAs(e, x.Name, c.typ)
			return idsExpr{s: s, ty: c.typ}, err
		}
	case *ast.SelectorExpr:
		if r, ok := x.X.(*ast.Ident); ok && r.Name == t.recv && t.recv != "" {
			if ty, ok := t.fields[x.Sel.Name]; ok {
				t.useField(x.Sel.Name)
				return idsExpr{s: t.fieldVar(x.Sel.Name), ty: ty}, nil
			}
		}
	case *ast.BinaryExpr:
		return t.binary(x)
	case *ast.CallExpr:
		return t.call(x)
	}
	return idsExpr{}, t.errf(e, "unsupported expression")
}

func (t *idsTr) useField(f string) {
	for _, u := range t.used {
		if u == f {
			return
		}
	}
	t.used = append(t.used, f)
}

func (t *idsTr) binary(x *ast.BinaryExpr) (idsExpr, error) {
	a, err := t.expr(x.X)
	if err != nil {
		return idsExpr{}, err
	}
	b, err := t.expr(x.Y)
	if err != nil {
		return idsExpr{}, err
	}
	switch x.Op {
	case token.LAND, token.LOR:
		if a.ty != "bool" || b.ty != "bool" {
			return idsExpr{}, t.errf(x, "non-boolean operand")
		}
		op := map[token.Token]string{token.LAND: "&&", token.LOR: "||"}[x.Op]
		return idsExpr{s: fmt.Sprintf("(%s %s %s)", a.s, op, b.s), ty: "bool"}, nil
	}
	// numeric: find the common type
	ty := a.ty
	if ty == "untyped" {
		ty = b.ty
	}
	if ty != "u64" && ty != "i64" {
		return idsExpr{}, t.errf(x, "operands must have type uint64/ID or int64 (constant folding is not supported)")
	}
	as, err := t.at(x.X, a, ty)
	if err != nil {
		return idsExpr{}, err
	}
	bs, err := t.at(x.Y, b, ty)
	if err != nil {
		return idsExpr{}, err
	}
	switch x.Op {
	case token.ADD, token.SUB:
		// UInt64 / Int64 arithmetic in Lean wraps exactly like Go's.
		return idsExpr{s: fmt.Sprintf("(%s %s %s)", as, x.Op, bs), ty: ty}, nil
	case token.EQL:
		return idsExpr{s: fmt.Sprintf("(%s == %s)", as, bs), ty: "bool"}, nil
	case token.NEQ:
		return idsExpr{s: fmt.Sprintf("(%s != %s)", as, bs), ty: "bool"}, nil
	case token.LSS, token.GTR:
		return idsExpr{s: fmt.Sprintf("decide (%s %s %s)", as, x.Op, bs), ty: "bool"}, nil
	case token.LEQ:
		return idsExpr{s: fmt.Sprintf("decide (%s ≤ %s)", as, bs), ty: "bool"}, nil
	case token.GEQ:
		return idsExpr{s: fmt.Sprintf("decide (%s ≥ %s)", as, bs), ty: "bool"}, nil
	}
	return idsExpr{}, t.errf(x, "unsupported operator %s", x.Op)
}

func (t *idsTr) call(x *ast.CallExpr) (idsExpr, error) {
	// conversion
	if ty, ok := t.goType(x.Fun); ok && ty != "bool" && len(x.Args) == 1 {
		in, err := t.expr(x.Args[0])
		if err != nil {
			return idsExpr{}, err
		}
		switch {
		case in.ty == "untyped":
			s, err := t.at(x, in, ty)
			return idsExpr{s: s, ty: ty}, err
		case in.ty == ty:
			return idsExpr{s: in.s, ty: ty}, nil
		case in.ty == "i64" && ty == "u64":
			return idsExpr{s: fmt.Sprintf("(Int64.toUInt64 %s)", in.s), ty: ty}, nil
		case in.ty == "u64" && ty == "i64":
			return idsExpr{s: fmt.Sprintf("(UInt64.toInt64 %s)", in.s), ty: ty}, nil
		}
		return idsExpr{}, t.errf(x, "unsupported conversion")
	}
	// the random source of GlobalID
	if id, ok := x.Fun.(*ast.Ident); ok && t.rparam != "" && id.Name == t.rparam && len(x.Args) == 1 {
		if t.rbound != "" {
			return idsExpr{}, t.errf(x, "second call of %s", t.rparam)
		}
		v, _, err := t.evalConst(x.Args[0])
		if err != nil {
			return idsExpr{}, err
		}
		t.rbound = strconv.FormatUint(v, 10)
		return idsExpr{s: "r", ty: "i64"}, nil
	}
	// already translated method on the same receiver
	if sel, ok := x.Fun.(*ast.SelectorExpr); ok {
		if r, ok := sel.X.(*ast.Ident); ok && r.Name == t.recv && t.recv != "" {
			if fn, ok := t.funcs[t.recvT+"."+sel.Sel.Name]; ok && len(x.Args) == len(fn.params) {
				parts := []string{fn.lean}
				for _, f := range fn.fields {
					t.useField(f)
					parts = append(parts, t.fieldVar(f))
				}
				for _, a := range x.Args {
					id, ok := a.(*ast.Ident)
					if !ok {
						return idsExpr{}, t.errf(a, "only plain variables as call arguments")
					}
					if _, ok := t.vars[id.Name]; !ok {
						return idsExpr{}, t.errf(a, "unknown variable")
					}
					parts = append(parts, id.Name)
				}
				return idsExpr{s: "(" + strings.Join(parts, " ") + ")", ty: "bool"}, nil
			}
		}
	}
	return idsExpr{}, t.errf(x, "unsupported call")
}

// lhs resolves an assignable: local variable or receiver field.
func (t *idsTr) lhs(e ast.Expr, define bool, ty string) (string, string, error) {
	switch x := e.(type) {
	case *ast.Ident:
		if define {
			if _, ok := t.consts[x.Name]; ok {
				return "", "", t.errf(e, "local shadows a constant")
			}
			t.vars[x.Name] = ty
			return x.Name, ty, nil
		}
		if vt, ok := t.vars[x.Name]; ok {
			return x.Name, vt, nil
		}
	case *ast.SelectorExpr:
		if r, ok := x.X.(*ast.Ident); ok && r.Name == t.recv && t.recv != "" && !define {
			if ft, ok := t.fields[x.Sel.Name]; ok {
				t.useField(x.Sel.Name)
				t.written[x.Sel.Name] = true
				return t.fieldVar(x.Sel.Name), ft, nil
			}
		}
	}
	return "", "", t.errf(e, "unsupported assignment target")
}

// simple translates x++, x = e, x := e into (leanVar, leanExpr).
func (t *idsTr) simple(s ast.Stmt) (string, string, bool, error) {
	switch x := s.(type) {
	case *ast.IncDecStmt:
		if x.Tok != token.INC {
			return "", "", true, t.errf(s, "unsupported statement")
		}
		v, ty, err := t.lhs(x.X, false, "")
		if err != nil {
			return "", "", true, err
		}
		if ty != "u64" && ty != "i64" {
			return "", "", true, t.errf(s, "++ on non-integer")
		}
		return v, fmt.Sprintf("(%s + 1)", v), true, nil
	case *ast.AssignStmt:
		if len(x.Lhs) != 1 || len(x.Rhs) != 1 || (x.Tok != token.ASSIGN && x.Tok != token.DEFINE) {
			return "", "", true, t.errf(s, "unsupported assignment")
		}
		r, err := t.expr(x.Rhs[0])
		if err != nil {
			return "", "", true, err
		}
		if x.Tok == token.DEFINE {
			if r.ty == "untyped" {
				return "", "", true, t.errf(s, "untyped constant in := is not supported")
			}
			v, _, err := t.lhs(x.Lhs[0], true, r.ty)
			return v, r.s, true, err
		}
		v, ty, err := t.lhs(x.Lhs[0], false, "")
		if err != nil {
			return "", "", true, err
		}
		rs, err := t.at(x.Rhs[0], r, ty)
		return v, rs, true, err
	}
	return "", "", false, nil
}

func endsInReturn(list []ast.Stmt) bool {
	if len(list) == 0 {
		return false
	}
	_, ok := list[len(list)-1].(*ast.ReturnStmt)
	return ok
}

// stmts translates a return-terminated statement list into a Lean term.
func (t *idsTr) stmts(list []ast.Stmt, ind string, retTy string) (string, error) {
	if len(list) == 0 {
		return "", fmt.Errorf("a path falls off the end of the function without return")
	}
	s := list[0]
	if v, e, ok, err := t.simple(s); ok {
		if err != nil {
			return "", err
		}
		rest, err := t.stmts(list[1:], ind, retTy)
		if err != nil {
			return "", err
		}
		return fmt.Sprintf("let %s := %s\n%s%s", v, e, ind, rest), nil
	}
	switch x := s.(type) {
	case *ast.ReturnStmt:
		if len(list) != 1 {
			return "", t.errf(s, "statements after return")
		}
		if len(x.Results) != 1 {
			return "", t.errf(s, "return must have exactly one result")
		}
		r, err := t.expr(x.Results[0])
		if err != nil {
			return "", err
		}
		rs, err := t.at(x.Results[0], r, retTy)
		if err != nil {
			return "", err
		}
		if t.mut {
			parts := []string{}
			for _, f := range t.used {
				if t.written[f] {
					parts = append(parts, t.fieldVar(f))
				}
			}
			return fmt.Sprintf("(%s, %s)", strings.Join(parts, ", "), rs), nil
		}
		return rs, nil
	case *ast.IfStmt:
		if x.Init != nil || x.Else != nil {
			return "", t.errf(s, "if with init or else is not supported")
		}
		c, err := t.expr(x.Cond)
		if err != nil {
			return "", err
		}
		if c.ty != "bool" {
			return "", t.errf(x.Cond, "non-boolean condition")
		}
		if endsInReturn(x.Body.List) {
			saved := t.snapshotVars()
			th, err := t.stmts(x.Body.List, ind+"  ", retTy)
			if err != nil {
				return "", err
			}
			t.vars = saved
			el, err := t.stmts(list[1:], ind, retTy)
			if err != nil {
				return "", err
			}
			return fmt.Sprintf("if %s then\n%s  %s\n%selse\n%s%s", c.s, ind, th, ind, ind, el), nil
		}
		// no return inside: exactly one simple assignment to an existing variable
		if len(x.Body.List) != 1 {
			return "", t.errf(s, "if-body without return must be a single assignment")
		}
		if as, ok := x.Body.List[0].(*ast.AssignStmt); ok && as.Tok == token.DEFINE {
			return "", t.errf(s, ":= inside a conditional body is not supported")
		}
		v, e, ok, err := t.simple(x.Body.List[0])
		if err != nil {
			return "", err
		}
		if !ok {
			return "", t.errf(s, "if-body without return must be a single assignment")
		}
		rest, err := t.stmts(list[1:], ind, retTy)
		if err != nil {
			return "", err
		}
		return fmt.Sprintf("let %s := if %s then %s else %s\n%s%s", v, c.s, e, v, ind, rest), nil
	}
	return "", t.errf(s, "unsupported statement")
}

func (t *idsTr) snapshotVars() map[string]string {
	m := map[string]string{}
	for k, v := range t.vars {
		m[k] = v
	}
	return m
}

func c19StructFields(t *idsTr, f *ast.File, name string) (map[string]string, error) {
	for _, d := range f.Decls {
		gd, ok := d.(*ast.GenDecl)
		if !ok || gd.Tok != token.TYPE {
			continue
		}
		for _, sp := range gd.Specs {
			ts := sp.(*ast.TypeSpec)
			st, ok := ts.Type.(*ast.StructType)
			if !ok || ts.Name.Name != name {
				continue
			}
			m := map[string]string{}
			for _, fl := range st.Fields.List {
				if ty, ok := t.goType(fl.Type); ok {
					for _, n := range fl.Names {
						m[n.Name] = ty
					}
				}
			}
			return m, nil
		}
	}
	return nil, fmt.Errorf("struct type %s not found", name)
}

// method translates a method into a Lean definition. Receiver fields that are
// read become leading parameters; if fields are written the result is the tuple
// (written fields..., return value).
func (t *idsTr) method(f *ast.File, recvT, name, lean string) (string, error) {
	fd := c19FindFunc(f, recvT, name)
	if fd == nil || fd.Body == nil {
		return "", fmt.Errorf("method %s.%s not found", recvT, name)
	}
	fields, err := c19StructFields(t, f, recvT)
	if err != nil {
		return "", err
	}
	if len(fd.Recv.List[0].Names) != 1 {
		return "", fmt.Errorf("%s.%s: unnamed receiver", recvT, name)
	}
	if fd.Type.Results == nil || len(fd.Type.Results.List) != 1 || len(fd.Type.Results.List[0].Names) > 0 {
		return "", fmt.Errorf("%s.%s: exactly one unnamed result expected", recvT, name)
	}
	retTy, ok := t.goType(fd.Type.Results.List[0].Type)
	if !ok {
		return "", t.errf(fd.Type.Results.List[0].Type, "unsupported result type")
	}
	var params [][2]string
	for _, fl := range fd.Type.Params.List {
		ty, ok := t.goType(fl.Type)
		if !ok {
			return "", t.errf(fl.Type, "unsupported parameter type")
		}
		for _, n := range fl.Names {
			params = append(params, [2]string{n.Name, ty})
		}
	}
	var body string
	// two passes: the first finds out which fields are read / written.
	for pass := 0; pass < 2; pass++ {
		t.recv, t.recvT, t.fields = fd.Recv.List[0].Names[0].Name, recvT, fields
		t.vars = map[string]string{}
		for _, p := range params {
			t.vars[p[0]] = p[1]
		}
		if pass == 0 {
			t.used, t.written, t.mut = nil, map[string]bool{}, false
		} else {
			t.mut = len(t.written) > 0
		}
		body, err = t.stmts(fd.Body.List, "  ", retTy)
		if err != nil {
			return "", fmt.Errorf("%s.%s: %v", recvT, name, err)
		}
	}
	var sig []string
	fn := &idsFunc{lean: lean}
	for _, fld := range t.used {
		sig = append(sig, fmt.Sprintf("(%s : %s)", t.fieldVar(fld), leanType(fields[fld])))
		fn.fields = append(fn.fields, fld)
	}
	for _, p := range params {
		sig = append(sig, fmt.Sprintf("(%s : %s)", p[0], leanType(p[1])))
		fn.params = append(fn.params, p[0])
	}
	res := leanType(retTy)
	if t.mut {
		var parts []string
		for _, fld := range t.used {
			if t.written[fld] {
				parts = append(parts, leanType(fields[fld]))
			}
		}
		res = strings.Join(append(parts, res), " × ")
	}
	t.funcs[recvT+"."+name] = fn
	doc := fmt.Sprintf("/-- `func (%s %s) %s` translated statement by statement", t.recv, c19ExprString(t.fset, fd.Recv.List[0].Type), name)
	if t.mut {
		doc += ";\n    result = (new values of the receiver fields written, return value)"
	}
	doc += ". -/\n"
	return fmt.Sprintf("%sdef %s %s : %s :=\n  %s\n\n", doc, lean, strings.Join(sig, " "), res, body), nil
}

func genIDs(repo, out string) error {
	fset, fIdgen, err := parseFile(filepath.Join(repo, "wamp", "idgen.go"))
	if err != nil {
		return err
	}
	// all files share one idsTr; positions are only used in error messages, so
	// re-parse the others into the same FileSet.
	parse := func(name string) (*ast.File, error) {
		return parser.ParseFile(fset, filepath.Join(repo, "wamp", name), nil, parser.ParseComments)
	}
	fSession, err := parse("session.go")
	if err != nil {
		return err
	}
	fConvert, err := parse("convert.go")
	if err != nil {
		return err
	}
	fIdent, err := parse("identifier.go")
	if err != nil {
		return err
	}
	t := &idsTr{fset: fset, consts: map[string]*idsConst{}, types: map[string]string{}, funcs: map[string]*idsFunc{}}

	// type ID uint64
	found := false
	for _, d := range fIdent.Decls {
		if gd, ok := d.(*ast.GenDecl); ok && gd.Tok == token.TYPE {
			for _, sp := range gd.Specs {
				ts := sp.(*ast.TypeSpec)
				if ts.Name.Name == "ID" {
					if id, ok := ts.Type.(*ast.Ident); !ok || id.Name != "uint64" {
						return fmt.Errorf("type ID is no longer uint64: %s", c19ExprString(fset, ts))
					}
					found = true
				}
			}
		}
	}
	if !found {
		return fmt.Errorf("type ID not found in wamp/identifier.go")
	}
	t.types["ID"] = "u64"

	if err := t.addConst(fIdgen, "MaxID"); err != nil {
		return err
	}
	if err := t.addConst(fSession, "deltaID"); err != nil {
		return err
	}

	var defs strings.Builder

	s, err := t.method(fIdgen, "IDGen", "Next", "idGenNext")
	if err != nil {
		return err
	}
	defs.WriteString(s)
	s, err = t.method(fSession, "Session", "IsNewRecvID", "isNewRecvID")
	if err != nil {
		return err
	}
	defs.WriteString(s)
	s, err = t.method(fSession, "Session", "UpdateLastRecvIDLocked", "updateLastRecvID")
	if err != nil {
		return err
	}
	defs.WriteString(s)

	// AsID: if i64, ok := AsInt64(v); ok { if COND { return ID(i64), true } }; return ID(0), false
	s, err = t.asID(fConvert)
	if err != nil {
		return err
	}
	defs.WriteString(s)

	// AsInt64: the type switch, case by case (the conversions themselves are hand-modelled in
	// Nexus.Ids.asInt64; a theorem pins this table).
	s, err = t.asInt64Cases(fConvert)
	if err != nil {
		return err
	}
	defs.WriteString(s)

	// GlobalID: return <expr over secureInt63n(N)>
	s, err = t.globalID(fIdgen)
	if err != nil {
		return err
	}
	defs.WriteString(s)

	var b strings.Builder
	b.WriteString("/-\n  GENERATED by `gen ids` from wamp/idgen.go, wamp/session.go, wamp/convert.go — do not edit.\n")
	b.WriteString("  Regenerated by bin/check on every run; the id theorems of Nexus.Props.C19 are stated over\n  these definitions.  Go uint64 / wamp.ID = UInt64 and int64 = Int64 (both wrap as in Go).\n-/\n")
	b.WriteString("namespace Nexus.Gen\n\n")
	for _, name := range t.order {
		c := t.consts[name]
		fmt.Fprintf(&b, "/-- `const %s = %s` -/\ndef %s : Nat := %d\n", name, c.src, name, c.val)
		for _, ty := range []string{"u64", "i64"} {
			if c.useAs[ty] {
				fmt.Fprintf(&b, "def %s_%s : %s := %d\n", name, ty, leanType(ty), c.val)
			}
		}
		b.WriteString("\n")
	}
	b.WriteString(defs.String())

	type hf struct {
		f          *ast.File
		recv, name string
	}
	for _, h := range []hf{
		{fIdgen, "IDGen", "Next"}, {fIdgen, "", "GlobalID"}, {fIdgen, "", "secureInt63n"},
		{fSession, "Session", "IsNewRecvID"}, {fSession, "Session", "UpdateLastRecvIDLocked"},
		{fSession, "Session", "UpdateLastRecvID"}, {fConvert, "", "AsID"}, {fConvert, "", "AsInt64"},
	} {
		fd := c19FindFunc(h.f, h.recv, h.name)
		if fd == nil {
			return fmt.Errorf("function %s %s not found", h.recv, h.name)
		}
		sum, err := c19FuncHash(fset, fd)
		if err != nil {
			return err
		}
		n := h.name
		if h.recv != "" {
			n = h.recv + "_" + h.name
		}
		fmt.Fprintf(&b, "def hash_%s : String := %s\n\n", n, leanStr(sum))
	}
	// The id generator of a session is shared by every goroutine that uses the client API
	// (request ids) and by the dealer (invocation ids): it must be the mutex-protected one.
	sessGen := ""
	ast.Inspect(fSession, func(n ast.Node) bool {
		ts, ok := n.(*ast.TypeSpec)
		if !ok || ts.Name.Name != "Session" {
			return true
		}
		if st, ok := ts.Type.(*ast.StructType); ok {
			for _, fld := range st.Fields.List {
				for _, nm := range fld.Names {
					if nm.Name == "IDGen" {
						sessGen = c19ExprString(fset, fld.Type)
					}
				}
			}
		}
		return false
	})
	var syncShape []string
	if fd := c19FindFunc(fIdgen, "SyncIDGen", "Next"); fd != nil && fd.Body != nil {
		for _, st := range fd.Body.List {
			switch x := st.(type) {
			case *ast.ExprStmt:
				syncShape = append(syncShape, c19ExprString(fset, x.X))
			case *ast.DeferStmt:
				syncShape = append(syncShape, "defer "+c19ExprString(fset, x.Call))
			case *ast.ReturnStmt:
				if len(x.Results) == 1 {
					syncShape = append(syncShape, "return "+c19ExprString(fset, x.Results[0]))
				} else {
					syncShape = append(syncShape, "return ?")
				}
			default:
				syncShape = append(syncShape, "?")
			}
		}
	}
	fmt.Fprintf(&b, "/-- the type of the field `IDGen` of `wamp.Session` -/\ndef sessionIDGenType : String := %s\n\n", leanStr(sessGen))
	rows := make([]string, len(syncShape))
	for i, x := range syncShape {
		rows[i] = leanStr(x)
	}
	fmt.Fprintf(&b, "/-- the statements of `(*SyncIDGen).Next` -/\ndef syncIDGenNext : List String := [%s]\n\n", strings.Join(rows, ", "))
	b.WriteString("end Nexus.Gen\n")
	return writeIfChanged(filepath.Join(out, "Ids.lean"), []byte(b.String()))
}

func (t *idsTr) asID(f *ast.File) (string, error) {
	fd := c19FindFunc(f, "", "AsID")
	if fd == nil || fd.Body == nil {
		return "", fmt.Errorf("function AsID not found")
	}
	bad := func(why string) error {
		return fmt.Errorf("AsID no longer has the shape `if i64, ok := AsInt64(v); ok { if COND { return ID(i64), true } }; return ID(0), false` (%s): %s",
			why, c19ExprString(t.fset, fd.Body))
	}
	if len(fd.Body.List) != 2 {
		return "", bad("statement count")
	}
	outer, ok := fd.Body.List[0].(*ast.IfStmt)
	if !ok || outer.Init == nil || outer.Else != nil || len(outer.Body.List) != 1 {
		return "", bad("outer if")
	}
	as, ok := outer.Init.(*ast.AssignStmt)
	if !ok || as.Tok != token.DEFINE || len(as.Lhs) != 2 || len(as.Rhs) != 1 {
		return "", bad("init")
	}
	v, ok1 := as.Lhs[0].(*ast.Ident)
	okv, ok2 := as.Lhs[1].(*ast.Ident)
	if !ok1 || !ok2 {
		return "", bad("init lhs")
	}
	if len(fd.Type.Params.List) != 1 || len(fd.Type.Params.List[0].Names) != 1 {
		return "", bad("parameters")
	}
	param := fd.Type.Params.List[0].Names[0].Name
	if c19ExprString(t.fset, as.Rhs[0]) != "AsInt64("+param+")" {
		return "", bad("init rhs")
	}
	if c, ok := outer.Cond.(*ast.Ident); !ok || c.Name != okv.Name {
		return "", bad("outer condition")
	}
	inner, ok := outer.Body.List[0].(*ast.IfStmt)
	if !ok || inner.Init != nil || inner.Else != nil || len(inner.Body.List) != 1 {
		return "", bad("inner if")
	}
	ret, ok := inner.Body.List[0].(*ast.ReturnStmt)
	if !ok || len(ret.Results) != 2 || c19ExprString(t.fset, ret.Results[1]) != "true" {
		return "", bad("inner return")
	}
	last, ok := fd.Body.List[1].(*ast.ReturnStmt)
	if !ok || len(last.Results) != 2 || c19ExprString(t.fset, last.Results[1]) != "false" {
		return "", bad("final return")
	}
	// AsInt64 must return (int64, bool)
	ai := c19FindFunc(f, "", "AsInt64")
	if ai == nil || ai.Type.Results == nil || len(ai.Type.Results.List) != 2 ||
		c19ExprString(t.fset, ai.Type.Results.List[0].Type) != "int64" {
		return "", fmt.Errorf("AsInt64 no longer returns (int64, bool)")
	}
	t.recv, t.recvT, t.fields, t.mut = "", "", nil, false
	t.vars = map[string]string{v.Name: "i64"}
	c, err := t.expr(inner.Cond)
	if err != nil {
		return "", fmt.Errorf("AsID: %v", err)
	}
	if c.ty != "bool" {
		return "", bad("condition type")
	}
	r, err := t.expr(ret.Results[0])
	if err != nil {
		return "", fmt.Errorf("AsID: %v", err)
	}
	if r.ty != "u64" {
		return "", bad("result type")
	}
	var b strings.Builder
	fmt.Fprintf(&b, "/-- The range test of `AsID`: `%s`. -/\n", c19ExprString(t.fset, inner.Cond))
	fmt.Fprintf(&b, "def asIDInRange (%s : Int64) : Bool :=\n  %s\n\n", v.Name, c.s)
	fmt.Fprintf(&b, "/-- `AsID` after `AsInt64` succeeded with value `%s`: `some id` when accepted. -/\n", v.Name)
	fmt.Fprintf(&b, "def asIDOfInt64 (%s : Int64) : Option UInt64 :=\n  if asIDInRange %s then some %s else none\n\n", v.Name, v.Name, r.s)
	return b.String(), nil
}

// asInt64Cases extracts the type switch of AsInt64 as a table (case type, returned expression).
// Shape required: `switch v := v.(type) { case T: return EXPR, true … }; return 0, false`.
func (t *idsTr) asInt64Cases(f *ast.File) (string, error) {
	fd := c19FindFunc(f, "", "AsInt64")
	if fd == nil || fd.Body == nil {
		return "", fmt.Errorf("function AsInt64 not found")
	}
	bad := func(why string) error {
		return fmt.Errorf("AsInt64 no longer has the shape `switch v := v.(type) { case T: return EXPR, true … }; return 0, false` (%s)", why)
	}
	if len(fd.Body.List) != 2 {
		return "", bad("statement count")
	}
	sw, ok := fd.Body.List[0].(*ast.TypeSwitchStmt)
	if !ok || sw.Init != nil {
		return "", bad("type switch")
	}
	if last, ok := fd.Body.List[1].(*ast.ReturnStmt); !ok || len(last.Results) != 2 ||
		c19ExprString(t.fset, last.Results[0]) != "0" || c19ExprString(t.fset, last.Results[1]) != "false" {
		return "", bad("final return")
	}
	var rows []string
	for _, st := range sw.Body.List {
		cc := st.(*ast.CaseClause)
		if len(cc.List) != 1 || len(cc.Body) != 1 {
			return "", bad("case with several types, default case, or several statements")
		}
		ret, ok := cc.Body[0].(*ast.ReturnStmt)
		if !ok || len(ret.Results) != 2 || c19ExprString(t.fset, ret.Results[1]) != "true" {
			return "", bad("case body")
		}
		rows = append(rows, fmt.Sprintf("(%s, %s)", leanStr(c19ExprString(t.fset, cc.List[0])), leanStr(c19ExprString(t.fset, ret.Results[0]))))
	}
	var b strings.Builder
	fmt.Fprintf(&b, "/-- The type switch `%s` of `AsInt64`: (case type, value returned with `true`);\n    any other dynamic type yields `0, false`. -/\n", c19ExprString(t.fset, sw.Assign))
	fmt.Fprintf(&b, "def asInt64Cases : List (String × String) :=\n  [%s]\n\n", strings.Join(rows, ",\n   "))
	return b.String(), nil
}

func (t *idsTr) globalID(f *ast.File) (string, error) {
	fd := c19FindFunc(f, "", "GlobalID")
	if fd == nil || fd.Body == nil {
		return "", fmt.Errorf("function GlobalID not found")
	}
	if len(fd.Body.List) != 1 {
		return "", fmt.Errorf("GlobalID is no longer a single return statement")
	}
	ret, ok := fd.Body.List[0].(*ast.ReturnStmt)
	if !ok || len(ret.Results) != 1 {
		return "", fmt.Errorf("GlobalID is no longer a single return statement")
	}
	src := c19FindFunc(f, "", "secureInt63n")
	if src == nil || c19ExprString(t.fset, src.Type) != "func(n int64) int64" {
		return "", fmt.Errorf("secureInt63n(n int64) int64 not found")
	}
	t.recv, t.recvT, t.fields, t.mut = "", "", nil, false
	t.vars = map[string]string{}
	t.rparam, t.rbound = "secureInt63n", ""
	r, err := t.expr(ret.Results[0])
	t.rparam = ""
	if err != nil {
		return "", fmt.Errorf("GlobalID: %v", err)
	}
	if r.ty != "u64" || t.rbound == "" {
		return "", fmt.Errorf("GlobalID: expression does not draw from secureInt63n or is not an ID")
	}
	var b strings.Builder
	b.WriteString("/-- `GlobalID` draws `r := secureInt63n(globalIDRandBound)`, documented to lie in `[0, n)`. -/\n")
	fmt.Fprintf(&b, "def globalIDRandBound : Nat := %s\n\n", t.rbound)
	fmt.Fprintf(&b, "/-- `GlobalID`: `%s` with `r` the value drawn. -/\n", c19ExprString(t.fset, ret.Results[0]))
	fmt.Fprintf(&b, "def globalID (r : Int64) : UInt64 :=\n  %s\n\n", r.s)
	return b.String(), nil
}
