package main

// Target "frame": regenerates lean/Nexus/Gen/Frame.lean from
// transport/rawsocketpeer.go.
//
//  1. the integer constants of the file (magic, rawsocketJSON/Msgpack/CBOR,
//     maxFrameLen);
//  2. the four pure functions fitRecvLimit, intToBytes, bytesToInt and
//     byteToLength, translated statement by statement from their AST into Lean
//     over the Go-semantics helpers of Nexus/Frame/GoSem.lean;
//  3. the decisions of sendHandler, recvHandler, serverHandshake and
//     clientHandshake that the hand-written model (Nexus/Frame/*.lean) depends
//     on: every condition is translated by the same expression translator and
//     emitted as a Lean function, every switch as a Lean case table, every
//     handshake reply as a Lean byte list.  The frWalker expects the statements
//     of those functions in the order they have today and fails loudly when it
//     cannot follow the source;
//  4. the sha256 of the gofmt-normalised text of each of those functions.
//
// The translator is deliberately tiny: it knows only the expression and
// statement forms that occur.  Anything else is an error, never a guess.

import (
	"bytes"
	"crypto/sha256"
	"fmt"
	"go/ast"
	"go/format"
	"go/token"
	"go/types"
	"math/big"
	"path/filepath"
	"strings"
)

func init() { targets["frame"] = genFrame }

type frTy string

const (
	frInt     frTy = "int"
	frByte    frTy = "byte"
	frUint    frTy = "uint"
	frBool    frTy = "bool"
	frBytes   frTy = "[]byte"
	frIndex   frTy = "index" // a loop index known to be a valid, non-negative position
	frUntyped frTy = "untyped"
)

func frLeanType(t frTy) string {
	switch t {
	case frInt:
		return "Int"
	case frByte:
		return "UInt8"
	case frUint:
		return "UInt64"
	case frBool:
		return "Bool"
	case frBytes:
		return "List UInt8"
	case frIndex:
		return "Nat"
	}
	return "?"
}

type frBinding struct {
	lean string
	ty   frTy
}

type frameGen struct {
	fset   *token.FileSet
	file   *ast.File
	consts map[string]*big.Int
	order  []string // constant names in source order
	funcs  map[string]*ast.FuncDecl
}

// signatures of the translated pure functions
var frPureSig = map[string]struct {
	params []frTy
	ret    frTy
}{
	"byteToLength": {[]frTy{frByte}, frInt},
	"fitRecvLimit": {[]frTy{frInt}, frByte},
	"intToBytes":   {[]frTy{frInt}, frBytes},
	"bytesToInt":   {[]frTy{frBytes}, frInt},
}

type frEnv struct {
	g    *frameGen
	vars map[string]frBinding // keyed by types.ExprString of the Go expression
}

func (g *frameGen) env() *frEnv { return &frEnv{g: g, vars: map[string]frBinding{}} }

func (x *frEnv) with(goExpr, lean string, ty frTy) *frEnv {
	n := &frEnv{g: x.g, vars: map[string]frBinding{}}
	for k, v := range x.vars {
		n.vars[k] = v
	}
	n.vars[goExpr] = frBinding{lean, ty}
	return n
}

func (g *frameGen) pos(n ast.Node) string { return g.fset.Position(n.Pos()).String() }

func (g *frameGen) errf(n ast.Node, f string, a ...any) error {
	return fmt.Errorf("%s: %s", g.pos(n), fmt.Sprintf(f, a...))
}

func (g *frameGen) src(n ast.Node) string {
	var b bytes.Buffer
	_ = format.Node(&b, g.fset, n)
	return b.String()
}

// ---- constants -----------------------------------------------------------------

// evalConst evaluates an integer constant expression made of literals, named
// constants of the file, parentheses, + - * << >> & | and byte()/int() conversions.
func (g *frameGen) evalConst(e ast.Expr) (*big.Int, bool) {
	switch e := e.(type) {
	case *ast.ParenExpr:
		return g.evalConst(e.X)
	case *ast.BasicLit:
		if e.Kind != token.INT {
			return nil, false
		}
		v, ok := new(big.Int).SetString(e.Value, 0)
		return v, ok
	case *ast.Ident:
		v, ok := g.consts[e.Name]
		return v, ok
	case *ast.CallExpr:
		id, ok := e.Fun.(*ast.Ident)
		if !ok || len(e.Args) != 1 {
			return nil, false
		}
		v, ok := g.evalConst(e.Args[0])
		if !ok {
			return nil, false
		}
		switch id.Name {
		case "byte":
			if v.Sign() < 0 || v.Cmp(big.NewInt(255)) > 0 {
				return nil, false // would not compile in Go either
			}
			return v, true
		case "int":
			return v, true
		}
		return nil, false
	case *ast.BinaryExpr:
		a, ok := g.evalConst(e.X)
		if !ok {
			return nil, false
		}
		b, ok := g.evalConst(e.Y)
		if !ok {
			return nil, false
		}
		r := new(big.Int)
		switch e.Op {
		case token.ADD:
			return r.Add(a, b), true
		case token.SUB:
			return r.Sub(a, b), true
		case token.MUL:
			return r.Mul(a, b), true
		case token.SHL:
			if !b.IsUint64() || b.Uint64() > 200 {
				return nil, false
			}
			return r.Lsh(a, uint(b.Uint64())), true
		case token.SHR:
			if !b.IsUint64() || b.Uint64() > 200 {
				return nil, false
			}
			return r.Rsh(a, uint(b.Uint64())), true
		case token.AND:
			return r.And(a, b), true
		case token.OR:
			return r.Or(a, b), true
		}
	}
	return nil, false
}

func (g *frameGen) collectConsts() error {
	for _, d := range g.file.Decls {
		gd, ok := d.(*ast.GenDecl)
		if !ok || gd.Tok != token.CONST {
			continue
		}
		for _, s := range gd.Specs {
			vs := s.(*ast.ValueSpec)
			if len(vs.Names) != 1 || len(vs.Values) != 1 {
				continue // iota blocks etc.: not ours
			}
			v, ok := g.evalConst(vs.Values[0])
			if !ok {
				continue // non-integer constants (strings, durations)
			}
			g.consts[vs.Names[0].Name] = v
			g.order = append(g.order, vs.Names[0].Name)
		}
	}
	for _, want := range []string{"magic", "rawsocketJSON", "rawsocketMsgpack", "rawsocketCBOR", "maxFrameLen"} {
		if _, ok := g.consts[want]; !ok {
			return fmt.Errorf("constant %s not found in rawsocketpeer.go", want)
		}
	}
	return nil
}

// ---- expressions ---------------------------------------------------------------

func frLit(v *big.Int, want frTy, n ast.Node, g *frameGen) (string, frTy, error) {
	switch want {
	case frUntyped:
		if v.Sign() < 0 {
			return "", "", g.errf(n, "negative untyped constant")
		}
		return v.String(), frUntyped, nil
	case frByte:
		if v.Sign() < 0 || v.Cmp(big.NewInt(255)) > 0 {
			return "", "", g.errf(n, "constant %s overflows byte", v)
		}
	case frUint, frIndex:
		if v.Sign() < 0 {
			return "", "", g.errf(n, "negative constant for unsigned type")
		}
	case frInt:
	default:
		return "", "", g.errf(n, "constant in %s context", want)
	}
	return fmt.Sprintf("(%s : %s)", v.String(), frLeanType(want)), want, nil
}

func frConstRef(name string, want frTy, n ast.Node, g *frameGen) (string, frTy, error) {
	switch want {
	case frUntyped:
		return name, frUntyped, nil
	case frByte:
		if g.consts[name].Cmp(big.NewInt(255)) > 0 {
			return "", "", g.errf(n, "constant %s overflows byte", name)
		}
		return "(UInt8.ofNat " + name + ")", frByte, nil
	case frUint:
		return "(UInt64.ofNat " + name + ")", frUint, nil
	case frInt:
		return "(Int.ofNat " + name + ")", frInt, nil
	}
	return "", "", g.errf(n, "constant %s in %s context", name, want)
}

// exprT translates e and insists on the result type.
func (x *frEnv) exprT(e ast.Expr, want frTy) (string, error) {
	s, t, err := x.expr(e, want)
	if err != nil {
		return "", err
	}
	if t != want {
		return "", x.g.errf(e, "expression %s has type %s, want %s", types.ExprString(e), t, want)
	}
	return s, nil
}

// pair translates the two operands of a binary operator to a common type. An
// untyped constant operand takes the type of the other operand; if both are
// untyped the context type `want` decides.
func (x *frEnv) pair(a, b ast.Expr, want frTy) (string, string, frTy, error) {
	as, at, err := x.expr(a, frUntyped)
	if err != nil {
		return "", "", "", err
	}
	bs, bt, err := x.expr(b, frUntyped)
	if err != nil {
		return "", "", "", err
	}
	switch {
	case at == frUntyped && bt == frUntyped:
		if want == frUntyped {
			return "", "", "", x.g.errf(a, "untyped operands without context")
		}
		at, bt = want, want
		if as, err = x.exprT(a, want); err != nil {
			return "", "", "", err
		}
		if bs, err = x.exprT(b, want); err != nil {
			return "", "", "", err
		}
	case at == frUntyped:
		if as, err = x.exprT(a, bt); err != nil {
			return "", "", "", err
		}
		at = bt
	case bt == frUntyped:
		if bs, err = x.exprT(b, at); err != nil {
			return "", "", "", err
		}
		bt = at
	}
	if at != bt {
		return "", "", "", x.g.errf(a, "mismatched operand types %s and %s", at, bt)
	}
	return as, bs, at, nil
}

func (x *frEnv) expr(e ast.Expr, want frTy) (string, frTy, error) {
	g := x.g
	if p, ok := e.(*ast.ParenExpr); ok {
		return x.expr(p.X, want)
	}
	if b, ok := x.vars[types.ExprString(e)]; ok {
		return b.lean, b.ty, nil
	}
	switch e := e.(type) {
	case *ast.BasicLit:
		if v, ok := g.evalConst(e); ok {
			return frLit(v, want, e, g)
		}
	case *ast.Ident:
		if _, ok := g.consts[e.Name]; ok {
			return frConstRef(e.Name, want, e, g)
		}
	case *ast.CompositeLit:
		at, ok := e.Type.(*ast.ArrayType)
		if !ok || types.ExprString(at.Elt) != "byte" {
			break
		}
		var parts []string
		for _, el := range e.Elts {
			s, err := x.exprT(el, frByte)
			if err != nil {
				return "", "", err
			}
			parts = append(parts, s)
		}
		return "[" + strings.Join(parts, ", ") + "]", frBytes, nil
	case *ast.IndexExpr:
		b, ok := x.vars[types.ExprString(e.X)]
		if !ok || b.ty != frBytes {
			break
		}
		if lv, ok := g.evalConst(e.Index); ok { // constant index of a byte array
			return fmt.Sprintf("(%s.getD %s 0)", b.lean, lv), frByte, nil
		}
		i, err := x.exprT(e.Index, frIndex)
		if err != nil {
			return "", "", err
		}
		return fmt.Sprintf("(%s.getD %s 0)", b.lean, i), frByte, nil
	case *ast.CallExpr:
		id, ok := e.Fun.(*ast.Ident)
		if !ok {
			break
		}
		switch id.Name {
		case "byte", "int", "uint":
			if len(e.Args) != 1 {
				break
			}
			if v, ok := g.evalConst(e); ok {
				return frLit(v, frTy(id.Name), e, g)
			}
			target := frTy(id.Name)
			s, t, err := x.expr(e.Args[0], target)
			if err != nil {
				return "", "", err
			}
			switch {
			case t == target:
				return s, t, nil
			case t == frInt && target == frByte:
				return "(Go.byteOfInt " + s + ")", frByte, nil
			case t == frByte && target == frUint:
				return "(Go.uintOfByte " + s + ")", frUint, nil
			case t == frUint && target == frInt:
				return "(Go.intOfUint " + s + ")", frInt, nil
			}
			return "", "", g.errf(e, "conversion %s(%s) not supported", target, t)
		case "len":
			if len(e.Args) != 1 {
				break
			}
			b, ok := x.vars[types.ExprString(e.Args[0])]
			if !ok || b.ty != frBytes {
				break
			}
			return "(Go.lenInt " + b.lean + ")", frInt, nil
		}
		if sig, ok := frPureSig[id.Name]; ok && len(e.Args) == len(sig.params) {
			s := "(" + id.Name
			for i, a := range e.Args {
				as, err := x.exprT(a, sig.params[i])
				if err != nil {
					return "", "", err
				}
				s += " " + as
			}
			return s + ")", sig.ret, nil
		}
	case *ast.BinaryExpr:
		if v, ok := g.evalConst(e); ok {
			return frLit(v, want, e, g)
		}
		switch e.Op {
		case token.LOR, token.LAND:
			a, err := x.exprT(e.X, frBool)
			if err != nil {
				return "", "", err
			}
			b, err := x.exprT(e.Y, frBool)
			if err != nil {
				return "", "", err
			}
			op := map[token.Token]string{token.LOR: "||", token.LAND: "&&"}[e.Op]
			return fmt.Sprintf("(%s %s %s)", a, op, b), frBool, nil
		case token.GTR, token.GEQ, token.LSS, token.LEQ, token.EQL, token.NEQ:
			a, b, t, err := x.pair(e.X, e.Y, frUntyped)
			if err != nil {
				return "", "", err
			}
			if t != frInt && t != frByte && t != frUint {
				return "", "", g.errf(e, "comparison of %s", t)
			}
			op := map[token.Token]string{token.GTR: ">", token.GEQ: "≥", token.LSS: "<", token.LEQ: "≤",
				token.EQL: "=", token.NEQ: "≠"}[e.Op]
			return fmt.Sprintf("(decide (%s %s %s))", a, op, b), frBool, nil
		case token.SHL, token.SHR:
			// The left operand decides the type; an untyped constant left operand
			// takes the type of the context (Go spec, non-constant shifts).
			l, lt, err := x.expr(e.X, frUntyped)
			if err != nil {
				return "", "", err
			}
			if lt == frUntyped {
				if want != frInt && want != frByte && want != frUint {
					return "", "", g.errf(e, "shift of an untyped constant in %s context", want)
				}
				if l, err = x.exprT(e.X, want); err != nil {
					return "", "", err
				}
				lt = want
			}
			c, ct, err := x.expr(e.Y, frUntyped)
			if err != nil {
				return "", "", err
			}
			switch ct {
			case frUntyped:
			case frByte, frUint:
				c = "(" + c + ").toNat"
			default:
				return "", "", g.errf(e, "shift count of type %s", ct)
			}
			fn := map[frTy]map[token.Token]string{
				frInt:  {token.SHL: "Go.shlInt", token.SHR: "Go.shrInt"},
				frByte: {token.SHL: "Go.shlU8", token.SHR: "Go.shrU8"},
				frUint: {token.SHL: "Go.shlU64"},
			}[lt][e.Op]
			if fn == "" {
				return "", "", g.errf(e, "shift %s on %s not supported", e.Op, lt)
			}
			return fmt.Sprintf("(%s %s %s)", fn, l, c), lt, nil
		case token.ADD, token.SUB, token.AND, token.OR:
			a, b, t, err := x.pair(e.X, e.Y, want)
			if err != nil {
				return "", "", err
			}
			var s string
			switch t {
			case frByte, frUint: // native wrap-around
				op := map[token.Token]string{token.ADD: "+", token.SUB: "-", token.AND: "&&&", token.OR: "|||"}[e.Op]
				s = fmt.Sprintf("(%s %s %s)", a, op, b)
			case frInt:
				fn := map[token.Token]string{token.ADD: "Go.addInt", token.SUB: "Go.subInt", token.AND: "Go.andInt"}[e.Op]
				if fn == "" {
					return "", "", g.errf(e, "operator %s on int not supported", e.Op)
				}
				s = fmt.Sprintf("(%s %s %s)", fn, a, b)
			default:
				return "", "", g.errf(e, "operator %s on %s", e.Op, t)
			}
			return s, t, nil
		}
	}
	return "", "", g.errf(e, "cannot translate expression %s", types.ExprString(e))
}

// ---- statements of the pure functions --------------------------------------------

func frTerminates(list []ast.Stmt) bool {
	if len(list) == 0 {
		return false
	}
	_, ok := list[len(list)-1].(*ast.ReturnStmt)
	return ok
}

// stmts translates a statement list. total: every path returns and the result
// is a term of the return type; otherwise the result is an `Option` (none =
// control falls out of the list).
func (x *frEnv) stmts(list []ast.Stmt, ret frTy, total bool, ind string) (string, error) {
	g := x.g
	wrap := func(s string) string {
		if total {
			return s
		}
		return "(some " + s + ")"
	}
	if len(list) == 0 {
		if total {
			return "", fmt.Errorf("control reaches the end of a function body")
		}
		return "none", nil
	}
	rest := list[1:]
	arm := "r"
	if !total {
		arm = "some r"
	}
	switch s := list[0].(type) {
	case *ast.ReturnStmt:
		if len(s.Results) != 1 {
			return "", g.errf(s, "return with %d results", len(s.Results))
		}
		v, err := x.exprT(s.Results[0], ret)
		if err != nil {
			return "", err
		}
		return wrap(v), nil
	case *ast.IfStmt:
		if s.Init != nil || s.Else != nil {
			return "", g.errf(s, "if with init/else not supported")
		}
		c, err := x.exprT(s.Cond, frBool)
		if err != nil {
			return "", err
		}
		r, err := x.stmts(rest, ret, total, ind)
		if err != nil {
			return "", err
		}
		if frTerminates(s.Body.List) {
			b, err := x.stmts(s.Body.List, ret, total, ind+"  ")
			if err != nil {
				return "", err
			}
			return fmt.Sprintf("if %s then\n%s  %s\n%selse\n%s  %s", c, ind, b, ind, ind, r), nil
		}
		b, err := x.stmts(s.Body.List, ret, false, ind+"    ")
		if err != nil {
			return "", err
		}
		return fmt.Sprintf("match (if %s then\n%s    %s\n%s  else none) with\n%s| some r => %s\n%s| none =>\n%s  %s",
			c, ind, b, ind, ind, arm, ind, ind, r), nil
	case *ast.RangeStmt:
		// for b := range byte(N) { ... }
		key, ok := s.Key.(*ast.Ident)
		call, ok2 := s.X.(*ast.CallExpr)
		if !ok || !ok2 || s.Value != nil || s.Tok != token.DEFINE || types.ExprString(call.Fun) != "byte" {
			return "", g.errf(s, "only `for b := range byte(N)` is supported")
		}
		n, err := x.exprT(s.X, frByte)
		if err != nil {
			return "", err
		}
		inner := x.with(key.Name, key.Name, frByte)
		b, err := inner.stmts(s.Body.List, ret, false, ind+"    ")
		if err != nil {
			return "", err
		}
		r, err := x.stmts(rest, ret, total, ind)
		if err != nil {
			return "", err
		}
		return fmt.Sprintf("match Go.rangeByte %s (fun %s =>\n%s    %s) with\n%s| some r => %s\n%s| none =>\n%s  %s",
			n, key.Name, ind, b, ind, arm, ind, ind, r), nil
	case *ast.DeclStmt:
		// var a, b uint   (zero-initialised locals)
		gd, ok := s.Decl.(*ast.GenDecl)
		if !ok || gd.Tok != token.VAR || len(gd.Specs) != 1 {
			return "", g.errf(s, "unsupported declaration")
		}
		vs := gd.Specs[0].(*ast.ValueSpec)
		ty := frTy(types.ExprString(vs.Type))
		if len(vs.Values) != 0 || (ty != frUint && ty != frInt && ty != frByte) {
			return "", g.errf(s, "unsupported var declaration")
		}
		env := x
		out := ""
		for _, n := range vs.Names {
			env = env.with(n.Name, n.Name, ty)
			out += fmt.Sprintf("let %s : %s := 0\n%s", n.Name, frLeanType(ty), ind)
		}
		r, err := env.stmts(rest, ret, total, ind)
		if err != nil {
			return "", err
		}
		return out + r, nil
	case *ast.ForStmt:
		// for i := START; i >= 0; i-- { x op= e; ... }
		init, ok := s.Init.(*ast.AssignStmt)
		if !ok || init.Tok != token.DEFINE || len(init.Lhs) != 1 || len(init.Rhs) != 1 {
			return "", g.errf(s, "unsupported for-init")
		}
		iv := types.ExprString(init.Lhs[0])
		post, ok := s.Post.(*ast.IncDecStmt)
		if !ok || post.Tok != token.DEC || types.ExprString(post.X) != iv || types.ExprString(s.Cond) != iv+" >= 0" {
			return "", g.errf(s, "only `for i := START; i >= 0; i--` is supported")
		}
		start, err := x.exprT(init.Rhs[0], frInt)
		if err != nil {
			return "", err
		}
		inner := x.with(iv, iv, frIndex)
		var state []string
		seen := map[string]bool{}
		body := ""
		for _, bs := range s.Body.List {
			as, ok := bs.(*ast.AssignStmt)
			if !ok || len(as.Lhs) != 1 || len(as.Rhs) != 1 {
				return "", g.errf(bs, "only single assignments are supported in a loop body")
			}
			name := types.ExprString(as.Lhs[0])
			b, ok := x.vars[name]
			if !ok || b.lean != name {
				return "", g.errf(bs, "assignment to %s, which is not a declared local", name)
			}
			var rhs ast.Expr
			switch as.Tok {
			case token.ASSIGN:
				rhs = as.Rhs[0]
			case token.OR_ASSIGN:
				rhs = &ast.BinaryExpr{X: as.Lhs[0], Op: token.OR, Y: as.Rhs[0], OpPos: as.TokPos}
			case token.ADD_ASSIGN:
				rhs = &ast.BinaryExpr{X: as.Lhs[0], Op: token.ADD, Y: as.Rhs[0], OpPos: as.TokPos}
			default:
				return "", g.errf(bs, "assignment operator %s not supported", as.Tok)
			}
			v, err := inner.exprT(rhs, b.ty)
			if err != nil {
				return "", err
			}
			if !seen[name] {
				seen[name] = true
				state = append(state, name)
			}
			body += fmt.Sprintf("%s    let %s := %s\n", ind, name, v)
		}
		if len(state) == 0 {
			return "", g.errf(s, "loop without state")
		}
		tup := state[0]
		if len(state) > 1 {
			tup = "(" + strings.Join(state, ", ") + ")"
		}
		r, err := x.stmts(rest, ret, total, ind)
		if err != nil {
			return "", err
		}
		return fmt.Sprintf("let %s := Go.forDown %s %s (fun %s st =>\n%s    let %s := st\n%s%s    %s)\n%s%s",
			tup, start, tup, iv, ind, tup, body, ind, tup, ind, r), nil
	}
	return "", g.errf(list[0], "unsupported statement: %s", strings.SplitN(g.src(list[0]), "\n", 2)[0])
}

func frGoTypeOf(e ast.Expr) (frTy, bool) {
	switch s := types.ExprString(e); s {
	case "int", "byte", "uint", "bool":
		return frTy(s), true
	case "[]byte", "[3]byte", "[4]byte":
		return frBytes, true
	}
	return "", false
}

func (g *frameGen) pureFunc(name string) (string, error) {
	fd := g.funcs[name]
	if fd == nil {
		return "", fmt.Errorf("function %s not found", name)
	}
	sig := frPureSig[name]
	x := g.env()
	var params []string
	i := 0
	for _, f := range fd.Type.Params.List {
		t, ok := frGoTypeOf(f.Type)
		for _, n := range f.Names {
			if !ok || i >= len(sig.params) || t != sig.params[i] {
				return "", g.errf(f, "%s: unexpected parameter type", name)
			}
			x = x.with(n.Name, n.Name, t)
			params = append(params, fmt.Sprintf("(%s : %s)", n.Name, frLeanType(t)))
			i++
		}
	}
	if i != len(sig.params) || fd.Type.Results == nil || len(fd.Type.Results.List) != 1 {
		return "", g.errf(fd, "%s: unexpected signature", name)
	}
	if rt, ok := frGoTypeOf(fd.Type.Results.List[0].Type); !ok || rt != sig.ret {
		return "", g.errf(fd, "%s: unexpected result type", name)
	}
	body, err := x.stmts(fd.Body.List, sig.ret, true, "  ")
	if err != nil {
		return "", fmt.Errorf("%s: %w", name, err)
	}
	return fmt.Sprintf("/-- `%s` of transport/rawsocketpeer.go, translated from its AST. -/\ndef %s %s : %s :=\n  %s\n",
		name, name, strings.Join(params, " "), frLeanType(sig.ret), body), nil
}

// ---- facts about the handlers and the handshakes ------------------------------------

type frWalker struct {
	g    *frameGen
	fn   string
	list []ast.Stmt
	i    int
}

func (w *frWalker) next(what string) (ast.Stmt, error) {
	if w.i >= len(w.list) {
		return nil, fmt.Errorf("%s: statements exhausted while looking for %s", w.fn, what)
	}
	s := w.list[w.i]
	w.i++
	return s, nil
}

// line returns the statement's source on one line with blanks collapsed.
func (g *frameGen) line(n ast.Node) string { return strings.Join(strings.Fields(g.src(n)), " ") }

func (w *frWalker) expectLine(want string) error {
	s, err := w.next(want)
	if err != nil {
		return err
	}
	if got := w.g.line(s); got != want {
		return w.g.errf(s, "%s: expected `%s`, found `%s`", w.fn, want, got)
	}
	return nil
}

// expectPrefix accepts a statement whose one-line source starts with want.
func (w *frWalker) expectPrefix(want string) (ast.Stmt, error) {
	s, err := w.next(want)
	if err != nil {
		return nil, err
	}
	if got := w.g.line(s); !strings.HasPrefix(got, want) {
		return nil, w.g.errf(s, "%s: expected `%s…`, found `%s`", w.fn, want, got)
	}
	return s, nil
}

// errString returns the message of `return nil, errors.New("…")` /
// `return nil, fmt.Errorf("…", …)`.
func (g *frameGen) errString(s ast.Stmt) (string, bool) {
	r, ok := s.(*ast.ReturnStmt)
	if !ok || len(r.Results) != 2 || types.ExprString(r.Results[0]) != "nil" {
		return "", false
	}
	c, ok := r.Results[1].(*ast.CallExpr)
	if !ok || len(c.Args) == 0 {
		return "", false
	}
	if f := types.ExprString(c.Fun); f != "errors.New" && f != "fmt.Errorf" {
		return "", false
	}
	return stringLit(c.Args[0])
}

// frWriteArg returns the argument of `_, _ = conn.Write(X)` / `_, err := conn.Write(X)`.
func frWriteArg(s ast.Stmt) (ast.Expr, bool) {
	as, ok := s.(*ast.AssignStmt)
	if !ok || len(as.Rhs) != 1 {
		return nil, false
	}
	c, ok := as.Rhs[0].(*ast.CallExpr)
	if !ok || len(c.Args) != 1 {
		return nil, false
	}
	if f := types.ExprString(c.Fun); f != "conn.Write" && f != "rs.conn.Write" {
		return nil, false
	}
	return c.Args[0], true
}

// rejectBody parses `{ [write reply;] return nil, err }`.
func (g *frameGen) rejectBody(list []ast.Stmt, x *frEnv) (reply string, errs string, err error) {
	reply = "none"
	if len(list) == 2 {
		arg, ok := frWriteArg(list[0])
		if !ok {
			return "", "", g.errf(list[0], "expected a conn.Write before the error return")
		}
		r, err := x.exprT(arg, frBytes)
		if err != nil {
			return "", "", err
		}
		reply = "(some " + r + ")"
		list = list[1:]
	}
	if len(list) != 1 {
		return "", "", fmt.Errorf("unexpected statements in an error branch")
	}
	e, ok := g.errString(list[0])
	if !ok {
		return "", "", g.errf(list[0], "expected `return nil, errors.New(…)`")
	}
	return reply, e, nil
}

func frCaseValue(g *frameGen, e ast.Expr) (string, error) {
	if id, ok := e.(*ast.Ident); ok {
		if _, ok := g.consts[id.Name]; ok {
			return "(UInt8.ofNat " + id.Name + ")", nil
		}
	}
	v, ok := g.evalConst(e)
	if !ok || v.Sign() < 0 || v.Cmp(big.NewInt(255)) > 0 {
		return "", g.errf(e, "case value is not a byte constant")
	}
	return fmt.Sprintf("(%s : UInt8)", v), nil
}

func frSerializerName(s ast.Stmt) (string, bool) {
	as, ok := s.(*ast.AssignStmt)
	if !ok || len(as.Lhs) != 1 || types.ExprString(as.Lhs[0]) != "serializer" {
		return "", false
	}
	r := types.ExprString(as.Rhs[0])
	if !strings.HasPrefix(r, "&serialize.") || !strings.HasSuffix(r, "{}") {
		return "", false
	}
	return strings.TrimSuffix(strings.TrimPrefix(r, "&serialize."), "{}"), true
}

func (g *frameGen) peerArgs(s ast.Stmt, last string) error {
	want := "return newRawSocketPeer(conn, serializer, logger, sendLimit, recvLimit, " + last + "), nil"
	if got := g.line(s); got != want {
		return g.errf(s, "expected `%s`, found `%s`", want, got)
	}
	return nil
}

func (g *frameGen) serverFacts(b *strings.Builder) error {
	fd := g.funcs["serverHandshake"]
	if fd == nil {
		return fmt.Errorf("serverHandshake not found")
	}
	w := &frWalker{g: g, fn: "serverHandshake", list: fd.Body.List}
	x := g.env().with("buf[0]", "b0", frByte).with("buf[1]", "b1", frByte).with("buf[2]", "b2", frByte).
		with("buf[3]", "b3", frByte).with("recvLimit", "recvLimit", frInt)
	if err := w.expectLine("var buf [4]byte"); err != nil {
		return err
	}
	if _, err := w.expectPrefix("if _, err := io.ReadFull(conn, buf[:]); err != nil { return nil, err }"); err != nil {
		return err
	}
	// 1. magic
	s, err := w.next("magic check")
	if err != nil {
		return err
	}
	ifs, ok := s.(*ast.IfStmt)
	if !ok || ifs.Init != nil || ifs.Else != nil || !strings.Contains(g.line(ifs.Cond), "magic") {
		return g.errf(s, "serverHandshake: expected the magic check")
	}
	c, err := x.exprT(ifs.Cond, frBool)
	if err != nil {
		return err
	}
	reply, es, err := g.rejectBody(ifs.Body.List, x)
	if err != nil {
		return err
	}
	fmt.Fprintf(b, "/-- serverHandshake, check 1: `%s`. -/\ndef srvBadMagic (b0 : UInt8) : Bool := %s\n", g.line(ifs.Cond), c)
	fmt.Fprintf(b, "def srvBadMagicReply : Option (List UInt8) := %s\ndef srvBadMagicErr : String := %s\n\n", reply, leanStr(es))
	// 2. reserved bytes
	s, err = w.next("reserved-bytes check")
	if err != nil {
		return err
	}
	ifs, ok = s.(*ast.IfStmt)
	if !ok || ifs.Init != nil || ifs.Else != nil || !strings.Contains(g.line(ifs.Cond), "buf[2]") {
		return g.errf(s, "serverHandshake: expected the reserved-bytes check")
	}
	if c, err = x.exprT(ifs.Cond, frBool); err != nil {
		return err
	}
	if reply, es, err = g.rejectBody(ifs.Body.List, x); err != nil {
		return err
	}
	fmt.Fprintf(b, "/-- serverHandshake, check 2: `%s`. -/\ndef srvReserved (b2 b3 : UInt8) : Bool := %s\n", g.line(ifs.Cond), c)
	fmt.Fprintf(b, "def srvReservedReply : Option (List UInt8) := %s\ndef srvReservedErr : String := %s\n\n", reply, leanStr(es))
	// 3. serializer nibble
	s, err = w.next("serialization := …")
	if err != nil {
		return err
	}
	as, ok := s.(*ast.AssignStmt)
	if !ok || as.Tok != token.DEFINE || types.ExprString(as.Lhs[0]) != "serialization" {
		return g.errf(s, "serverHandshake: expected `serialization := …`")
	}
	nib, err := x.exprT(as.Rhs[0], frByte)
	if err != nil {
		return err
	}
	fmt.Fprintf(b, "/-- `%s` -/\ndef srvSerNibble (b1 : UInt8) : UInt8 := %s\n\n", g.line(s), nib)
	if err := w.expectLine("var serializer serialize.Serializer"); err != nil {
		return err
	}
	s, err = w.next("switch serialization")
	if err != nil {
		return err
	}
	sw, ok := s.(*ast.SwitchStmt)
	if !ok || sw.Init != nil || types.ExprString(sw.Tag) != "serialization" {
		return g.errf(s, "serverHandshake: expected `switch serialization`")
	}
	fmt.Fprintf(b, "/-- serverHandshake, check 3: `switch serialization`. -/\ndef srvSerCase (s : UInt8) : SerChoice :=\n")
	def := ""
	for _, cc := range sw.Body.List {
		cl := cc.(*ast.CaseClause)
		var act string
		if name, ok := frSerializerName(cl.Body[0]); ok && len(cl.Body) == 1 {
			act = ".accept " + leanStr(name)
		} else {
			reply, es, err := g.rejectBody(cl.Body, x)
			if err != nil {
				return err
			}
			act = fmt.Sprintf(".reject %s %s", reply, leanStr(es))
		}
		if cl.List == nil {
			def = act
			continue
		}
		for _, v := range cl.List {
			cv, err := frCaseValue(g, v)
			if err != nil {
				return err
			}
			fmt.Fprintf(b, "  if s = %s then %s else\n", cv, act)
		}
	}
	if def == "" {
		return g.errf(sw, "serverHandshake: serializer switch without default")
	}
	fmt.Fprintf(b, "  %s\n\n", def)
	// 4. reply and limits
	if err := w.expectLine("maxRecvLen := fitRecvLimit(recvLimit)"); err != nil {
		return err
	}
	s, err = w.next("handshake reply")
	if err != nil {
		return err
	}
	arg, ok := frWriteArg(s)
	if !ok {
		return g.errf(s, "serverHandshake: expected the reply write")
	}
	xr := x.with("maxRecvLen", "maxRecvLen", frByte).with("serialization", "serialization", frByte)
	rep, err := xr.exprT(arg, frBytes)
	if err != nil {
		return err
	}
	fmt.Fprintf(b, "/-- the accepting reply: `%s` -/\ndef srvReply (maxRecvLen serialization : UInt8) : List UInt8 := %s\n\n", g.line(arg), rep)
	if _, err := w.expectPrefix("if err != nil { return nil, fmt.Errorf("); err != nil {
		return err
	}
	if err := g.limits(w, xr, b, "srv", "b1"); err != nil {
		return err
	}
	s, err = w.next("return newRawSocketPeer")
	if err != nil {
		return err
	}
	if err := g.peerArgs(s, "outQueueSize"); err != nil {
		return err
	}
	if w.i != len(w.list) {
		return fmt.Errorf("serverHandshake: trailing statements")
	}
	return nil
}

// limits parses `sendLimit := byteToLength(buf[1] >> 4)` and
// `recvLimit = byteToLength(maxRecvLen)`.
func (g *frameGen) limits(w *frWalker, x *frEnv, b *strings.Builder, prefix, byteName string) error {
	s, err := w.next("sendLimit := …")
	if err != nil {
		return err
	}
	as, ok := s.(*ast.AssignStmt)
	if !ok || as.Tok != token.DEFINE || types.ExprString(as.Lhs[0]) != "sendLimit" {
		return g.errf(s, "%s: expected `sendLimit := …`", w.fn)
	}
	sl, err := x.exprT(as.Rhs[0], frInt)
	if err != nil {
		return err
	}
	fmt.Fprintf(b, "/-- `%s` -/\ndef %sSendLimit (%s : UInt8) : Int := %s\n", g.line(s), prefix, byteName, sl)
	s, err = w.next("recvLimit = …")
	if err != nil {
		return err
	}
	as, ok = s.(*ast.AssignStmt)
	if !ok || as.Tok != token.ASSIGN || types.ExprString(as.Lhs[0]) != "recvLimit" {
		return g.errf(s, "%s: expected `recvLimit = …`", w.fn)
	}
	rl, err := x.exprT(as.Rhs[0], frInt)
	if err != nil {
		return err
	}
	fmt.Fprintf(b, "/-- `%s` -/\ndef %sRecvLimit (maxRecvLen : UInt8) : Int := %s\n\n", g.line(s), prefix, rl)
	return nil
}

func (g *frameGen) clientFacts(b *strings.Builder) error {
	fd := g.funcs["clientHandshake"]
	if fd == nil {
		return fmt.Errorf("clientHandshake not found")
	}
	w := &frWalker{g: g, fn: "clientHandshake", list: fd.Body.List}
	x := g.env().with("buf[0]", "r0", frByte).with("buf[1]", "r1", frByte).with("protocol", "protocol", frByte).
		with("maxRecvLen", "maxRecvLen", frByte)
	if err := w.expectLine("maxRecvLen := fitRecvLimit(recvLimit)"); err != nil {
		return err
	}
	s, err := w.next("request write")
	if err != nil {
		return err
	}
	arg, ok := frWriteArg(s)
	if !ok {
		return g.errf(s, "clientHandshake: expected the request write")
	}
	req, err := x.exprT(arg, frBytes)
	if err != nil {
		return err
	}
	fmt.Fprintf(b, "/-- the client's request: `%s` -/\ndef cliRequest (maxRecvLen protocol : UInt8) : List UInt8 := %s\n\n", g.line(arg), req)
	if _, err := w.expectPrefix("if err != nil { return nil, fmt.Errorf("); err != nil {
		return err
	}
	if err := w.expectLine("var buf [4]byte"); err != nil {
		return err
	}
	if _, err := w.expectPrefix("if _, err = io.ReadFull(conn, buf[:]); err != nil { return nil, err }"); err != nil {
		return err
	}
	// magic
	s, err = w.next("magic check")
	if err != nil {
		return err
	}
	ifs, ok := s.(*ast.IfStmt)
	if !ok || ifs.Init != nil || ifs.Else != nil || !strings.Contains(g.line(ifs.Cond), "magic") {
		return g.errf(s, "clientHandshake: expected the magic check")
	}
	c, err := x.exprT(ifs.Cond, frBool)
	if err != nil {
		return err
	}
	reply, es, err := g.rejectBody(ifs.Body.List, x)
	if err != nil {
		return err
	}
	if reply != "none" {
		return g.errf(s, "clientHandshake: unexpected write in the magic branch")
	}
	fmt.Fprintf(b, "/-- clientHandshake, check 1: `%s`. -/\ndef cliBadMagic (r0 : UInt8) : Bool := %s\ndef cliBadMagicErr : String := %s\n\n",
		g.line(ifs.Cond), c, leanStr(es))
	// repSerializer
	s, err = w.next("repSerializer := …")
	if err != nil {
		return err
	}
	as, ok := s.(*ast.AssignStmt)
	if !ok || as.Tok != token.DEFINE || types.ExprString(as.Lhs[0]) != "repSerializer" {
		return g.errf(s, "clientHandshake: expected `repSerializer := …`")
	}
	rs, err := x.exprT(as.Rhs[0], frByte)
	if err != nil {
		return err
	}
	fmt.Fprintf(b, "/-- `%s` -/\ndef cliRepSerializer (r1 : UInt8) : UInt8 := %s\n\n", g.line(s), rs)
	x = x.with("repSerializer", "repSerializer", frByte)
	// error reply
	s, err = w.next("error-reply branch")
	if err != nil {
		return err
	}
	ifs, ok = s.(*ast.IfStmt)
	if !ok || ifs.Init != nil || ifs.Else != nil || len(ifs.Body.List) != 2 {
		return g.errf(s, "clientHandshake: expected `if repSerializer == 0 { errCode := …; switch … }`")
	}
	if c, err = x.exprT(ifs.Cond, frBool); err != nil {
		return err
	}
	fmt.Fprintf(b, "/-- clientHandshake, check 2: `%s` (the reply is an error reply). -/\ndef cliIsErrorReply (repSerializer : UInt8) : Bool := %s\n", g.line(ifs.Cond), c)
	as, ok = ifs.Body.List[0].(*ast.AssignStmt)
	if !ok || as.Tok != token.DEFINE || types.ExprString(as.Lhs[0]) != "errCode" {
		return g.errf(ifs.Body.List[0], "clientHandshake: expected `errCode := …`")
	}
	ec, err := x.exprT(as.Rhs[0], frByte)
	if err != nil {
		return err
	}
	fmt.Fprintf(b, "/-- `%s` -/\ndef cliErrCode (r1 : UInt8) : UInt8 := %s\n", g.line(as), ec)
	sw, ok := ifs.Body.List[1].(*ast.SwitchStmt)
	if !ok || sw.Init != nil || types.ExprString(sw.Tag) != "errCode" {
		return g.errf(ifs.Body.List[1], "clientHandshake: expected `switch errCode`")
	}
	fmt.Fprintf(b, "/-- `switch errCode`: the error text per code; `none` = the default branch. -/\ndef cliErrCase (c : UInt8) : Option String :=\n")
	def := ""
	for _, cc := range sw.Body.List {
		cl := cc.(*ast.CaseClause)
		if len(cl.Body) != 1 {
			return g.errf(cl, "clientHandshake: unexpected error case body")
		}
		es, ok := g.errString(cl.Body[0])
		if !ok {
			return g.errf(cl, "clientHandshake: expected an error return")
		}
		if cl.List == nil {
			def = es
			continue
		}
		for _, v := range cl.List {
			cv, err := frCaseValue(g, v)
			if err != nil {
				return err
			}
			fmt.Fprintf(b, "  if c = %s then some %s else\n", cv, leanStr(es))
		}
	}
	if def == "" {
		return g.errf(sw, "clientHandshake: error switch without default (control would fall out of the error branch)")
	}
	fmt.Fprintf(b, "  none\n/-- format of the default branch (`%%d` = the error code) -/\ndef cliErrDefaultFmt : String := %s\n\n", leanStr(def))
	// mismatch
	s, err = w.next("serializer mismatch check")
	if err != nil {
		return err
	}
	ifs, ok = s.(*ast.IfStmt)
	if !ok || ifs.Init != nil || ifs.Else != nil {
		return g.errf(s, "clientHandshake: expected the mismatch check")
	}
	if c, err = x.exprT(ifs.Cond, frBool); err != nil {
		return err
	}
	reply, es, err = g.rejectBody(ifs.Body.List, x)
	if err != nil || reply != "none" {
		return g.errf(s, "clientHandshake: unexpected mismatch branch (%v)", err)
	}
	fmt.Fprintf(b, "/-- clientHandshake, check 3: `%s`. -/\ndef cliMismatch (repSerializer protocol : UInt8) : Bool := %s\ndef cliMismatchErr : String := %s\n\n",
		g.line(ifs.Cond), c, leanStr(es))
	if err := w.expectLine("var serializer serialize.Serializer"); err != nil {
		return err
	}
	s, err = w.next("switch protocol")
	if err != nil {
		return err
	}
	sw, ok = s.(*ast.SwitchStmt)
	if !ok || sw.Init != nil || types.ExprString(sw.Tag) != "protocol" {
		return g.errf(s, "clientHandshake: expected `switch protocol`")
	}
	fmt.Fprintf(b, "/-- `switch protocol`: the serializer the client peer gets; `none` = nil (no case). -/\ndef cliSerializer (protocol : UInt8) : Option String :=\n")
	for _, cc := range sw.Body.List {
		cl := cc.(*ast.CaseClause)
		name, ok := "", false
		if len(cl.Body) == 1 {
			name, ok = frSerializerName(cl.Body[0])
		}
		if !ok || cl.List == nil {
			return g.errf(cl, "clientHandshake: unexpected case in `switch protocol`")
		}
		for _, v := range cl.List {
			cv, err := frCaseValue(g, v)
			if err != nil {
				return err
			}
			fmt.Fprintf(b, "  if protocol = %s then some %s else\n", cv, leanStr(name))
		}
	}
	fmt.Fprintf(b, "  none\n\n")
	if err := g.limits(w, x, b, "cli", "r1"); err != nil {
		return err
	}
	s, err = w.next("return newRawSocketPeer")
	if err != nil {
		return err
	}
	if err := g.peerArgs(s, "0"); err != nil {
		return err
	}
	if w.i != len(w.list) {
		return fmt.Errorf("clientHandshake: trailing statements")
	}
	return nil
}

// frFind returns the first node below root for which pred holds.
func frFind(root ast.Node, pred func(ast.Node) bool) ast.Node {
	var res ast.Node
	ast.Inspect(root, func(n ast.Node) bool {
		if res != nil || n == nil {
			return false
		}
		if pred(n) {
			res = n
			return false
		}
		return true
	})
	return res
}

func (g *frameGen) has(root ast.Node, text string) bool {
	return strings.Contains(g.line(root), text)
}

func (g *frameGen) senderFacts(b *strings.Builder) error {
	fd := g.funcs["sendHandler"]
	if fd == nil || fd.Recv == nil {
		return fmt.Errorf("rawSocketPeer.sendHandler not found")
	}
	// The statements that handle one message start with the Serialize call: a
	// bare block of the loop body (current shape) or the body of the
	// `case msg := <-rs.wr:` clause (the shape before the drain fix).
	const serLine = "b, err := rs.serializer.Serialize(msg)"
	var list []ast.Stmt
	ast.Inspect(fd, func(n ast.Node) bool {
		var l []ast.Stmt
		switch n := n.(type) {
		case *ast.BlockStmt:
			l = n.List
		case *ast.CommClause:
			l = n.Body
		}
		if list == nil && len(l) > 0 && g.line(l[0]) == serLine {
			list = l
		}
		return true
	})
	if list == nil {
		return fmt.Errorf("sendHandler: `%s` not found at the head of a block", serLine)
	}
	if err := g.drainFacts(fd, b); err != nil {
		return err
	}
	w := &frWalker{g: g, fn: "sendHandler", list: list}
	if err := w.expectLine("b, err := rs.serializer.Serialize(msg)"); err != nil {
		return err
	}
	s, err := w.expectPrefix("if err != nil {")
	if err != nil {
		return err
	}
	if !strings.HasSuffix(g.line(s), "continue sendLoop }") {
		return g.errf(s, "sendHandler: a serialisation error no longer skips the message")
	}
	s, err = w.next("size check")
	if err != nil {
		return err
	}
	ifs, ok := s.(*ast.IfStmt)
	if !ok || ifs.Init != nil || ifs.Else != nil || !g.has(ifs.Cond, "rs.sendLimit") {
		return g.errf(s, "sendHandler: expected the size check")
	}
	if !strings.HasSuffix(g.line(ifs.Body), "continue sendLoop }") || g.has(ifs.Body, "Write") {
		return g.errf(s, "sendHandler: the size check no longer just drops the message")
	}
	x := g.env().with("len(b)", "n", frInt).with("rs.sendLimit", "sendLimit", frInt)
	c, err := x.exprT(ifs.Cond, frBool)
	if err != nil {
		return err
	}
	fmt.Fprintf(b, "/-- sendHandler drops a serialised message of length n when `%s`. -/\ndef sendDrop (n sendLimit : Int) : Bool := %s\n\n", g.line(ifs.Cond), c)
	if err := w.expectLine("lenBytes := intToBytes(len(b))"); err != nil {
		return err
	}
	xh := g.env().with("lenBytes", "lenBytes", frBytes)
	s, err = w.next("header := … / frame := make(…)")
	if err != nil {
		return err
	}
	var hdr ast.Expr
	var parts string
	if g.line(s) == "frame := make([]byte, 0, len(b)+4)" {
		// one Write call: frame = header ++ b
		s, err = w.next("frame = append(frame, <header bytes>)")
		if err != nil {
			return err
		}
		as, ok := s.(*ast.AssignStmt)
		var call *ast.CallExpr
		if ok && len(as.Rhs) == 1 {
			call, _ = as.Rhs[0].(*ast.CallExpr)
		}
		if call == nil || as.Tok != token.ASSIGN || types.ExprString(as.Lhs[0]) != "frame" ||
			types.ExprString(call.Fun) != "append" || len(call.Args) < 2 || types.ExprString(call.Args[0]) != "frame" || call.Ellipsis.IsValid() {
			return g.errf(s, "sendHandler: expected `frame = append(frame, <header bytes>)`")
		}
		hdr = &ast.CompositeLit{Type: &ast.ArrayType{Elt: ast.NewIdent("byte")}, Elts: call.Args[1:]}
		if err := w.expectLine("frame = append(frame, b...)"); err != nil {
			return err
		}
		if _, err = w.expectPrefix("if _, err = rs.conn.Write(frame); err != nil {"); err != nil {
			return err
		}
		parts = `[["header", "b"]]`
	} else {
		// two Write calls: header, then b
		as, ok := s.(*ast.AssignStmt)
		if !ok || as.Tok != token.DEFINE || types.ExprString(as.Lhs[0]) != "header" {
			return g.errf(s, "sendHandler: expected `header := []byte{…}` or `frame := make([]byte, 0, len(b)+4)`")
		}
		hdr = as.Rhs[0]
		for _, arg := range []string{"header", "b"} {
			if _, err = w.expectPrefix("if _, err = rs.conn.Write(" + arg + "); err != nil {"); err != nil {
				return err
			}
		}
		parts = `[["header"], ["b"]]`
	}
	h, err := xh.exprT(hdr, frBytes)
	if err != nil {
		return err
	}
	fmt.Fprintf(b, "/-- the frame header: `%s` where lenBytes = intToBytes(len(b)) -/\ndef sendHeader (lenBytes : List UInt8) : List UInt8 := %s\n\n", types.ExprString(hdr), h)
	if w.i != len(w.list) {
		return fmt.Errorf("sendHandler: trailing statements after the write(s)")
	}
	fmt.Fprintf(b, "/-- the sender goroutine's `rs.conn.Write` calls per message, in order; each call is the\n    concatenation of the listed parts -/\ndef senderWriteParts : List (List String) := %s\n\n", parts)
	return nil
}

// drainFacts: what sendHandler does when ctxSender is cancelled.
func (g *frameGen) drainFacts(fd *ast.FuncDecl, b *strings.Builder) error {
	loop, _ := frFind(fd, func(n ast.Node) bool { _, ok := n.(*ast.ForStmt); return ok }).(*ast.ForStmt)
	if loop == nil || loop.Init != nil || loop.Cond != nil || loop.Post != nil {
		return fmt.Errorf("sendHandler: the send loop was not found")
	}
	l := loop.Body.List
	// shape before the fix: select { case msg := <-rs.wr: …  case <-senderDone: return }
	if len(l) == 1 {
		if sel, ok := l[0].(*ast.SelectStmt); ok && len(sel.Body.List) == 2 {
			if last := g.line(sel.Body.List[1]); last == "case <-senderDone: return" {
				fmt.Fprintf(b, "/-- on `<-senderDone` sendHandler returns at once: what is still queued is discarded by Close -/\ndef senderDrainsOnDone : Bool := false\ndef drainWriteDeadline : String := \"\"\n\n")
				return nil
			}
		}
		return fmt.Errorf("sendHandler: cannot follow the send loop")
	}
	const (
		drainSel = "{ select { case msg = <-rs.wr: default: return } }"
		runPre   = "{ select { case msg = <-rs.wr: case <-senderDone: draining = true _ = rs.conn.SetWriteDeadline(time.Now().Add("
		runSuf   = ")) continue sendLoop } }"
	)
	if len(l) != 3 || g.line(l[0]) != "var msg wamp.Message" {
		return fmt.Errorf("sendHandler: cannot follow the send loop (expected `var msg`, the draining/select if, the message block)")
	}
	ifs, ok := l[1].(*ast.IfStmt)
	if !ok || ifs.Init != nil || g.line(ifs.Cond) != "draining" || ifs.Else == nil || g.line(ifs.Body) != drainSel {
		return g.errf(l[1], "sendHandler: expected `if draining { select { case msg = <-rs.wr: default: return } } else {…}`")
	}
	el := g.line(ifs.Else)
	if !strings.HasPrefix(el, runPre) || !strings.HasSuffix(el, runSuf) {
		return g.errf(ifs.Else, "sendHandler: cannot follow the non-draining select: %s", el)
	}
	if !g.has(fd, "draining := false") {
		return fmt.Errorf("sendHandler: `draining := false` not found")
	}
	fmt.Fprintf(b, "/-- on `<-senderDone` sendHandler sets a write deadline and keeps taking messages from rs.wr\n    without blocking (`select { case msg = <-rs.wr: default: return }`) until it is empty -/\ndef senderDrainsOnDone : Bool := true\ndef drainWriteDeadline : String := %s\n\n",
		leanStr(strings.TrimSuffix(strings.TrimPrefix(el, runPre), runSuf)))
	return nil
}

func (g *frameGen) readerFacts(b *strings.Builder) error {
	fd := g.funcs["recvHandler"]
	if fd == nil || fd.Recv == nil {
		return fmt.Errorf("rawSocketPeer.recvHandler not found")
	}
	loop, _ := frFind(fd, func(n ast.Node) bool { _, ok := n.(*ast.ForStmt); return ok }).(*ast.ForStmt)
	if loop == nil || loop.Init != nil || loop.Cond != nil || loop.Post != nil {
		return fmt.Errorf("recvHandler: the message loop was not found")
	}
	w := &frWalker{g: g, fn: "recvHandler", list: loop.Body.List}
	if err := w.expectLine("var header [4]byte"); err != nil {
		return err
	}
	if err := w.expectLine("_, err := io.ReadFull(rs.conn, header[:])"); err != nil {
		return err
	}
	s, err := w.expectPrefix("if err != nil {")
	if err != nil {
		return err
	}
	if !strings.HasSuffix(g.line(s), "return }") {
		return g.errf(s, "recvHandler: a header read error no longer ends the reader")
	}
	if err := w.expectLine("length := bytesToInt(header[1:])"); err != nil {
		return err
	}
	s, err = w.next("length check")
	if err != nil {
		return err
	}
	ifs, ok := s.(*ast.IfStmt)
	if !ok || ifs.Init != nil || ifs.Else != nil || !g.has(ifs.Cond, "rs.recvLimit") {
		return g.errf(s, "recvHandler: expected the length check before the type switch")
	}
	body := g.line(ifs.Body)
	if !strings.Contains(body, "_ = rs.conn.Close()") || !(strings.HasSuffix(body, "break }") || strings.HasSuffix(body, "return }")) {
		return g.errf(s, "recvHandler: an oversize frame no longer closes the connection and ends the reader")
	}
	x := g.env().with("length", "length", frInt).with("rs.recvLimit", "recvLimit", frInt)
	c, err := x.exprT(ifs.Cond, frBool)
	if err != nil {
		return err
	}
	fmt.Fprintf(b, "/-- recvHandler closes the connection when `%s` (checked before the frame type). -/\ndef recvOversize (length recvLimit : Int) : Bool := %s\n\n", g.line(ifs.Cond), c)
	if err := w.expectLine("var msg wamp.Message"); err != nil {
		return err
	}
	s, err = w.next("type switch")
	if err != nil {
		return err
	}
	sw, ok := s.(*ast.SwitchStmt)
	if !ok || sw.Init != nil || sw.Tag == nil {
		return g.errf(s, "recvHandler: expected `switch header[0] & …`")
	}
	xt := g.env().with("header[0]", "h0", frByte)
	tag, err := xt.exprT(sw.Tag, frByte)
	if err != nil {
		return err
	}
	fmt.Fprintf(b, "/-- the frame type: `%s` -/\ndef frameType (h0 : UInt8) : UInt8 := %s\n\n", g.line(sw.Tag), tag)
	var cases strings.Builder
	def := ".fallthroughNil" // no default clause: control reaches the send of a nil msg
	pong, pongParts, pongAfter := "", "", ""
	deser := ""
	for _, cc := range sw.Body.List {
		cl := cc.(*ast.CaseClause)
		blk := &ast.BlockStmt{List: cl.Body}
		txt := g.line(blk)
		var kind string
		switch {
		case strings.Contains(txt, "rs.serializer.Deserialize(buf)"):
			if !strings.Contains(txt, "buf := make([]byte, length) _, err = io.ReadFull(rs.conn, buf)") {
				return g.errf(cl, "recvHandler: message case no longer reads exactly `length` bytes")
			}
			last, ok := cl.Body[len(cl.Body)-1].(*ast.IfStmt)
			if !ok || g.line(last.Cond) != "err != nil" {
				return g.errf(cl, "recvHandler: message case: expected the deserialisation error check last")
			}
			switch lb := g.line(last.Body); {
			case strings.HasSuffix(lb, "continue MsgLoop }") && !strings.Contains(lb, "Close"):
				deser = "true"
			case strings.HasSuffix(lb, "return }"):
				deser = "false"
			default:
				return g.errf(last, "recvHandler: cannot classify the deserialisation error branch")
			}
			kind = ".msg"
		case strings.Contains(txt, "rs.conn.Write(pong)"):
			// one Write call after the whole payload has been read
			if len(cl.Body) != 6 || g.line(cl.Body[0]) != "pong := make([]byte, length+4)" ||
				g.line(cl.Body[2]) != "copy(pong[1:4], header[1:])" ||
				!strings.HasPrefix(g.line(cl.Body[3]), "if _, err = io.ReadFull(rs.conn, pong[4:]); err != nil {") ||
				!strings.HasSuffix(g.line(cl.Body[3]), "return }") ||
				!strings.HasPrefix(g.line(cl.Body[4]), "if _, err = rs.conn.Write(pong); err != nil {") ||
				g.line(cl.Body[5]) != "continue MsgLoop" {
				return g.errf(cl, "recvHandler: PING case: expected make(length+4), pong[0] = …, copy of the length bytes, ReadFull(pong[4:]), Write(pong), continue")
			}
			as, ok := cl.Body[1].(*ast.AssignStmt)
			if !ok || types.ExprString(as.Lhs[0]) != "pong[0]" || as.Tok != token.ASSIGN {
				return g.errf(cl, "recvHandler: PING case: expected `pong[0] = …`")
			}
			p, err := xt.exprT(as.Rhs[0], frByte)
			if err != nil {
				return err
			}
			pong, pongParts, pongAfter = p, `[["header", "payload"]]`, "true"
			kind = ".ping"
		case strings.Contains(txt, "io.CopyN(rs.conn, rs.conn, int64(length))"):
			as, ok := cl.Body[0].(*ast.AssignStmt)
			if !ok || len(cl.Body) != 4 || types.ExprString(as.Lhs[0]) != "header[0]" || as.Tok != token.ASSIGN {
				return g.errf(cl, "recvHandler: PING case: expected `header[0] = …` first of four statements")
			}
			p, err := xt.exprT(as.Rhs[0], frByte)
			if err != nil {
				return err
			}
			pong, pongParts, pongAfter = p, `[["header"], ["payload"]]`, "false"
			if !strings.HasPrefix(g.line(cl.Body[1]), "if _, err = rs.conn.Write(header[:]); err != nil {") ||
				!strings.HasPrefix(g.line(cl.Body[2]), "if _, err = io.CopyN(rs.conn, rs.conn, int64(length)); err != nil {") ||
				g.line(cl.Body[3]) != "continue MsgLoop" {
				return g.errf(cl, "recvHandler: PING case: expected Write(header[:]), CopyN(conn, conn, length), continue")
			}
			kind = ".ping"
		case strings.Contains(txt, "io.CopyN(io.Discard, rs.conn, int64(length))"):
			if g.line(cl.Body[len(cl.Body)-1]) != "continue MsgLoop" || strings.Contains(txt, "Write") {
				return g.errf(cl, "recvHandler: cannot classify the PONG case")
			}
			kind = ".pong"
		case strings.Contains(txt, "_ = rs.conn.Close()") && strings.HasSuffix(txt, "return }") && !strings.Contains(txt, "io."):
			kind = ".reserved"
		default:
			return g.errf(cl, "recvHandler: cannot classify this case of the type switch")
		}
		if cl.List == nil {
			def = kind
			continue
		}
		for _, v := range cl.List {
			cv, err := frCaseValue(g, v)
			if err != nil {
				return err
			}
			fmt.Fprintf(&cases, "  if t = %s then %s else\n", cv, kind)
		}
	}
	if pong == "" || deser == "" {
		return fmt.Errorf("recvHandler: message or PING case missing from the type switch")
	}
	fmt.Fprintf(b, "/-- `switch header[0] & …`: what the reader does per frame type. `.fallthroughNil` appears\n    when the switch has no default clause: control then reaches `rs.rd <- msg` with a nil msg. -/\ndef readerCase (t : UInt8) : FrameKind :=\n%s  %s\n\n", cases.String(), def)
	fmt.Fprintf(b, "/-- PING case: `header[0] = …` before the header is written back -/\ndef pongType : UInt8 := %s\n\n", pong)
	fmt.Fprintf(b, "/-- the reader goroutine's `rs.conn.Write` calls for one PING, in order (each call the\n    concatenation of the listed parts) -/\ndef pongWriteParts : List (List String) := %s\n\n", pongParts)
	fmt.Fprintf(b, "/-- the PING payload is read completely (io.ReadFull) before anything is written back -/\ndef pongAfterPayload : Bool := %s\n\n", pongAfter)
	fmt.Fprintf(b, "/-- a payload that does not deserialise is logged and skipped (`continue MsgLoop`) -/\ndef deserializeErrorSkips : Bool := %s\n\n", deser)
	s, err = w.next("select")
	if err != nil {
		return err
	}
	if _, ok := s.(*ast.SelectStmt); !ok || !g.has(s, "case rs.rd <- msg:") {
		return g.errf(s, "recvHandler: expected the select that hands msg to rs.rd")
	}
	if w.i != len(w.list) {
		return fmt.Errorf("recvHandler: trailing statements in the message loop")
	}
	return nil
}

func genFrame(repo, out string) error {
	path := filepath.Join(repo, "transport", "rawsocketpeer.go")
	fset, file, err := parseFile(path)
	if err != nil {
		return err
	}
	g := &frameGen{fset: fset, file: file, consts: map[string]*big.Int{}, funcs: map[string]*ast.FuncDecl{}}
	for _, d := range file.Decls {
		if fd, ok := d.(*ast.FuncDecl); ok {
			g.funcs[fd.Name.Name] = fd
		}
	}
	if err := g.collectConsts(); err != nil {
		return err
	}
	var b strings.Builder
	b.WriteString("-- GENERATED by `gen frame` from transport/rawsocketpeer.go. Do not edit.\n")
	b.WriteString("import Nexus.Frame.GoSem\n\nset_option linter.unusedVariables false\n\nnamespace Nexus.Gen\nopen Nexus Nexus.Frame\n\n")
	b.WriteString("/-! ## constants -/\n\n")
	for _, n := range g.order {
		fmt.Fprintf(&b, "def %s : Nat := %s\n", n, g.consts[n])
	}
	b.WriteString("\n/-! ## pure functions (translated statement by statement) -/\n\n")
	for _, n := range []string{"byteToLength", "fitRecvLimit", "intToBytes", "bytesToInt"} {
		s, err := g.pureFunc(n)
		if err != nil {
			return err
		}
		b.WriteString(s + "\n")
	}
	b.WriteString("/-! ## decisions of sendHandler -/\n\n")
	if err := g.senderFacts(&b); err != nil {
		return err
	}
	b.WriteString("/-! ## decisions of recvHandler -/\n\n")
	if err := g.readerFacts(&b); err != nil {
		return err
	}
	b.WriteString("/-! ## serverHandshake -/\n\n")
	if err := g.serverFacts(&b); err != nil {
		return err
	}
	b.WriteString("/-! ## clientHandshake -/\n\n")
	if err := g.clientFacts(&b); err != nil {
		return err
	}
	b.WriteString("/-! ## source hashes (sha256 of the gofmt-normalised function text) -/\n\n")
	b.WriteString("def frameSourceHashes : List (String × String) := [\n")
	names := []string{"byteToLength", "fitRecvLimit", "intToBytes", "bytesToInt", "sendHandler", "recvHandler",
		"serverHandshake", "clientHandshake"}
	for i, n := range names {
		fd := g.funcs[n]
		if fd == nil {
			return fmt.Errorf("function %s not found", n)
		}
		cp := *fd
		cp.Doc = nil
		sum := sha256.Sum256([]byte(g.src(&cp)))
		sep := ","
		if i == len(names)-1 {
			sep = ""
		}
		fmt.Fprintf(&b, "  (%s, \"%x\")%s\n", leanStr(n), sum, sep)
	}
	b.WriteString("]\n\nend Nexus.Gen\n")
	return writeIfChanged(filepath.Join(out, "Frame.lean"), []byte(b.String()))
}
