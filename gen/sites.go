package main

// Target "sites" (G6): the syntactic site tables of the non-test code of
// router/, transport/ and wamp/ (with sub-packages), written as
// lean/Nexus/Gen/Sites.lean (namespace Nexus.Gen.Sites).
//
// The packages are type-checked from source with go/types (standard library
// from GOROOT source; third-party imports are replaced by empty packages and
// the resulting type errors are ignored), so that channel operations, message
// types and map/slice indexing are classified by type, not by spelling.
//
// Every textual attribute (function name, normalised expression, channel
// text) is emitted as a 64-bit FNV-1a hash (a Nat) with the text in a comment:
// deciding string equality is far too slow in the Lean kernel, Nat equality
// is fast. Hand-written expectations name sites with the `key! "text"` macro
// (Nexus/L3/Key.lean) which computes the same hash at elaboration time. Keys
// are built from function + normalised expression text (+ "#n" for the n-th
// textually identical site of a function), never from line numbers.
//
// Tables: (a) panicSites  (b) closeSites  (c) chanOps  (d) goSites
// (e) globals  (f) msgSends  (g) stmt order of the shutdown functions
// (h) the handleInboundMessages type switch and the authz gate; plus
// calls (static call edges between functions of the three trees) and
// closures (every function literal and how it is used).
//
// Anything that cannot be classified makes the target fail.

import (
	"bytes"
	"fmt"
	"go/ast"
	"go/importer"
	"go/parser"
	"go/printer"
	"go/token"
	"go/types"
	"os"
	"path/filepath"
	"regexp"
	"sort"
	"strings"
)

func init() { targets["sites"] = genSites }

const nexusMod = "github.com/gammazero/nexus/v3"

// ---------------------------------------------------------------------------
// loading

type sitesLoader struct {
	repo  string
	fset  *token.FileSet
	std   types.Importer
	pkgs  map[string]*types.Package
	infos map[string]*types.Info
	files map[string][]*ast.File
	src   map[string][]byte // file name -> content
	fatal []string
}

func (l *sitesLoader) Import(path string) (*types.Package, error) {
	if p, ok := l.pkgs[path]; ok {
		return p, nil
	}
	if path == nexusMod || strings.HasPrefix(path, nexusMod+"/") {
		return l.load(path)
	}
	if !strings.Contains(strings.Split(path, "/")[0], ".") {
		p, err := l.std.Import(path)
		if err == nil {
			l.pkgs[path] = p
		}
		return p, err
	}
	// Third-party module: an empty stand-in. Expressions of its types stay
	// untyped; the extractor fails only if it needs one of them.
	name := path[strings.LastIndex(path, "/")+1:]
	if name == "codec" || name == "websocket" || name == "deque" {
		// as imported
	}
	p := types.NewPackage(path, name)
	p.MarkComplete()
	l.pkgs[path] = p
	return p, nil
}

func (l *sitesLoader) load(path string) (*types.Package, error) {
	rel := strings.TrimPrefix(strings.TrimPrefix(path, nexusMod), "/")
	dir := filepath.Join(l.repo, rel)
	ents, err := os.ReadDir(dir)
	if err != nil {
		return nil, err
	}
	var files []*ast.File
	for _, e := range ents {
		n := e.Name()
		if e.IsDir() || !strings.HasSuffix(n, ".go") || strings.HasSuffix(n, "_test.go") {
			continue
		}
		fn := filepath.Join(dir, n)
		b, err := os.ReadFile(fn)
		if err != nil {
			return nil, err
		}
		f, err := parser.ParseFile(l.fset, fn, b, parser.ParseComments)
		if err != nil {
			return nil, err
		}
		// Files guarded by the verification build tag are hooks of the
		// machinery, not router code.
		if verifTagged(f) {
			continue
		}
		l.src[fn] = b
		files = append(files, f)
	}
	info := &types.Info{
		Types:      map[ast.Expr]types.TypeAndValue{},
		Defs:       map[*ast.Ident]types.Object{},
		Uses:       map[*ast.Ident]types.Object{},
		Selections: map[*ast.SelectorExpr]*types.Selection{},
	}
	conf := types.Config{Importer: l, Error: func(error) {}}
	p, _ := conf.Check(path, l.fset, files, info)
	l.pkgs[path] = p
	l.infos[path] = info
	l.files[path] = files
	return p, nil
}

func verifTagged(f *ast.File) bool {
	for _, cg := range f.Comments {
		if cg.Pos() >= f.Package {
			break
		}
		for _, c := range cg.List {
			if strings.HasPrefix(c.Text, "//go:build") && strings.Contains(c.Text, "verif") {
				return true
			}
		}
	}
	return false
}

// ---------------------------------------------------------------------------
// keys

func fnv1a(s string) uint64 {
	h := uint64(14695981039346656037)
	for i := 0; i < len(s); i++ {
		h ^= uint64(s[i])
		h *= 1099511628211
	}
	return h
}

type keyTab struct {
	byHash map[uint64]string
	err    error
}

func (k *keyTab) key(s string) uint64 {
	h := fnv1a(s)
	if old, ok := k.byHash[h]; ok && old != s {
		k.err = fmt.Errorf("hash collision between %q and %q", old, s)
	}
	k.byHash[h] = s
	return h
}

// ---------------------------------------------------------------------------
// records

type panicSite struct {
	file, fn, kind, expr, key string
}
type closeSite struct {
	file, fn, kind, target, recvType, gctx, garg, key string
}
type chanOp struct {
	file, fn, op, chanText, cls, owner, sel, selID, gctx, garg, key string
	alts                                                            []string
	committed                                                       bool
	pos                                                             token.Pos
	obj                                                             types.Object // local channel variable
	node                                                            ast.Node
	postNode                                                        ast.Node
}
type goSite struct {
	file, fn, callee, gctx, garg, key string
	index                             int
}
type globalVar struct {
	file, pkg, name, typ        string
	written, addrTaken, mutType bool
}
type msgSend struct {
	file, fn, msgType, errType, via, target, gctx, garg, key string
	nonBlocking                                              bool
}
type syncOp struct {
	file, fn, kind, target, gctx, garg, key string
}
type callEdge struct {
	fn, gctx, garg, callee string
}
type closureSite struct {
	fn, how, key string
}
type stmtList struct {
	name  string
	stmts []string
}
type switchCase struct {
	types  string
	callee string
}

type sitesOut struct {
	panics   []panicSite
	closes   []closeSite
	ops      []chanOp
	gos      []goSite
	globals  []globalVar
	sends    []msgSend
	calls    []callEdge
	syncs    []syncOp
	closures []closureSite
	orders   []stmtList
	cases    []switchCase
	gateIdx  int
	swIdx    int
	gateCond string
	between  []string
	fns      []string // every function with a body
	// L3 additions (sites_l3.go)
	exits    []loopExit
	consts   []durConst
	assigns  []fieldAssign
	endRecvs []endRecvSite
	msgRets  []msgReturn
}

// ---------------------------------------------------------------------------
// per-function analysis

type fnCtx struct {
	l        *sitesLoader
	out      *sitesOut
	pkgPath  string
	pkgRel   string
	info     *types.Info
	file     string // relative file name
	absFile  string
	name     string // function key text
	recvName string
	recvType string
	decl     *ast.FuncDecl
	body     *ast.BlockStmt
	stack    []ast.Node
	goIndex  map[*ast.GoStmt]int
	commOps  map[ast.Node]*selInfo
	tainted  map[types.Object]bool
	seen     map[string]int
	errs     *[]string
	// closures assigned to local variables and the contexts of their calls
	localLits map[*ast.FuncLit][]ctxT
	pass      int
	finding   bool
}

type selInfo struct {
	sel        *ast.SelectStmt
	hasDefault bool
	ncases     int
	id         string
	chans      map[ast.Node]string // comm op node -> channel text
}

var wsRe = regexp.MustCompile(`\s+`)

func (c *fnCtx) fail(pos token.Pos, format string, a ...any) {
	*c.errs = append(*c.errs, fmt.Sprintf("%s: %s", c.l.fset.Position(pos), fmt.Sprintf(format, a...)))
}

// text prints a node, collapses white space and replaces the receiver
// variable by the receiver's type name.
func (c *fnCtx) text(n ast.Node) string {
	var b bytes.Buffer
	if err := printer.Fprint(&b, c.l.fset, n); err != nil {
		c.fail(n.Pos(), "cannot print node: %v", err)
	}
	return c.norm(b.String())
}

func (c *fnCtx) norm(s string) string {
	s = wsRe.ReplaceAllString(strings.TrimSpace(s), " ")
	if c.recvName != "" && c.recvName != "_" {
		re := regexp.MustCompile(`(^|[^A-Za-z0-9_.])` + regexp.QuoteMeta(c.recvName) + `\.`)
		s = re.ReplaceAllString(s, "${1}"+c.recvType+".")
		re2 := regexp.MustCompile(`(^|[^A-Za-z0-9_.])` + regexp.QuoteMeta(c.recvName) + `([^A-Za-z0-9_.]|$)`)
		s = re2.ReplaceAllString(s, "${1}"+c.recvType+"${2}")
	}
	return s
}

// uniq numbers textually identical sites of one function in source order.
func (c *fnCtx) uniq(kind, expr string) string {
	base := c.name + "|" + kind + "|" + expr
	c.seen[base]++
	if n := c.seen[base]; n > 1 {
		return fmt.Sprintf("%s#%d", base, n)
	}
	return base
}

// gctx is the goroutine context of the node on top of the stack: the
// innermost function literal that changes goroutine.
func (c *fnCtx) gctx() (kind, arg string) {
	k, a, _ := c.gctxNode()
	return k, a
}

// posters maps a function that hands one of its function-typed parameters to
// a channel (router.post) to the parameter index and the channel text.
type posterInfo struct {
	param int
	chanT string
}

var posters = map[string]posterInfo{}

func (c *fnCtx) gctxNode() (kind, arg string, post ast.Node) {
	for i := len(c.stack) - 1; i >= 0; i-- {
		lit, ok := c.stack[i].(*ast.FuncLit)
		if !ok || i == 0 {
			continue
		}
		// a closure held in a local variable runs where the variable is called
		if cs, ok := c.localLits[lit]; ok && !c.finding && len(cs) > 0 {
			j := c.pass
			if j >= len(cs) {
				j = 0
			}
			return cs[j].kind, cs[j].arg, cs[j].post
		}
		switch p := c.stack[i-1].(type) {
		case *ast.SendStmt:
			if p.Value == lit {
				return "posted", c.text(p.Chan), p
			}
		case *ast.CallExpr:
			if p.Fun == lit && i >= 2 {
				if g, ok := c.stack[i-2].(*ast.GoStmt); ok {
					return "golit", fmt.Sprintf("%s#go%d", c.name, c.goIndex[g]), g
				}
			}
			if pi, ok := posters[c.calleeName(p)]; ok && pi.param < len(p.Args) && p.Args[pi.param] == lit {
				return "posted", pi.chanT, p
			}
		}
	}
	return "body", "", nil
}

// findPoster records the function as a posting helper if it sends one of its
// function-typed parameters on a channel.
func (c *fnCtx) findPoster() {
	if c.decl == nil || c.decl.Type.Params == nil {
		return
	}
	idx := 0
	params := map[types.Object]int{}
	for _, f := range c.decl.Type.Params.List {
		for _, n := range f.Names {
			if o := c.info.Defs[n]; o != nil {
				if _, ok := o.Type().Underlying().(*types.Signature); ok {
					params[o] = idx
				}
			}
			idx++
		}
		if len(f.Names) == 0 {
			idx++
		}
	}
	if len(params) == 0 {
		return
	}
	ast.Inspect(c.body, func(n ast.Node) bool {
		if s, ok := n.(*ast.SendStmt); ok {
			if id, ok := s.Value.(*ast.Ident); ok {
				if i, ok := params[c.info.Uses[id]]; ok {
					posters[c.name] = posterInfo{param: i, chanT: c.text(s.Chan)}
				}
			}
		}
		return true
	})
}

func namedOf(t types.Type) *types.Named {
	for {
		switch x := t.(type) {
		case *types.Pointer:
			t = x.Elem()
		case *types.Named:
			return x
		default:
			return nil
		}
	}
}

func isChan(t types.Type) bool {
	if t == nil {
		return false
	}
	_, ok := t.Underlying().(*types.Chan)
	return ok
}

// classify a channel expression.
func (c *fnCtx) classify(e ast.Expr) (cls, owner string, obj types.Object) {
	for {
		p, ok := e.(*ast.ParenExpr)
		if !ok {
			break
		}
		e = p.X
	}
	switch x := e.(type) {
	case *ast.CallExpr:
		if s, ok := x.Fun.(*ast.SelectorExpr); ok {
			recv := c.text(s.X)
			isMeta := strings.HasSuffix(recv, "metaPeer") || strings.HasSuffix(recv, "metaSess")
			switch s.Sel.Name {
			case "Send":
				if isMeta {
					return "peerSendMeta", recv, nil
				}
				return "peerSendClient", recv, nil
			case "Recv":
				if isMeta {
					return "peerRecvMeta", recv, nil
				}
				return "peerRecvClient", recv, nil
			case "RecvDone":
				return "recvDone", recv, nil
			case "Done":
				return "ctxDone", recv, nil
			case "After":
				if id, ok := s.X.(*ast.Ident); ok && id.Name == "time" {
					return "timer", "time.After", nil
				}
			}
		}
		return "other", c.text(e), nil
	case *ast.SelectorExpr:
		if sel, ok := c.info.Selections[x]; ok && sel.Kind() == types.FieldVal {
			own := "?"
			if n := namedOf(sel.Recv()); n != nil {
				own = n.Obj().Name()
			}
			// the struct that really declares the field (embedded fields)
			if v, ok := sel.Obj().(*types.Var); ok && v.IsField() {
				if x.Sel.Name == "actionChan" {
					return "action", own, nil
				}
				if x.Sel.Name == "C" && (own == "Timer" || own == "Ticker") {
					return "timer", own + ".C", nil
				}
				return "field", own + "." + x.Sel.Name, nil
			}
		}
		return "other", c.text(e), nil
	case *ast.Ident:
		o := c.info.Uses[x]
		if o == nil {
			o = c.info.Defs[x]
		}
		if v, ok := o.(*types.Var); ok {
			if v.Parent() == v.Pkg().Scope() {
				return "global", x.Name, nil
			}
			// a local that is an alias of another channel expression
			// (recv := sess.Recv()) is classified as that expression
			var defs []ast.Expr
			ast.Inspect(c.body, func(n ast.Node) bool {
				as, ok := n.(*ast.AssignStmt)
				if !ok || len(as.Lhs) != len(as.Rhs) {
					return true
				}
				for i, lh := range as.Lhs {
					if id, ok := lh.(*ast.Ident); ok {
						lo := c.info.Defs[id]
						if lo == nil {
							lo = c.info.Uses[id]
						}
						if lo == v {
							defs = append(defs, as.Rhs[i])
						}
					}
				}
				return true
			})
			if len(defs) == 1 {
				if call, ok := defs[0].(*ast.CallExpr); ok {
					if id, ok := call.Fun.(*ast.Ident); !ok || id.Name != "make" {
						if cls, owner, _ := c.classify(defs[0]); cls != "other" && cls != "local" {
							return cls, owner, nil
						}
					}
				}
			}
			return "local", x.Name, v
		}
	}
	return "other", c.text(e), nil
}

func (c *fnCtx) addChanOp(node ast.Node, op string, ch ast.Expr) {
	t := c.info.Types[ch].Type
	if op != "range" && !isChan(t) {
		// A send or receive on something whose type is unknown can only be a
		// third-party channel.
		if t == nil || t == types.Typ[types.Invalid] {
			// classify by text
		} else {
			c.fail(node.Pos(), "%s on non-channel type %v", op, t)
			return
		}
	}
	cls, owner, obj := c.classify(ch)
	sel, selID := "plain", ""
	var alts []string
	if si, ok := c.commOps[node]; ok {
		selID = si.id
		switch {
		case si.hasDefault:
			sel = "selDefault"
		case si.ncases > 1:
			sel = "selMulti"
		default:
			sel = "selSingle"
		}
		for n, txt := range si.chans {
			if n != node {
				alts = append(alts, txt)
			}
		}
		sort.Strings(alts)
	}
	gk, ga, pn := c.gctxNode()
	txt := c.text(ch)
	c.out.ops = append(c.out.ops, chanOp{
		postNode: pn,
		file:     c.file, fn: c.name, op: op, chanText: txt, cls: cls, owner: owner,
		sel: sel, selID: selID, gctx: gk, garg: ga, alts: alts,
		key: c.uniq(op, txt), pos: node.Pos(), obj: obj, node: node,
	})
}

var msgFieldNames = map[string]bool{"Arguments": true, "ArgumentsKw": true, "Details": true, "Options": true}

// isMsgData reports whether an expression denotes message data: a message
// field, or a local value derived from one, or a parameter of a container
// type that can carry message data.
func (c *fnCtx) isMsgData(e ast.Expr) bool {
	found := false
	ast.Inspect(e, func(n ast.Node) bool {
		switch x := n.(type) {
		case *ast.FuncLit:
			return false
		case *ast.SelectorExpr:
			if msgFieldNames[x.Sel.Name] {
				found = true
			}
		case *ast.Ident:
			if o := c.info.Uses[x]; o != nil && c.tainted[o] {
				found = true
			}
		}
		return !found
	})
	return found
}

func isDataContainer(t types.Type) bool {
	if t == nil {
		return false
	}
	if n, ok := t.(*types.Named); ok {
		switch n.Obj().Name() {
		case "Dict", "List":
			return n.Obj().Pkg() != nil && n.Obj().Pkg().Name() == "wamp"
		}
	}
	switch u := t.(type) {
	case *types.Slice:
		if i, ok := u.Elem().Underlying().(*types.Interface); ok && i.Empty() {
			return true
		}
	case *types.Map:
		if i, ok := u.Elem().Underlying().(*types.Interface); ok && i.Empty() {
			return true
		}
	}
	return false
}

// computeTaint marks parameters of data-container type and, to a fixpoint,
// locals assigned or ranged from message data.
func (c *fnCtx) computeTaint() {
	c.tainted = map[types.Object]bool{}
	markParams := func(ft *ast.FuncType) {
		if ft.Params == nil {
			return
		}
		for _, f := range ft.Params.List {
			for _, n := range f.Names {
				if o := c.info.Defs[n]; o != nil && isDataContainer(o.Type()) {
					c.tainted[o] = true
				}
			}
		}
	}
	if c.decl != nil {
		markParams(c.decl.Type)
	}
	ast.Inspect(c.body, func(n ast.Node) bool {
		if fl, ok := n.(*ast.FuncLit); ok {
			markParams(fl.Type)
		}
		return true
	})
	for changed := true; changed; {
		changed = false
		mark := func(id *ast.Ident) {
			o := c.info.Defs[id]
			if o == nil {
				o = c.info.Uses[id]
			}
			if o != nil && !c.tainted[o] {
				c.tainted[o] = true
				changed = true
			}
		}
		ast.Inspect(c.body, func(n ast.Node) bool {
			switch x := n.(type) {
			case *ast.AssignStmt:
				any := false
				for _, r := range x.Rhs {
					if c.isMsgData(r) {
						any = true
					}
				}
				if any {
					for _, lh := range x.Lhs {
						if id, ok := lh.(*ast.Ident); ok && id.Name != "_" {
							// only containers and interface values carry on
							o := c.info.Defs[id]
							if o == nil {
								o = c.info.Uses[id]
							}
							if o != nil {
								t := o.Type()
								_, isIface := t.Underlying().(*types.Interface)
								if isDataContainer(t) || isIface {
									mark(id)
								} else if _, ok := t.Underlying().(*types.Slice); ok {
									mark(id)
								} else if _, ok := t.Underlying().(*types.Map); ok {
									mark(id)
								}
							}
						}
					}
				}
			case *ast.RangeStmt:
				if c.isMsgData(x.X) {
					for _, e := range []ast.Expr{x.Key, x.Value} {
						if id, ok := e.(*ast.Ident); ok && id.Name != "_" {
							o := c.info.Defs[id]
							if o == nil {
								o = c.info.Uses[id]
							}
							if o != nil {
								t := o.Type()
								_, isIface := t.Underlying().(*types.Interface)
								if isDataContainer(t) || isIface {
									mark(id)
								}
							}
						}
					}
				}
			case *ast.ValueSpec:
				any := false
				for _, r := range x.Values {
					if c.isMsgData(r) {
						any = true
					}
				}
				if any {
					for _, id := range x.Names {
						if o := c.info.Defs[id]; o != nil && (isDataContainer(o.Type())) {
							mark(id)
						}
					}
				}
			}
			return true
		})
	}
}

// commaOK reports whether the expression on top of the stack is the single
// right-hand side of a two-valued assignment or declaration.
func (c *fnCtx) commaOK(e ast.Expr) bool {
	if len(c.stack) < 2 {
		return false
	}
	switch p := c.stack[len(c.stack)-2].(type) {
	case *ast.AssignStmt:
		return len(p.Lhs) == 2 && len(p.Rhs) == 1 && p.Rhs[0] == e
	case *ast.ValueSpec:
		return len(p.Names) == 2 && len(p.Values) == 1 && p.Values[0] == e
	}
	return false
}

func (c *fnCtx) isAssignTarget(e ast.Expr) bool {
	if len(c.stack) < 2 {
		return false
	}
	switch p := c.stack[len(c.stack)-2].(type) {
	case *ast.AssignStmt:
		for _, l := range p.Lhs {
			if l == e {
				return true
			}
		}
	case *ast.IncDecStmt:
		return p.X == e
	}
	return false
}

func (c *fnCtx) msgTypeOf(e ast.Expr) (string, bool) {
	t := c.info.Types[e].Type
	if t == nil {
		return "", false
	}
	if n := namedOf(t); n != nil && n.Obj().Pkg() != nil && n.Obj().Pkg().Name() == "wamp" {
		if _, isIface := n.Underlying().(*types.Interface); isIface {
			return "Message", true // dynamic
		}
		return n.Obj().Name(), true
	}
	return "", false
}

// errTypeOf finds the Type field of the wamp.Error literal that defines the
// message expression.
func (c *fnCtx) errTypeOf(e ast.Expr) string {
	var lit *ast.CompositeLit
	var find func(e ast.Expr)
	find = func(e ast.Expr) {
		switch x := e.(type) {
		case *ast.UnaryExpr:
			find(x.X)
		case *ast.ParenExpr:
			find(x.X)
		case *ast.CompositeLit:
			lit = x
		case *ast.Ident:
			o := c.info.Uses[x]
			if o == nil {
				return
			}
			var lits []*ast.CompositeLit
			ast.Inspect(c.body, func(n ast.Node) bool {
				as, ok := n.(*ast.AssignStmt)
				if !ok {
					return true
				}
				for i, lh := range as.Lhs {
					id, ok := lh.(*ast.Ident)
					if !ok || i >= len(as.Rhs) {
						continue
					}
					lo := c.info.Defs[id]
					if lo == nil {
						lo = c.info.Uses[id]
					}
					if lo != o {
						continue
					}
					r := as.Rhs[i]
					if u, ok := r.(*ast.UnaryExpr); ok {
						r = u.X
					}
					if cl, ok := r.(*ast.CompositeLit); ok {
						lits = append(lits, cl)
					}
				}
				return true
			})
			if len(lits) == 1 {
				lit = lits[0]
			}
		}
	}
	find(e)
	if lit == nil {
		return "?"
	}
	for _, el := range lit.Elts {
		kv, ok := el.(*ast.KeyValueExpr)
		if !ok {
			continue
		}
		if id, ok := kv.Key.(*ast.Ident); ok && id.Name == "Type" {
			// msg.MessageType() with a statically known msg
			if call, ok := kv.Value.(*ast.CallExpr); ok {
				if s, ok := call.Fun.(*ast.SelectorExpr); ok && s.Sel.Name == "MessageType" {
					if mt, ok := c.msgTypeOf(s.X); ok && mt != "Message" {
						return strings.ToUpper(mt)
					}
					return "dynamic"
				}
			}
			t := c.text(kv.Value)
			return strings.TrimPrefix(t, "wamp.")
		}
	}
	return "unset"
}

func (c *fnCtx) addMsgSend(node ast.Node, via string, target, msg ast.Expr, nonBlocking bool) {
	mt, ok := c.msgTypeOf(msg)
	if !ok {
		c.fail(node.Pos(), "cannot determine the message type of %s", c.text(msg))
		return
	}
	et := ""
	if mt == "Error" {
		et = c.errTypeOf(msg)
	}
	gk, ga := c.gctx()
	tt := c.text(target)
	c.out.sends = append(c.out.sends, msgSend{
		file: c.file, fn: c.name, msgType: mt, errType: et, via: via, target: tt,
		gctx: gk, garg: ga, nonBlocking: nonBlocking,
		key: c.uniq("msg", via+" "+tt+" "+mt+" "+et),
	})
}

func (c *fnCtx) calleeName(call *ast.CallExpr) string {
	var obj types.Object
	switch f := call.Fun.(type) {
	case *ast.Ident:
		obj = c.info.Uses[f]
	case *ast.SelectorExpr:
		if sel, ok := c.info.Selections[f]; ok {
			obj = sel.Obj()
		} else {
			obj = c.info.Uses[f.Sel]
		}
	}
	fn, ok := obj.(*types.Func)
	if !ok || fn.Pkg() == nil {
		return ""
	}
	pp := fn.Pkg().Path()
	if pp != nexusMod && !strings.HasPrefix(pp, nexusMod+"/") {
		return ""
	}
	rel := strings.TrimPrefix(strings.TrimPrefix(pp, nexusMod), "/")
	sig := fn.Type().(*types.Signature)
	if r := sig.Recv(); r != nil {
		if n := namedOf(r.Type()); n != nil {
			return rel + "." + n.Obj().Name() + "." + fn.Name()
		}
		return ""
	}
	return rel + "." + fn.Name()
}

func (c *fnCtx) visit(n ast.Node) bool {
	if n == nil {
		c.stack = c.stack[:len(c.stack)-1]
		return true
	}
	c.stack = append(c.stack, n)
	if c.pass == 0 {
		c.visitL3(n)
	}
	switch x := n.(type) {
	case *ast.SelectStmt:
		si := &selInfo{sel: x, chans: map[ast.Node]string{}}
		c.seen[c.name+"|select"]++
		si.id = fmt.Sprintf("%s|select#%d", c.name, c.seen[c.name+"|select"])
		for _, cl := range x.Body.List {
			cc := cl.(*ast.CommClause)
			if cc.Comm == nil {
				si.hasDefault = true
				continue
			}
			si.ncases++
			switch s := cc.Comm.(type) {
			case *ast.SendStmt:
				c.commOps[s] = si
				si.chans[s] = c.text(s.Chan)
			case *ast.ExprStmt:
				if u, ok := s.X.(*ast.UnaryExpr); ok && u.Op == token.ARROW {
					c.commOps[u] = si
					si.chans[u] = c.text(u.X)
				} else {
					c.fail(s.Pos(), "unsupported select communication")
				}
			case *ast.AssignStmt:
				if len(s.Rhs) == 1 {
					if u, ok := s.Rhs[0].(*ast.UnaryExpr); ok && u.Op == token.ARROW {
						c.commOps[u] = si
						si.chans[u] = c.text(u.X)
						break
					}
				}
				c.fail(s.Pos(), "unsupported select communication")
			default:
				c.fail(cc.Pos(), "unsupported select communication")
			}
		}
	case *ast.SendStmt:
		c.addChanOp(x, "send", x.Chan)
		cls, _, _ := c.classify(x.Chan)
		if cls == "peerSendClient" || cls == "peerSendMeta" {
			nb := false
			if si, ok := c.commOps[x]; ok && si.hasDefault {
				nb = true
			}
			var target ast.Expr = x.Chan
			if call, ok := x.Chan.(*ast.CallExpr); ok {
				if s, ok := call.Fun.(*ast.SelectorExpr); ok {
					target = s.X
				}
			}
			c.addMsgSend(x, "send", target, x.Value, nb)
		}
	case *ast.UnaryExpr:
		if x.Op == token.ARROW {
			c.addChanOp(x, "recv", x.X)
		}
		if x.Op == token.AND {
			if id, ok := x.X.(*ast.Ident); ok {
				if v, ok := c.info.Uses[id].(*types.Var); ok && v.Pkg() != nil && v.Parent() == v.Pkg().Scope() {
					markGlobal(c.out, v, "addr")
				}
			}
		}
	case *ast.RangeStmt:
		if isChan(c.info.Types[x.X].Type) {
			c.addChanOp(x, "range", x.X)
		} else if t := c.info.Types[x.X].Type; t == nil || t == types.Typ[types.Invalid] {
			c.fail(x.Pos(), "range over expression of unknown type: %s", c.text(x.X))
		}
	case *ast.GoStmt:
		callee := "func"
		if _, ok := x.Call.Fun.(*ast.FuncLit); !ok {
			callee = c.calleeName(x.Call)
			if callee == "" {
				callee = "ext:" + c.text(x.Call.Fun)
			}
		}
		// context of the go statement itself (not of the literal it starts)
		gk, ga := c.gctx()
		c.out.gos = append(c.out.gos, goSite{file: c.file, fn: c.name, callee: callee, gctx: gk, garg: ga,
			index: c.goIndex[x], key: fmt.Sprintf("%s|go#%d", c.name, c.goIndex[x])})
	case *ast.FuncLit:
		how := "other"
		if len(c.stack) >= 2 {
			switch p := c.stack[len(c.stack)-2].(type) {
			case *ast.SendStmt:
				if p.Value == x {
					how = "posted " + c.text(p.Chan)
				}
			case *ast.CallExpr:
				if p.Fun == x {
					how = "called"
					if len(c.stack) >= 3 {
						switch c.stack[len(c.stack)-3].(type) {
						case *ast.GoStmt:
							how = "go"
						case *ast.DeferStmt:
							how = "defer"
						}
					}
				} else {
					how = "arg " + c.text(p.Fun)
				}
			case *ast.AssignStmt:
				for i, r := range p.Rhs {
					if r == x && i < len(p.Lhs) {
						how = "assigned " + c.text(p.Lhs[i])
					}
				}
			case *ast.ValueSpec:
				how = "var"
			case *ast.ReturnStmt:
				how = "returned"
			case *ast.KeyValueExpr:
				how = "field " + c.text(p.Key)
			}
		}
		c.out.closures = append(c.out.closures, closureSite{fn: c.name, how: how, key: c.uniq("closure", how)})
	case *ast.TypeAssertExpr:
		if x.Type != nil && !c.commaOK(x) {
			c.out.panics = append(c.out.panics, panicSite{file: c.file, fn: c.name, kind: "assert", expr: c.text(x), key: c.uniq("assert", c.text(x))})
		}
	case *ast.IndexExpr:
		c.indexSite(x, x.X, "index")
	case *ast.SliceExpr:
		c.indexSite(x, x.X, "slice")
	case *ast.CallExpr:
		if id, ok := x.Fun.(*ast.Ident); ok && c.info.Uses[id] == types.Universe.Lookup("panic") {
			arg := ""
			if len(x.Args) == 1 {
				arg = c.text(x.Args[0])
			}
			c.out.panics = append(c.out.panics, panicSite{file: c.file, fn: c.name, kind: "panic", expr: arg, key: c.uniq("panic", arg)})
		}
		if id, ok := x.Fun.(*ast.Ident); ok && c.info.Uses[id] == types.Universe.Lookup("close") && len(x.Args) == 1 {
			gk, ga := c.gctx()
			cls, owner, _ := c.classify(x.Args[0])
			t := c.text(x.Args[0])
			c.out.closes = append(c.out.closes, closeSite{file: c.file, fn: c.name, kind: "close", target: t, recvType: cls + ":" + owner, gctx: gk, garg: ga, key: c.uniq("close", t)})
		}
		if s, ok := x.Fun.(*ast.SelectorExpr); ok {
			if s.Sel.Name == "Close" && len(x.Args) == 0 {
				gk, ga := c.gctx()
				rt := "?"
				if t := c.info.Types[s.X].Type; t != nil && t != types.Typ[types.Invalid] {
					rt = types.TypeString(t, func(p *types.Package) string { return p.Name() })
				}
				t := c.text(s.X)
				c.out.closes = append(c.out.closes, closeSite{file: c.file, fn: c.name, kind: "Close", target: t, recvType: rt, gctx: gk, garg: ga, key: c.uniq("Close", t)})
			}
			if s.Sel.Name == "trySend" && len(x.Args) == 2 {
				c.addMsgSend(x, "trySend", x.Args[0], x.Args[1], true)
			}
		}
		if s, ok := x.Fun.(*ast.SelectorExpr); ok {
			if t := c.info.Types[s.X].Type; t != nil {
				if n := namedOf(t); n != nil && n.Obj().Pkg() != nil && n.Obj().Pkg().Path() == "sync" {
					kind := ""
					switch n.Obj().Name() + "." + s.Sel.Name {
					case "Mutex.Lock", "RWMutex.Lock", "RWMutex.RLock":
						kind = "lock"
					case "Mutex.Unlock", "RWMutex.Unlock", "RWMutex.RUnlock":
						kind = "unlock"
					case "WaitGroup.Wait":
						kind = "wgWait"
					case "WaitGroup.Add":
						kind = "wgAdd"
					case "WaitGroup.Done":
						kind = "wgDone"
					case "Once.Do":
						kind = "onceDo"
					}
					if kind != "" {
						gk, ga := c.gctx()
						tt := c.text(s.X)
						c.out.syncs = append(c.out.syncs, syncOp{file: c.file, fn: c.name, kind: kind, target: tt, gctx: gk, garg: ga, key: c.uniq(kind, tt)})
					}
				}
			}
		}
		if callee := c.calleeName(x); callee != "" {
			isGo := false
			if len(c.stack) >= 2 {
				if g, ok := c.stack[len(c.stack)-2].(*ast.GoStmt); ok && g.Call == x {
					isGo = true
				}
			}
			if !isGo {
				gk, ga := c.gctx()
				c.out.calls = append(c.out.calls, callEdge{fn: c.name, gctx: gk, garg: ga, callee: callee})
			}
		}
	case *ast.AssignStmt:
		for _, lh := range x.Lhs {
			c.noteGlobalWrite(lh)
		}
	case *ast.IncDecStmt:
		c.noteGlobalWrite(x.X)
	}
	return true
}

func rootIdent(e ast.Expr) *ast.Ident {
	for {
		switch x := e.(type) {
		case *ast.Ident:
			return x
		case *ast.SelectorExpr:
			e = x.X
		case *ast.IndexExpr:
			e = x.X
		case *ast.StarExpr:
			e = x.X
		case *ast.ParenExpr:
			e = x.X
		default:
			return nil
		}
	}
}

var globalMarks = map[*types.Var]map[string]bool{}

func markGlobal(_ *sitesOut, v *types.Var, what string) {
	if globalMarks[v] == nil {
		globalMarks[v] = map[string]bool{}
	}
	globalMarks[v][what] = true
}

func (c *fnCtx) noteGlobalWrite(lh ast.Expr) {
	id := rootIdent(lh)
	if id == nil {
		return
	}
	o := c.info.Uses[id]
	if v, ok := o.(*types.Var); ok && v.Pkg() != nil && v.Parent() == v.Pkg().Scope() {
		markGlobal(c.out, v, "write")
	}
}

func (c *fnCtx) indexSite(node ast.Expr, base ast.Expr, what string) {
	if !c.isMsgData(base) {
		return
	}
	t := c.info.Types[base].Type
	kind := ""
	switch {
	case t == nil || t == types.Typ[types.Invalid]:
		// The base has a third-party type in its chain (event history deque):
		// decide by the field name, which fixes the type in package wamp.
		name := ""
		if se, ok := base.(*ast.SelectorExpr); ok {
			name = se.Sel.Name
		}
		switch {
		case what == "slice":
			kind = "slice"
		case name == "Details" || name == "Options" || name == "ArgumentsKw":
			if c.isAssignTarget(node) {
				kind = "mapWrite"
			} else {
				kind = "mapRead"
			}
		case name == "Arguments":
			kind = "indexList"
		default:
			c.fail(node.Pos(), "index on message data of unknown type: %s", c.text(node))
			return
		}
	case what == "slice":
		kind = "slice"
	default:
		switch t.Underlying().(type) {
		case *types.Map:
			if c.isAssignTarget(node) {
				kind = "mapWrite"
			} else {
				kind = "mapRead"
			}
		case *types.Slice, *types.Array, *types.Basic, *types.Pointer:
			kind = "indexList"
		default:
			// generic instantiation f[T] and the like are not index sites
			if _, ok := t.Underlying().(*types.Signature); ok {
				return
			}
			c.fail(node.Pos(), "index on message data of unexpected type %v", t)
			return
		}
	}
	c.out.panics = append(c.out.panics, panicSite{file: c.file, fn: c.name, kind: kind, expr: c.text(node), key: c.uniq(kind, c.text(node))})
}

// ---------------------------------------------------------------------------
// (g) statement order

func (c *fnCtx) srcText(from, to token.Pos) string {
	b := c.l.src[c.absFile]
	f := c.l.fset.File(from)
	s := string(b[f.Offset(from):f.Offset(to)])
	// strip line comments
	var lines []string
	for _, ln := range strings.Split(s, "\n") {
		if i := strings.Index(ln, "//"); i >= 0 {
			ln = ln[:i]
		}
		lines = append(lines, ln)
	}
	return c.norm(strings.Join(lines, " "))
}

func (c *fnCtx) flatten(list []ast.Stmt, out *[]string) {
	for _, s := range list {
		c.flattenStmt(s, out)
	}
}

func (c *fnCtx) flattenStmt(s ast.Stmt, out *[]string) {
	switch x := s.(type) {
	case *ast.BlockStmt:
		*out = append(*out, "{")
		c.flatten(x.List, out)
		*out = append(*out, "}")
	case *ast.IfStmt:
		// the condition may hold one function literal (if !r.post(func() {…}) {)
		var lits []*ast.FuncLit
		ast.Inspect(x.Cond, func(n ast.Node) bool {
			if fl, ok := n.(*ast.FuncLit); ok {
				lits = append(lits, fl)
				return false
			}
			return true
		})
		switch {
		case len(lits) == 0:
			*out = append(*out, c.srcText(x.Pos(), x.Body.Lbrace+1))
		case len(lits) == 1 && x.Init == nil:
			*out = append(*out, c.srcText(x.Pos(), lits[0].Body.Lbrace+1))
			c.flatten(lits[0].Body.List, out)
			*out = append(*out, c.srcText(lits[0].Body.Rbrace, x.Body.Lbrace+1))
		default:
			c.fail(x.Pos(), "if statement with several function literals in its header")
		}
		c.flatten(x.Body.List, out)
		if x.Else != nil {
			*out = append(*out, "} else {")
			if b, ok := x.Else.(*ast.BlockStmt); ok {
				c.flatten(b.List, out)
			} else {
				c.flattenStmt(x.Else, out)
			}
		}
		*out = append(*out, "}")
	case *ast.ForStmt:
		*out = append(*out, c.srcText(x.Pos(), x.Body.Lbrace+1))
		c.flatten(x.Body.List, out)
		*out = append(*out, "}")
	case *ast.RangeStmt:
		*out = append(*out, c.srcText(x.Pos(), x.Body.Lbrace+1))
		c.flatten(x.Body.List, out)
		*out = append(*out, "}")
	case *ast.SelectStmt:
		*out = append(*out, "select {")
		for _, cl := range x.Body.List {
			cc := cl.(*ast.CommClause)
			if cc.Comm == nil {
				*out = append(*out, "default:")
			} else {
				*out = append(*out, "case "+c.text(cc.Comm)+":")
			}
			c.flatten(cc.Body, out)
		}
		*out = append(*out, "}")
	case *ast.SwitchStmt, *ast.TypeSwitchStmt:
		c.fail(s.Pos(), "switch statement in a function whose statement order is extracted")
	default:
		// simple statement, possibly holding one function literal
		var lits []*ast.FuncLit
		ast.Inspect(s, func(n ast.Node) bool {
			if fl, ok := n.(*ast.FuncLit); ok {
				lits = append(lits, fl)
				return false
			}
			return true
		})
		switch len(lits) {
		case 0:
			*out = append(*out, c.srcText(s.Pos(), s.End()))
		case 1:
			fl := lits[0]
			*out = append(*out, c.srcText(s.Pos(), fl.Body.Lbrace+1))
			c.flatten(fl.Body.List, out)
			*out = append(*out, c.srcText(fl.Body.Rbrace, s.End()))
		default:
			c.fail(s.Pos(), "statement with several function literals")
		}
	}
}

// ---------------------------------------------------------------------------

func (c *fnCtx) run() {
	c.seen = map[string]int{}
	c.goIndex = map[*ast.GoStmt]int{}
	c.commOps = map[ast.Node]*selInfo{}
	n := 0
	ast.Inspect(c.body, func(nd ast.Node) bool {
		if g, ok := nd.(*ast.GoStmt); ok {
			n++
			c.goIndex[g] = n
		}
		return true
	})
	c.computeTaint()
	c.finding = true
	c.findLocalClosures()
	c.finding = false
	c.pass = 0
	ast.Inspect(c.body, c.visit)
	// further passes: sites inside a local closure that is called in more than
	// one goroutine context are emitted once per context
	for p := 1; p < c.passes(); p++ {
		c.pass = p
		c.seen = map[string]int{}
		c.commOps = map[ast.Node]*selInfo{}
		c.stack = nil
		ast.Inspect(c.body, c.visitPass)
	}
	c.pass = 0
	c.seen = map[string]int{}
}

var orderFns = map[string]bool{
	"router.realm.close": true, "router.router.Close": true, "router.router.RemoveRealm": true,
	"router.realm.handleSession": true, "router.dealer.close": true, "router.broker.close": true,
	"transport.websocketPeer.Close": true, "transport.rawSocketPeer.Close": true,
}

func genSites(repo, out string) error {
	fset := token.NewFileSet()
	l := &sitesLoader{repo: repo, fset: fset, std: importer.ForCompiler(fset, "source", nil),
		pkgs: map[string]*types.Package{}, infos: map[string]*types.Info{}, files: map[string][]*ast.File{}, src: map[string][]byte{}}
	// every package directory below the three trees
	var pkgDirs []string
	for _, top := range []string{"wamp", "transport", "router"} {
		err := filepath.WalkDir(filepath.Join(repo, top), func(p string, d os.DirEntry, err error) error {
			if err != nil {
				return err
			}
			if !d.IsDir() {
				return nil
			}
			ents, _ := os.ReadDir(p)
			for _, e := range ents {
				if strings.HasSuffix(e.Name(), ".go") && !strings.HasSuffix(e.Name(), "_test.go") {
					rel, _ := filepath.Rel(repo, p)
					pkgDirs = append(pkgDirs, filepath.ToSlash(rel))
					break
				}
			}
			return nil
		})
		if err != nil {
			return err
		}
	}
	sort.Strings(pkgDirs)
	res := &sitesOut{gateIdx: -1, swIdx: -1}
	var errs []string
	globalMarks = map[*types.Var]map[string]bool{}
	foundOrder := map[string]bool{}
	foundSwitch := false
	foundLoop := map[string]bool{}
	posters = map[string]posterInfo{}
	var ctxs []*fnCtx
	for _, rel := range pkgDirs {
		path := nexusMod + "/" + rel
		if _, err := l.Import(path); err != nil {
			return fmt.Errorf("loading %s: %v", rel, err)
		}
		info := l.infos[path]
		files := l.files[path]
		sort.Slice(files, func(i, j int) bool { return fset.File(files[i].Pos()).Name() < fset.File(files[j].Pos()).Name() })
		for _, f := range files {
			abs := fset.File(f.Pos()).Name()
			relFile, _ := filepath.Rel(repo, abs)
			relFile = filepath.ToSlash(relFile)
			for _, d := range f.Decls {
				switch x := d.(type) {
				case *ast.FuncDecl:
					if x.Body == nil {
						continue
					}
					c := &fnCtx{l: l, out: res, pkgPath: path, pkgRel: rel, info: info, file: relFile, absFile: abs, decl: x, body: x.Body, errs: &errs}
					c.name = rel + "." + x.Name.Name
					if x.Recv != nil && len(x.Recv.List) == 1 {
						t := x.Recv.List[0].Type
						if s, ok := t.(*ast.StarExpr); ok {
							t = s.X
						}
						if ix, ok := t.(*ast.IndexExpr); ok {
							t = ix.X
						}
						if id, ok := t.(*ast.Ident); ok {
							c.recvType = id.Name
							c.name = rel + "." + id.Name + "." + x.Name.Name
						} else {
							c.fail(x.Pos(), "unsupported receiver")
						}
						if len(x.Recv.List[0].Names) == 1 {
							c.recvName = x.Recv.List[0].Names[0].Name
						}
					}
					res.fns = append(res.fns, c.name)
					c.findPoster()
					ctxs = append(ctxs, c)
				case *ast.GenDecl:
					res.addConsts(rel, info, x)
					if x.Tok != token.VAR {
						continue
					}
					for _, sp := range x.Specs {
						vs := sp.(*ast.ValueSpec)
						for i, nm := range vs.Names {
							if nm.Name == "_" {
								continue
							}
							v, _ := info.Defs[nm].(*types.Var)
							if v == nil {
								errs = append(errs, fmt.Sprintf("%s: untyped package variable %s", fset.Position(nm.Pos()), nm.Name))
								continue
							}
							ts := types.TypeString(v.Type(), func(p *types.Package) string { return p.Name() })
							mut := false
							switch v.Type().Underlying().(type) {
							case *types.Map, *types.Slice, *types.Pointer, *types.Chan, *types.Struct:
								mut = true
							}
							res.globals = append(res.globals, globalVar{file: relFile, pkg: rel, name: nm.Name, typ: ts, mutType: mut})
							// function literals in initialisers are analysed as functions
							if i < len(vs.Values) {
								var lits []*ast.FuncLit
								ast.Inspect(vs.Values[i], func(n ast.Node) bool {
									if fl, ok := n.(*ast.FuncLit); ok {
										lits = append(lits, fl)
										return false
									}
									return true
								})
								for _, fl := range lits {
									c := &fnCtx{l: l, out: res, pkgPath: path, pkgRel: rel, info: info, file: relFile, absFile: abs, body: fl.Body, errs: &errs}
									c.name = rel + ".var:" + nm.Name
									res.fns = append(res.fns, c.name)
									ctxs = append(ctxs, c)
								}
							}
						}
					}
				}
			}
		}
	}
	for _, c := range ctxs {
		c.run()
		if orderFns[c.name] {
			foundOrder[c.name] = true
			var st []string
			c.flatten(c.decl.Body.List, &st)
			res.orders = append(res.orders, stmtList{name: c.name, stmts: st})
		}
		if c.name == "router.realm.handleInboundMessages" {
			foundSwitch = c.inboundSwitch(res)
		}
		if loopFns[c.name] {
			foundLoop[c.name] = true
			c.loopExits()
		}
		c.msgReturns()
	}
	for name := range orderFns {
		if !foundOrder[name] {
			errs = append(errs, "function not found for statement order: "+name)
		}
	}
	for name := range loopFns {
		if !foundLoop[name] {
			errs = append(errs, "serving loop not found: "+name)
		}
	}
	if !foundSwitch {
		errs = append(errs, "handleInboundMessages: type switch / authz gate not found in the expected shape")
	}
	// global write marks
	for v, m := range globalMarks {
		for i := range res.globals {
			g := &res.globals[i]
			if g.name == v.Name() && nexusMod+"/"+g.pkg == v.Pkg().Path() {
				if m["write"] {
					g.written = true
				}
				if m["addr"] {
					g.addrTaken = true
				}
			}
		}
	}
	linkLocalChans(res, &errs)
	if len(errs) > 0 {
		sort.Strings(errs)
		return fmt.Errorf("cannot classify %d site(s):\n  %s", len(errs), strings.Join(errs, "\n  "))
	}
	return emitSites(res, out)
}

// linkLocalChans fills, for operations on function-local channels, the
// counterpart context (owner) and the "committed" flag of reply sends.
func linkLocalChans(res *sitesOut, errs *[]string) {
	byObj := map[types.Object][]int{}
	for i, op := range res.ops {
		if op.cls == "local" && op.obj != nil {
			byObj[op.obj] = append(byObj[op.obj], i)
		}
	}
	ctxOf := func(op chanOp) string {
		switch op.gctx {
		case "posted":
			return "posted:" + op.garg
		case "golit":
			return "golit:" + op.garg
		}
		return "body"
	}
	for _, idxs := range byObj {
		for _, i := range idxs {
			op := &res.ops[i]
			others := map[string]bool{}
			for _, j := range idxs {
				if c := ctxOf(res.ops[j]); c != ctxOf(*op) {
					others[c] = true
				}
			}
			// close(c) inside closures also counts as the other end
			var ks []string
			for k := range others {
				ks = append(ks, k)
			}
			sort.Strings(ks)
			op.owner = strings.Join(ks, ",")
		}
	}
	// the other end may be a close() rather than a channel operation
	for i := range res.ops {
		op := &res.ops[i]
		if op.cls != "local" || op.owner != "" {
			continue
		}
		var ks []string
		seen := map[string]bool{}
		for _, cs := range res.closes {
			if cs.kind == "close" && cs.fn == op.fn && cs.target == op.chanText {
				k := "body"
				if cs.gctx == "posted" {
					k = "posted:" + cs.garg
				} else if cs.gctx == "golit" {
					k = "golit:" + cs.garg
				}
				if k != ctxOf(*op) && !seen[k] {
					seen[k] = true
					ks = append(ks, k)
				}
			}
		}
		sort.Strings(ks)
		op.owner = strings.Join(ks, ",")
	}
	// committed: a send on a local channel inside a posted closure is a
	// rendezvous reply if the poster's next channel operation after the post
	// (skipping alternative posts that reply on the same channel) is a
	// receive on that channel.
	for i := range res.ops {
		op := &res.ops[i]
		if !(op.cls == "local" && op.op == "send" && op.gctx == "posted") {
			continue
		}
		if op.postNode == nil {
			continue
		}
		postEnd := op.postNode.End()
		postCtx := "body"
		// context of the post itself: that of an operation located at the post
		for j := range res.ops {
			p := &res.ops[j]
			if p.fn == op.fn && p.node == op.postNode {
				postCtx = ctxOf(*p)
			}
		}
		// candidates after the post, in the poster's context
		type cand struct {
			pos token.Pos
			idx int
		}
		var cs []cand
		for j := range res.ops {
			p := &res.ops[j]
			if p.fn != op.fn || p.pos <= postEnd || ctxOf(*p) != postCtx {
				continue
			}
			cs = append(cs, cand{p.pos, j})
		}
		sort.Slice(cs, func(a, b int) bool { return cs[a].pos < cs[b].pos })
		for _, cd := range cs {
			p := &res.ops[cd.idx]
			if p.op == "send" {
				// an alternative post replying on the same channel
				uses := false
				for k := range res.ops {
					q := &res.ops[k]
					if q.obj == op.obj && q.postNode != nil && q.postNode == p.node {
						uses = true
					}
				}
				if uses {
					continue
				}
			}
			if p.op == "recv" && p.obj == op.obj {
				op.committed = true
			}
			break
		}
	}
}

// inboundSwitch extracts (h).
func (c *fnCtx) inboundSwitch(res *sitesOut) bool {
	var loop *ast.ForStmt
	for _, s := range c.body.List {
		if f, ok := s.(*ast.ForStmt); ok {
			loop = f
		}
	}
	if loop == nil {
		return false
	}
	for i, s := range loop.Body.List {
		switch x := s.(type) {
		case *ast.IfStmt:
			if strings.Contains(c.text(x.Cond), "authzMessage(") {
				// the body must do nothing but continue
				ok := false
				for _, b := range x.Body.List {
					if br, isBr := b.(*ast.BranchStmt); isBr && br.Tok == token.CONTINUE {
						ok = true
					} else {
						ok = false
						break
					}
				}
				if !ok || x.Else != nil {
					c.fail(x.Pos(), "authz gate does not simply continue")
					return false
				}
				res.gateIdx = i
				res.gateCond = c.text(x.Cond)
			}
		case *ast.TypeSwitchStmt:
			res.swIdx = i
			for _, cl := range x.Body.List {
				cc := cl.(*ast.CaseClause)
				var ts []string
				for _, t := range cc.List {
					ts = append(ts, c.text(t))
				}
				tn := strings.Join(ts, ",")
				if cc.List == nil {
					tn = "default"
				}
				callee := ""
				ast.Inspect(cc, func(n ast.Node) bool {
					if callee != "" {
						return false
					}
					if ce, ok := n.(*ast.CallExpr); ok {
						if nm := c.calleeName(ce); strings.HasPrefix(nm, "router.broker.") || strings.HasPrefix(nm, "router.dealer.") {
							callee = nm
						}
					}
					return true
				})
				if callee == "" {
					callee = "return"
					hasRet := false
					ast.Inspect(cc, func(n ast.Node) bool {
						if _, ok := n.(*ast.ReturnStmt); ok {
							hasRet = true
						}
						return true
					})
					if !hasRet {
						c.fail(cc.Pos(), "case %s neither routes nor returns", tn)
					}
				}
				res.cases = append(res.cases, switchCase{types: tn, callee: callee})
			}
		}
	}
	if res.gateIdx >= 0 && res.swIdx >= 0 {
		for i := res.gateIdx + 1; i < res.swIdx; i++ {
			res.between = append(res.between, c.text(loop.Body.List[i]))
		}
	}
	return res.gateIdx >= 0 && res.swIdx >= 0
}

// ---------------------------------------------------------------------------
// emission

func emitSites(res *sitesOut, out string) error {
	kt := &keyTab{byHash: map[uint64]string{}}
	k := func(s string) string { return fmt.Sprintf("%d", kt.key(s)) }
	var b strings.Builder
	w := func(format string, a ...any) { fmt.Fprintf(&b, format, a...) }
	cm := func(s string) string { return strings.ReplaceAll(strings.ReplaceAll(s, "-/", "- /"), "/-", "/ -") }
	w("/- GENERATED by /verif/gen (target sites) from the non-test sources of router/, transport/, wamp/.\n")
	w("   Do not edit. Keys are FNV-1a 64 hashes of the text shown in the comment above each entry\n")
	w("   (`key! \"text\"` of Nexus/L3/Key.lean computes the same number). -/\n")
	w("namespace Nexus.Gen.Sites\n\n")
	w("inductive PanicKind | assert | panic | indexList | slice | mapRead | mapWrite\n  deriving DecidableEq, Repr\n\n")
	w("inductive OpKind | send | recv | range\n  deriving DecidableEq, Repr\n\n")
	w("inductive ChanClass | action | peerSendClient | peerSendMeta | peerRecvClient | peerRecvMeta | recvDone\n  | field | loc | glob | timer | ctxDone | other\n  deriving DecidableEq, Repr\n\n")
	w("inductive SelCtx | plain | selSingle | selMulti | selDefault\n  deriving DecidableEq, Repr\n\n")
	w("/-- Goroutine context of a site: directly in the function (or in a closure run by the same\n    goroutine), inside a closure posted to a channel, or inside a `go func(){…}()` literal. -/\n")
	w("inductive GCtx | body | posted | golit\n  deriving DecidableEq, Repr\n\n")
	w("structure PanicSite where\n  key : Nat\n  file : Nat\n  fn : Nat\n  kind : PanicKind\n  deriving Repr\n\n")
	w("structure CloseSite where\n  key : Nat\n  file : Nat\n  fn : Nat\n  isChanClose : Bool\n  target : Nat\n  recvType : Nat\n  gctx : GCtx\n  garg : Nat\n  deriving Repr\n\n")
	w("structure ChanOp where\n  key : Nat\n  file : Nat\n  fn : Nat\n  op : OpKind\n  chan : Nat\n  cls : ChanClass\n  owner : Nat\n  sel : SelCtx\n  selId : Nat\n  alts : List Nat\n  gctx : GCtx\n  garg : Nat\n  committed : Bool\n  deriving Repr\n\n")
	w("structure GoSite where\n  key : Nat\n  file : Nat\n  fn : Nat\n  callee : Nat\n  gctx : GCtx\n  garg : Nat\n  deriving Repr\n\n")
	w("structure GlobalVar where\n  key : Nat\n  file : Nat\n  written : Bool\n  addrTaken : Bool\n  refType : Bool\n  deriving Repr\n\n")
	w("structure MsgSend where\n  key : Nat\n  file : Nat\n  fn : Nat\n  msgType : Nat\n  errType : Nat\n  viaTrySend : Bool\n  nonBlocking : Bool\n  toMeta : Bool\n  gctx : GCtx\n  garg : Nat\n  deriving Repr\n\n")
	w("inductive SyncKind | lock | unlock | wgWait | wgAdd | wgDone | onceDo\n  deriving DecidableEq, Repr\n\n")
	w("structure SyncOp where\n  key : Nat\n  file : Nat\n  fn : Nat\n  kind : SyncKind\n  target : Nat\n  gctx : GCtx\n  garg : Nat\n  deriving Repr\n\n")
	w("structure CallEdge where\n  fn : Nat\n  gctx : GCtx\n  garg : Nat\n  callee : Nat\n  deriving Repr\n\n")
	w("structure ClosureSite where\n  key : Nat\n  fn : Nat\n  how : Nat\n  deriving Repr\n\n")

	gc := func(kind, arg string) string {
		switch kind {
		case "posted":
			return ".posted, " + k(arg)
		case "golit":
			return ".golit, " + k(arg)
		}
		return ".body, 0"
	}
	gcText := func(kind, arg string) string {
		if kind == "body" {
			return "body"
		}
		return kind + " " + arg
	}

	// (a)
	sort.SliceStable(res.panics, func(i, j int) bool { return res.panics[i].key < res.panics[j].key })
	w("/-- (a) bare type assertions, explicit panics, index/slice expressions on message data. -/\n")
	w("def panicSites : List PanicSite := [\n")
	for i, s := range res.panics {
		w("  -- %s  [%s]\n  ⟨%s, %s, %s, .%s⟩%s\n", cm(s.key), s.file, k(s.key), k(s.file), k(s.fn), s.kind, sComma(i, len(res.panics)))
	}
	w("]\n\n")

	// (b)
	sort.SliceStable(res.closes, func(i, j int) bool { return res.closes[i].key < res.closes[j].key })
	w("/-- (b) close(ch) and X.Close() calls. recvType: static type of X, or class:owner of ch. -/\n")
	w("def closeSites : List CloseSite := [\n")
	for i, s := range res.closes {
		w("  -- %s  [%s] on %s ctx=%s\n  ⟨%s, %s, %s, %v, %s, %s, %s⟩%s\n", cm(s.key), s.file, cm(s.recvType), cm(gcText(s.gctx, s.garg)),
			k(s.key), k(s.file), k(s.fn), s.kind == "close", k(s.target), k(s.recvType), gc(s.gctx, s.garg), sComma(i, len(res.closes)))
	}
	w("]\n\n")

	// (c)
	sort.SliceStable(res.ops, func(i, j int) bool { return res.ops[i].key < res.ops[j].key })
	w("/-- (c) channel sends, receives and ranges. owner: for `action`/`field` the owning struct (+field),\n    for peer channels the peer expression, for `loc` the context(s) operating the other end. -/\n")
	w("def chanOps : List ChanOp := [\n")
	for i, s := range res.ops {
		cls := s.cls
		switch cls {
		case "local":
			cls = "loc"
		case "global":
			cls = "glob"
		}
		selID := "0"
		if s.selID != "" {
			selID = k(s.selID)
		}
		var alts []string
		for _, a := range s.alts {
			alts = append(alts, k(a))
		}
		w("  -- %s  [%s] %s owner=%s %s alts=%v ctx=%s%s\n", cm(s.key), s.file, cls, cm(s.owner), s.sel, s.alts, cm(gcText(s.gctx, s.garg)), map[bool]string{true: " committed", false: ""}[s.committed])
		w("  ⟨%s, %s, %s, .%s, %s, .%s, %s, .%s, %s, [%s], %s, %v⟩%s\n", k(s.key), k(s.file), k(s.fn), s.op, k(s.chanText), cls, k(s.owner), s.sel, selID,
			strings.Join(alts, ", "), gc(s.gctx, s.garg), s.committed, sComma(i, len(res.ops)))
	}
	w("]\n\n")

	// (d)
	sort.SliceStable(res.gos, func(i, j int) bool { return res.gos[i].key < res.gos[j].key })
	w("/-- (d) go statements. callee `func` is a function literal, identified by its key. -/\n")
	w("def goSites : List GoSite := [\n")
	for i, s := range res.gos {
		w("  -- %s -> %s  [%s] ctx=%s\n  ⟨%s, %s, %s, %s, %s⟩%s\n", cm(s.key), s.callee, s.file, cm(gcText(s.gctx, s.garg)), k(s.key), k(s.file), k(s.fn), k(s.callee), gc(s.gctx, s.garg), sComma(i, len(res.gos)))
	}
	w("]\n\n")

	// (e)
	sort.SliceStable(res.globals, func(i, j int) bool {
		return res.globals[i].pkg+"."+res.globals[i].name < res.globals[j].pkg+"."+res.globals[j].name
	})
	w("/-- (e) package-level variables. written: assigned (or an element/field of it assigned) somewhere in\n    its package outside the declaration; addrTaken: `&v` occurs; refType: map, slice, pointer, chan or struct. -/\n")
	w("def globals : List GlobalVar := [\n")
	for i, g := range res.globals {
		name := g.pkg + "." + g.name
		w("  -- %s : %s  [%s]\n  ⟨%s, %s, %v, %v, %v⟩%s\n", name, cm(g.typ), g.file, k(name), k(g.file), g.written, g.addrTaken, g.mutType, sComma(i, len(res.globals)))
	}
	w("]\n\n")

	// (f)
	sort.SliceStable(res.sends, func(i, j int) bool { return res.sends[i].key < res.sends[j].key })
	w("/-- (f) messages handed to a peer: through trySend, or by a send statement on X.Send().\n    msgType `Message` = static type is the interface (decided at run time). errType: the Type field of an ERROR.\n    toMeta: the receiver is the realm's meta peer (the meta session's inbound side), not a client. -/\n")
	w("def msgSends : List MsgSend := [\n")
	for i, s := range res.sends {
		w("  -- %s  [%s] ctx=%s nonBlocking=%v\n  ⟨%s, %s, %s, %s, %s, %v, %v, %v, %s⟩%s\n", cm(s.key), s.file, cm(gcText(s.gctx, s.garg)), s.nonBlocking,
			k(s.key), k(s.file), k(s.fn), k(s.msgType), k(s.errType), s.via == "trySend", s.nonBlocking,
			strings.HasSuffix(s.target, "metaPeer") || strings.HasSuffix(s.target, "metaSess"), gc(s.gctx, s.garg), sComma(i, len(res.sends)))
	}
	w("]\n\n")

	sort.SliceStable(res.syncs, func(i, j int) bool { return res.syncs[i].key < res.syncs[j].key })
	w("/-- Operations on sync.Mutex / sync.WaitGroup / sync.Once values (methods promoted through embedding,\n    such as Session.Lock, are calls of those methods and appear in `calls`). -/\n")
	w("def syncOps : List SyncOp := [\n")
	for i, s := range res.syncs {
		w("  -- %s  [%s] ctx=%s\n  ⟨%s, %s, %s, .%s, %s, %s⟩%s\n", cm(s.key), s.file, cm(gcText(s.gctx, s.garg)), k(s.key), k(s.file), k(s.fn), s.kind, k(s.target), gc(s.gctx, s.garg), sComma(i, len(res.syncs)))
	}
	w("]\n\n")

	// calls: only those whose callee reaches a site (a function containing a
	// channel operation, close, go statement or message send, or calling one)
	relevant := map[string]bool{}
	for _, o := range res.ops {
		relevant[o.fn] = true
	}
	for _, o := range res.closes {
		relevant[o.fn] = true
	}
	for _, o := range res.gos {
		relevant[o.fn] = true
	}
	for _, o := range res.sends {
		relevant[o.fn] = true
	}
	for changed := true; changed; {
		changed = false
		for _, c := range res.calls {
			if relevant[c.callee] && !relevant[c.fn] {
				relevant[c.fn] = true
				changed = true
			}
		}
	}
	seenCall := map[string]bool{}
	var calls []callEdge
	for _, c := range res.calls {
		if !relevant[c.callee] {
			continue
		}
		id := c.fn + "|" + c.gctx + "|" + c.garg + "|" + c.callee
		if !seenCall[id] {
			seenCall[id] = true
			calls = append(calls, c)
		}
	}
	sort.SliceStable(calls, func(i, j int) bool {
		a, c := calls[i], calls[j]
		return a.fn+"|"+a.gctx+a.garg+"|"+a.callee < c.fn+"|"+c.gctx+c.garg+"|"+c.callee
	})
	w("/-- Static calls between functions of the three trees (interface and function-value calls are not\n    resolved), with the goroutine context of the call site. Only calls whose callee is *relevant*\n    are listed: it contains a channel operation, close, go statement or message send, or calls such\n    a function. `relevantFns` is that set. -/\n")
	w("def calls : List CallEdge := [\n")
	for i, c := range calls {
		w("  -- %s (%s) -> %s\n  ⟨%s, %s, %s⟩%s\n", c.fn, cm(gcText(c.gctx, c.garg)), c.callee, k(c.fn), gc(c.gctx, c.garg), k(c.callee), sComma(i, len(calls)))
	}
	w("]\n\n")

	var rel []string
	for f := range relevant {
		rel = append(rel, f)
	}
	sort.Strings(rel)
	w("def relevantFns : List Nat := [\n")
	for i, f := range rel {
		w("  -- %s\n  %s%s\n", f, k(f), sComma(i, len(rel)))
	}
	w("]\n\n")

	sort.SliceStable(res.closures, func(i, j int) bool { return res.closures[i].key < res.closures[j].key })
	w("/-- Every function literal and how it is used (posted to a channel, started with go, deferred,\n    called in place, assigned to a variable, passed as an argument). -/\n")
	w("def closures : List ClosureSite := [\n")
	for i, c := range res.closures {
		w("  -- %s\n  ⟨%s, %s, %s⟩%s\n", cm(c.key), k(c.key), k(c.fn), k(c.how), sComma(i, len(res.closures)))
	}
	w("]\n\n")

	// functions
	sort.Strings(res.fns)
	w("/-- Every function or method with a body. -/\n")
	w("def functions : List Nat := [\n")
	for i, f := range res.fns {
		w("  -- %s\n  %s%s\n", f, k(f), sComma(i, len(res.fns)))
	}
	w("]\n\n")

	// (g)
	sort.SliceStable(res.orders, func(i, j int) bool { return res.orders[i].name < res.orders[j].name })
	for _, o := range res.orders {
		nm := strings.ReplaceAll(strings.TrimPrefix(o.name, "router."), ".", "_")
		w("/-- (g) statements of %s in order (closure bodies flattened between their header and footer). -/\n", o.name)
		w("def order_%s : List Nat := [\n", nm)
		for i, s := range o.stmts {
			w("  -- %s\n  %s%s\n", cm(s), k(s), sComma(i, len(o.stmts)))
		}
		w("]\n\n")
	}

	// (h)
	w("/-- (h) the type switch of realm.handleInboundMessages: case types in order and what each case calls. -/\n")
	w("def inboundSwitch : List (Nat × Nat) := [\n")
	for i, c := range res.cases {
		w("  -- %s -> %s\n  (%s, %s)%s\n", c.types, c.callee, k(c.types), k(c.callee), sComma(i, len(res.cases)))
	}
	w("]\n\n")
	w("/-- Index, among the statements of the receive loop, of `if … !authzMessage(…) { continue }` and of the switch. -/\n")
	w("def authzGateIndex : Nat := %d\ndef inboundSwitchIndex : Nat := %d\n", res.gateIdx, res.swIdx)
	w("-- %s\ndef authzGateCond : Nat := %s\n", cm(res.gateCond), k(res.gateCond))
	w("/-- Statements between the gate and the switch. -/\ndef betweenGateAndSwitch : List Nat := [")
	for i, s := range res.between {
		if i > 0 {
			w(", ")
		}
		w("%s", k(s))
	}
	w("]\n\n")

	emitL3(res, k, w, cm, gc, gcText)

	// dictionary, for diagnostics (#eval) only
	var hs []uint64
	for h := range kt.byHash {
		hs = append(hs, h)
	}
	sort.Slice(hs, func(i, j int) bool { return kt.byHash[hs[i]] < kt.byHash[hs[j]] })
	// in chunks: one list literal of this size exceeds Lean's default recursion depth
	const dictChunk = 500
	var parts []string
	for lo := 0; lo < len(hs); lo += dictChunk {
		hi := lo + dictChunk
		if hi > len(hs) {
			hi = len(hs)
		}
		name := fmt.Sprintf("dictionary%d", lo/dictChunk)
		parts = append(parts, name)
		w("def %s : List (Nat × String) := [\n", name)
		for i, h := range hs[lo:hi] {
			w("  (%d, %s)%s\n", h, leanStr(kt.byHash[h]), sComma(i, hi-lo))
		}
		w("]\n\n")
	}
	w("/-- Key → text, for diagnostics only (never used in a theorem). -/\n")
	w("def dictionary : List (Nat × String) := %s\n\n", strings.Join(parts, " ++ "))
	w("end Nexus.Gen.Sites\n")
	if kt.err != nil {
		return kt.err
	}
	return writeIfChanged(filepath.Join(out, "Sites.lean"), []byte(b.String()))
}

func sComma(i, n int) string {
	if i+1 < n {
		return ","
	}
	return ""
}
