import Nexus.Base.WVal
