/-
  C12 (dealer half) — Identity is disclosed only when allowed.

  Property text (the part about callers and INVOCATIONs).  "A publisher's or caller's identity (session
  id, authid, authrole) appears in an EVENT or INVOCATION only if disclosure was requested by the
  originator (disclose_me) or by the callee's registration (disclose_caller), the realm allows disclosure
  (or the requester is trusted), and - for disclose_me - the recipient announced the identification
  feature; a disallowed disclose_me request is refused with wamp.error.option_disallowed.disclose_me and
  not delivered."

  About `syncCall` of the dealer model, for every state satisfying `DealerInv`, every environment and all
  arguments.  The identity keys are `caller`, `caller_authid`, `caller_authrole` (`identityKeys`).
  `reg.disclose` is the registration's stored `disclose_caller` flag; that it is stored only when the realm
  allows disclosure or the registrant is trusted is checked in the handler (`Realm.handleRegister`, the
  lead's half).  The broker half (EVENTs) is Nexus.Props.C12Broker.

  clause                                                              theorem
  ------------------------------------------------------------------  -----------------------------------
  identity keys occur in an INVOCATION's details only if the          C12_disclose_invocation
    registration asked, or (disclose_me ∧ realm allows ∧ callee has
    caller_identification)
  … and then they are the caller's session id / authid / authrole     C12_disclosed_values
  later chunks of a progressive call never carry identity             (C12_disclose_invocation, `later` case)
  a disallowed disclose_me is not delivered: no INVOCATION at all,    C12_refused_not_delivered
    every message of the step goes to the caller
  … and (no other refusal applying first) answered with exactly one   C12_refused
    ERROR wamp.error.option_disallowed.disclose_me, nothing recorded
-/
import Nexus.L2.Proofs.DealerFrame
import Nexus.L2.Proofs.DealerExamples

namespace Nexus.C12
open Nexus.L2 Nexus.Gen.N Nexus

/-- Caller identity keys occur in the details of an INVOCATION only if the registration asked for disclosure, or
    the caller asked (`disclose_me`), the dealer allows it and the callee announced `caller_identification`. -/
theorem C12_disclose_invocation {env : DEnv} {s : DState} (h : DealerInv s) (caller : SessKey) (req : Nat) (opts : Dict)
    (proc : String) (args : List WVal) (kw : Dict) (rnd : Nat) (x : Send)
    (hx : x ∈ (syncCall env s caller req opts proc args kw rnd).sends)
    (r g : Nat) (d : Dict) (a : List WVal) (k : Dict) (hm : x.msg = .invocation r g d a k)
    (key : String) (hk : key ∈ identityKeys) (hpres : Dict.get? d key ≠ none) :
    ∃ reg, s.d.matchProcedure proc = some reg ∧
      (reg.disclose = true ∨
        (opts.optFlag OptDiscloseMe = true ∧ s.d.allowDisclose = true ∧
          hasFeat env x.to RoleCallee FeatureCallerIdent = true)) := by
  have hi : x.msg.isInvocation = true := by rw [hm]; rfl
  obtain ⟨_, hform⟩ := syncCall_invocations h caller req opts proc args kw rnd x hx hi
  cases hform with
  | first reg reg' callee hmm hb hp hr hf =>
    refine ⟨reg, hmm, ?_⟩
    simp only [Msg.invocation.injEq] at hm
    obtain ⟨_, _, rfl, _⟩ := hm
    rw [invDetails_get?_identity env reg caller callee opts proc hk] at hpres
    have hd : disclosed env reg callee opts = true := by
      cases hdd : disclosed env reg callee opts with
      | true => rfl
      | false => rw [hdd] at hpres; exact absurd rfl hpres
    unfold disclosed at hd
    cases hrd : reg.disclose with
    | true => exact Or.inl rfl
    | false =>
      right
      rw [hrd] at hd
      simp only [Bool.false_or, Bool.and_eq_true] at hd
      refine ⟨hd.1, ?_, hd.2⟩
      -- the call was not refused, so disclosure is allowed
      unfold callRefusal at hr
      split at hr
      · cases hr
      · split at hr
        · cases hr
        · split at hr
          · cases hr
          · split at hr
            · cases hr
            · rename_i hnot
              cases ha : s.d.allowDisclose with
              | true => rfl
              | false => exact absurd (by simp [hrd, hd.1, ha]) hnot
  | later iid v0 hb hfi hf =>
    exfalso
    simp only [Msg.invocation.injEq] at hm
    obtain ⟨_, _, rfl, _⟩ := hm
    apply hpres
    rw [identityKeys_eq] at hk
    simp only [List.mem_cons, List.not_mem_nil, or_false] at hk
    rcases hk with rfl | rfl | rfl <;> rfl

/-- when the caller is disclosed, the keys carry its own identity: `caller` = its session id, `caller_authid` /
    `caller_authrole` = the values of its session details (absent if the session has none) -/
theorem C12_disclosed_values (env : DEnv) (reg : Reg) (caller callee : SessKey) (opts : Dict) (proc : String)
    (hd : disclosed env reg callee opts = true) :
    Dict.get? (invDetails env reg caller callee opts proc) RoleCaller = some (.int (sidOf caller)) ∧
    Dict.get? (invDetails env reg caller callee opts proc) (RoleCaller ++ "_authid") =
      Dict.get? (detailsOf env caller) "authid" ∧
    Dict.get? (invDetails env reg caller callee opts proc) (RoleCaller ++ "_authrole") =
      Dict.get? (detailsOf env caller) "authrole" := by
  have hb : ∀ k, k ∈ identityKeys → Dict.get? (baseDetails opts) k = none := by
    intro k hk
    rw [identityKeys_eq] at hk
    simp only [List.mem_cons, List.not_mem_nil, or_false] at hk
    rcases hk with rfl | rfl | rfl <;>
      exact baseDetails_get? opts (by decide) (by decide) (by decide) (by decide) (by decide)
  have h1 : RoleCaller ∈ identityKeys := by simp [identityKeys]
  have h2 : RoleCaller ++ "_authid" ∈ identityKeys := by simp [identityKeys]
  have h3 : RoleCaller ++ "_authrole" ∈ identityKeys := by simp [identityKeys]
  rw [invDetails_get?_identity _ _ _ _ _ _ h1, invDetails_get?_identity _ _ _ _ _ _ h2,
    invDetails_get?_identity _ _ _ _ _ _ h3, hd]
  simp only [if_true]
  unfold discloseCaller discloseInto
  simp only
  have b1 := hb _ h1
  have b2 := hb _ h2
  have b3 := hb _ h3
  generalize baseDetails opts = bd at b1 b2 b3
  have n12 : RoleCaller ≠ RoleCaller ++ "_authid" := by decide
  have n13 : RoleCaller ≠ RoleCaller ++ "_authrole" := by decide
  have n23 : RoleCaller ++ "_authid" ≠ RoleCaller ++ "_authrole" := by decide
  cases ha : Dict.get? (detailsOf env caller) "authid" <;> cases hr : Dict.get? (detailsOf env caller) "authrole" <;>
    simp only [Dict.dget?_set, n12, n13, n23, Ne.symm n12, Ne.symm n13, Ne.symm n23, if_true, if_false, b2, b3, and_self]

example : disclosed Ex.env { Ex.regPlain with callees := [1] } 1 [(OptDiscloseMe, .bool true)] = true := by decide +kernel

/-- the three checks that come before the disclosure check in `syncCall` do not apply -/
def passesFeatureChecks (env : DEnv) (caller callee : SessKey) (opts : Dict) : Prop :=
  (opts.optFlag OptProgress && (!hasFeat env callee RoleCallee FeatureProgCallInvocations ||
      !hasFeat env callee RoleCallee FeatureCallCanceling)) = false ∧
  (pptScheme opts != "" && !hasFeat env caller RoleCaller FeaturePayloadPassthruMode) = false ∧
  (pptScheme opts != "" && !hasFeat env callee RoleCallee FeaturePayloadPassthruMode) = false

/-- A `disclose_me` request the dealer does not allow (and the registration did not ask for disclosure itself):
    the CALL is refused with exactly one ERROR wamp.error.option_disallowed.disclose_me to the caller; nothing is
    sent to any callee; the call is not recorded. -/
theorem C12_refused {env : DEnv} {s : DState} (h : DealerInv s) {caller : SessKey} {req : Nat} {opts : Dict}
    {proc : String} (args : List WVal) (kw : Dict) {rnd : Nat} {reg reg' : Reg} {callee : SessKey}
    (hc : (⟨caller, req⟩ : ReqId) ∉ s.d.calls) (hm : s.d.matchProcedure proc = some reg)
    (hprog : (opts.optFlag OptProgress && !hasFeat env caller RoleCaller FeatureProgCallInvocations) = false)
    (hp : pickCallee reg rnd = some (callee, reg')) (hpass : passesFeatureChecks env caller callee opts)
    (hreg : reg.disclose = false) (hme : opts.optFlag OptDiscloseMe = true) (hallow : s.d.allowDisclose = false) :
    (syncCall env s caller req opts proc args kw rnd).sends =
        [callErr ⟨caller, req⟩ [] ErrOptionDisallowedDiscloseMe [] []] ∧
      (syncCall env s caller req opts proc args kw rnd).st.d.calls = s.d.calls ∧
      (syncCall env s caller req opts proc args kw rnd).st.d.invs = s.d.invs := by
  have hne : reg.callees.isEmpty = false := by
    have := (h.reg.regs.callees reg (matchProcedure_mem hm)).1
    cases hx : reg.callees with
    | nil => exact absurd hx this
    | cons _ _ => rfl
  have hr : callRefusal env s.d.allowDisclose reg caller callee opts = some (.err ErrOptionDisallowedDiscloseMe) := by
    obtain ⟨p1, p2, p3⟩ := hpass
    unfold callRefusal
    rw [if_neg (by simp [p1]), if_neg (by simp [p2]), if_neg (by simp [p3]), if_pos (by simp [hreg, hme, hallow])]
  rw [syncCall_first args kw hm hne hprog (h.call.byCall?_none hc) hp, firstChunk_eq, hr]
  exact ⟨rfl, rfl, rfl⟩

example : passesFeatureChecks Ex.env 2 1 [(OptDiscloseMe, .bool true)] := by
  unfold passesFeatureChecks; decide +kernel

/-- the disallowed request of `Ex.sReg` (realm created with allowDisclose = false) -/
example : (syncCall Ex.env Ex.sReg 2 5 [(OptDiscloseMe, .bool true)] "p" [] [] 0).sends.map Ex.summary =
    [(2, 8, some 5, true)] := by decide +kernel

/-- Whatever other check fires first, a disallowed `disclose_me` on the first chunk of a call is never delivered:
    the step sends no INVOCATION, and every message it sends goes to the caller. -/
theorem C12_refused_not_delivered {env : DEnv} {s : DState} (h : DealerInv s) {caller : SessKey} {req : Nat} {opts : Dict}
    {proc : String} (args : List WVal) (kw : Dict) {rnd : Nat} {reg : Reg}
    (hc : (⟨caller, req⟩ : ReqId) ∉ s.d.calls) (hm : s.d.matchProcedure proc = some reg)
    (hreg : reg.disclose = false) (hme : opts.optFlag OptDiscloseMe = true) (hallow : s.d.allowDisclose = false) :
    ∀ x ∈ (syncCall env s caller req opts proc args kw rnd).sends, x.msg.isInvocation = false ∧ x.to = caller := by
  have hb := h.call.byCall?_none hc
  have hrefuse : ∀ callee, callRefusal env s.d.allowDisclose reg caller callee opts ≠ none := by
    intro callee hr
    unfold callRefusal at hr
    split at hr
    · cases hr
    · split at hr
      · cases hr
      · split at hr
        · cases hr
        · split at hr
          · cases hr
          · rename_i hnot
            exact hnot (by simp [hreg, hme, hallow])
  refine syncCall_cases (env := env) (P := fun o => ∀ x ∈ o.sends, x.msg.isInvocation = false ∧ x.to = caller)
    h caller req opts proc args kw rnd ?_ ?_ ?_ ?_ ?_ ?_ ?_ ?_
  · intro _ x hx
    simp only [progressAbort, List.mem_singleton] at hx; subst hx; exact ⟨rfl, rfl⟩
  · intro iid v0 hb' _ _ _ _ _ _; rw [hb] at hb'; cases hb'
  · intro iid v0 hb' _ _ _ _ _ _; rw [hb] at hb'; cases hb'
  · intro _ _ _ x hx
    simp only [List.mem_singleton] at hx; subst hx; exact ⟨rfl, rfl⟩
  · intro reg₁ reg' callee e _ _ _ _ _ _ _ x hx
    simp only [List.mem_singleton] at hx; subst hx; exact ⟨rfl, rfl⟩
  · intro reg₁ reg' callee _ _ _ _ _ _ _ x hx
    simp only [List.mem_singleton] at hx; subst hx; exact ⟨rfl, rfl⟩
  · intro reg₁ reg' callee _ _ hm₁ _ _ _ hr _
    rw [hm] at hm₁; cases hm₁
    exact absurd hr (hrefuse callee)
  · intro reg₁ reg' callee _ _ hm₁ _ _ _ hr _
    rw [hm] at hm₁; cases hm₁
    exact absurd hr (hrefuse callee)

end Nexus.C12
